(* C10 - proofs. *)
From HV Require Import Prelude Stats C10_Model C10_Check.
From Coq Require Import PrimFloat Uint63 FloatOps SpecFloat QArith Qabs.
Open Scope Z_scope.

Section Generator.
  Variables (S D Rq : Type).
  Variable reseed : Z -> S.
  Variable draw : Rq -> S -> D * S.

  Notation run := (run S D Rq draw).
  Notation start_state := (start_state S reseed).
  Notation simgenotype_run := (simgenotype_run S D Rq reseed draw).
  Notation replications := (replications S D Rq draw).
  Notation simphenotype_run := (simphenotype_run S D Rq reseed draw).

  (* stages are threaded: the second stage starts in the state the first one left *)
  Lemma run_bind_l {A B} (p : prog D Rq A) (f : A -> prog D Rq B) : forall s,
    run (bindP D Rq p f) s = let '(a, s') := run p s in run (f a) s'.
  Proof.
    induction p as [a|q k IH]; intros s; cbn [C10_Model.bindP C10_Model.run].
    - reflexivity.
    - destruct (draw q s) as [d s']. apply IH.
  Qed.

  Lemma start_state_seeded k g : start_state false (Some k) g = reseed k.
  Proof. reflexivity. Qed.

  (* with the repaired guard every integer seed (0 included) fixes the state the
     simulation starts from, so outputs AND the state left behind do not depend
     on what ran earlier in the process *)
  Lemma seeded_history_independent_l {I O} (P : I -> prog D Rq O) k g g' i :
    simgenotype_run false P (Some k) g i = simgenotype_run false P (Some k) g' i.
  Proof. unfold C10_Model.simgenotype_run. rewrite !start_state_seeded. reflexivity. Qed.

  (* the whole command: breakpoints (simulate_gt), their sub-sample (write_breakpoints) and
     the genotypes (output_vcf) are a function of seed and inputs although only the first
     stage seeds the generator *)
  Lemma pipeline_history_independent_l {I A B C} (sim : I -> prog D Rq A)
        (wbp : A -> prog D Rq B) (vcf : B -> prog D Rq C) k g g' i :
    simgenotype_run false (fun i => bindP D Rq (sim i) (fun a => bindP D Rq (wbp a) vcf)) (Some k) g i
    = simgenotype_run false (fun i => bindP D Rq (sim i) (fun a => bindP D Rq (wbp a) vcf)) (Some k) g' i.
  Proof. apply seeded_history_independent_l. Qed.

  Lemma seeded_is_function_of_seed_l {I O} (P : I -> prog D Rq O) k g i :
    simgenotype_run false P (Some k) g i = run (P i) (reseed k).
  Proof. reflexivity. Qed.

  Lemma unseeded_continues_global_l {I O} (P : I -> prog D Rq O) legacy g i :
    simgenotype_run legacy P None g i = run (P i) g.
  Proof. reflexivity. Qed.

  (* the pinned guard agrees with the repaired one exactly for seeds <> 0 ... *)
  Lemma legacy_nonzero_seed_l {I O} (P : I -> prog D Rq O) k g i :
    k <> 0 -> simgenotype_run true P (Some k) g i = simgenotype_run false P (Some k) g i.
  Proof.
    intros Hk. unfold C10_Model.simgenotype_run, C10_Model.start_state, guard_fires.
    destruct (k =? 0) eqn:E; [apply Z.eqb_eq in E; contradiction|]. reflexivity.
  Qed.

  (* ... and for seed 0 it runs from whatever state the process is in *)
  Lemma legacy_seed0_is_unseeded_l {I O} (P : I -> prog D Rq O) g i :
    simgenotype_run true P (Some 0) g i = run (P i) g.
  Proof. reflexivity. Qed.

  (* simphenotype never reads the process state when a seed is given *)
  Lemma simphenotype_history_independent_l k (w w' : world S) reqs :
    simphenotype_run (Some k) w reqs = simphenotype_run (Some k) w' reqs.
  Proof. reflexivity. Qed.

  (* replicates thread one generator: running a ++ b = running a, then b from the state a left *)
  Lemma replications_app a : forall b s,
    replications (a ++ b) s =
    let '(da, sa, s1) := replications a s in
    let '(db, sb, s2) := replications b s1 in
    (da ++ db, sa ++ sb, s2).
  Proof.
    induction a as [|q a IH]; intros b s; cbn [app C10_Model.replications].
    - destruct (replications b s) as [[db sb] s2]. reflexivity.
    - destruct (draw q s) as [d s'] eqn:E. rewrite IH.
      destruct (replications a s') as [[da sa] s1].
      destruct (replications b s1) as [[db sb] s2]. reflexivity.
  Qed.

  (* the state in which replicate r+1 starts is the state replicate r left *)
  Fixpoint chained (reqs : list Rq) (starts : list S) (final : S) : Prop :=
    match reqs, starts with
    | [], [] => True
    | q :: r, s :: t =>
        snd (draw q s) = match t with s' :: _ => s' | [] => final end /\ chained r t final
    | _, _ => False
    end.

  Lemma replications_chained reqs : forall s,
    let '(ds, ss, sf) := replications reqs s in
    chained reqs ss sf /\ hd sf ss = s /\
    ds = map (fun qs : Rq * S => fst (draw (fst qs) (snd qs))) (combine reqs ss).
  Proof.
    induction reqs as [|q r IH]; intros s; cbn [C10_Model.replications].
    - cbn. auto.
    - destruct (draw q s) as [d s'] eqn:E. specialize (IH s').
      destruct (replications r s') as [[ds ss] sf]. destruct IH as (IH1 & IH2 & IH3).
      cbn [chained hd combine map fst snd]. rewrite E. cbn [fst snd]. split; [split|split].
      + destruct ss as [|s0 t]; cbn [hd] in IH2; subst; reflexivity.
      + exact IH1.
      + reflexivity.
      + rewrite IH3. reflexivity.
  Qed.

  Lemma replications_thread_state_l seed (w : world S) reqs :
    let '(ds, ss, sf) := replications reqs (pheno_rng S reseed seed w) in
    simphenotype_run seed w reqs = ds /\
    chained reqs ss sf /\ hd sf ss = pheno_rng S reseed seed w /\
    ds = map (fun qs : Rq * S => fst (draw (fst qs) (snd qs))) (combine reqs ss).
  Proof.
    unfold C10_Model.simphenotype_run.
    pose proof (replications_chained reqs (pheno_rng S reseed seed w)) as H.
    destruct (replications reqs (pheno_rng S reseed seed w)) as [[ds ss] sf].
    cbn [fst]. destruct H as (H1 & H2 & H3). auto.
  Qed.

  (* the excluded mutant: re-creating the generator per replicate makes equal
     requests return copies *)
  Lemma reseeded_mutant_copies_l k q n :
    replications_reseeded S D Rq reseed draw k (repeat q n) = repeat (fst (draw q (reseed k))) n.
  Proof. induction n as [|n IH]; cbn; [reflexivity|]. rewrite IH. reflexivity. Qed.

  (* ---- every draw of a run, not only the first *)
  Notation record := (record S D Rq draw).
  Notation trace := (trace S D Rq draw).

  (* a seeded run makes every one of its draws from the same state, whatever ran before,
     and leaves the same state behind (the last element of the trace) *)
  Lemma trace_history_independent_l {I O} (P : I -> prog D Rq O) k g g' i :
    trace (P i) (start_state false (Some k) g) = trace (P i) (start_state false (Some k) g')
    /\ record (P i) (start_state false (Some k) g) = record (P i) (start_state false (Some k) g').
  Proof. rewrite !start_state_seeded. split; reflexivity. Qed.

  Lemma trace_ne {R} (p : prog D Rq R) s : trace p s <> [].
  Proof. destruct p; cbn [C10_Model.trace]; [discriminate|]. destruct (draw q s); discriminate. Qed.

  Lemma trace_last {R} (p : prog D Rq R) : forall s d, last (trace p s) d = snd (run p s).
  Proof.
    induction p as [r|q k IH]; intros s d0; cbn [C10_Model.trace C10_Model.run].
    - reflexivity.
    - destruct (draw q s) as [d s'] eqn:E. specialize (IH d s' d0).
      pose proof (trace_ne (k d) s') as Hne.
      destruct (C10_Model.trace S D Rq draw (k d) s') as [|t ts] eqn:Et; [contradiction|].
      exact IH.
  Qed.

  (* the bridge to models that consume a RECORDED list of draws (C01-C03): running a
     program on a generator = replaying it on the draws recorded during that run *)
  Lemma run_replay_l {R} (p : prog D Rq R) : forall s,
    replay D Rq p (record p s) = Some (fst (run p s)).
  Proof.
    induction p as [r|q k IH]; intros s; cbn [C10_Model.record C10_Model.run C10_Model.replay].
    - reflexivity.
    - destruct (draw q s) as [d s']. cbn [C10_Model.replay]. apply IH.
  Qed.

  (* hence: if a model on recorded draws describes the stage (model i ds = replay (P i) ds -
     what the C01-C03 correspondences test), the seeded command's output is the model applied
     to a draw list that depends on the seed and the inputs only *)
  Lemma recorded_model_history_independent_l {I O} (P : I -> prog D Rq O)
        (model : I -> list D -> option O) :
    (forall i ds, model i ds = replay D Rq (P i) ds) ->
    forall k g g' i,
      model i (record (P i) (reseed k)) = Some (fst (simgenotype_run false P (Some k) g i))
      /\ fst (simgenotype_run false P (Some k) g i) = fst (simgenotype_run false P (Some k) g' i).
  Proof.
    intros Hm k g g' i. split.
    - rewrite Hm. unfold C10_Model.simgenotype_run. rewrite start_state_seeded. apply run_replay_l.
    - rewrite (seeded_history_independent_l P k g g' i). reflexivity.
  Qed.

  (* equal requests: the noise vectors are the values drawn in the replicates' start states *)
  Lemma replications_repeat q R s :
    let '(ds, ss, sf) := replications (repeat q R) s in
    ds = map (fun t => fst (draw q t)) ss /\ length ss = R.
  Proof.
    pose proof (replications_chained (repeat q R) s) as H.
    destruct (replications (repeat q R) s) as [[ds ss] sf] eqn:E. destruct H as (_ & _ & H3).
    assert (L : forall R s ds ss sf, replications (repeat q R) s = (ds, ss, sf) -> length ss = R).
    { clear. induction R as [|R IH]; intros s ds ss sf E; cbn in E.
      - inversion E. reflexivity.
      - destruct (draw q s) as [d s']. destruct (replications (repeat q R) s') as [[ds' ss'] sf'] eqn:E'.
        inversion E. cbn. f_equal. eapply IH. exact E'. }
    pose proof (L R s ds ss sf E) as Hl. split; [|exact Hl].
    rewrite H3. clear E H3 L. revert ss Hl.
    induction R as [|R IH]; intros ss Hl; destruct ss as [|t ts]; cbn in Hl; try discriminate; [reflexivity|].
    cbn [repeat combine map fst snd]. rewrite IH; [reflexivity|lia].
  Qed.

  Lemma NoDup_map_on {A B} (f : A -> B) (l : list A) :
    NoDup l -> (forall a b, In a l -> In b l -> f a = f b -> a = b) -> NoDup (map f l).
  Proof.
    induction l as [|a r IH]; intros Hn Hi; cbn [map]; [constructor|].
    inversion Hn as [|? ? Ha Hr]; subst. constructor.
    - intros Hin. apply in_map_iff in Hin. destruct Hin as (b & Hb & Hbr).
      assert (b = a) by (apply Hi; [right; exact Hbr|left; reflexivity|exact Hb]). subst. contradiction.
    - apply IH; [exact Hr|]. intros x y Hx Hy. apply Hi; right; assumption.
  Qed.

  (* threaded replicates are pairwise different for EVERY generator that does not return to
     a state within the run and whose draws tell its states apart - no toy generator *)
  Lemma threaded_replicates_distinct_l q R s :
    let '(ds, ss, sf) := replications (repeat q R) s in
    NoDup ss -> (forall a b, In a ss -> In b ss -> fst (draw q a) = fst (draw q b) -> a = b) -> NoDup ds.
  Proof.
    pose proof (replications_repeat q R s) as H.
    destruct (replications (repeat q R) s) as [[ds ss] sf]. destruct H as [H _].
    intros Hn Hi. rewrite H. apply NoDup_map_on; assumption.
  Qed.
End Generator.

(* ---------------- the pinned guard, refuted with a toy generator *)
Lemma legacy_seed0_refuted_l :
  fst (simgenotype_run Z Z unit lcg_reseed lcg_draw true one_draw (Some 0) 1 tt)
  <> fst (simgenotype_run Z Z unit lcg_reseed lcg_draw true one_draw (Some 0) 2 tt)
  /\ fst (simgenotype_run Z Z unit lcg_reseed lcg_draw false one_draw (Some 0) 1 tt)
     = fst (simgenotype_run Z Z unit lcg_reseed lcg_draw false one_draw (Some 0) 2 tt).
Proof. vm_compute. split; [discriminate|reflexivity]. Qed.

(* threaded replicates of the toy generator differ, re-seeded ones are copies *)
Lemma threaded_vs_reseeded_example_l :
  simphenotype_run Z Z unit lcg_reseed lcg_draw (Some 0) (mkworld Z 7 9) [tt; tt; tt]
    = [12345; 1406932606; 654583775]
  /\ replications_reseeded Z Z unit lcg_reseed lcg_draw 0 [tt; tt; tt] = [12345; 12345; 12345].
Proof. vm_compute. split; reflexivity. Qed.

(* ---------------- soundness of the boolean checkers *)
Lemma zl_eqb_eq a b : zl_eqb a b = true <-> a = b.
Proof. apply list_eqb_spec. intros; apply Z.eqb_eq. Qed.

Lemma nodupb_NoDup l : nodupb l = true -> NoDup l.
Proof.
  induction l as [|a r IH]; cbn [nodupb]; intros H; constructor.
  - apply andb_true_iff in H. destruct H as [H _]. apply negb_true_iff in H.
    intros Hin. assert (existsb (Z.eqb a) r = true).
    { apply existsb_exists. exists a. split; [exact Hin|apply Z.eqb_refl]. }
    congruence.
  - apply andb_true_iff in H. destruct H as [_ H]. auto.
Qed.

Lemma holds_genotype_sound_l c :
  holds_genotype c = true -> forall k, g_seed c = Some k -> r_out (g_a c) = r_out (g_b c).
Proof. unfold holds_genotype. intros H k Hk. rewrite Hk in H. apply zl_eqb_eq. exact H. Qed.

Lemma holds_phenotype_sound_l c :
  holds_phenotype c = true ->
  (forall k, p_seed c = Some k -> p_out (p_a c) = p_out (p_b c)) /\
  (p_noisy (p_a c) = true -> NoDup (p_cols (p_a c))) /\
  (p_noisy (p_b c) = true -> NoDup (p_cols (p_b c))).
Proof.
  unfold holds_phenotype. intros H. apply andb_true_iff in H. destruct H as [H H3].
  apply andb_true_iff in H. destruct H as [H1 H2]. split; [|split].
  - intros k Hk. rewrite Hk in H1. apply zl_eqb_eq. exact H1.
  - intros Hn. rewrite Hn in H2. cbn in H2. apply nodupb_NoDup. exact H2.
  - intros Hn. rewrite Hn in H3. cbn in H3. apply nodupb_NoDup. exact H3.
Qed.

(* agree on a run means: its first draw was made from the state the model predicts, both runs
   made the same sequence of draws from the same states and left the same state, every change of
   the global generator went through a recorded call and no other generator was created *)
Lemma only_global_meaning r : only_global r = true -> r_gaps r = 0 /\ r_private r = 0.
Proof.
  unfold only_global. intros H. apply andb_true_iff in H. destruct H as [H1 H2].
  apply Z.eqb_eq in H1. apply Z.eqb_eq in H2. auto.
Qed.

Lemma agree_genotype_meaning_l c :
  fst (check_genotype c) = true ->
  (r_gaps (g_a c) = 0 /\ r_private (g_a c) = 0 /\ r_gaps (g_b c) = 0 /\ r_private (g_b c) = 0) /\
  forall k, g_seed c = Some k ->
    r_start (g_a c) = g_ref c /\ r_start (g_b c) = g_ref c
    /\ r_trace (g_a c) = r_trace (g_b c) /\ r_end (g_a c) = r_end (g_b c).
Proof.
  unfold check_genotype, model_start, same_draws. cbn [fst]. intros H.
  apply andb_true_iff in H. destruct H as [H Hb]. apply andb_true_iff in H. destruct H as [H Ha].
  apply only_global_meaning in Ha. apply only_global_meaning in Hb. split; [tauto|].
  intros k Hk. rewrite Hk in H.
  cbn in H. apply andb_true_iff in H. destruct H as [H H3].
  apply andb_true_iff in H. destruct H as [H1 H2]. apply andb_true_iff in H3. destruct H3 as [H3 H4].
  apply Z.eqb_eq in H1. apply Z.eqb_eq in H2. apply Z.eqb_eq in H3. apply Z.eqb_eq in H4. auto.
Qed.

(* agree on a simphenotype run: the simulator's generator is default_rng(seed), the replicates
   start where the previous one stopped, the global generator was left alone and the one
   generator of PhenoSimulator.__init__ is the only one created *)
Lemma agree_prun_meaning_l seed ref r :
  agree_prun seed ref r = true ->
  (forall k, seed = Some k -> p_start r = ref)
  /\ model_starts seed ref r = map fst (p_steps r)
  /\ p_glob r = 0 /\ p_rngs r = 1.
Proof.
  unfold agree_prun. intros H.
  apply andb_true_iff in H. destruct H as [H H4]. apply andb_true_iff in H. destruct H as [H H3].
  apply andb_true_iff in H. destruct H as [H1 H2].
  apply Z.eqb_eq in H3. apply Z.eqb_eq in H4. apply zl_eqb_eq in H2. repeat split; try assumption.
  intros k Hk. rewrite Hk in H1. apply Z.eqb_eq. exact H1.
Qed.

(* ---------------- the replication loop *)
Section Replicates.
  Variables (St D Rq G P : Type).
  Variable draw : Rq -> St -> D * St.
  Variable pheno : G -> D -> P.

  Notation replications := (replications St D Rq draw).
  Notation run_reps := (run_reps St D Rq G P draw pheno).
  Notation run_calls := (run_calls St D Rq G P draw pheno).
  Notation sim := (sim St P).

  (* by induction on the number of replications, for any simulator state the loop starts in:
     the generator is threaded exactly as [replications] says and the columns appended are
     pheno g applied to the replicates' own draws, in order *)
  Lemma run_reps_cols_l g q : forall R (m : sim),
    run_reps g q R m =
    let '(ds, ss, sf) := replications (repeat q R) (sim_rng _ _ m) in
    mksim _ _ sf (sim_cols _ _ m ++ map (pheno g) ds).
  Proof.
    induction R as [|R IH]; intros m; cbn [C10_Model.run_reps repeat C10_Model.replications].
    - destruct m as [s cols]. cbn. rewrite app_nil_r. reflexivity.
    - rewrite IH. unfold run_once. destruct (draw q (sim_rng _ _ m)) as [d s'] eqn:E.
      cbn [sim_rng sim_cols]. destruct (replications (repeat q R) s') as [[ds ss] sf].
      cbn [map]. rewrite <- app_assoc. reflexivity.
  Qed.

  (* the same for calls with different inputs and requests on one simulator *)
  Lemma run_calls_cols_l : forall (calls : list (G * Rq)) (m : sim),
    run_calls calls m =
    let '(ds, ss, sf) := replications (map snd calls) (sim_rng _ _ m) in
    mksim _ _ sf (sim_cols _ _ m ++ map (fun gd : G * D => pheno (fst gd) (snd gd)) (combine (map fst calls) ds)).
  Proof.
    induction calls as [|[g q] r IH]; intros m; cbn [C10_Model.run_calls map C10_Model.replications fst snd].
    - destruct m as [s cols]. cbn. rewrite app_nil_r. reflexivity.
    - rewrite IH. unfold run_once. destruct (draw q (sim_rng _ _ m)) as [d s'] eqn:E.
      cbn [sim_rng sim_cols]. destruct (replications (map snd r) s') as [[ds ss] sf].
      cbn [map combine fst snd]. rewrite <- app_assoc. reflexivity.
  Qed.

  Lemma run_reps_is_calls g q : forall R (m : sim), run_reps g q R m = run_calls (repeat (g, q) R) m.
  Proof. induction R as [|R IH]; intros m; cbn; [reflexivity|apply IH]. Qed.

  (* replicate k of a fresh simulator = pheno g (the k-th draw), for every R *)
  Lemma replicate_own_draw_l g q R s k :
    nth_error (sim_cols _ _ (run_reps g q R (mksim _ _ s []))) k
    = option_map (pheno g) (nth_error (fst (fst (replications (repeat q R) s))) k).
  Proof.
    rewrite run_reps_cols_l. cbn [sim_rng sim_cols].
    destruct (replications (repeat q R) s) as [[ds ss] sf]. cbn [app fst sim_cols].
    apply nth_error_map.
  Qed.
End Replicates.

(* replicate k depends on the inputs and on the draw of replicate k ONLY: two runs of the
   loop on any two generators (other states, other draw functions, i.e. any other values in
   all the other replicates) that agree on the k-th draw agree on the k-th column *)
Lemma replicate_depends_on_own_draw_l :
  forall (St1 St2 D Rq G P : Type) (draw1 : Rq -> St1 -> D * St1) (draw2 : Rq -> St2 -> D * St2)
         (pheno : G -> D -> P) (g : G) (q : Rq) (R : nat) (s1 : St1) (s2 : St2) (k : nat),
  nth_error (fst (fst (replications St1 D Rq draw1 (repeat q R) s1))) k
  = nth_error (fst (fst (replications St2 D Rq draw2 (repeat q R) s2))) k ->
  nth_error (sim_cols _ _ (run_reps St1 D Rq G P draw1 pheno g q R (mksim _ _ s1 []))) k
  = nth_error (sim_cols _ _ (run_reps St2 D Rq G P draw2 pheno g q R (mksim _ _ s2 []))) k.
Proof. intros. rewrite !replicate_own_draw_l. congruence. Qed.

(* the cached-and-added-in-place regression does not have this property: scripted
   generators returning (1, 5) resp. (2, 5); genetic component 10.  Replicate 2 receives
   the same draw 5 in both runs, yet its column differs (16 / 17) because it carries
   replicate 1's noise; the loop of the model gives 15 in both *)
Lemma cached_inplace_refuted_l :
  c_cols _ _ _ (run_reps_cached (list Z) Z unit Z Z script_draw Z.add (fun g => g) tt 2 (mkcsim _ _ _ [1; 5] 10 [])) = [11; 16]
  /\ c_cols _ _ _ (run_reps_cached (list Z) Z unit Z Z script_draw Z.add (fun g => g) tt 2 (mkcsim _ _ _ [2; 5] 10 [])) = [12; 17]
  /\ sim_cols _ _ (run_reps (list Z) Z unit Z Z script_draw Z.add 10 tt 2 (mksim _ _ [1; 5] [])) = [11; 15]
  /\ sim_cols _ _ (run_reps (list Z) Z unit Z Z script_draw Z.add 10 tt 2 (mksim _ _ [2; 5] [])) = [12; 15].
Proof. vm_compute. repeat split. Qed.

(* the hypotheses of threaded_replicates_distinct_l are satisfiable (toy generator, 3 replicates) *)
Lemma threaded_distinct_inhabited_l :
  let '(ds, ss, sf) := replications Z Z unit lcg_draw (repeat tt 3) 0 in
  NoDup ss /\ (forall a b, In a ss -> In b ss -> fst (lcg_draw tt a) = fst (lcg_draw tt b) -> a = b) /\ NoDup ds.
Proof.
  assert (E : replications Z Z unit lcg_draw (repeat tt 3) 0
              = ([12345; 1406932606; 654583775], [0; 12345; 1406932606], 654583775))
    by (vm_compute; reflexivity).
  rewrite E. split; [|split].
  - repeat constructor; cbn [In]; intuition discriminate.
  - intros a b Ha Hb. cbn [In] in Ha, Hb.
    destruct Ha as [<-|[<-|[<-|[]]]]; destruct Hb as [<-|[<-|[<-|[]]]]; intros H; try reflexivity;
      vm_compute in H; discriminate H.
  - repeat constructor; cbn [In]; intuition discriminate.
Qed.

(* ---------------- soundness of the checkers of the `replicates` relation *)
Lemma sf_same_eq a b : sf_same a b = true <-> a = b.
Proof.
  split.
  - destruct a as [s|s| |s m e], b as [t|t| |t n f]; cbn [sf_same]; intros H; try discriminate; try reflexivity.
    + apply Bool.eqb_prop in H. congruence.
    + apply Bool.eqb_prop in H. congruence.
    + apply andb_true_iff in H. destruct H as [H H3]. apply andb_true_iff in H. destruct H as [H1 H2].
      apply Bool.eqb_prop in H1. apply Pos.eqb_eq in H2. apply Z.eqb_eq in H3. congruence.
  - intros <-. destruct a as [s|s| |s m e]; cbn [sf_same]; try apply Bool.eqb_reflx; [reflexivity|].
    rewrite Bool.eqb_reflx, Pos.eqb_refl, Z.eqb_refl. reflexivity.
Qed.

(* fl_eqb decides equality of the bit patterns (nan payloads identified) *)
Lemma fl_eqb_eq a b : fl_eqb a b = true <-> map Prim2SF a = map Prim2SF b.
Proof.
  unfold fl_eqb. revert b. induction a as [|x a IH]; intros [|y b]; cbn [list_eqb map]; split; intros H;
    try reflexivity; try discriminate.
  - apply andb_true_iff in H. destruct H as [H1 H2]. apply sf_same_eq in H1. apply IH in H2. congruence.
  - inversion H as [[H1 H2]]. apply andb_true_iff. split; [apply sf_same_eq; exact H1|apply IH; exact H2].
Qed.

Lemma qclose_sound tol sc a b : qclose tol sc a b = true -> (Qabs (a - b) <= tol * sc)%Q.
Proof. unfold qclose. apply Qle_bool_imp_le. Qed.

Lemma ql_eqb_Forall2 a b : ql_eqb a b = true <-> Forall2 Qeq a b.
Proof.
  unfold ql_eqb. revert b. induction a as [|x a IH]; intros [|y b]; cbn [list_eqb]; split; intros H;
    try constructor; try discriminate; try solve [inversion H].
  - apply andb_true_iff in H. destruct H as [H _]. apply Qeq_bool_iff. exact H.
  - apply andb_true_iff in H. destruct H as [_ H]. apply IH. exact H.
  - inversion H as [|? ? ? ? H1 H2]; subst. apply andb_true_iff. split; [apply Qeq_bool_iff; exact H1|apply IH; exact H2].
Qed.

(* no two replicates have the same noise vector (as exact values) *)
Definition noise_pairwise_distinct (reps : list qrep) : Prop :=
  ForallOrdPairs (fun a b => ~ Forall2 Qeq (q_noise a) (q_noise b)) reps.

Lemma distinct_noise_sound reps : distinct_noise reps = true -> noise_pairwise_distinct reps.
Proof.
  unfold noise_pairwise_distinct. induction reps as [|a r IH]; cbn [distinct_noise]; intros H; constructor.
  - apply andb_true_iff in H. destruct H as [H _]. apply Forall_forall. intros b Hb.
    rewrite forallb_forall in H. specialize (H b Hb). apply negb_true_iff in H.
    intros E. apply ql_eqb_Forall2 in E. congruence.
  - apply andb_true_iff in H. destruct H as [_ H]. auto.
Qed.

(* column - noise is one and the same vector: entrywise, up to the rounding of the two float sums *)
Definition same_component_P (a b : qrep) : Prop :=
  length (q_col a) = length (q_noise a) /\ length (q_col b) = length (q_noise b)
  /\ length (q_col a) = length (q_col b)
  /\ forall ca ea cb eb,
       In ((ca, ea), (cb, eb)) (combine (combine (q_col a) (q_noise a)) (combine (q_col b) (q_noise b))) ->
       (Qabs ((ca - ea) - (cb - eb)) <= tol9 * (Qabs ca + Qabs ea + Qabs cb + Qabs eb))%Q.

Lemma same_component_sound a b : same_component a b = true -> same_component_P a b.
Proof.
  unfold same_component, same_component_P. intros H.
  apply andb_true_iff in H. destruct H as [H H4]. apply andb_true_iff in H. destruct H as [H H3].
  apply andb_true_iff in H. destruct H as [H1 H2].
  apply Nat.eqb_eq in H1. apply Nat.eqb_eq in H2. apply Nat.eqb_eq in H3.
  repeat split; try assumption. intros ca ea cb eb Hin. rewrite forallb_forall in H4.
  specialize (H4 _ Hin). cbn in H4. apply qclose_sound. exact H4.
Qed.

(* the cases are a top set of the liabilities g + noise of this replicate *)
Definition top_set_P (rows : list (bool * (Q * Q))) : Prop :=
  forall ci li si cj lj sj, In (ci, (li, si)) rows -> In (cj, (lj, sj)) rows ->
    ci = true -> cj = false -> (lj <= li + si + sj)%Q.

Lemma top_set_sound rows : top_set rows = true -> top_set_P rows.
Proof.
  unfold top_set, top_set_P. intros H ci li si cj lj sj Hi Hj Hci Hcj.
  rewrite forallb_forall in H. specialize (H _ Hi). cbn in H. subst ci. cbn in H.
  rewrite forallb_forall in H. specialize (H _ Hj). cbn in H. subst cj. cbn in H.
  apply Qle_bool_imp_le. exact H.
Qed.

Lemma holds_qreps_sound_l cc g reps :
  holds_qreps cc g reps = true ->
  (forallb q_noisy reps = true -> noise_pairwise_distinct reps)
  /\ (cc = false -> forall r0 rest, reps = r0 :: rest -> forall r, In r rest -> same_component_P r0 r)
  /\ (cc = true -> forall r, In r reps ->
        length (q_col r) = length g /\ length (q_noise r) = length g /\ top_set_P (liab_rows g r)).
Proof.
  unfold holds_qreps. intros H.
  apply andb_true_iff in H. destruct H as [H1 H2]. split; [|split].
  - intros Hn. rewrite Hn in H1. cbn in H1. apply distinct_noise_sound. exact H1.
  - intros Hcc r0 rest -> r Hr. rewrite Hcc in H2. rewrite forallb_forall in H2.
    apply same_component_sound. apply H2. exact Hr.
  - intros Hcc r Hr. rewrite Hcc in H2. rewrite forallb_forall in H2. specialize (H2 r Hr).
    unfold cc_ok in H2. apply andb_true_iff in H2. destruct H2 as [H2 H5].
    apply andb_true_iff in H2. destruct H2 as [H3 H4].
    apply Nat.eqb_eq in H3. apply Nat.eqb_eq in H4. repeat split; try assumption.
    apply top_set_sound. exact H5.
Qed.

(* the checker is not vacuous: two replicates 10 + (1, 2) and 10 + (3, 5) pass, the
   cached-in-place columns (second = first + its noise) do not *)
Lemma holds_qreps_example_l :
  holds_qreps false [] [mkq true [1; 2] [11; 12]; mkq true [3; 5] [13; 15]]%Q = true
  /\ holds_qreps false [] [mkq true [1; 2] [11; 12]; mkq true [3; 5] [14; 17]]%Q = false.
Proof. vm_compute. split; reflexivity. Qed.

(* the evaluated checker is holds_qreps on the exact values of the observed floats *)
Lemma holds_replicates_unfold_l c reps :
  rc_reps c = Ok reps -> holds_replicates c = holds_qreps (rc_cc c) (map f2q0 (rc_g c)) (map to_q reps).
Proof. unfold holds_replicates. intros ->. reflexivity. Qed.

(* what agree adds: the noise vectors are the consecutive draws of one generator, nothing
   else was drawn from it, and (quantitative) the columns are the model's loop on them *)
Lemma agree_replicates_meaning_l c reps :
  agree_replicates c = true -> rc_reps c = Ok reps ->
  lenZ reps = rc_R c /\ rc_end_same c = true
  /\ (forall r, In r reps -> map Prim2SF (rr_noise r) = map Prim2SF (rr_ref r))
  /\ (rc_cc c = false -> list_eqb fl_eqb (model_columns c) (map rr_col reps) = true).
Proof.
  unfold agree_replicates. intros H E. rewrite E in H.
  apply andb_true_iff in H. destruct H as [H H5]. apply andb_true_iff in H. destruct H as [H _].
  apply andb_true_iff in H. destruct H as [H H3]. apply andb_true_iff in H. destruct H as [H1 H2].
  apply Z.eqb_eq in H1. repeat split; try assumption.
  - intros r Hr. rewrite forallb_forall in H3. apply fl_eqb_eq. apply H3. exact Hr.
  - intros Hcc. rewrite Hcc in H5. exact H5.
Qed.
