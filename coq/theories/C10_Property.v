(* C10 - property theorems only.  A generator is any state machine
   (S, reseed, draw); the theorems hold for every one of them. *)
From HV Require Import Prelude C10_Model C10_Check C10_Proofs.

(* simgenotype with an integer seed (0 included): outputs and the generator state
   left behind are the same whatever state the process-global generator was in. *)
Theorem C10_seeded_history_independent :
  forall (S D Rq : Type) (reseed : Z -> S) (draw : Rq -> S -> D * S)
         (I O : Type) (P : I -> prog D Rq O) (k : Z) (g g' : S) (i : I),
  simgenotype_run S D Rq reseed draw false P (Some k) g i
  = simgenotype_run S D Rq reseed draw false P (Some k) g' i.
Proof. exact seeded_history_independent_l. Qed.
Print Assumptions C10_seeded_history_independent.

(* Stages are threaded through the one global generator; only the first one seeds it,
   yet the outputs of all three are history-independent. *)
Theorem C10_run_bind :
  forall (S D Rq : Type) (draw : Rq -> S -> D * S) (A B : Type) (p : prog D Rq A) (f : A -> prog D Rq B) (s : S),
  run S D Rq draw (bindP D Rq p f) s = let '(a, s') := run S D Rq draw p s in run S D Rq draw (f a) s'.
Proof. exact run_bind_l. Qed.
Print Assumptions C10_run_bind.

Theorem C10_pipeline_history_independent :
  forall (S D Rq : Type) (reseed : Z -> S) (draw : Rq -> S -> D * S) (I A B C : Type)
         (sim : I -> prog D Rq A) (wbp : A -> prog D Rq B) (vcf : B -> prog D Rq C) (k : Z) (g g' : S) (i : I),
  simgenotype_run S D Rq reseed draw false (fun i => bindP D Rq (sim i) (fun a => bindP D Rq (wbp a) vcf)) (Some k) g i
  = simgenotype_run S D Rq reseed draw false (fun i => bindP D Rq (sim i) (fun a => bindP D Rq (wbp a) vcf)) (Some k) g' i.
Proof. exact pipeline_history_independent_l. Qed.
Print Assumptions C10_pipeline_history_independent.

Theorem C10_seeded_is_function_of_seed :
  forall (S D Rq : Type) (reseed : Z -> S) (draw : Rq -> S -> D * S)
         (I O : Type) (P : I -> prog D Rq O) (k : Z) (g : S) (i : I),
  simgenotype_run S D Rq reseed draw false P (Some k) g i = run S D Rq draw (P i) (reseed k).
Proof. exact seeded_is_function_of_seed_l. Qed.
Print Assumptions C10_seeded_is_function_of_seed.

(* simphenotype with a seed does not depend on the process state at all. *)
Theorem C10_simphenotype_history_independent :
  forall (S D Rq : Type) (reseed : Z -> S) (draw : Rq -> S -> D * S)
         (k : Z) (w w' : world S) (reqs : list Rq),
  simphenotype_run S D Rq reseed draw (Some k) w reqs = simphenotype_run S D Rq reseed draw (Some k) w' reqs.
Proof. exact simphenotype_history_independent_l. Qed.
Print Assumptions C10_simphenotype_history_independent.

(* Replications thread ONE generator: replicate r+1 starts from the state replicate
   r left, the first from default_rng(seed); each noise vector is the draw made in
   that state - consecutive draws of one stream, never re-seeded copies. *)
Theorem C10_replications_thread_state :
  forall (S D Rq : Type) (reseed : Z -> S) (draw : Rq -> S -> D * S)
         (seed : option Z) (w : world S) (reqs : list Rq),
  let '(ds, ss, sf) := replications S D Rq draw reqs (pheno_rng S reseed seed w) in
  simphenotype_run S D Rq reseed draw seed w reqs = ds /\
  chained S D Rq draw reqs ss sf /\ hd sf ss = pheno_rng S reseed seed w /\
  ds = map (fun qs : Rq * S => fst (draw (fst qs) (snd qs))) (combine reqs ss).
Proof. exact replications_thread_state_l. Qed.
Print Assumptions C10_replications_thread_state.

Theorem C10_replications_app :
  forall (S D Rq : Type) (draw : Rq -> S -> D * S) (a b : list Rq) (s : S),
  replications S D Rq draw (a ++ b) s =
  let '(da, sa, s1) := replications S D Rq draw a s in
  let '(db, sb, s2) := replications S D Rq draw b s1 in
  (da ++ db, sa ++ sb, s2).
Proof. exact replications_app. Qed.
Print Assumptions C10_replications_app.

(* The mutant the property excludes (a generator re-created per replicate) yields copies. *)
Theorem C10_reseeded_mutant_copies :
  forall (S D Rq : Type) (reseed : Z -> S) (draw : Rq -> S -> D * S) (k : Z) (q : Rq) (n : nat),
  replications_reseeded S D Rq reseed draw k (repeat q n) = repeat (fst (draw q (reseed k))) n.
Proof. exact reseeded_mutant_copies_l. Qed.
Print Assumptions C10_reseeded_mutant_copies.

(* The pinned guard `if seed:`: equal to the repaired one for seeds <> 0, unseeded for 0. *)
Theorem C10_legacy_nonzero_seed :
  forall (S D Rq : Type) (reseed : Z -> S) (draw : Rq -> S -> D * S)
         (I O : Type) (P : I -> prog D Rq O) (k : Z) (g : S) (i : I),
  k <> 0 ->
  simgenotype_run S D Rq reseed draw true P (Some k) g i = simgenotype_run S D Rq reseed draw false P (Some k) g i.
Proof. exact legacy_nonzero_seed_l. Qed.
Print Assumptions C10_legacy_nonzero_seed.

Theorem C10_legacy_seed0_is_unseeded :
  forall (S D Rq : Type) (reseed : Z -> S) (draw : Rq -> S -> D * S)
         (I O : Type) (P : I -> prog D Rq O) (g : S) (i : I),
  simgenotype_run S D Rq reseed draw true P (Some 0) g i = run S D Rq draw (P i) g.
Proof. exact legacy_seed0_is_unseeded_l. Qed.
Print Assumptions C10_legacy_seed0_is_unseeded.

Example C10_legacy_seed0_refuted :
  fst (simgenotype_run Z Z unit lcg_reseed lcg_draw true one_draw (Some 0) 1 tt)
  <> fst (simgenotype_run Z Z unit lcg_reseed lcg_draw true one_draw (Some 0) 2 tt)
  /\ fst (simgenotype_run Z Z unit lcg_reseed lcg_draw false one_draw (Some 0) 1 tt)
     = fst (simgenotype_run Z Z unit lcg_reseed lcg_draw false one_draw (Some 0) 2 tt).
Proof. exact legacy_seed0_refuted_l. Qed.
Print Assumptions C10_legacy_seed0_refuted.

Example C10_threaded_vs_reseeded_example :
  simphenotype_run Z Z unit lcg_reseed lcg_draw (Some 0) (mkworld Z 7 9) [tt; tt; tt]
    = [12345; 1406932606; 654583775]
  /\ replications_reseeded Z Z unit lcg_reseed lcg_draw 0 [tt; tt; tt] = [12345; 12345; 12345].
Proof. exact threaded_vs_reseeded_example_l. Qed.
Print Assumptions C10_threaded_vs_reseeded_example.

(* soundness of the boolean checkers evaluated on the implementation's runs *)
Theorem C10_holds_genotype_sound :
  forall c, holds_genotype c = true -> forall k, g_seed c = Some k -> r_out (g_a c) = r_out (g_b c).
Proof. exact holds_genotype_sound_l. Qed.
Print Assumptions C10_holds_genotype_sound.

Theorem C10_holds_phenotype_sound :
  forall c, holds_phenotype c = true ->
  (forall k, p_seed c = Some k -> p_out (p_a c) = p_out (p_b c)) /\
  (p_noisy (p_a c) = true -> NoDup (p_cols (p_a c))) /\
  (p_noisy (p_b c) = true -> NoDup (p_cols (p_b c))).
Proof. exact holds_phenotype_sound_l. Qed.
Print Assumptions C10_holds_phenotype_sound.

Theorem C10_agree_genotype_meaning :
  forall c, fst (check_genotype c) = true ->
  forall k, g_seed c = Some k -> r_start (g_a c) = g_ref c /\ r_start (g_b c) = g_ref c.
Proof. exact agree_genotype_meaning_l. Qed.
Print Assumptions C10_agree_genotype_meaning.
