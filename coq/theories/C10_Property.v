(* C10 - property theorems only.  A generator is any state machine
   (S, reseed, draw); the theorems hold for every one of them. *)
From HV Require Import Prelude Stats C10_Model C10_Check C10_Proofs C10_Process C10_Hash.
From Coq Require Import PrimFloat SpecFloat FloatOps QArith Qabs.
Open Scope Z_scope.

(* simgenotype with an integer seed (0 included): outputs and the generator state
   left behind are the same whatever state the process-global generator was in. *)
Theorem C10_seeded_history_independent :
  forall (S D Rq : Type) (reseed : Z -> S) (draw : Rq -> S -> D * S)
         (I O : Type) (P : I -> prog D Rq O) (k : Z) (g g' : S) (i : I),
  simgenotype_run S D Rq reseed draw false P (Some k) g i
  = simgenotype_run S D Rq reseed draw false P (Some k) g' i.
Proof. exact seeded_history_independent_l. Qed.
Print Assumptions C10_seeded_history_independent.

(* Stages are threaded through the one global generator; only the first one seeds it,
   yet the outputs of all three are history-independent. *)
Theorem C10_run_bind :
  forall (S D Rq : Type) (draw : Rq -> S -> D * S) (A B : Type) (p : prog D Rq A) (f : A -> prog D Rq B) (s : S),
  run S D Rq draw (bindP D Rq p f) s = let '(a, s') := run S D Rq draw p s in run S D Rq draw (f a) s'.
Proof. exact run_bind_l. Qed.
Print Assumptions C10_run_bind.

Theorem C10_pipeline_history_independent :
  forall (S D Rq : Type) (reseed : Z -> S) (draw : Rq -> S -> D * S) (I A B C : Type)
         (sim : I -> prog D Rq A) (wbp : A -> prog D Rq B) (vcf : B -> prog D Rq C) (k : Z) (g g' : S) (i : I),
  simgenotype_run S D Rq reseed draw false (fun i => bindP D Rq (sim i) (fun a => bindP D Rq (wbp a) vcf)) (Some k) g i
  = simgenotype_run S D Rq reseed draw false (fun i => bindP D Rq (sim i) (fun a => bindP D Rq (wbp a) vcf)) (Some k) g' i.
Proof. exact pipeline_history_independent_l. Qed.
Print Assumptions C10_pipeline_history_independent.

Theorem C10_seeded_is_function_of_seed :
  forall (S D Rq : Type) (reseed : Z -> S) (draw : Rq -> S -> D * S)
         (I O : Type) (P : I -> prog D Rq O) (k : Z) (g : S) (i : I),
  simgenotype_run S D Rq reseed draw false P (Some k) g i = run S D Rq draw (P i) (reseed k).
Proof. exact seeded_is_function_of_seed_l. Qed.
Print Assumptions C10_seeded_is_function_of_seed.

(* simphenotype with a seed does not depend on the process state at all. *)
Theorem C10_simphenotype_history_independent :
  forall (S D Rq : Type) (reseed : Z -> S) (draw : Rq -> S -> D * S)
         (k : Z) (w w' : world S) (reqs : list Rq),
  simphenotype_run S D Rq reseed draw (Some k) w reqs = simphenotype_run S D Rq reseed draw (Some k) w' reqs.
Proof. exact simphenotype_history_independent_l. Qed.
Print Assumptions C10_simphenotype_history_independent.

(* Replications thread ONE generator: replicate r+1 starts from the state replicate
   r left, the first from default_rng(seed); each noise vector is the draw made in
   that state - consecutive draws of one stream, never re-seeded copies. *)
Theorem C10_replications_thread_state :
  forall (S D Rq : Type) (reseed : Z -> S) (draw : Rq -> S -> D * S)
         (seed : option Z) (w : world S) (reqs : list Rq),
  let '(ds, ss, sf) := replications S D Rq draw reqs (pheno_rng S reseed seed w) in
  simphenotype_run S D Rq reseed draw seed w reqs = ds /\
  chained S D Rq draw reqs ss sf /\ hd sf ss = pheno_rng S reseed seed w /\
  ds = map (fun qs : Rq * S => fst (draw (fst qs) (snd qs))) (combine reqs ss).
Proof. exact replications_thread_state_l. Qed.
Print Assumptions C10_replications_thread_state.

Theorem C10_replications_app :
  forall (S D Rq : Type) (draw : Rq -> S -> D * S) (a b : list Rq) (s : S),
  replications S D Rq draw (a ++ b) s =
  let '(da, sa, s1) := replications S D Rq draw a s in
  let '(db, sb, s2) := replications S D Rq draw b s1 in
  (da ++ db, sa ++ sb, s2).
Proof. exact replications_app. Qed.
Print Assumptions C10_replications_app.

(* The mutant the property excludes (a generator re-created per replicate) yields copies. *)
Theorem C10_reseeded_mutant_copies :
  forall (S D Rq : Type) (reseed : Z -> S) (draw : Rq -> S -> D * S) (k : Z) (q : Rq) (n : nat),
  replications_reseeded S D Rq reseed draw k (repeat q n) = repeat (fst (draw q (reseed k))) n.
Proof. exact reseeded_mutant_copies_l. Qed.
Print Assumptions C10_reseeded_mutant_copies.

(* The pinned guard `if seed:`: equal to the repaired one for seeds <> 0, unseeded for 0. *)
Theorem C10_legacy_nonzero_seed :
  forall (S D Rq : Type) (reseed : Z -> S) (draw : Rq -> S -> D * S)
         (I O : Type) (P : I -> prog D Rq O) (k : Z) (g : S) (i : I),
  k <> 0 ->
  simgenotype_run S D Rq reseed draw true P (Some k) g i = simgenotype_run S D Rq reseed draw false P (Some k) g i.
Proof. exact legacy_nonzero_seed_l. Qed.
Print Assumptions C10_legacy_nonzero_seed.

Theorem C10_legacy_seed0_is_unseeded :
  forall (S D Rq : Type) (reseed : Z -> S) (draw : Rq -> S -> D * S)
         (I O : Type) (P : I -> prog D Rq O) (g : S) (i : I),
  simgenotype_run S D Rq reseed draw true P (Some 0) g i = run S D Rq draw (P i) g.
Proof. exact legacy_seed0_is_unseeded_l. Qed.
Print Assumptions C10_legacy_seed0_is_unseeded.

Example C10_legacy_seed0_refuted :
  fst (simgenotype_run Z Z unit lcg_reseed lcg_draw true one_draw (Some 0) 1 tt)
  <> fst (simgenotype_run Z Z unit lcg_reseed lcg_draw true one_draw (Some 0) 2 tt)
  /\ fst (simgenotype_run Z Z unit lcg_reseed lcg_draw false one_draw (Some 0) 1 tt)
     = fst (simgenotype_run Z Z unit lcg_reseed lcg_draw false one_draw (Some 0) 2 tt).
Proof. exact legacy_seed0_refuted_l. Qed.
Print Assumptions C10_legacy_seed0_refuted.

Example C10_threaded_vs_reseeded_example :
  simphenotype_run Z Z unit lcg_reseed lcg_draw (Some 0) (mkworld Z 7 9) [tt; tt; tt]
    = [12345; 1406932606; 654583775]
  /\ replications_reseeded Z Z unit lcg_reseed lcg_draw 0 [tt; tt; tt] = [12345; 12345; 12345].
Proof. exact threaded_vs_reseeded_example_l. Qed.
Print Assumptions C10_threaded_vs_reseeded_example.

(* soundness of the boolean checkers evaluated on the implementation's runs *)
Theorem C10_holds_genotype_sound :
  forall c, holds_genotype c = true -> forall k, g_seed c = Some k -> r_out (g_a c) = r_out (g_b c).
Proof. exact holds_genotype_sound_l. Qed.
Print Assumptions C10_holds_genotype_sound.

Theorem C10_holds_phenotype_sound :
  forall c, holds_phenotype c = true ->
  (forall k, p_seed c = Some k -> p_out (p_a c) = p_out (p_b c)) /\
  (p_noisy (p_a c) = true -> NoDup (p_cols (p_a c))) /\
  (p_noisy (p_b c) = true -> NoDup (p_cols (p_b c))).
Proof. exact holds_phenotype_sound_l. Qed.
Print Assumptions C10_holds_phenotype_sound.

Theorem C10_agree_genotype_meaning :
  forall c, fst (check_genotype c) = true ->
  (r_gaps (g_a c) = 0 /\ r_private (g_a c) = 0 /\ r_gaps (g_b c) = 0 /\ r_private (g_b c) = 0) /\
  forall k, g_seed c = Some k ->
    r_start (g_a c) = g_ref c /\ r_start (g_b c) = g_ref c
    /\ r_trace (g_a c) = r_trace (g_b c) /\ r_end (g_a c) = r_end (g_b c).
Proof. exact agree_genotype_meaning_l. Qed.
Print Assumptions C10_agree_genotype_meaning.

Theorem C10_agree_phenotype_meaning :
  forall seed ref r, agree_prun seed ref r = true ->
  (forall k, seed = Some k -> p_start r = ref)
  /\ model_starts seed ref r = map fst (p_steps r)
  /\ p_glob r = 0 /\ p_rngs r = 1.
Proof. exact agree_prun_meaning_l. Qed.
Print Assumptions C10_agree_phenotype_meaning.

(* EVERY draw of a seeded run - not only the first - is made from a state that depends on
   seed and inputs only, the same values are drawn, and the state left behind ([last] of
   the trace) is the same. *)
Theorem C10_trace_history_independent :
  forall (S D Rq : Type) (reseed : Z -> S) (draw : Rq -> S -> D * S)
         (I O : Type) (P : I -> prog D Rq O) (k : Z) (g g' : S) (i : I),
  trace S D Rq draw (P i) (start_state S reseed false (Some k) g)
  = trace S D Rq draw (P i) (start_state S reseed false (Some k) g')
  /\ record S D Rq draw (P i) (start_state S reseed false (Some k) g)
     = record S D Rq draw (P i) (start_state S reseed false (Some k) g').
Proof. exact trace_history_independent_l. Qed.
Print Assumptions C10_trace_history_independent.

Theorem C10_trace_last :
  forall (S D Rq : Type) (draw : Rq -> S -> D * S) (R : Type) (p : prog D Rq R) (s d : S),
  last (trace S D Rq draw p s) d = snd (run S D Rq draw p s).
Proof. exact trace_last. Qed.
Print Assumptions C10_trace_last.

(* Bridge to the C01-C03 models, which are functions of a RECORDED list of draws: running a
   drawing program on a generator is replaying it on the draws recorded during that run; so
   whenever such a model describes a stage (model i ds = replay (P i) ds for all ds), the
   seeded command's output is that model applied to a draw list fixed by seed and inputs. *)
Theorem C10_run_replay :
  forall (S D Rq : Type) (draw : Rq -> S -> D * S) (R : Type) (p : prog D Rq R) (s : S),
  replay D Rq p (record S D Rq draw p s) = Some (fst (run S D Rq draw p s)).
Proof. exact run_replay_l. Qed.
Print Assumptions C10_run_replay.

Theorem C10_recorded_model_history_independent :
  forall (S D Rq : Type) (reseed : Z -> S) (draw : Rq -> S -> D * S) (I O : Type)
         (P : I -> prog D Rq O) (model : I -> list D -> option O),
  (forall i ds, model i ds = replay D Rq (P i) ds) ->
  forall (k : Z) (g g' : S) (i : I),
    model i (record S D Rq draw (P i) (reseed k))
    = Some (fst (simgenotype_run S D Rq reseed draw false P (Some k) g i))
    /\ fst (simgenotype_run S D Rq reseed draw false P (Some k) g i)
       = fst (simgenotype_run S D Rq reseed draw false P (Some k) g' i).
Proof. exact recorded_model_history_independent_l. Qed.
Print Assumptions C10_recorded_model_history_independent.

(* ---- the replication loop: `for i in range(R): pt_sim.run(...)` on ONE simulator.
   For every number of replications R and every simulator state the loop starts in (proof
   by induction on R): the generator is threaded as [replications] says (consecutive draws,
   C10_replications_thread_state) and the columns appended are pheno g applied to the
   replicates' own draws, in order. *)
Theorem C10_run_reps_columns :
  forall (St D Rq G P : Type) (draw : Rq -> St -> D * St) (pheno : G -> D -> P)
         (g : G) (q : Rq) (R : nat) (m : sim St P),
  run_reps St D Rq G P draw pheno g q R m =
  let '(ds, ss, sf) := replications St D Rq draw (repeat q R) (sim_rng _ _ m) in
  mksim _ _ sf (sim_cols _ _ m ++ map (pheno g) ds).
Proof. exact run_reps_cols_l. Qed.
Print Assumptions C10_run_reps_columns.

(* ... also when the calls on the one simulator have different inputs / requests *)
Theorem C10_run_calls_columns :
  forall (St D Rq G P : Type) (draw : Rq -> St -> D * St) (pheno : G -> D -> P)
         (calls : list (G * Rq)) (m : sim St P),
  run_calls St D Rq G P draw pheno calls m =
  let '(ds, ss, sf) := replications St D Rq draw (map snd calls) (sim_rng _ _ m) in
  mksim _ _ sf (sim_cols _ _ m ++ map (fun gd : G * D => pheno (fst gd) (snd gd)) (combine (map fst calls) ds)).
Proof. exact run_calls_cols_l. Qed.
Print Assumptions C10_run_calls_columns.

Theorem C10_replicate_own_draw :
  forall (St D Rq G P : Type) (draw : Rq -> St -> D * St) (pheno : G -> D -> P)
         (g : G) (q : Rq) (R : nat) (s : St) (k : nat),
  nth_error (sim_cols _ _ (run_reps St D Rq G P draw pheno g q R (mksim _ _ s []))) k
  = option_map (pheno g) (nth_error (fst (fst (replications St D Rq draw (repeat q R) s))) k).
Proof. exact replicate_own_draw_l. Qed.
Print Assumptions C10_replicate_own_draw.

(* Replicate k depends on the inputs and on the draws of replicate k ONLY, for every R:
   two runs of the loop on ANY two generators (so: any other values drawn in all the other
   replicates) that agree on the k-th draw agree on the k-th column. *)
Theorem C10_replicate_depends_on_own_draw :
  forall (St1 St2 D Rq G P : Type) (draw1 : Rq -> St1 -> D * St1) (draw2 : Rq -> St2 -> D * St2)
         (pheno : G -> D -> P) (g : G) (q : Rq) (R : nat) (s1 : St1) (s2 : St2) (k : nat),
  nth_error (fst (fst (replications St1 D Rq draw1 (repeat q R) s1))) k
  = nth_error (fst (fst (replications St2 D Rq draw2 (repeat q R) s2))) k ->
  nth_error (sim_cols _ _ (run_reps St1 D Rq G P draw1 pheno g q R (mksim _ _ s1 []))) k
  = nth_error (sim_cols _ _ (run_reps St2 D Rq G P draw2 pheno g q R (mksim _ _ s2 []))) k.
Proof. exact replicate_depends_on_own_draw_l. Qed.
Print Assumptions C10_replicate_depends_on_own_draw.

(* The regression this clause excludes (genetic component cached, noise added in place on
   the cache): replicate 2 gets the same draw in two runs, its column differs. *)
Example C10_cached_inplace_refuted :
  c_cols _ _ _ (run_reps_cached (list Z) Z unit Z Z script_draw Z.add (fun g => g) tt 2 (mkcsim _ _ _ [1; 5] 10 [])) = [11; 16]
  /\ c_cols _ _ _ (run_reps_cached (list Z) Z unit Z Z script_draw Z.add (fun g => g) tt 2 (mkcsim _ _ _ [2; 5] 10 [])) = [12; 17]
  /\ sim_cols _ _ (run_reps (list Z) Z unit Z Z script_draw Z.add 10 tt 2 (mksim _ _ [1; 5] [])) = [11; 15]
  /\ sim_cols _ _ (run_reps (list Z) Z unit Z Z script_draw Z.add 10 tt 2 (mksim _ _ [2; 5] [])) = [12; 15].
Proof. exact cached_inplace_refuted_l. Qed.
Print Assumptions C10_cached_inplace_refuted.

(* "Not copies", for EVERY generator: if the generator does not return to a state within
   the run and its draws tell those states apart, the threaded replicates are pairwise
   different (whereas the re-seeding mutant yields copies for every generator,
   C10_reseeded_mutant_copies). *)
Theorem C10_threaded_replicates_distinct :
  forall (S D Rq : Type) (draw : Rq -> S -> D * S) (q : Rq) (R : nat) (s : S),
  let '(ds, ss, sf) := replications S D Rq draw (repeat q R) s in
  NoDup ss -> (forall a b, In a ss -> In b ss -> fst (draw q a) = fst (draw q b) -> a = b) -> NoDup ds.
Proof. exact threaded_replicates_distinct_l. Qed.
Print Assumptions C10_threaded_replicates_distinct.

Example C10_threaded_distinct_inhabited :
  let '(ds, ss, sf) := replications Z Z unit lcg_draw (repeat tt 3) 0 in
  NoDup ss /\ (forall a b, In a ss -> In b ss -> fst (lcg_draw tt a) = fst (lcg_draw tt b) -> a = b) /\ NoDup ds.
Proof. exact threaded_distinct_inhabited_l. Qed.
Print Assumptions C10_threaded_distinct_inhabited.

(* soundness of the checker of the `replicates` relation: it is evaluated on the exact
   rational values of the floats the implementation drew and wrote
   (holds_replicates c = holds_qreps cc (map f2q0 g) (map to_q reps)) *)
Theorem C10_holds_qreps_sound :
  forall (cc : bool) (g : list Q) (reps : list qrep), holds_qreps cc g reps = true ->
  (forallb q_noisy reps = true -> noise_pairwise_distinct reps)
  /\ (cc = false -> forall r0 rest, reps = r0 :: rest -> forall r, In r rest -> same_component_P r0 r)
  /\ (cc = true -> forall r, In r reps ->
        length (q_col r) = length g /\ length (q_noise r) = length g /\ top_set_P (liab_rows g r)).
Proof. exact holds_qreps_sound_l. Qed.
Print Assumptions C10_holds_qreps_sound.

Example C10_holds_qreps_example :
  holds_qreps false [] [mkq true [1; 2] [11; 12]; mkq true [3; 5] [13; 15]]%Q = true
  /\ holds_qreps false [] [mkq true [1; 2] [11; 12]; mkq true [3; 5] [14; 17]]%Q = false.
Proof. exact holds_qreps_example_l. Qed.
Print Assumptions C10_holds_qreps_example.

(* ---- "whatever ran earlier in the same process".  A process = global generator + store (all
   other persistent state) + OS entropy; earlier programs are ARBITRARY process programs
   (draw, re-seed, read and overwrite the store, consume entropy).
   Sufficient: a simulation whose result cannot observe the store, behind the repaired guard,
   gives the same output and leaves the same generator state after any two histories started
   in any two processes. *)
Theorem C10_seeded_after_any_history :
  forall (S D Rq M : Type) (reseed : Z -> S) (draw : Rq -> S -> D * S) (O : Type)
         (body : pprog D Rq M O) (k : Z),
  store_blind S D Rq M reseed draw body ->
  forall (hist hist' : list (pprog D Rq M unit)) (w w' : proc S M),
    fst (exec S D Rq M reseed draw (geno_cmd D Rq M false (Some k) body) (run_hist S D Rq M reseed draw hist w))
    = fst (exec S D Rq M reseed draw (geno_cmd D Rq M false (Some k) body) (run_hist S D Rq M reseed draw hist' w'))
    /\ pr_gen _ _ (snd (exec S D Rq M reseed draw (geno_cmd D Rq M false (Some k) body) (run_hist S D Rq M reseed draw hist w)))
       = pr_gen _ _ (snd (exec S D Rq M reseed draw (geno_cmd D Rq M false (Some k) body) (run_hist S D Rq M reseed draw hist' w'))).
Proof. exact seeded_after_any_history_l. Qed.
Print Assumptions C10_seeded_after_any_history.

(* Necessary: earlier programs can leave anything in the store, so reproducibility after every
   history (even from one and the same starting process) forces the result to be independent
   of the store.  "No other persistent state" is therefore exactly what the double runs after
   generated histories test of the code. *)
Theorem C10_history_independent_needs_blind :
  forall (S D Rq M : Type) (reseed : Z -> S) (draw : Rq -> S -> D * S) (O : Type)
         (body : pprog D Rq M O) (k : Z),
  (forall (hist hist' : list (pprog D Rq M unit)) (w : proc S M),
      fst (exec S D Rq M reseed draw (geno_cmd D Rq M false (Some k) body) (run_hist S D Rq M reseed draw hist w))
      = fst (exec S D Rq M reseed draw (geno_cmd D Rq M false (Some k) body) (run_hist S D Rq M reseed draw hist' w))) ->
  forall (m m' : M) (e : Z),
    fst (exec S D Rq M reseed draw body (mkproc S M (reseed k) m e))
    = fst (exec S D Rq M reseed draw body (mkproc S M (reseed k) m' e)).
Proof. exact history_independent_needs_blind_l. Qed.
Print Assumptions C10_history_independent_needs_blind.

(* The structural form of the hypothesis: a program without PGet / PPut / PEntropy nodes is
   store-blind and leaves store and entropy as it found them; every drawing program of the
   first section is one. *)
Theorem C10_gen_only_frame :
  forall (S D Rq M : Type) (reseed : Z -> S) (draw : Rq -> S -> D * S) (R : Type) (p : pprog D Rq M R),
  gen_only D Rq M p ->
  forall s m e m' e',
    fst (exec S D Rq M reseed draw p (mkproc S M s m e)) = fst (exec S D Rq M reseed draw p (mkproc S M s m' e'))
    /\ pr_gen _ _ (snd (exec S D Rq M reseed draw p (mkproc S M s m e)))
       = pr_gen _ _ (snd (exec S D Rq M reseed draw p (mkproc S M s m' e')))
    /\ pr_mem _ _ (snd (exec S D Rq M reseed draw p (mkproc S M s m e))) = m
    /\ pr_entropy _ _ (snd (exec S D Rq M reseed draw p (mkproc S M s m e))) = e.
Proof. exact gen_only_frame_l. Qed.
Print Assumptions C10_gen_only_frame.

Theorem C10_lift_gen_only :
  forall (D Rq M R : Type) (p : prog D Rq R), gen_only D Rq M (lift D Rq M p).
Proof. exact lift_gen_only_l. Qed.
Print Assumptions C10_lift_gen_only.

(* Every simulator of the first section, after any history of arbitrary earlier programs: the
   output and the generator state left behind are those of [run (P i) (reseed k)]; the store is
   handed on as the history left it. *)
Theorem C10_lifted_after_any_history :
  forall (S D Rq M : Type) (reseed : Z -> S) (draw : Rq -> S -> D * S) (I O : Type)
         (P : I -> prog D Rq O) (k : Z) (i : I) (hist : list (pprog D Rq M unit)) (w : proc S M),
  fst (exec S D Rq M reseed draw (geno_cmd D Rq M false (Some k) (lift D Rq M (P i))) (run_hist S D Rq M reseed draw hist w))
  = fst (run S D Rq draw (P i) (reseed k))
  /\ pr_gen _ _ (snd (exec S D Rq M reseed draw (geno_cmd D Rq M false (Some k) (lift D Rq M (P i))) (run_hist S D Rq M reseed draw hist w)))
     = snd (run S D Rq draw (P i) (reseed k))
  /\ pr_mem _ _ (snd (exec S D Rq M reseed draw (geno_cmd D Rq M false (Some k) (lift D Rq M (P i))) (run_hist S D Rq M reseed draw hist w)))
     = pr_mem _ _ (run_hist S D Rq M reseed draw hist w).
Proof. exact lifted_after_any_history_l. Qed.
Print Assumptions C10_lifted_after_any_history.

Theorem C10_lifted_history_independent :
  forall (S D Rq M : Type) (reseed : Z -> S) (draw : Rq -> S -> D * S) (I O : Type)
         (P : I -> prog D Rq O) (k : Z) (i : I) (hist hist' : list (pprog D Rq M unit)) (w w' : proc S M),
  fst (exec S D Rq M reseed draw (geno_cmd D Rq M false (Some k) (lift D Rq M (P i))) (run_hist S D Rq M reseed draw hist w))
  = fst (exec S D Rq M reseed draw (geno_cmd D Rq M false (Some k) (lift D Rq M (P i))) (run_hist S D Rq M reseed draw hist' w')).
Proof. exact lifted_history_independent_l. Qed.
Print Assumptions C10_lifted_history_independent.

(* the process view is the first section's simgenotype_run, for both guards and every seed option *)
Theorem C10_geno_cmd_is_simgenotype_run :
  forall (S D Rq M : Type) (reseed : Z -> S) (draw : Rq -> S -> D * S) (I O : Type) (legacy : bool)
         (P : I -> prog D Rq O) (seed : option Z) (i : I) (w : proc S M),
  fst (exec S D Rq M reseed draw (geno_cmd D Rq M legacy seed (lift D Rq M (P i))) w)
  = fst (simgenotype_run S D Rq reseed draw legacy P seed (pr_gen _ _ w) i)
  /\ pr_gen _ _ (snd (exec S D Rq M reseed draw (geno_cmd D Rq M legacy seed (lift D Rq M (P i))) w))
     = snd (simgenotype_run S D Rq reseed draw legacy P seed (pr_gen _ _ w) i).
Proof. exact geno_cmd_is_simgenotype_run_l. Qed.
Print Assumptions C10_geno_cmd_is_simgenotype_run.

(* simphenotype with a seed after any two histories: same noise vectors, and the process
   (global generator, store, entropy) is left exactly as the history left it *)
Theorem C10_simphenotype_after_any_history :
  forall (S D Rq M : Type) (reseed : Z -> S) (draw : Rq -> S -> D * S) (k : Z) (reqs : list Rq)
         (hist hist' : list (pprog D Rq M unit)) (w w' : proc S M),
  fst (exec S D Rq M reseed draw (pheno_cmd S D Rq M reseed draw (Some k) reqs) (run_hist S D Rq M reseed draw hist w))
  = fst (exec S D Rq M reseed draw (pheno_cmd S D Rq M reseed draw (Some k) reqs) (run_hist S D Rq M reseed draw hist' w'))
  /\ snd (exec S D Rq M reseed draw (pheno_cmd S D Rq M reseed draw (Some k) reqs) (run_hist S D Rq M reseed draw hist w))
     = run_hist S D Rq M reseed draw hist w.
Proof. exact pheno_after_any_history_l. Qed.
Print Assumptions C10_simphenotype_after_any_history.

Theorem C10_pheno_cmd_is_simphenotype_run :
  forall (S D Rq M : Type) (reseed : Z -> S) (draw : Rq -> S -> D * S) (seed : option Z) (reqs : list Rq) (w : proc S M),
  fst (exec S D Rq M reseed draw (pheno_cmd S D Rq M reseed draw seed reqs) w)
  = simphenotype_run S D Rq reseed draw seed (mkworld S (pr_gen _ _ w) (pr_entropy _ _ w)) reqs
  /\ pr_gen _ _ (snd (exec S D Rq M reseed draw (pheno_cmd S D Rq M reseed draw seed reqs) w)) = pr_gen _ _ w
  /\ pr_mem _ _ (snd (exec S D Rq M reseed draw (pheno_cmd S D Rq M reseed draw seed reqs) w)) = pr_mem _ _ w.
Proof. exact pheno_cmd_is_simphenotype_run_l. Qed.
Print Assumptions C10_pheno_cmd_is_simphenotype_run.

Theorem C10_run_hist_app :
  forall (S D Rq M : Type) (reseed : Z -> S) (draw : Rq -> S -> D * S) (a b : list (pprog D Rq M unit)) (w : proc S M),
  run_hist S D Rq M reseed draw (a ++ b) w = run_hist S D Rq M reseed draw b (run_hist S D Rq M reseed draw a w).
Proof. exact run_hist_app_l. Qed.
Print Assumptions C10_run_hist_app.

(* Every state in the trace of a run is the previous one advanced by one draw: nothing else
   moves the generator between two recorded states (the counterpart of r_gaps = 0). *)
Theorem C10_trace_linked :
  forall (S D Rq : Type) (draw : Rq -> S -> D * S) (R : Type) (p : prog D Rq R) (s : S),
  hd s (trace S D Rq draw p s) = s /\ linked S D Rq draw (trace S D Rq draw p s).
Proof. exact trace_linked_l. Qed.
Print Assumptions C10_trace_linked.

(* The leak through the store refuted on the toy generator (the shape of a per-path memoised
   map parser whose marker objects a --region run updates in place): same seed, another output
   after the earlier region run; the store-free simulation is unaffected. *)
Example C10_store_leak_refuted :
  fst (exec Z Z unit Z lcg_reseed lcg_draw (geno_cmd Z unit Z false (Some 1) leaky_body)
         (run_hist Z Z unit Z lcg_reseed lcg_draw [] (mkproc Z Z 5 0 0)))
  <> fst (exec Z Z unit Z lcg_reseed lcg_draw (geno_cmd Z unit Z false (Some 1) leaky_body)
         (run_hist Z Z unit Z lcg_reseed lcg_draw [region_run_before] (mkproc Z Z 5 0 0)))
  /\ fst (exec Z Z unit Z lcg_reseed lcg_draw (geno_cmd Z unit Z false (Some 1) clean_body)
         (run_hist Z Z unit Z lcg_reseed lcg_draw [] (mkproc Z Z 5 0 0)))
     = fst (exec Z Z unit Z lcg_reseed lcg_draw (geno_cmd Z unit Z false (Some 1) clean_body)
         (run_hist Z Z unit Z lcg_reseed lcg_draw [region_run_before] (mkproc Z Z 5 0 0))).
Proof. exact store_leak_refuted_l. Qed.
Print Assumptions C10_store_leak_refuted.

(* the hypothesis store_blind is satisfiable (the lift of one_draw) and not trivial (leaky_body fails it) *)
Example C10_store_blind_inhabited :
  store_blind Z Z unit Z lcg_reseed lcg_draw clean_body
  /\ clean_body = lift Z unit Z (one_draw tt)
  /\ ~ store_blind Z Z unit Z lcg_reseed lcg_draw leaky_body.
Proof. exact store_blind_inhabited_l. Qed.
Print Assumptions C10_store_blind_inhabited.

(* ---------------- the interpreter's string-hash seed (PYTHONHASHSEED).
   A user's two runs are two interpreter processes; sets of strings iterate in another order in
   each.  An interpreter process = hash seed + process; programs may look at the seed
   ([hprog] = family of process programs indexed by it), nothing can write it. *)
Theorem C10_hash_seed_fixed_per_interpreter :
  forall (S D Rq M : Type) (reseed : Z -> S) (draw : Rq -> S -> D * S) (R : Type)
         (p : hprog D Rq M R) (hist : list (hprog D Rq M unit)) (w : iproc S M),
  ip_hash _ _ (snd (iexec S D Rq M reseed draw p w)) = ip_hash _ _ w
  /\ ip_hash _ _ (irun_hist S D Rq M reseed draw hist w) = ip_hash _ _ w.
Proof. exact hash_seed_fixed_l. Qed.
Print Assumptions C10_hash_seed_fixed_per_interpreter.

(* Sufficient: store-blind for every hash seed and hash-blind => the seeded command gives the same
   output and leaves the same generator state in ANY two interpreters (any two hash seeds, any two
   process states) after ANY two histories of arbitrary earlier programs (which may look at the
   hash seed as well). *)
Theorem C10_seeded_across_interpreters :
  forall (S D Rq M : Type) (reseed : Z -> S) (draw : Rq -> S -> D * S) (O : Type)
         (body : hprog D Rq M O) (k : Z),
  (forall h, store_blind S D Rq M reseed draw (body h)) ->
  hash_blind S D Rq M reseed draw body ->
  forall (hist hist' : list (hprog D Rq M unit)) (w w' : iproc S M),
    fst (iexec S D Rq M reseed draw (igeno_cmd D Rq M false (Some k) body) (irun_hist S D Rq M reseed draw hist w))
    = fst (iexec S D Rq M reseed draw (igeno_cmd D Rq M false (Some k) body) (irun_hist S D Rq M reseed draw hist' w'))
    /\ pr_gen _ _ (ip_proc _ _ (snd (iexec S D Rq M reseed draw (igeno_cmd D Rq M false (Some k) body)
                                      (irun_hist S D Rq M reseed draw hist w))))
       = pr_gen _ _ (ip_proc _ _ (snd (iexec S D Rq M reseed draw (igeno_cmd D Rq M false (Some k) body)
                                        (irun_hist S D Rq M reseed draw hist' w')))).
Proof. exact seeded_across_interpreters_l. Qed.
Print Assumptions C10_seeded_across_interpreters.

(* Necessary: equal outputs in every two interpreters that differ in nothing but the hash seed
   force the simulation's output to be independent of the hash seed.  "Hash-blind" is therefore
   exactly what the cross-interpreter stream of the double runs tests of the code. *)
Theorem C10_across_interpreters_needs_hash_blind :
  forall (S D Rq M : Type) (reseed : Z -> S) (draw : Rq -> S -> D * S) (O : Type)
         (body : hprog D Rq M O) (k : Z),
  (forall (w w' : iproc S M), ip_proc _ _ w = ip_proc _ _ w' ->
      fst (iexec S D Rq M reseed draw (igeno_cmd D Rq M false (Some k) body) w)
      = fst (iexec S D Rq M reseed draw (igeno_cmd D Rq M false (Some k) body) w')) ->
  forall (h h' : Z) (m : M) (e : Z),
    fst (exec S D Rq M reseed draw (body h) (mkproc S M (reseed k) m e))
    = fst (exec S D Rq M reseed draw (body h') (mkproc S M (reseed k) m e)).
Proof. exact across_interpreters_needs_hash_blind_l. Qed.
Print Assumptions C10_across_interpreters_needs_hash_blind.

Theorem C10_const_hash_blind :
  forall (S D Rq M : Type) (reseed : Z -> S) (draw : Rq -> S -> D * S) (R : Type) (p : pprog D Rq M R),
  hash_blind S D Rq M reseed draw (fun _ => p).
Proof. exact const_hash_blind_l. Qed.
Print Assumptions C10_const_hash_blind.

(* Every simulator of the first section in any interpreter after any history: the output and the
   generator state left are those of [run (P i) (reseed k)]. *)
Theorem C10_lifted_across_interpreters :
  forall (S D Rq M : Type) (reseed : Z -> S) (draw : Rq -> S -> D * S) (I O : Type)
         (P : I -> prog D Rq O) (k : Z) (i : I) (hist : list (hprog D Rq M unit)) (w : iproc S M),
  fst (iexec S D Rq M reseed draw (igeno_cmd D Rq M false (Some k) (fun _ => lift D Rq M (P i)))
         (irun_hist S D Rq M reseed draw hist w))
  = fst (run S D Rq draw (P i) (reseed k))
  /\ pr_gen _ _ (ip_proc _ _ (snd (iexec S D Rq M reseed draw (igeno_cmd D Rq M false (Some k) (fun _ => lift D Rq M (P i)))
                                    (irun_hist S D Rq M reseed draw hist w))))
     = snd (run S D Rq draw (P i) (reseed k)).
Proof. exact lifted_across_interpreters_l. Qed.
Print Assumptions C10_lifted_across_interpreters.

(* simulate_pt's `.snplist` selection `filter(lambda e: e.id in haplotype_ids, effects)`: two
   requests with the same elements select the same effects in the same (file) order - for EVERY
   iteration order of sets that keeps the elements, every two hash seeds, every two insertion
   orders. *)
Theorem C10_select_file_order_hash_blind :
  forall (order : Z -> list Z -> list Z) (E : Type) (eid : E -> Z) (ins ins' : list Z) (effects : list E),
  order_ok order -> (forall x, In x ins <-> In x ins') ->
  forall h h', select_file_order eid (order h ins) effects = select_file_order eid (order h' ins') effects.
Proof. exact select_file_order_any_interpreter_l. Qed.
Print Assumptions C10_select_file_order_hash_blind.

(* simphenotype with a seed and requested IDs: selected effects (column name, order of the sum) and
   noise are the same in any two interpreters, after any two histories, for equal sets of IDs filled
   in any two orders; the interpreter process is returned as found. *)
Theorem C10_simphenotype_across_interpreters :
  forall (S D Rq M : Type) (reseed : Z -> S) (draw : Rq -> S -> D * S) (order : Z -> list Z -> list Z)
         (E : Type) (eid : E -> Z) (k : Z) (reqs : list Rq) (ins ins' : list Z) (effects : list E)
         (hist hist' : list (hprog D Rq M unit)) (w w' : iproc S M),
  order_ok order -> (forall x, In x ins <-> In x ins') ->
  fst (iexec S D Rq M reseed draw (pheno_sel_cmd S D Rq M reseed draw order (select_file_order eid) (Some k) reqs ins effects)
         (irun_hist S D Rq M reseed draw hist w))
  = fst (iexec S D Rq M reseed draw (pheno_sel_cmd S D Rq M reseed draw order (select_file_order eid) (Some k) reqs ins' effects)
         (irun_hist S D Rq M reseed draw hist' w'))
  /\ snd (iexec S D Rq M reseed draw (pheno_sel_cmd S D Rq M reseed draw order (select_file_order eid) (Some k) reqs ins effects)
            (irun_hist S D Rq M reseed draw hist w))
     = irun_hist S D Rq M reseed draw hist w.
Proof. exact simphenotype_across_interpreters_l. Qed.
Print Assumptions C10_simphenotype_across_interpreters.

Theorem C10_pheno_sel_cmd_noise_is_pheno_cmd :
  forall (S D Rq M : Type) (reseed : Z -> S) (draw : Rq -> S -> D * S) (order : Z -> list Z -> list Z)
         (E : Type) (select : list Z -> list E -> list E) (seed : option Z) (reqs : list Rq) (ins : list Z)
         (effects : list E) (w : iproc S M),
  snd (fst (iexec S D Rq M reseed draw (pheno_sel_cmd S D Rq M reseed draw order select seed reqs ins effects) w))
  = fst (exec S D Rq M reseed draw (pheno_cmd S D Rq M reseed draw seed reqs) (ip_proc _ _ w)).
Proof. exact pheno_sel_cmd_noise_l. Qed.
Print Assumptions C10_pheno_sel_cmd_noise_is_pheno_cmd.

(* Selection in the iteration order of the SET of requested IDs refuted on a toy order (even hash
   seed: insertion order, odd: reversed): same seed and inputs, (1) two interpreters, (2) one
   interpreter and two equal sets filled in different orders - different outputs; selection by
   membership: equal; (3) a simulation iterating a set: different in the other interpreter. *)
Example C10_set_order_refuted :
  let eff := [(1, 10); (2, 20); (3, 30)] in
  let w0 := mkproc Z Z 5 0 0 in
  let by_set := select_set_order (E := Z * Z) fst in
  let by_file := select_file_order (E := Z * Z) fst in
  let cmd sel ins := pheno_sel_cmd Z Z unit Z lcg_reseed lcg_draw toy_order sel (Some 1) [tt] ins eff in
  fst (iexec Z Z unit Z lcg_reseed lcg_draw (cmd by_set [1; 2]) (mkiproc Z Z 0 w0))
  <> fst (iexec Z Z unit Z lcg_reseed lcg_draw (cmd by_set [1; 2]) (mkiproc Z Z 1 w0))
  /\ fst (iexec Z Z unit Z lcg_reseed lcg_draw (cmd by_set [1; 2]) (mkiproc Z Z 0 w0))
     <> fst (iexec Z Z unit Z lcg_reseed lcg_draw (cmd by_set [2; 1]) (mkiproc Z Z 0 w0))
  /\ fst (iexec Z Z unit Z lcg_reseed lcg_draw (cmd by_file [1; 2]) (mkiproc Z Z 0 w0))
     = fst (iexec Z Z unit Z lcg_reseed lcg_draw (cmd by_file [2; 1]) (mkiproc Z Z 1 w0))
  /\ fst (iexec Z Z unit Z lcg_reseed lcg_draw (igeno_cmd Z unit Z false (Some 1) set_iter_body) (mkiproc Z Z 0 w0))
     <> fst (iexec Z Z unit Z lcg_reseed lcg_draw (igeno_cmd Z unit Z false (Some 1) set_iter_body) (mkiproc Z Z 1 w0))
  /\ fst (iexec Z Z unit Z lcg_reseed lcg_draw (igeno_cmd Z unit Z false (Some 1) (fun _ => clean_body)) (mkiproc Z Z 0 w0))
     = fst (iexec Z Z unit Z lcg_reseed lcg_draw (igeno_cmd Z unit Z false (Some 1) (fun _ => clean_body)) (mkiproc Z Z 1 w0)).
Proof. exact set_order_refuted_l. Qed.
Print Assumptions C10_set_order_refuted.

(* the hypotheses of C10_seeded_across_interpreters / C10_simphenotype_across_interpreters are
   satisfiable, and hash-blindness is not trivial (set_iter_body fails it) *)
Example C10_hash_blind_inhabited :
  hash_blind Z Z unit Z lcg_reseed lcg_draw (fun _ => clean_body)
  /\ (forall h : Z, store_blind Z Z unit Z lcg_reseed lcg_draw ((fun _ => clean_body) h))
  /\ ~ hash_blind Z Z unit Z lcg_reseed lcg_draw set_iter_body
  /\ order_ok toy_order.
Proof. exact hash_blind_inhabited_l. Qed.
Print Assumptions C10_hash_blind_inhabited.
