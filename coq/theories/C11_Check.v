(* C11 - boolean checkers evaluated by the correspondence run on what the
   implementation returned.  [agree] compares with the model; [holds] is the
   property itself as a finite check of the observed output against the input,
   independent of the model's sort / read functions. *)
From HV Require Import Prelude C11_Model.

Definition zl_eqb := list_eqb Z.eqb.

Definition line_eqb (x y : line) : bool :=
  match x, y with
  | LC a, LC b => a =? b
  | LH c s e i x, LH c' s' e' i' x' | LR c s e i x, LR c' s' e' i' x' =>
      (c =? c') && (s =? s') && (e =? e') && (i =? i') && zl_eqb x x'
  | LV h s e i a x, LV h' s' e' i' a' x' =>
      (h =? h') && (s =? s') && (e =? e') && (i =? i') && (a =? a') && zl_eqb x x'
  | LX t c s e x, LX t' c' s' e' x' =>
      (t =? t') && (c =? c') && (s =? s') && (e =? e') && zl_eqb x x'
  | _, _ => false
  end.

Definition hrec_eqb (a b : hrec) : bool :=
  Bool.eqb (h_rep a) (h_rep b) && (h_chrom a =? h_chrom b) && (h_start a =? h_start b)
  && (h_end a =? h_end b) && (h_id a =? h_id b).

Definition vrec_eqb (a b : vrec) : bool :=
  (v_hap a =? v_hap b) && (v_start a =? v_start b) && (v_end a =? v_end b)
  && (v_id a =? v_id b) && (v_al a =? v_al b).

Definition item_eqb (a b : item) : bool :=
  match a, b with
  | IH x, IH y => hrec_eqb x y
  | IV x, IV y => vrec_eqb x y
  | _, _ => false
  end.

Definition lines_eqb := list_eqb line_eqb.
Definition entry_eqb := pair_eqb hrec_eqb (list_eqb vrec_eqb).
Definition data_eqb := res_eqb (list_eqb entry_eqb).

(* equality of multisets, by removing one matching element at a time *)
Section Perm.
  Context {A : Type} (e : A -> A -> bool).
  Fixpoint remove1 (x : A) (l : list A) : option (list A) :=
    match l with
    | [] => None
    | y :: r => if e x y then Some r
                else match remove1 x r with Some r' => Some (y :: r') | None => None end
    end.
  Fixpoint perm_eqb (l1 l2 : list A) : bool :=
    match l1 with
    | [] => match l2 with [] => true | _ => false end
    | x :: r => match remove1 x l2 with Some l2' => perm_eqb r l2' | None => false end
    end.
End Perm.

(* the H, R and V records of a file, mandatory fields only *)
Definition records (f : list line) : list item := iter_plain f None.

Fixpoint nodupb (l : list Z) : bool :=
  match l with [] => true | x :: r => negb (memZ x r) && nodupb r end.

Definition hr_ids (f : list line) : list Z :=
  flat_map (fun l => match l with LH _ _ _ i _ | LR _ _ _ i _ => [i] | _ => [] end) f.
Definition h_ids (f : list line) : list Z :=
  flat_map (fun l => match l with LH _ _ _ i _ => [i] | _ => [] end) f.
Definition contigs (f : list line) : list Z :=
  flat_map (fun l => match l with LH c _ _ _ _ | LR c _ _ _ _ => [c] | _ => [] end) f.
Definition v_haps (f : list line) : list Z :=
  flat_map (fun l => match l with LV h _ _ _ _ _ => [h] | _ => [] end) f.

(* the inputs the property quantifies over: a .hap file in the sense of the
   format description (unique haplotype/repeat IDs, every variant belongs to a
   haplotype of the file, start <= end) whose haplotype IDs differ from contigs *)
Definition wf_file (f : list line) : bool :=
  nodupb (hr_ids f)
  && forallb (fun h => memZ h (h_ids f)) (v_haps f)
  && forallb (fun i => negb (memZ i (contigs f))) (h_ids f)
  && forallb (fun l => match tbx l with Some (_, s, e) => s <=? e | None => true end) f.

(* -------- relation index: haptools.index.index_haps ---------------------- *)

Record icase := mki {
  i_sort : bool;
  i_plain : bool;                       (* plain-text input (not gzip) *)
  i_in : list line;                     (* the input file *)
  i_obs : res (list line);              (* decompressed output, or the exception *)
  i_after : option (list line);         (* the input file re-read after the run *)
  i_fetch : res (list line);            (* pysam.TabixFile(output).fetch(): every indexed line *)
  i_tbi : bool                          (* a .tbi file exists beside the output *)
}.

Definition is_version (l : line) : bool := match l with LC c => c =? VERSION_LINE | _ => false end.

(* "tabix-indexed": the .tbi is there and the index hands back every data line *)
Definition indexed_ok (k : icase) (out : list line) : bool :=
  i_tbi k && res_eqb lines_eqb (i_fetch k) (Ok (data_lines out)).

Definition unchanged_ok (k : icase) : bool :=
  negb (i_plain k) || opt_eqb lines_eqb (i_after k) (Some (i_in k)).

(* Sorted mode, a .hap file in the sense of [wf_file]: the run must succeed
   (unless a coordinate lies beyond what a .tbi can hold: then an error is the
   only honest answer) and a normal return must be a complete, accepted, indexed file.
   --no-sort: an error is admissible only when tabix cannot take the file as it
   is; a normal return - whatever the input - means every line verbatim AND indexed. *)
Definition holds_index (k : icase) : bool :=
  if i_sort k then
    if wf_file (i_in k) then
      match i_obs k with
      | Err e => (e =? E_Unobserved)     (* the harness could not observe the run: never a finding *)
                 || negb (range_okb (i_in k))
      | Ok out =>
          perm_eqb item_eqb (records (i_in k)) (records out)
          && forallb (fun l => match l with LX _ _ _ _ _ => false | _ => true end) out
          && tabix_okb out
          && indexed_ok k out
          && unchanged_ok k
      end
    else true
  else
    match i_obs k with
    | Err e => (e =? E_Unobserved) || negb (tabix_accepts (i_in k))
    | Ok out => lines_eqb out (i_in k) && indexed_ok k out && unchanged_ok k
    end.

Definition model_index (k : icase) : res (list line) := index_output (i_sort k) (i_in k).

Definition check_index (k : icase) : bool * bool :=
  (res_eqb lines_eqb (model_index k) (i_obs k)
   && match i_obs k with
      | Ok out => res_eqb lines_eqb (i_fetch k) (Ok (data_lines out))
      | Err _ => true
      end,
   holds_index k).

(* -------- relation query: Haplotypes.read(region, haplotypes) ------------ *)

Record qobs := mkqo {
  q_reg : option region;                (* what the harness meant: contig, a, b *)
  q_str : option (list Z);              (* the region string it passed (code points) *)
  q_ids : option (list Z);
  q_res : res (list (hrec * list vrec))
}.

Record qcase := mkq {
  q_file : list line;                   (* decompressed content of the indexed file *)
  q_orig : list line;                   (* the un-indexed file it was made from *)
  q_full : res (list (hrec * list vrec));   (* Haplotypes.read() of the un-indexed file *)
  q_names : names;                      (* code points of the sequence names and query contigs *)
  q_strict : bool;                      (* harness switch STRICT_COLON_CONTIGS (repaired region parser) *)
  q_queries : list qobs
}.

Definition selected (reg : option region) (ids : option (list Z)) (hv : hrec * list vrec) : bool :=
  id_ok ids (h_id (fst hv))
  && match reg with
     | Some r => (h_chrom (fst hv) =? r_contig r) && inside r (fst hv)
     | None => true
     end.

(* same haplotype/repeat, same variants in any order *)
Definition entry_sim (a b : hrec * list vrec) : bool :=
  hrec_eqb (fst a) (fst b) && perm_eqb vrec_eqb (snd a) (snd b).

(* ---- printing a region: 'c', 'c:a-' , 'c:a-b' ----------------------------- *)

Fixpoint dec_fuel (n : nat) (z : Z) : list Z :=
  match n with
  | O => [48 + z]
  | S n' => if z <? 10 then [48 + z] else dec_fuel n' (z / 10) ++ [48 + z mod 10]
  end.
(* decimal digits of z >= 0 (log2 z + 1 steps are enough) *)
Definition dec (z : Z) : list Z := dec_fuel (Z.to_nat (Z.log2 z)) z.

Definition print_reg (c : list Z) (a b : option Z) : option (list Z) :=
  match a, b with
  | None, None => Some c
  | Some a, None => Some (c ++ COLON :: dec a ++ [DASH])
  | Some a, Some b => Some (c ++ COLON :: dec a ++ DASH :: dec b)
  | None, Some _ => None
  end.

(* the table of spellings is one-to-one where it is used: looking up the
   spelling of a rank gives the rank back *)
Definition names_okb (nm : names) : bool :=
  forallb (fun tk : list Z * Z =>
             match name_of nm (snd tk) with
             | Some t => opt_eqb Z.eqb (lookup nm t) (Some (snd tk))
             | None => false
             end) nm.

Definition has_colon (s : list Z) : bool := existsb (Z.eqb COLON) s.

Definition bounds_ok (r : region) : bool :=
  match r_a r, r_b r with
  | Some a, Some b => (0 <=? a) && (a <=? b) && (1 <=? b)
  | Some a, None => 0 <=? a
  | None, _ => true
  end.

(* the string is the canonical spelling of the region the harness meant *)
Definition canonical (nm : names) (r : region) (s : list Z) : bool :=
  bounds_ok r &&
  match name_of nm (r_contig r) with
  | Some c => opt_eqb zl_eqb (print_reg c (r_a r) (r_b r)) (Some s)
  | None => false
  end.

(* which canonical regions the demand covers.
   strict (repaired parser): every one, except a bare contig name that also reads
   as <sequence name>:<text> (no parser can tell which is meant).
   default (the tree as it is): contigs without ':' whose 'c:a-b' / 'c:a-' string
   is not itself a sequence name of the file. *)
Definition in_scope (strict : bool) (nm : names) (file : list line) (r : region) (s : list Z) : bool :=
  let bare := match r_a r with None => true | Some _ => false end in
  if strict then
    negb (bare && match split_last COLON s with
                  | Some (pre, _) => is_seq nm file pre
                  | None => false
                  end)
  else
    match name_of nm (r_contig r) with
    | Some c => negb (has_colon c) && (bare || negb (is_seq nm file s))
    | None => false
    end.

(* a haplotype ID that reads as <sequence name>:<text>: htslib does not take it as a name *)
Definition risky_ids (nm : names) (file : list line) : bool :=
  existsb (fun i => match name_of nm i with
                    | Some t => match split_last COLON t with
                                | Some (pre, _) => is_seq nm file pre
                                | None => false
                                end
                    | None => true
                    end) (h_ids file).

Definition demand (full : list (hrec * list vrec)) (q : qobs) : bool :=
  match q_res q with
  | Err _ => false
  | Ok out => perm_eqb entry_sim (filter (selected (q_reg q) (q_ids q)) full) out
  end.

Definition holds_query1 (strict : bool) (nm : names) (file : list line)
    (full : list (hrec * list vrec)) (q : qobs) : bool :=
  if negb strict && risky_ids nm file then true
  else
  match q_reg q, q_str q with
  | None, None => demand full q
  | Some r, Some s =>
    if memZ (r_contig r) (contigs file) && canonical nm r s && in_scope strict nm file r s
    then demand full q else true
  | _, _ => true
  end.

Definition holds_query (k : qcase) : bool :=
  if wf_file (q_orig k) then
    match q_full k with
    | Err e => e =? E_Unobserved
    | Ok full => forallb (holds_query1 (q_strict k) (q_names k) (q_file k) full) (q_queries k)
    end
  else true.

Definition model_query1 (k : qcase) (q : qobs) : res (list (hrec * list vrec)) :=
  match q_str q with
  | Some s => read_indexed_s (q_strict k) fetch_spec (q_file k) (q_names k) s (q_ids q)
  | None => read_ids_s (q_strict k) fetch_spec (q_file k) (q_names k) (q_ids q)
  end.

Definition model_query (k : qcase) :=
  (read_plain (q_orig k) None, map (model_query1 k) (q_queries k)).

Definition check_query (k : qcase) : bool * bool :=
  (data_eqb (read_plain (q_orig k) None) (q_full k)
   && names_okb (q_names k)
   && forallb (fun q => data_eqb (model_query1 k q) (q_res q)) (q_queries k),
   holds_query k).

(* the pinned tree (legacy = true), for the corpus witness *)
Definition model_query_legacy (k : qcase) :=
  map (fun q => read_indexed true fetch_spec (q_file k) (q_reg q) (q_ids q)) (q_queries k).

(* -------- relation tabix: pysam.tabix_index / TabixFile.fetch themselves ----
   The contracts of the theorems, observed directly: [tabix_accepts] against
   tabix_index(seq_col=1, start_col=2, end_col=3) on arbitrary line orders (both
   directions: accepted AND refused), [fetch_spec] composed with [hts_region]
   against fetch(region=...).  Nothing of haptools runs here; the property makes
   no demand (holds = true): a disagreement is a broken contract. *)

Record tobs := mkto { t_str : list Z; t_res : res (list line) }.

Record tcase := mkt {
  t_file : list line;
  t_names : names;
  t_accepted : res bool;                (* Ok true: indexed; Ok false: OSError "building of index ... failed" *)
  t_all : res (list line);              (* fetch() *)
  t_queries : list tobs
}.

Definition fetch_str (f : list line) (nm : names) (s : list Z) : res (list line) :=
  bind (hts_region false nm f s) (fun kab => fetch_spec f (fst (fst kab)) (snd (fst kab)) (snd kab)).

Definition model_tabix (k : tcase) :=
  (tabix_accepts (t_file k), map (fun q => fetch_str (t_file k) (t_names k) (t_str q)) (t_queries k)).

Definition check_tabix (k : tcase) : bool * bool :=
  (res_eqb Bool.eqb (t_accepted k) (Ok (tabix_accepts (t_file k)))
   && (negb (tabix_accepts (t_file k))
       || (res_eqb lines_eqb (t_all k) (Ok (data_lines (t_file k)))
           && forallb (fun q => res_eqb lines_eqb (fetch_str (t_file k) (t_names k) (t_str q)) (t_res q))
                      (t_queries k))),
   true).
