(* C11 - boolean checkers evaluated by the correspondence run on what the
   implementation returned.  [agree] compares with the model; [holds] is the
   property itself as a finite check of the observed output against the input,
   independent of the model's sort / read functions. *)
From HV Require Import Prelude C11_Model.

Definition zl_eqb := list_eqb Z.eqb.

Definition line_eqb (x y : line) : bool :=
  match x, y with
  | LC a, LC b => a =? b
  | LH c s e i x, LH c' s' e' i' x' | LR c s e i x, LR c' s' e' i' x' =>
      (c =? c') && (s =? s') && (e =? e') && (i =? i') && zl_eqb x x'
  | LV h s e i a x, LV h' s' e' i' a' x' =>
      (h =? h') && (s =? s') && (e =? e') && (i =? i') && (a =? a') && zl_eqb x x'
  | LX t c s e x, LX t' c' s' e' x' =>
      (t =? t') && (c =? c') && (s =? s') && (e =? e') && zl_eqb x x'
  | _, _ => false
  end.

Definition hrec_eqb (a b : hrec) : bool :=
  Bool.eqb (h_rep a) (h_rep b) && (h_chrom a =? h_chrom b) && (h_start a =? h_start b)
  && (h_end a =? h_end b) && (h_id a =? h_id b).

Definition vrec_eqb (a b : vrec) : bool :=
  (v_hap a =? v_hap b) && (v_start a =? v_start b) && (v_end a =? v_end b)
  && (v_id a =? v_id b) && (v_al a =? v_al b).

Definition item_eqb (a b : item) : bool :=
  match a, b with
  | IH x, IH y => hrec_eqb x y
  | IV x, IV y => vrec_eqb x y
  | _, _ => false
  end.

Definition lines_eqb := list_eqb line_eqb.
Definition entry_eqb := pair_eqb hrec_eqb (list_eqb vrec_eqb).
Definition data_eqb := res_eqb (list_eqb entry_eqb).

(* equality of multisets, by removing one matching element at a time *)
Section Perm.
  Context {A : Type} (e : A -> A -> bool).
  Fixpoint remove1 (x : A) (l : list A) : option (list A) :=
    match l with
    | [] => None
    | y :: r => if e x y then Some r
                else match remove1 x r with Some r' => Some (y :: r') | None => None end
    end.
  Fixpoint perm_eqb (l1 l2 : list A) : bool :=
    match l1 with
    | [] => match l2 with [] => true | _ => false end
    | x :: r => match remove1 x l2 with Some l2' => perm_eqb r l2' | None => false end
    end.
End Perm.

(* the H, R and V records of a file, mandatory fields only *)
Definition records (f : list line) : list item := iter_plain f None.

Fixpoint nodupb (l : list Z) : bool :=
  match l with [] => true | x :: r => negb (memZ x r) && nodupb r end.

Definition hr_ids (f : list line) : list Z :=
  flat_map (fun l => match l with LH _ _ _ i _ | LR _ _ _ i _ => [i] | _ => [] end) f.
Definition h_ids (f : list line) : list Z :=
  flat_map (fun l => match l with LH _ _ _ i _ => [i] | _ => [] end) f.
Definition contigs (f : list line) : list Z :=
  flat_map (fun l => match l with LH c _ _ _ _ | LR c _ _ _ _ => [c] | _ => [] end) f.
Definition v_haps (f : list line) : list Z :=
  flat_map (fun l => match l with LV h _ _ _ _ _ => [h] | _ => [] end) f.

(* the inputs the property quantifies over: a .hap file in the sense of the
   format description (unique haplotype/repeat IDs, every variant belongs to a
   haplotype of the file, start <= end) whose haplotype IDs differ from contigs *)
Definition wf_file (f : list line) : bool :=
  nodupb (hr_ids f)
  && forallb (fun h => memZ h (h_ids f)) (v_haps f)
  && forallb (fun i => negb (memZ i (contigs f))) (h_ids f)
  && forallb (fun l => match tbx l with Some (_, s, e) => s <=? e | None => true end) f.

(* -------- relation index: haptools.index.index_haps ---------------------- *)

Record icase := mki {
  i_sort : bool;
  i_plain : bool;                       (* plain-text input (not gzip) *)
  i_in : list line;                     (* the input file *)
  i_obs : res (list line);              (* decompressed output, or the exception *)
  i_after : option (list line);         (* the input file re-read after the run *)
  i_fetch : res (list line)             (* pysam.TabixFile(output).fetch(): every indexed line *)
}.

Definition is_version (l : line) : bool := match l with LC c => c =? VERSION_LINE | _ => false end.

Definition holds_index (k : icase) : bool :=
  if i_sort k then
    if wf_file (i_in k) then
      match i_obs k with
      | Err e => e =? E_Unobserved      (* the harness could not observe the run: never a finding *)
      | Ok out =>
          perm_eqb item_eqb (records (i_in k)) (records out)
          && forallb (fun l => match l with LX _ _ _ _ _ => false | _ => true end) out
          && tabix_okb out
          && res_eqb lines_eqb (i_fetch k) (Ok (data_lines out))
          && (negb (i_plain k) || opt_eqb lines_eqb (i_after k) (Some (i_in k)))
      end
    else true
  else
    if tabix_okb (i_in k) then
      res_eqb lines_eqb (i_obs k) (Ok (i_in k))
      && res_eqb lines_eqb (i_fetch k) (Ok (data_lines (i_in k)))
      && (negb (i_plain k) || opt_eqb lines_eqb (i_after k) (Some (i_in k)))
    else true.

Definition model_index (k : icase) : res (list line) := index_output (i_sort k) (i_in k).

Definition check_index (k : icase) : bool * bool :=
  (res_eqb lines_eqb (model_index k) (i_obs k)
   && match i_obs k with
      | Ok out => res_eqb lines_eqb (i_fetch k) (Ok (data_lines out))
      | Err _ => true
      end,
   holds_index k).

(* -------- relation query: Haplotypes.read(region, haplotypes) ------------ *)

Record qobs := mkqo {
  q_reg : option region;
  q_ids : option (list Z);
  q_res : res (list (hrec * list vrec))
}.

Record qcase := mkq {
  q_file : list line;                   (* decompressed content of the indexed file *)
  q_orig : list line;                   (* the un-indexed file it was made from *)
  q_full : res (list (hrec * list vrec));   (* Haplotypes.read() of the un-indexed file *)
  q_queries : list qobs
}.

Definition selected (reg : option region) (ids : option (list Z)) (hv : hrec * list vrec) : bool :=
  id_ok ids (h_id (fst hv))
  && match reg with
     | Some r => (h_chrom (fst hv) =? r_contig r) && inside r (fst hv)
     | None => true
     end.

(* same haplotype/repeat, same variants in any order *)
Definition entry_sim (a b : hrec * list vrec) : bool :=
  hrec_eqb (fst a) (fst b) && perm_eqb vrec_eqb (snd a) (snd b).

Definition holds_query1 (file : list line) (full : list (hrec * list vrec)) (q : qobs) : bool :=
  let present := match q_reg q with
                 | Some r => memZ (r_contig r) (contigs file)
                 | None => true end in
  if present then
    match q_res q with
    | Err _ => false
    | Ok out => perm_eqb entry_sim (filter (selected (q_reg q) (q_ids q)) full) out
    end
  else true.

Definition holds_query (k : qcase) : bool :=
  if wf_file (q_orig k) then
    match q_full k with
    | Err e => e =? E_Unobserved
    | Ok full => forallb (holds_query1 (q_file k) full) (q_queries k)
    end
  else true.

Definition model_query (k : qcase) :=
  (read_plain (q_orig k) None,
   map (fun q => read_indexed false fetch_spec (q_file k) (q_reg q) (q_ids q)) (q_queries k)).

Definition check_query (k : qcase) : bool * bool :=
  (data_eqb (read_plain (q_orig k) None) (q_full k)
   && forallb (fun q => data_eqb (read_indexed false fetch_spec (q_file k) (q_reg q) (q_ids q)) (q_res q))
              (q_queries k),
   holds_query k).

(* the pinned tree (legacy = true), for the corpus witness *)
Definition model_query_legacy (k : qcase) :=
  map (fun q => read_indexed true fetch_spec (q_file k) (q_reg q) (q_ids q)) (q_queries k).
