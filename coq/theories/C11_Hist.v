(* C11 - histories on one output path: what an earlier `haptools index` left on disk.

   The [index] relation indexes every file into a fresh directory.  Here the output path has a
   past: a sequence of operations on ONE path <output> (+ <output>.tbi)
     index (sorted / --no-sort; input elsewhere, or the input IS <output>: a gzip input at the
     default location; input older / newer than what lies at the path) | a file written over
     <output> (gzip / bgzip: restored from a backup) | rm <output> | rm <output>.tbi
   and the last operation is the run under test.  index_haps never looks at what lies at the
   output path: shutil.copy replaces <output> and <output>.tbi.

   Model: [odisk] = the data file (its lines and whether it is BGZF-compressed) and the .tbi
   (the lines of the file it was built from; it is usable iff they are the lines of the data file).
   [index_step fixed skip]: one run.
     skip = false is the anchored code.  skip = true is a make-like variant that returns at once
     when <output> and <output>.tbi exist and the .tbi is not older than the input ("up to
     date"): refuted in C11_ProofsHist.
     fixed = false is the tree as it is: Haplotypes.__iter__ opens TabixFile(path) before it
     reads, and pysam raises NotImplementedError (not OSError / ValueError, which are caught)
     for a gzip file that is not BGZF when a .tbi lies beside it: `haptools index x.hap.gz`
     (sorted mode) of a plain-gzip file beside the .tbi of an earlier run fails.
     fixed = true: that exception means "not indexed" like the other two (fixes/C11_gzip_beside_tbi.patch).
   C11_ProofsHist: the result of a history is [index_output] of the LAST run's input, whatever
   came before. *)
From HV Require Import Prelude C11_Model C11_Check.

Definition E_Runtime : Z := 17.      (* NotImplementedError is a RuntimeError *)

Record odisk := mkod {
  od_data : option (bool * list line);   (* <output>: (BGZF-compressed, its lines); None = no file *)
  od_index : option (list line)          (* <output>.tbi: the lines of the file it was built from *)
}.

Definition disk0 : odisk := mkod None None.

(* where the input of a run lies *)
Inductive isrc :=
| Elsewhere              (* another path (plain or gzip), --output <output> or <output> = <input>.gz *)
| Here (bgzf : bool).    (* the input is written over <output> itself (gzip / bgzip) and indexed in place *)

Inductive hop :=
| HIndex (sort older : bool) (src : isrc) (f : list line)
    (* haptools index [--no-sort] of a file with lines f; older: its modification time is not
       later than that of the .tbi lying at the output path *)
| HPut (bgzf : bool) (f : list line)     (* a file written over <output>; the .tbi is not touched *)
| HRmData                                (* rm <output> *)
| HRmIndex.                              (* rm <output>.tbi *)

Definition present {A} (o : option A) : bool := match o with Some _ => true | None => false end.

(* what index_haps hands to tabix_index: the sorted rewrite, or the file as it is *)
Definition index_handed (sort : bool) (f : list line) : res (list line) :=
  if sort then bind (read_plain f None) (fun d => Ok (to_str (sort_data d))) else Ok f.

Definition place (src : isrc) (f : list line) (d : odisk) : odisk :=
  match src with
  | Here z => mkod (Some (z, f)) (od_index d)
  | Elsewhere => d
  end.

(* the sorted mode reads its input with Haplotypes.read(): a gzip (not BGZF) file beside a .tbi *)
Definition gzip_beside_tbi (sort : bool) (src : isrc) (tbi : bool) : bool :=
  sort && match src with Here false => tbi | _ => false end.

Definition index_step (fixed skip sort older : bool) (src : isrc) (f : list line) (d : odisk)
    : odisk * res unit :=
  let d1 := place src f d in
  if skip && older && present (od_data d1) && present (od_index d1) then (d1, Ok tt)
  else if negb fixed && gzip_beside_tbi sort src (present (od_index d1)) then (d1, Err E_Runtime)
  else
    match index_handed sort f with
    | Err e => (d1, Err e)                       (* reading failed: nothing was written *)
    | Ok h =>
        if tabix_accepts h then (mkod (Some (true, h)) (Some h), Ok tt)
        else (mkod (Some (true, h)) (od_index d1), Err E_OS)
             (* tabix_index compressed the file and refused to index it: the .gz is copied to
                <output>, copying the .tbi raises FileNotFoundError; an earlier .tbi stays *)
    end.

(* the state of the path and the outcome of the latest run *)
Definition step (fixed skip : bool) (s : odisk * res unit) (o : hop) : odisk * res unit :=
  let d := fst s in
  match o with
  | HIndex sort older src f => index_step fixed skip sort older src f d
  | HPut z f => (mkod (Some (z, f)) (od_index d), snd s)
  | HRmData => (mkod None (od_index d), snd s)
  | HRmIndex => (mkod (od_data d) None, snd s)
  end.

Definition run (fixed skip : bool) (d : odisk) (ops : list hop) : odisk * res unit :=
  fold_left (step fixed skip) ops (d, Ok tt).

(* the history and the run under test *)
Definition split_run (ops : list hop) : option (list hop * (bool * bool * isrc * list line)) :=
  match rev ops with
  | HIndex sort older src f :: h => Some (rev h, (sort, older, src, f))
  | _ => None
  end.

(* ---- the relation ------------------------------------------------------------- *)

Record hcase := mkhc {
  hc_fixed : bool;                  (* harness switch STRICT_GZIP_BESIDE_TBI *)
  hc_ops : list hop;                (* everything that happened to the output path; the last one is the run under test *)
  hc_plain : bool;                  (* the input of the last run is a plain-text file *)
  hc_tbi_before : bool;             (* observed: a .tbi lay at the output path when the last run began *)
  hc_ret : res unit;                (* observed: the last run returned / raised *)
  hc_data : option (list line);     (* observed: <output> decompressed, in the end; None = no file *)
  hc_tbi : bool;                    (* observed: <output>.tbi exists in the end *)
  hc_fetch : res (list line);       (* observed: pysam.TabixFile(<output>).fetch() after a normal return *)
  hc_after : option (list line);    (* observed: the plain input of the last run, re-read afterwards *)
  hc_full : res (list (hrec * list vrec));   (* observed: Haplotypes.read() of an un-indexed copy of the last input *)
  hc_names : names;
  hc_strict : bool;                 (* harness switch STRICT_COLON_CONTIGS *)
  hc_queries : list qobs            (* observed: Haplotypes.read(region, haplotypes) on <output> *)
}.

Definition unit_eqb (a b : unit) : bool := true.

(* what the last run produced, as the [index] relation sees it: a normal return without a file
   at the output path is an error of the run *)
Definition hist_obs (k : hcase) : res (list line) :=
  match hc_ret k with
  | Err e => Err e
  | Ok _ => match hc_data k with Some out => Ok out | None => Err E_OS end
  end.

Definition as_icase (k : hcase) (sort : bool) (f : list line) : icase :=
  mki sort (hc_plain k) f (hist_obs k) (hc_after k) (hc_fetch k) (hc_tbi k).

Definition as_qcase (k : hcase) (f out : list line) : qcase :=
  mkq out f (hc_full k) (hc_names k) (hc_strict k) (hc_queries k).

Definition model_hist (k : hcase) : odisk * res unit := run (hc_fixed k) false disk0 (hc_ops k).

Definition agree_hist (k : hcase) : bool :=
  let '(d, r) := model_hist k in
  res_eqb unit_eqb r (hc_ret k)
  && opt_eqb lines_eqb (option_map snd (od_data d)) (hc_data k)
  && Bool.eqb (present (od_index d)) (hc_tbi k)
  && match split_run (hc_ops k) with
     | Some (hist, (_, _, _, f)) =>
         Bool.eqb (present (od_index (fst (run (hc_fixed k) false disk0 hist)))) (hc_tbi_before k)
         && match r, od_data d with
            | Ok _, Some (_, out) =>
                res_eqb lines_eqb (hc_fetch k) (Ok (data_lines out)) && fst (check_query (as_qcase k f out))
            | _, _ => true
            end
     | None => false
     end.

Definition unobserved (k : hcase) : bool :=
  match hc_ret k with Err e => e =? E_Unobserved | Ok _ => false end.

(* the property, on the LAST run: exactly the demands of the [index] and [query] relations with
   the last input in the place of "the input" - whatever lay at the output path before.
   The tree as it is (hc_fixed = false) makes no demand for a sorted in-place run on a gzip
   file that found a .tbi beside it (observed, not taken from the model). *)
Definition holds_hist (k : hcase) : bool :=
  if unobserved k then true
  else
    match split_run (hc_ops k) with
    | Some (_, (sort, _, src, f)) =>
        if negb (hc_fixed k) && gzip_beside_tbi sort src (hc_tbi_before k) then true
        else
          holds_index (as_icase k sort f)
          && match hist_obs k with
             | Ok out => holds_query (as_qcase k f out)
             | Err _ => true
             end
    | None => true
    end.

Definition check_hist (k : hcase) : bool * bool := (agree_hist k, holds_hist k).
