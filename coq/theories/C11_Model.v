(* C11 - executable model of haptools/index.py (index_haps) and of the parts of
   haptools/data/haplotypes.py it relies on: Haplotype/Repeat/Variant.__lt__,
   Haplotype.sort, Haplotypes.sort, Haplotypes.to_str/write (base classes, no
   extra fields), Haplotypes.__iter__ (plain and indexed branch), _iter_haps and
   Haplotypes.read.  No proofs here.

   Strings (contigs, IDs, alleles, extra-field tokens) are order-preserving
   ranks computed by the harness (Python compares str by code point; the model
   compares the ranks), positions are the parsed integers.  A '#' line is an
   opaque token; token 0 is the line "#\tversion\t0.2.0" that to_str emits. *)
From HV Require Import Prelude.

Definition E_Value : Z := 1.
Definition E_Key : Z := 3.
Definition E_Attr : Z := 5.
Definition E_OS : Z := 15.

Inductive line :=
| LC (c : Z)                                   (* line starting with '#' *)
| LH (chrom s e id : Z) (ex : list Z)          (* H <chrom> <start> <end> <id> [extras] *)
| LR (chrom s e id : Z) (ex : list Z)          (* R ... *)
| LV (hap s e id al : Z) (ex : list Z)         (* V <hap> <start> <end> <id> <allele> [extras] *)
| LX (t seq s e : Z) (ex : list Z).            (* any other first column *)

Record hrec := mkh { h_rep : bool; h_chrom : Z; h_start : Z; h_end : Z; h_id : Z }.
Record vrec := mkv { v_hap : Z; v_start : Z; v_end : Z; v_id : Z; v_al : Z }.

(* ---- orderings: Haplotype.__lt__ = Repeat.__lt__, Variant.__lt__ --------- *)

Definition h_ltb (a b : hrec) : bool :=
  if h_chrom a =? h_chrom b then
    if h_start a =? h_start b then
      if h_end a =? h_end b then h_id a <? h_id b
      else h_end a <? h_end b
    else h_start a <? h_start b
  else h_chrom a <? h_chrom b.

Definition v_ltb (a b : vrec) : bool :=
  if v_start a =? v_start b then
    if v_end a =? v_end b then v_id a <? v_id b
    else v_end a <? v_end b
  else v_start a <? v_start b.

(* sorted(): a stable sort that only ever asks [y < x]; insertion sort is the
   reference (any stable comparison sort returns the same list) *)
Section Sort.
  Context {A : Type} (ltb : A -> A -> bool).
  Fixpoint insert (x : A) (l : list A) : list A :=
    match l with
    | [] => [x]
    | y :: r => if ltb y x then y :: insert x r else x :: y :: r
    end.
  Fixpoint isort (l : list A) : list A :=
    match l with
    | [] => []
    | x :: r => insert x (isort r)
    end.
End Sort.

(* ---- a python dict keyed by id: first position, last value -------------- *)

Fixpoint dict_set (h : hrec) (d : list hrec) : list hrec :=
  match d with
  | [] => [h]
  | x :: r => if h_id x =? h_id h then h :: r else x :: dict_set h r
  end.

Definition dict_of (l : list hrec) : list hrec :=
  fold_left (fun d h => dict_set h d) l [].

Definition memZ (x : Z) (l : list Z) : bool := existsb (Z.eqb x) l.

(* ---- Haplotypes.__iter__ yields Haplotype/Repeat objects and Variants ---- *)

Inductive item := IH (h : hrec) | IV (v : vrec).

Definition id_ok (ids : option (list Z)) (i : Z) : bool :=
  match ids with None => true | Some l => memZ i l end.

(* un-indexed branch: every line in file order, filtered by ID only *)
Definition plain_item (ids : option (list Z)) (l : line) : list item :=
  match l with
  | LH c s e i _ => if id_ok ids i then [IH (mkh false c s e i)] else []
  | LR c s e i _ => if id_ok ids i then [IH (mkh true c s e i)] else []
  | LV h s e i a _ => if id_ok ids h then [IV (mkv h s e i a)] else []
  | LC _ | LX _ _ _ _ _ => []
  end.

Definition iter_plain (f : list line) (ids : option (list Z)) : list item :=
  flat_map (plain_item ids) f.

(* Haplotypes.read: data[id] = object; variants grouped by haplotype ID and
   attached afterwards (KeyError if a variant names an ID that was not read) *)
Definition get_h (x : item) : list hrec := match x with IH h => [h] | IV _ => [] end.
Definition get_v (x : item) : list vrec := match x with IV v => [v] | IH _ => [] end.

Definition vars_for (i : Z) (vs : list vrec) : list vrec :=
  filter (fun v => v_hap v =? i) vs.

Definition collect (items : list item) : res (list (hrec * list vrec)) :=
  let hrs := dict_of (flat_map get_h items) in
  let vs := flat_map get_v items in
  if forallb (fun v => memZ (v_hap v) (map h_id hrs)) vs
  then Ok (map (fun h => (h, vars_for (h_id h) vs)) hrs)
  else Err E_Key.

Definition read_plain (f : list line) (ids : option (list Z)) : res (list (hrec * list vrec)) :=
  collect (iter_plain f ids).

(* ---- tabix ------------------------------------------------------------- *)

(* what tabix sees of a line (seq_col=1,start_col=2,end_col=3, meta char '#') *)
Definition tbx (l : line) : option (Z * Z * Z) :=
  match l with
  | LC _ => None
  | LH c s e _ _ | LR c s e _ _ => Some (c, s, e)
  | LV h s e _ _ _ => Some (h, s, e)
  | LX _ q s e _ => Some (q, s, e)
  end.

Definition is_data (l : line) : bool := match tbx l with Some _ => true | None => false end.
Definition data_lines (f : list line) : list line := filter is_data f.

Definition seq_is (q : Z) (l : line) : bool :=
  match tbx l with Some (c, _, _) => c =? q | None => false end.

(* accepted by tabix_index: every sequence name occupies one contiguous block,
   starts never decrease inside a block, no record ends before it begins *)
Fixpoint tabix_walk (seen : list Z) (cur : option (Z * Z)) (ls : list line) : bool :=
  match ls with
  | [] => true
  | l :: r =>
    match tbx l with
    | None => tabix_walk seen cur r
    | Some (q, s, e) =>
      (s - 1 <=? e) &&
      match cur with
      | None => tabix_walk seen (Some (q, s)) r
      | Some (c, last) =>
        if q =? c then (last <=? s) && tabix_walk seen (Some (q, s)) r
        else negb (memZ q (c :: seen)) && tabix_walk (c :: seen) (Some (q, s)) r
      end
    end
  end.

Definition tabix_okb (f : list line) : bool := tabix_walk [] None f.

(* a .tbi index (min_shift 14, 5 levels) covers 2^29 positions: hts_idx_check_range
   refuses a record whose end lies beyond ("cannot be stored in a tbi index") *)
Definition TBI_MAX : Z := 536870912.

Definition range_okb (f : list line) : bool :=
  forallb (fun l => match tbx l with Some (_, _, e) => e <=? TBI_MAX | None => true end) f.

(* tabix_index succeeds: the order is accepted and every record fits the index *)
Definition tabix_accepts (f : list line) : bool := tabix_okb f && range_okb f.

(* 1-based closed query [a,b] against a 1-based closed record [s,e] *)
Definition overlaps (a b : option Z) (s e : Z) : bool :=
  match b with Some b => s <=? b | None => true end
  && match a with Some a => a <=? e | None => true end.

Definition hit (q : Z) (a b : option Z) (l : line) : bool :=
  match tbx l with Some (c, s, e) => (c =? q) && overlaps a b s e | None => false end.

(* TabixFile.fetch on a file tabix accepted: the overlapping data lines of the
   sequence, in file order; ValueError for a sequence name not in the index.
   This is the reference instance of the contract the theorems assume. *)
Definition fetch_spec (f : list line) (q : Z) (a b : option Z) : res (list line) :=
  if existsb (seq_is q) f then Ok (filter (hit q a b) f) else Err E_Value.

(* ---- indexed branch of __iter__ / _iter_haps ---------------------------- *)

Record region := mkreg { r_contig : Z; r_a : option Z; r_b : option Z }.
(* 'c' = (c, None, None); 'c:a-b' = (c, Some a, Some b); 'c:a-' and 'c:a' = (c, Some a, None) *)

Definition inside (r : region) (h : hrec) : bool :=
  match r_a r, r_b r with
  | Some a, Some b => negb ((h_start h <? a) || (b <? h_end h))
  | Some a, None => negb (h_start h <? a)
  | None, _ => true
  end.

Section Indexed.
  (* [legacy = true]: the pinned tree, where fetching the variants of a
     haplotype that has none raises ValueError out of the generator *)
  Variable legacy : bool.
  Variable fetch : list line -> Z -> option Z -> option Z -> res (list line).
  Variable f : list line.

  Definition var_of_line (l : line) : list item :=
    match l with LV h s e i a _ => [IV (mkv h s e i a)] | _ => [] end.

  (* the inner loop: for line in haps_file.fetch(reference=hap.id) *)
  Definition variants_of (h : hrec) : res (list item) :=
    if h_rep h then Ok []
    else match fetch f (h_id h) None None with
         | Ok ls => Ok (flat_map (fun l => match l with
                                            | LV _ s e i a _ => [IV (mkv (h_id h) s e i a)]
                                            | _ => [] end) ls)
         | Err k => if legacy then Err k else Ok []
         end.

  Definition emit (h : hrec) (rest : res (list item)) : res (list item) :=
    bind (variants_of h) (fun vs => bind rest (fun tl => Ok (IH h :: vs ++ tl))).

  (* region given: the lines tabix returned for the region *)
  Fixpoint iter_region (r : region) (ids : option (list Z)) (ls : list line) : res (list item) :=
    match ls with
    | [] => Ok []
    | l :: rest =>
      match l with
      | LH c s e i _ | LR c s e i _ =>
        let h := mkh (match l with LR _ _ _ _ _ => true | _ => false end) c s e i in
        if negb (id_ok ids i) then iter_region r ids rest
        else if negb (inside r h) then iter_region r ids rest
        else emit h (iter_region r ids rest)
      | LV _ _ _ _ _ _ => Err E_Attr            (* from_hap_spec returned a tuple *)
      | LC _ | LX _ _ _ _ _ => Err E_Key        (* self.types[None] *)
      end
    end.

  (* IDs only: every data line in file order, stop once all IDs were seen *)
  Fixpoint iter_ids (ids : list Z) (count : Z) (ls : list line) : res (list item) :=
    match ls with
    | [] => Ok []
    | l :: rest =>
      match l with
      | LH c s e i _ | LR c s e i _ =>
        let h := mkh (match l with LR _ _ _ _ _ => true | _ => false end) c s e i in
        if memZ i ids then
          emit h (if count + 1 =? lenZ ids then Ok [] else iter_ids ids (count + 1) rest)
        else if count =? lenZ ids then Ok [] else iter_ids ids count rest
      | _ => if count =? lenZ ids then Ok [] else iter_ids ids count rest
      end
    end.

  Definition iter_indexed (reg : option region) (ids : option (list Z)) : res (list item) :=
    match reg with
    | Some r =>
      match fetch f (r_contig r) (r_a r) (r_b r) with
      | Err _ => Ok (iter_plain f ids)          (* "not indexed": plain reading, region ignored *)
      | Ok ls => iter_region r ids ls
      end
    | None =>
      match ids with
      | None | Some [] => Ok (iter_plain f ids)
      | Some l => iter_ids l 0 (data_lines f)
      end
    end.

  Definition read_indexed (reg : option region) (ids : option (list Z)) : res (list (hrec * list vrec)) :=
    bind (iter_indexed reg ids) collect.
End Indexed.

(* ---- Haplotypes.sort, to_str, index_haps -------------------------------- *)

Definition sort_data (d : list (hrec * list vrec)) : list (hrec * list vrec) :=
  map (fun hv : hrec * list vrec =>
         (fst hv, if h_rep (fst hv) then snd hv else isort v_ltb (snd hv)))
      (isort (fun a b => h_ltb (fst a) (fst b)) d).

Definition VERSION_LINE : Z := 0.

Definition hr_line (h : hrec) : line :=
  if h_rep h then LR (h_chrom h) (h_start h) (h_end h) (h_id h) []
  else LH (h_chrom h) (h_start h) (h_end h) (h_id h) [].

Definition v_line (hap : Z) (v : vrec) : line := LV hap (v_start v) (v_end v) (v_id v) (v_al v) [].

(* header, then every H/R line in data order, then the variants of the
   haplotypes (not repeats) in ascending order of haplotype ID *)
Definition to_str (d : list (hrec * list vrec)) : list line :=
  LC VERSION_LINE
  :: map (fun hv => hr_line (fst hv)) d
  ++ flat_map (fun hv : hrec * list vrec => map (v_line (h_id (fst hv))) (snd hv))
       (isort (fun a b : hrec * list vrec => h_id (fst a) <? h_id (fst b))
              (filter (fun hv : hrec * list vrec => negb (h_rep (fst hv))) d)).

(* index_haps: the lines of the bgzip-compressed output; FileNotFoundError when
   tabix refuses the file (the .tbi that is to be copied does not exist) *)
Definition index_output (sort : bool) (f : list line) : res (list line) :=
  if sort then
    bind (read_plain f None) (fun d =>
      let out := to_str (sort_data d) in
      if tabix_accepts out then Ok out else Err E_OS)
  else if tabix_accepts f then Ok f else Err E_OS.

(* ---- region strings ------------------------------------------------------
   Strings are lists of code points here.  Two parsers read the same string:
   _iter_haps (Python: positions for the containment filter) and htslib
   (hts_parse_region behind TabixFile.fetch(region=...): which lines come back).
   [names] maps the code points of a string to its rank. *)

Definition COLON : Z := 58.
Definition DASH : Z := 45.
Definition PLUS : Z := 43.

(* str.split(sep, maxsplit=1) / str.rsplit(sep, maxsplit=1); None: no separator *)
Fixpoint split_first (sep : Z) (s : list Z) : option (list Z * list Z) :=
  match s with
  | [] => None
  | c :: r => if c =? sep then Some ([], r)
              else match split_first sep r with
                   | Some (a, b) => Some (c :: a, b)
                   | None => None
                   end
  end.

Fixpoint split_last (sep : Z) (s : list Z) : option (list Z * list Z) :=
  match s with
  | [] => None
  | c :: r => match split_last sep r with
              | Some (a, b) => Some (c :: a, b)
              | None => if c =? sep then Some ([], r) else None
              end
  end.

Definition is_digit (c : Z) : bool := (48 <=? c) && (c <=? 57).

Definition digits_val (s : list Z) : option Z :=
  match s with
  | [] => None
  | _ => if forallb is_digit s then Some (fold_left (fun a c => a * 10 + (c - 48)) s 0) else None
  end.

(* int(str) on [+-]?[0-9]+; anything else ValueError.  (int() also accepts
   surrounding white space, '_' between digits and non-ASCII digits: the harness
   marks a region string containing such characters as unobserved.) *)
Definition py_int (s : list Z) : option Z :=
  match s with
  | [] => None
  | c :: r => if c =? DASH then option_map Z.opp (digits_val r)
              else if c =? PLUS then digits_val r
              else digits_val s
  end.

(* region[1].split("-", 1); drop an empty second part; list(map(int, region)) *)
Definition py_bounds (p : list Z) : res (option Z * option Z) :=
  match split_first DASH p with
  | None => match py_int p with Some a => Ok (Some a, None) | None => Err E_Value end
  | Some (x, y) =>
    match y with
    | [] => match py_int x with Some a => Ok (Some a, None) | None => Err E_Value end
    | _ => match py_int x, py_int y with
           | Some a, Some b => Ok (Some a, Some b)
           | _, _ => Err E_Value
           end
    end
  end.

Definition names := list (list Z * Z).

Fixpoint lookup (nm : names) (s : list Z) : option Z :=
  match nm with
  | [] => None
  | (t, k) :: r => if list_eqb Z.eqb t s then Some k else lookup r s
  end.

(* the string names a sequence of the index of [f] *)
Definition seq_of (nm : names) (f : list line) (s : list Z) : option Z :=
  match lookup nm s with
  | Some k => if existsb (seq_is k) f then Some k else None
  | None => None
  end.

Definition is_seq (nm : names) (f : list line) (s : list Z) : bool :=
  match seq_of nm f s with Some _ => true | None => false end.

(* [fixed = false]: the tree as it is: positions follow the FIRST colon.
   [fixed = true]: fixes/C11_colon_contigs.patch: like htslib, the whole string is
   a sequence name if there is one of that name and the text before the last
   colon is not one; otherwise positions follow the LAST colon.
   Result: the text that holds the positions, if any. *)
Definition whole_name (nm : names) (f : list line) (s : list Z) : bool :=
  is_seq nm f s && match split_last COLON s with
                   | Some (pre, _) => negb (is_seq nm f pre)
                   | None => true
                   end.

Definition pos_part (fixed : bool) (nm : names) (f : list line) (s : list Z) : option (list Z) :=
  if fixed then
    if whole_name nm f s then None
    else match split_last COLON s with
         | Some (_, (_ :: _) as p) => Some p
         | _ => None
         end
  else match split_first COLON s with
       | Some (_, (_ :: _) as p) => Some p
       | _ => None
       end.

Definition py_region (fixed : bool) (nm : names) (f : list line) (s : list Z) : res (option Z * option Z) :=
  match pos_part fixed nm f s with
  | None => Ok (None, None)
  | Some p => py_bounds p
  end.

(* htslib on the text after the colon, for "", "a", "a-", "a-b" with plain
   digits; other spellings (',', exponents, signs, braces) are not modelled *)
Definition hts_pos (p : list Z) : res (option Z * option Z) :=
  match p with
  | [] => Ok (None, None)
  | _ =>
    match split_first DASH p with
    | None => match digits_val p with Some a => Ok (Some a, None) | None => Err E_Unobserved end
    | Some (x, y) =>
      match digits_val x with
      | None => Err E_Unobserved
      | Some a =>
        match y with
        | [] => Ok (Some a, None)
        | _ => match digits_val y with
               | Some b => if b =? 0 then Ok (Some a, None)      (* end 0: "interpret chr:100- as chr:100-<end>" *)
                           else if b <? a then Err E_Value else Ok (Some a, Some b)
               | None => Err E_Unobserved
               end
        end
      end
    end
  end.

(* hts_parse_region: the whole string is tried as a name first (refused as
   ambiguous when the text before the last colon is a name, too); otherwise
   name = text before the last colon.  The repaired code asks for "{pre}:pos"
   in the ambiguous case, which htslib reads as written. *)
Definition hts_region (fixed : bool) (nm : names) (f : list line) (s : list Z)
  : res (Z * option Z * option Z) :=
  match split_last COLON s with
  | None => match seq_of nm f s with Some k => Ok (k, None, None) | None => Err E_Value end
  | Some (pre, p) =>
    match seq_of nm f s, seq_of nm f pre with
    | Some k, None => Ok (k, None, None)
    | Some _, Some k' => if fixed then bind (hts_pos p) (fun ab => Ok (k', fst ab, snd ab))
                         else Err E_Value
    | None, Some k' => bind (hts_pos p) (fun ab => Ok (k', fst ab, snd ab))
    | None, None => Err E_Value
    end
  end.

Fixpoint name_of (nm : names) (k : Z) : option (list Z) :=
  match nm with
  | [] => None
  | (t, k') :: r => if k =? k' then Some t else name_of r k
  end.

(* _iter_haps / the ID loop with the variant lookup left open *)
Section IndexedG.
  Variable vof : hrec -> res (list item).

  Definition emit_g (h : hrec) (rest : res (list item)) : res (list item) :=
    bind (vof h) (fun vs => bind rest (fun tl => Ok (IH h :: vs ++ tl))).

  Fixpoint iter_region_g (r : region) (ids : option (list Z)) (ls : list line) : res (list item) :=
    match ls with
    | [] => Ok []
    | l :: rest =>
      match l with
      | LH c s e i _ | LR c s e i _ =>
        let h := mkh (match l with LR _ _ _ _ _ => true | _ => false end) c s e i in
        if negb (id_ok ids i) then iter_region_g r ids rest
        else if negb (inside r h) then iter_region_g r ids rest
        else emit_g h (iter_region_g r ids rest)
      | LV _ _ _ _ _ _ => Err E_Attr
      | LC _ | LX _ _ _ _ _ => Err E_Key
      end
    end.

  Fixpoint iter_ids_g (ids : list Z) (count : Z) (ls : list line) : res (list item) :=
    match ls with
    | [] => Ok []
    | l :: rest =>
      match l with
      | LH c s e i _ | LR c s e i _ =>
        let h := mkh (match l with LR _ _ _ _ _ => true | _ => false end) c s e i in
        if memZ i ids then
          emit_g h (if count + 1 =? lenZ ids then Ok [] else iter_ids_g ids (count + 1) rest)
        else if count =? lenZ ids then Ok [] else iter_ids_g ids count rest
      | _ => if count =? lenZ ids then Ok [] else iter_ids_g ids count rest
      end
    end.
End IndexedG.

Section IndexedStr.
  Variable fixed : bool.
  Variable fetch : list line -> Z -> option Z -> option Z -> res (list line).
  Variable f : list line.
  Variable nm : names.

  (* for line in haps_file.fetch(reference=hap.id): pysam hands the ID to
     hts_parse_region as a region string, so an ID "<sequence name>:<text>" is
     refused as ambiguous (ValueError -> "the haplotype has no variants") or read
     as positions on that other sequence.  The repaired code asks for "{ID}". *)
  Definition variants_of_s (h : hrec) : res (list item) :=
    if h_rep h then Ok []
    else
      match name_of nm (h_id h) with
      | None => Err E_Unobserved
      | Some t =>
        match (if fixed
               then match seq_of nm f t with Some k => Ok (k, None, None) | None => Err E_Value end
               else hts_region false nm f t) with
        | Err k => if k =? E_Unobserved then Err k else Ok []
        | Ok (k, a, b) =>
          match fetch f k a b with
          | Ok ls => Ok (flat_map (fun l => match l with
                                            | LV _ s e i al _ => [IV (mkv (h_id h) s e i al)]
                                            | _ => [] end) ls)
          | Err _ => Ok []
          end
        end
      end.

  (* Haplotypes.read(region=s, haplotypes=ids) on an indexed file, s non-empty *)
  Definition read_indexed_s (s : list Z) (ids : option (list Z)) : res (list (hrec * list vrec)) :=
    match hts_region fixed nm f s with
    | Err k => if k =? E_Unobserved then Err k
               else collect (iter_plain f ids)         (* "not indexed": region ignored *)
    | Ok (k, ha, hb) =>
      match py_region fixed nm f s with
      | Err e => Err e                                  (* int() raised ValueError *)
      | Ok (pa, pb) =>
        match fetch f k ha hb with
        | Err e => Err e
        | Ok ls => bind (iter_region_g variants_of_s (mkreg k pa pb) ids ls) collect
        end
      end
    end.

  (* Haplotypes.read(haplotypes=ids) on an indexed file *)
  Definition read_ids_s (ids : option (list Z)) : res (list (hrec * list vrec)) :=
    match ids with
    | None | Some [] => collect (iter_plain f ids)
    | Some l => bind (iter_ids_g variants_of_s l 0 (data_lines f)) collect
    end.
End IndexedStr.
