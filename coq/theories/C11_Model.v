(* C11 - executable model of haptools/index.py (index_haps) and of the parts of
   haptools/data/haplotypes.py it relies on: Haplotype/Repeat/Variant.__lt__,
   Haplotype.sort, Haplotypes.sort, Haplotypes.to_str/write (base classes, no
   extra fields), Haplotypes.__iter__ (plain and indexed branch), _iter_haps and
   Haplotypes.read.  No proofs here.

   Strings (contigs, IDs, alleles, extra-field tokens) are order-preserving
   ranks computed by the harness (Python compares str by code point; the model
   compares the ranks), positions are the parsed integers.  A '#' line is an
   opaque token; token 0 is the line "#\tversion\t0.2.0" that to_str emits. *)
From HV Require Import Prelude.

Definition E_Value : Z := 1.
Definition E_Key : Z := 3.
Definition E_Attr : Z := 5.
Definition E_OS : Z := 15.

Inductive line :=
| LC (c : Z)                                   (* line starting with '#' *)
| LH (chrom s e id : Z) (ex : list Z)          (* H <chrom> <start> <end> <id> [extras] *)
| LR (chrom s e id : Z) (ex : list Z)          (* R ... *)
| LV (hap s e id al : Z) (ex : list Z)         (* V <hap> <start> <end> <id> <allele> [extras] *)
| LX (t seq s e : Z) (ex : list Z).            (* any other first column *)

Record hrec := mkh { h_rep : bool; h_chrom : Z; h_start : Z; h_end : Z; h_id : Z }.
Record vrec := mkv { v_hap : Z; v_start : Z; v_end : Z; v_id : Z; v_al : Z }.

(* ---- orderings: Haplotype.__lt__ = Repeat.__lt__, Variant.__lt__ --------- *)

Definition h_ltb (a b : hrec) : bool :=
  if h_chrom a =? h_chrom b then
    if h_start a =? h_start b then
      if h_end a =? h_end b then h_id a <? h_id b
      else h_end a <? h_end b
    else h_start a <? h_start b
  else h_chrom a <? h_chrom b.

Definition v_ltb (a b : vrec) : bool :=
  if v_start a =? v_start b then
    if v_end a =? v_end b then v_id a <? v_id b
    else v_end a <? v_end b
  else v_start a <? v_start b.

(* sorted(): a stable sort that only ever asks [y < x]; insertion sort is the
   reference (any stable comparison sort returns the same list) *)
Section Sort.
  Context {A : Type} (ltb : A -> A -> bool).
  Fixpoint insert (x : A) (l : list A) : list A :=
    match l with
    | [] => [x]
    | y :: r => if ltb y x then y :: insert x r else x :: y :: r
    end.
  Fixpoint isort (l : list A) : list A :=
    match l with
    | [] => []
    | x :: r => insert x (isort r)
    end.
End Sort.

(* ---- a python dict keyed by id: first position, last value -------------- *)

Fixpoint dict_set (h : hrec) (d : list hrec) : list hrec :=
  match d with
  | [] => [h]
  | x :: r => if h_id x =? h_id h then h :: r else x :: dict_set h r
  end.

Definition dict_of (l : list hrec) : list hrec :=
  fold_left (fun d h => dict_set h d) l [].

Definition memZ (x : Z) (l : list Z) : bool := existsb (Z.eqb x) l.

(* ---- Haplotypes.__iter__ yields Haplotype/Repeat objects and Variants ---- *)

Inductive item := IH (h : hrec) | IV (v : vrec).

Definition id_ok (ids : option (list Z)) (i : Z) : bool :=
  match ids with None => true | Some l => memZ i l end.

(* un-indexed branch: every line in file order, filtered by ID only *)
Definition plain_item (ids : option (list Z)) (l : line) : list item :=
  match l with
  | LH c s e i _ => if id_ok ids i then [IH (mkh false c s e i)] else []
  | LR c s e i _ => if id_ok ids i then [IH (mkh true c s e i)] else []
  | LV h s e i a _ => if id_ok ids h then [IV (mkv h s e i a)] else []
  | LC _ | LX _ _ _ _ _ => []
  end.

Definition iter_plain (f : list line) (ids : option (list Z)) : list item :=
  flat_map (plain_item ids) f.

(* Haplotypes.read: data[id] = object; variants grouped by haplotype ID and
   attached afterwards (KeyError if a variant names an ID that was not read) *)
Definition get_h (x : item) : list hrec := match x with IH h => [h] | IV _ => [] end.
Definition get_v (x : item) : list vrec := match x with IV v => [v] | IH _ => [] end.

Definition vars_for (i : Z) (vs : list vrec) : list vrec :=
  filter (fun v => v_hap v =? i) vs.

Definition collect (items : list item) : res (list (hrec * list vrec)) :=
  let hrs := dict_of (flat_map get_h items) in
  let vs := flat_map get_v items in
  if forallb (fun v => memZ (v_hap v) (map h_id hrs)) vs
  then Ok (map (fun h => (h, vars_for (h_id h) vs)) hrs)
  else Err E_Key.

Definition read_plain (f : list line) (ids : option (list Z)) : res (list (hrec * list vrec)) :=
  collect (iter_plain f ids).

(* ---- tabix ------------------------------------------------------------- *)

(* what tabix sees of a line (seq_col=1,start_col=2,end_col=3, meta char '#') *)
Definition tbx (l : line) : option (Z * Z * Z) :=
  match l with
  | LC _ => None
  | LH c s e _ _ | LR c s e _ _ => Some (c, s, e)
  | LV h s e _ _ _ => Some (h, s, e)
  | LX _ q s e _ => Some (q, s, e)
  end.

Definition is_data (l : line) : bool := match tbx l with Some _ => true | None => false end.
Definition data_lines (f : list line) : list line := filter is_data f.

Definition seq_is (q : Z) (l : line) : bool :=
  match tbx l with Some (c, _, _) => c =? q | None => false end.

(* accepted by tabix_index: every sequence name occupies one contiguous block,
   starts never decrease inside a block, no record ends before it begins *)
Fixpoint tabix_walk (seen : list Z) (cur : option (Z * Z)) (ls : list line) : bool :=
  match ls with
  | [] => true
  | l :: r =>
    match tbx l with
    | None => tabix_walk seen cur r
    | Some (q, s, e) =>
      (s - 1 <=? e) &&
      match cur with
      | None => tabix_walk seen (Some (q, s)) r
      | Some (c, last) =>
        if q =? c then (last <=? s) && tabix_walk seen (Some (q, s)) r
        else negb (memZ q (c :: seen)) && tabix_walk (c :: seen) (Some (q, s)) r
      end
    end
  end.

Definition tabix_okb (f : list line) : bool := tabix_walk [] None f.

(* 1-based closed query [a,b] against a 1-based closed record [s,e] *)
Definition overlaps (a b : option Z) (s e : Z) : bool :=
  match b with Some b => s <=? b | None => true end
  && match a with Some a => a <=? e | None => true end.

Definition hit (q : Z) (a b : option Z) (l : line) : bool :=
  match tbx l with Some (c, s, e) => (c =? q) && overlaps a b s e | None => false end.

(* TabixFile.fetch on a file tabix accepted: the overlapping data lines of the
   sequence, in file order; ValueError for a sequence name not in the index.
   This is the reference instance of the contract the theorems assume. *)
Definition fetch_spec (f : list line) (q : Z) (a b : option Z) : res (list line) :=
  if existsb (seq_is q) f then Ok (filter (hit q a b) f) else Err E_Value.

(* ---- indexed branch of __iter__ / _iter_haps ---------------------------- *)

Record region := mkreg { r_contig : Z; r_a : option Z; r_b : option Z }.
(* 'c' = (c, None, None); 'c:a-b' = (c, Some a, Some b); 'c:a-' and 'c:a' = (c, Some a, None) *)

Definition inside (r : region) (h : hrec) : bool :=
  match r_a r, r_b r with
  | Some a, Some b => negb ((h_start h <? a) || (b <? h_end h))
  | Some a, None => negb (h_start h <? a)
  | None, _ => true
  end.

Section Indexed.
  (* [legacy = true]: the pinned tree, where fetching the variants of a
     haplotype that has none raises ValueError out of the generator *)
  Variable legacy : bool.
  Variable fetch : list line -> Z -> option Z -> option Z -> res (list line).
  Variable f : list line.

  Definition var_of_line (l : line) : list item :=
    match l with LV h s e i a _ => [IV (mkv h s e i a)] | _ => [] end.

  (* the inner loop: for line in haps_file.fetch(reference=hap.id) *)
  Definition variants_of (h : hrec) : res (list item) :=
    if h_rep h then Ok []
    else match fetch f (h_id h) None None with
         | Ok ls => Ok (flat_map (fun l => match l with
                                            | LV _ s e i a _ => [IV (mkv (h_id h) s e i a)]
                                            | _ => [] end) ls)
         | Err k => if legacy then Err k else Ok []
         end.

  Definition emit (h : hrec) (rest : res (list item)) : res (list item) :=
    bind (variants_of h) (fun vs => bind rest (fun tl => Ok (IH h :: vs ++ tl))).

  (* region given: the lines tabix returned for the region *)
  Fixpoint iter_region (r : region) (ids : option (list Z)) (ls : list line) : res (list item) :=
    match ls with
    | [] => Ok []
    | l :: rest =>
      match l with
      | LH c s e i _ | LR c s e i _ =>
        let h := mkh (match l with LR _ _ _ _ _ => true | _ => false end) c s e i in
        if negb (id_ok ids i) then iter_region r ids rest
        else if negb (inside r h) then iter_region r ids rest
        else emit h (iter_region r ids rest)
      | LV _ _ _ _ _ _ => Err E_Attr            (* from_hap_spec returned a tuple *)
      | LC _ | LX _ _ _ _ _ => Err E_Key        (* self.types[None] *)
      end
    end.

  (* IDs only: every data line in file order, stop once all IDs were seen *)
  Fixpoint iter_ids (ids : list Z) (count : Z) (ls : list line) : res (list item) :=
    match ls with
    | [] => Ok []
    | l :: rest =>
      match l with
      | LH c s e i _ | LR c s e i _ =>
        let h := mkh (match l with LR _ _ _ _ _ => true | _ => false end) c s e i in
        if memZ i ids then
          emit h (if count + 1 =? lenZ ids then Ok [] else iter_ids ids (count + 1) rest)
        else if count =? lenZ ids then Ok [] else iter_ids ids count rest
      | _ => if count =? lenZ ids then Ok [] else iter_ids ids count rest
      end
    end.

  Definition iter_indexed (reg : option region) (ids : option (list Z)) : res (list item) :=
    match reg with
    | Some r =>
      match fetch f (r_contig r) (r_a r) (r_b r) with
      | Err _ => Ok (iter_plain f ids)          (* "not indexed": plain reading, region ignored *)
      | Ok ls => iter_region r ids ls
      end
    | None =>
      match ids with
      | None | Some [] => Ok (iter_plain f ids)
      | Some l => iter_ids l 0 (data_lines f)
      end
    end.

  Definition read_indexed (reg : option region) (ids : option (list Z)) : res (list (hrec * list vrec)) :=
    bind (iter_indexed reg ids) collect.
End Indexed.

(* ---- Haplotypes.sort, to_str, index_haps -------------------------------- *)

Definition sort_data (d : list (hrec * list vrec)) : list (hrec * list vrec) :=
  map (fun hv : hrec * list vrec =>
         (fst hv, if h_rep (fst hv) then snd hv else isort v_ltb (snd hv)))
      (isort (fun a b => h_ltb (fst a) (fst b)) d).

Definition VERSION_LINE : Z := 0.

Definition hr_line (h : hrec) : line :=
  if h_rep h then LR (h_chrom h) (h_start h) (h_end h) (h_id h) []
  else LH (h_chrom h) (h_start h) (h_end h) (h_id h) [].

Definition v_line (hap : Z) (v : vrec) : line := LV hap (v_start v) (v_end v) (v_id v) (v_al v) [].

(* header, then every H/R line in data order, then the variants of the
   haplotypes (not repeats) in ascending order of haplotype ID *)
Definition to_str (d : list (hrec * list vrec)) : list line :=
  LC VERSION_LINE
  :: map (fun hv => hr_line (fst hv)) d
  ++ flat_map (fun hv : hrec * list vrec => map (v_line (h_id (fst hv))) (snd hv))
       (isort (fun a b : hrec * list vrec => h_id (fst a) <? h_id (fst b))
              (filter (fun hv : hrec * list vrec => negb (h_rep (fst hv))) d)).

(* index_haps: the lines of the bgzip-compressed output; FileNotFoundError when
   tabix refuses the file (the .tbi that is to be copied does not exist) *)
Definition index_output (sort : bool) (f : list line) : res (list line) :=
  if sort then
    bind (read_plain f None) (fun d =>
      let out := to_str (sort_data d) in
      if tabix_okb out then Ok out else Err E_OS)
  else if tabix_okb f then Ok f else Err E_OS.
