(* C11 - lemmas about the orderings, the stable insertion sort and the
   multiset comparison used by the checkers. *)
From HV Require Import Prelude C11_Model C11_Check.
From Coq Require Import Permutation Sorted.

Ltac zb := repeat match goal with
  | H : context [?a =? ?b] |- _ => destruct (Z.eqb_spec a b)
  | H : context [?a <? ?b] |- _ => destruct (Z.ltb_spec a b)
  | |- context [?a =? ?b] => destruct (Z.eqb_spec a b)
  | |- context [?a <? ?b] => destruct (Z.ltb_spec a b)
  end; try lia; try congruence.

(* ---- insertion sort ------------------------------------------------------ *)

Section SortFacts.
  Context {A : Type} (ltb : A -> A -> bool).
  Definition leR (a b : A) : Prop := ltb b a = false.

  Hypothesis asym : forall a b, ltb a b = true -> ltb b a = false.
  Hypothesis le_trans : forall a b c, leR a b -> leR b c -> leR a c.

  Lemma insert_perm x l : Permutation (x :: l) (insert ltb x l).
  Proof.
    induction l as [|y r IH]; cbn [insert]; [reflexivity|].
    destruct (ltb y x); [|reflexivity].
    etransitivity; [apply perm_swap|]. apply perm_skip, IH.
  Qed.

  Lemma isort_perm l : Permutation l (isort ltb l).
  Proof.
    induction l as [|x r IH]; cbn [isort]; [reflexivity|].
    etransitivity; [apply perm_skip, IH|]. apply insert_perm.
  Qed.

  Lemma insert_sorted x l : StronglySorted leR l -> StronglySorted leR (insert ltb x l).
  Proof.
    induction l as [|y r IH]; intros Hs; cbn [insert].
    - constructor; constructor.
    - inversion Hs as [|? ? Hr Hall]; subst.
      destruct (ltb y x) eqn:E.
      + constructor; [apply IH, Hr|].
        eapply Permutation_Forall; [apply insert_perm|].
        constructor; [apply asym, E|exact Hall].
      + constructor; [exact Hs|].
        constructor; [exact E|].
        eapply Forall_impl; [|exact Hall]. intros z Hz. eapply le_trans; [exact E|exact Hz].
  Qed.

  Lemma isort_sorted l : StronglySorted leR (isort ltb l).
  Proof.
    induction l as [|x r IH]; cbn [isort]; [constructor|]. apply insert_sorted, IH.
  Qed.

  (* a sorted list is a fixpoint, so sorting is idempotent *)
  Lemma insert_head x l : Forall (leR x) l -> insert ltb x l = x :: l.
  Proof.
    destruct l as [|y r]; [reflexivity|]. intros Hf. inversion Hf; subst. cbn [insert].
    unfold leR in *. now rewrite H1.
  Qed.

  Lemma isort_id l : StronglySorted leR l -> isort ltb l = l.
  Proof.
    induction 1 as [|x l Hs IH Hall]; [reflexivity|]. cbn [isort]. rewrite IH. now apply insert_head.
  Qed.
End SortFacts.

(* ---- the two orderings are strict weak orders ----------------------------- *)

Lemma h_ltb_asym a b : h_ltb a b = true -> h_ltb b a = false.
Proof. destruct a, b; unfold h_ltb; cbn. intros H. zb. Qed.

Lemma h_le_trans a b c : leR h_ltb a b -> leR h_ltb b c -> leR h_ltb a c.
Proof. destruct a, b, c; unfold leR, h_ltb; cbn. intros H1 H2. zb. Qed.

Lemma v_ltb_asym a b : v_ltb a b = true -> v_ltb b a = false.
Proof. destruct a, b; unfold v_ltb; cbn. intros H. zb. Qed.

Lemma v_le_trans a b c : leR v_ltb a b -> leR v_ltb b c -> leR v_ltb a c.
Proof. destruct a, b, c; unfold leR, v_ltb; cbn. intros H1 H2. zb. Qed.

(* what "not less" means: lexicographic <= on the keys *)
Definition h_key_le (a b : hrec) : Prop :=
  h_chrom a < h_chrom b \/ (h_chrom a = h_chrom b /\
   (h_start a < h_start b \/ (h_start a = h_start b /\
     (h_end a < h_end b \/ (h_end a = h_end b /\ h_id a <= h_id b))))).

Lemma h_leR_spec a b : leR h_ltb a b <-> h_key_le a b.
Proof. destruct a, b; unfold leR, h_ltb, h_key_le; cbn. split; intros H; zb. Qed.

Definition v_key_le (a b : vrec) : Prop :=
  v_start a < v_start b \/ (v_start a = v_start b /\
     (v_end a < v_end b \/ (v_end a = v_end b /\ v_id a <= v_id b))).

Lemma v_leR_spec a b : leR v_ltb a b <-> v_key_le a b.
Proof. destruct a, b; unfold leR, v_ltb, v_key_le; cbn. split; intros H; zb. Qed.

Lemma StronglySorted_impl {A} (P Q : A -> A -> Prop) l :
  (forall a b, P a b -> Q a b) -> StronglySorted P l -> StronglySorted Q l.
Proof.
  intros HPQ. induction 1 as [|x l Hs IH Hall]; constructor; [exact IH|].
  eapply Forall_impl; [|exact Hall]. intros; now apply HPQ.
Qed.

Lemma sort_h_perm_sorted (l : list hrec) :
  Permutation l (isort h_ltb l) /\ StronglySorted h_key_le (isort h_ltb l).
Proof.
  split; [apply isort_perm|].
  eapply StronglySorted_impl with (P := leR h_ltb).
  - intros a b. apply h_leR_spec.
  - apply isort_sorted; [apply h_ltb_asym|apply h_le_trans].
Qed.

Lemma sort_v_perm_sorted (l : list vrec) :
  Permutation l (isort v_ltb l) /\ StronglySorted v_key_le (isort v_ltb l).
Proof.
  split; [apply isort_perm|].
  eapply StronglySorted_impl with (P := leR v_ltb).
  - intros a b. apply v_leR_spec.
  - apply isort_sorted; [apply v_ltb_asym|apply v_le_trans].
Qed.
