(* C11 - the ID theorems without the side condition "ids <> []": an empty ID set
   selects nothing, on either path. *)
From HV Require Import Prelude C11_Model C11_Check C11_Proofs C11_Proofs2 C11_Proofs3 C11_Proofs5
  C11_ProofsRegion C11_ProofsRegion2.
From Coq Require Import Permutation.

Lemma iter_plain_no_ids f : iter_plain f (Some []) = [].
Proof.
  unfold iter_plain. induction f as [|l r IH]; [reflexivity|]. cbn [flat_map]. rewrite IH.
  destruct l; reflexivity.
Qed.

Lemma filter_no_ids reg full : filter (selected reg (Some [])) full = [].
Proof. apply filter_none. intros x _. reflexivity. Qed.

Section AllIds.
  Variable fetch : list line -> Z -> option Z -> option Z -> res (list line).
  Hypothesis fetch_ok : forall f q a b, tabix_accepts f = true -> fetch f q a b = fetch_spec f q a b.
  Variable f : list line.
  Hypothesis Htab : tabix_accepts f = true.
  Hypothesis W : wf f.

  (* haplotypes=<any set>, no region: the records whose ID is in the set *)
  Theorem indexed_ids_eq_filter_all ids : NoDup ids ->
    exists full, read_plain f None = Ok full /\
      read_indexed false fetch f None (Some ids) = Ok (filter (selected None (Some ids)) full).
  Proof.
    intros Hnd. destruct ids as [|i r].
    - eexists. split; [apply read_plain_closed, W|]. rewrite filter_no_ids.
      unfold read_indexed, iter_indexed. cbn [bind]. now rewrite iter_plain_no_ids.
    - apply (indexed_ids_eq_filter fetch fetch_ok f Htab (i :: r) Hnd W). discriminate.
  Qed.

  Variable nm : names.
  Hypothesis Nok : names_ok nm.

  Theorem ids_string_query_all fixed ids : ids_safe f nm fixed -> NoDup ids ->
    exists full, read_plain f None = Ok full /\
      read_ids_s fixed fetch f nm (Some ids) = Ok (filter (selected None (Some ids)) full).
  Proof.
    intros Hs Hnd. destruct ids as [|i r].
    - eexists. split; [apply read_plain_closed, W|]. rewrite filter_no_ids.
      unfold read_ids_s. now rewrite iter_plain_no_ids.
    - apply (ids_string_query fetch fetch_ok f Htab W nm Nok fixed (i :: r) Hs Hnd). discriminate.
  Qed.
End AllIds.
