(* C11 - reading: the plain reader in closed form, and the indexed reader
   under the tabix contract equals a filter of the plain read. *)
From HV Require Import Prelude C11_Model C11_Check C11_Proofs.
From Coq Require Import Permutation.

Ltac zb2 := repeat match goal with
  | H : context [?a =? ?b] |- _ => destruct (Z.eqb_spec a b)
  | H : context [?a <? ?b] |- _ => destruct (Z.ltb_spec a b)
  | H : context [?a <=? ?b] |- _ => destruct (Z.leb_spec a b)
  | |- context [?a =? ?b] => destruct (Z.eqb_spec a b)
  | |- context [?a <? ?b] => destruct (Z.ltb_spec a b)
  | |- context [?a <=? ?b] => destruct (Z.leb_spec a b)
  end; cbn in *; try reflexivity; try discriminate; try lia.

Lemma memZ_In x l : memZ x l = true <-> In x l.
Proof.
  unfold memZ. rewrite existsb_exists. split.
  - intros [y [Hy E]]. apply Z.eqb_eq in E. now subst.
  - intros H. exists x. split; [exact H|apply Z.eqb_refl].
Qed.

Lemma memZ_false x l : memZ x l = false <-> ~ In x l.
Proof. rewrite <- memZ_In. destruct (memZ x l); split; congruence. Qed.

(* ---- records of a file --------------------------------------------------- *)

Definition hr_of (l : line) : list hrec :=
  match l with
  | LH c s e i _ => [mkh false c s e i]
  | LR c s e i _ => [mkh true c s e i]
  | _ => []
  end.
Definition v_of (l : line) : list vrec :=
  match l with LV h s e i a _ => [mkv h s e i a] | _ => [] end.
Definition hrs (f : list line) : list hrec := flat_map hr_of f.
Definition vrecs (f : list line) : list vrec := flat_map v_of f.

Lemma get_h_plain f : flat_map get_h (iter_plain f None) = hrs f.
Proof.
  unfold iter_plain, hrs. induction f as [|l r IH]; [reflexivity|].
  cbn [flat_map]. rewrite flat_map_app, IH. destruct l; reflexivity.
Qed.

Lemma get_v_plain f : flat_map get_v (iter_plain f None) = vrecs f.
Proof.
  unfold iter_plain, vrecs. induction f as [|l r IH]; [reflexivity|].
  cbn [flat_map]. rewrite flat_map_app, IH. destruct l; reflexivity.
Qed.

Lemma hrs_ids f : map h_id (hrs f) = hr_ids f.
Proof.
  unfold hrs, hr_ids. induction f as [|l r IH]; [reflexivity|].
  cbn [flat_map]. rewrite map_app, IH. destruct l; reflexivity.
Qed.

Lemma vrecs_haps f : map v_hap (vrecs f) = v_haps f.
Proof.
  unfold vrecs, v_haps. induction f as [|l r IH]; [reflexivity|].
  cbn [flat_map]. rewrite map_app, IH. destruct l; reflexivity.
Qed.

(* ---- a dict built from distinct keys is the list itself ------------------ *)

Lemma dict_set_fresh h d : ~ In (h_id h) (map h_id d) -> dict_set h d = d ++ [h].
Proof.
  induction d as [|x r IH]; intros Hn; [reflexivity|]. cbn [dict_set].
  destruct (Z.eqb_spec (h_id x) (h_id h)) as [E|E].
  - exfalso. apply Hn. left. exact E.
  - cbn [app]. f_equal. apply IH. intros Hin. apply Hn. right. exact Hin.
Qed.

Lemma dict_fold_nodup l : forall acc, NoDup (map h_id (acc ++ l)) ->
  fold_left (fun d h => dict_set h d) l acc = acc ++ l.
Proof.
  induction l as [|h r IH]; intros acc Hnd; cbn [fold_left].
  - now rewrite app_nil_r.
  - rewrite dict_set_fresh.
    + rewrite IH; rewrite <- app_assoc; [reflexivity|exact Hnd].
    + rewrite map_app in Hnd. cbn [map] in Hnd. apply NoDup_remove_2 in Hnd.
      intros Hin. apply Hnd. apply in_or_app. left. exact Hin.
Qed.

Lemma dict_of_nodup l : NoDup (map h_id l) -> dict_of l = l.
Proof. intros H. unfold dict_of. now rewrite dict_fold_nodup. Qed.

(* ---- well-formed files (Prop form of C11_Check.wf_file) ------------------ *)

Record wf (f : list line) : Prop := {
  wf_nodup : NoDup (hr_ids f);
  wf_vhap : forall h, In h (v_haps f) -> In h (h_ids f);
  wf_idcontig : forall i, In i (h_ids f) -> ~ In i (contigs f);
  wf_se : forall l c s e, In l f -> tbx l = Some (c, s, e) -> s <= e
}.

Lemma nodupb_NoDup l : nodupb l = true -> NoDup l.
Proof.
  induction l as [|x r IH]; cbn [nodupb]; intros H; [constructor|].
  apply andb_true_iff in H. destruct H as [H1 H2]. constructor; [|now apply IH].
  apply negb_true_iff in H1. now apply memZ_false.
Qed.

Lemma wf_file_sound f : wf_file f = true -> wf f.
Proof.
  unfold wf_file. rewrite !andb_true_iff. intros [[[H1 H2] H3] H4]. split.
  - now apply nodupb_NoDup.
  - intros h Hh. rewrite forallb_forall in H2. apply memZ_In. now apply H2.
  - intros i Hi. rewrite forallb_forall in H3. apply memZ_false. apply negb_true_iff. now apply H3.
  - intros l c s e Hl Ht. rewrite forallb_forall in H4. specialize (H4 l Hl). rewrite Ht in H4.
    now apply Z.leb_le.
Qed.

Lemma h_ids_sub f i : In i (h_ids f) -> In i (hr_ids f).
Proof.
  unfold h_ids, hr_ids. induction f as [|l r IH]; [easy|]. cbn [flat_map].
  rewrite !in_app_iff. intros [H|H]; [left|right; now apply IH]. destruct l; cbn in *; tauto.
Qed.

Lemma NoDup_map_eq {A} (g : A -> Z) l a b :
  NoDup (map g l) -> In a l -> In b l -> g a = g b -> a = b.
Proof.
  induction l as [|x r IH]; [easy|]. cbn [map]. intros Hnd Ha Hb E.
  inversion Hnd as [|? ? Hni Hr]; subst.
  destruct Ha as [->|Ha], Hb as [->|Hb]; [reflexivity| | |now apply IH].
  - exfalso. apply Hni. rewrite E. now apply in_map.
  - exfalso. apply Hni. rewrite <- E. now apply in_map.
Qed.

Lemma h_ids_hrs f i : In i (h_ids f) -> exists h, In h (hrs f) /\ h_rep h = false /\ h_id h = i.
Proof.
  unfold h_ids, hrs. induction f as [|l r IH]; [easy|]. cbn [flat_map]. rewrite in_app_iff.
  intros [H|H].
  - destruct l; cbn in H; try contradiction. destruct H as [<-|[]].
    eexists. split; [apply in_or_app; left; left; reflexivity|]. split; reflexivity.
  - destruct (IH H) as [h [H1 H2]]. exists h. split; [apply in_or_app; now right|exact H2].
Qed.

(* the id of a repeat is not the id of a haplotype when ids are distinct *)
Lemma rep_not_hid f h : NoDup (hr_ids f) -> In h (hrs f) -> h_rep h = true -> ~ In (h_id h) (h_ids f).
Proof.
  intros Hnd Hin Hrep Hi. destruct (h_ids_hrs f _ Hi) as [h' [H1 [H2 H3]]].
  rewrite <- hrs_ids in Hnd. assert (h' = h) by (eapply NoDup_map_eq; eauto). subst. congruence.
Qed.

(* ---- the plain read in closed form -------------------------------------- *)

Definition entry_of (V : list vrec) (h : hrec) : hrec * list vrec := (h, vars_for (h_id h) V).

Lemma read_plain_closed f : wf f ->
  read_plain f None = Ok (map (entry_of (vrecs f)) (hrs f)).
Proof.
  intros W. unfold read_plain, collect. rewrite get_h_plain, get_v_plain.
  rewrite dict_of_nodup by (rewrite hrs_ids; apply W).
  replace (forallb _ (vrecs f)) with true; [reflexivity|].
  symmetry. apply forallb_forall. intros v Hv. apply memZ_In. rewrite hrs_ids.
  apply h_ids_sub, W. rewrite <- vrecs_haps. now apply in_map.
Qed.

(* ---- tabix fetch of the variants of one haplotype ----------------------- *)

Lemma fetch_variants f i :
  flat_map (fun l => match l with LV _ s e j a _ => [IV (mkv i s e j a)] | _ => [] end)
           (filter (hit i None None) f)
  = map IV (vars_for i (vrecs f)).
Proof.
  unfold vrecs, vars_for. induction f as [|l r IH]; [reflexivity|].
  cbn [filter flat_map]. rewrite filter_app, map_app, <- IH.
  destruct l as [c|c s e j x|c s e j x|h s e j a x|t q s e x]; unfold hit; cbn.
  - reflexivity.
  - destruct (_ =? i); reflexivity.
  - destruct (_ =? i); reflexivity.
  - destruct (Z.eqb_spec h i) as [->|]; reflexivity.
  - destruct (_ =? i); reflexivity.
Qed.

Lemma filter_none {A} (p : A -> bool) l : (forall x, In x l -> p x = false) -> filter p l = [].
Proof.
  induction l as [|x r IH]; intros H; [reflexivity|]. cbn [filter].
  rewrite (H x (or_introl eq_refl)). apply IH. intros; apply H; now right.
Qed.

Section Query.
  Variable fetch : list line -> Z -> option Z -> option Z -> res (list line).
  (* the tabix contract: on a file tabix accepted, fetch is the reference instance *)
  Hypothesis fetch_ok : forall f q a b, tabix_accepts f = true -> fetch f q a b = fetch_spec f q a b.

  Variable f : list line.
  Hypothesis Htab : tabix_accepts f = true.
  Hypothesis W : wf f.

  Let V := vrecs f.
  Definition vitems (h : hrec) : list item :=
    if h_rep h then [] else map IV (vars_for (h_id h) V).

  Lemma variants_of_ok h : variants_of false fetch f h = Ok (vitems h).
  Proof.
    unfold variants_of, vitems. destruct (h_rep h); [reflexivity|].
    rewrite fetch_ok by exact Htab. unfold fetch_spec.
    destruct (existsb (seq_is (h_id h)) f) eqn:E.
    - f_equal. apply fetch_variants.
    - f_equal. unfold V. rewrite <- fetch_variants.
      replace (filter (hit (h_id h) None None) f) with (@nil line); [reflexivity|].
      symmetry. apply filter_none. intros l Hl.
      assert (Hn : seq_is (h_id h) l = false).
      { destruct (seq_is (h_id h) l) eqn:E'; [|reflexivity].
        assert (existsb (seq_is (h_id h)) f = true) by (apply existsb_exists; eauto). congruence. }
      unfold hit, seq_is in *.
      destruct (tbx l) as [[[c s] e]|]; [|reflexivity]. now rewrite Hn.
  Qed.

  Definition sel (r : region) (ids : option (list Z)) (h : hrec) : bool :=
    id_ok ids (h_id h) && inside r h.

  (* on H/R lines only, _iter_haps never fails *)
  Lemma iter_region_ok r ids ls :
    (forall l, In l ls -> match l with LH _ _ _ _ _ | LR _ _ _ _ _ => True | _ => False end) ->
    iter_region false fetch f r ids ls
    = Ok (flat_map (fun h => IH h :: vitems h) (filter (sel r ids) (hrs ls))).
  Proof.
    induction ls as [|l rest IH]; intros Hall; [reflexivity|].
    assert (Hrest : forall l', In l' rest -> match l' with LH _ _ _ _ _ | LR _ _ _ _ _ => True | _ => False end)
      by (intros; apply Hall; now right).
    specialize (IH Hrest). specialize (Hall l (or_introl eq_refl)).
    destruct l as [c|c s e j x|c s e j x|h s e j a x|t q s e x]; try contradiction;
      cbn [iter_region hrs flat_map hr_of app filter]; fold (hrs rest); unfold sel at 1; cbn [h_id];
      (destruct (id_ok ids j); cbn [negb andb]; [|exact IH]);
      (match goal with |- context [inside r ?h] => destruct (inside r h) end; cbn [negb]; [|exact IH]);
      unfold emit; rewrite variants_of_ok, IH; cbn [bind flat_map app]; reflexivity.
  Qed.

  (* ---- what read() makes of the items of a selection of records ---------- *)

  Definition vv (h : hrec) : list vrec := if h_rep h then [] else vars_for (h_id h) V.

  Lemma get_h_sel S : flat_map get_h (flat_map (fun h => IH h :: vitems h) S) = S.
  Proof.
    induction S as [|h r IH]; [reflexivity|]. cbn [flat_map]. rewrite flat_map_app.
    cbn [flat_map get_h app]. rewrite IH. f_equal.
    replace (flat_map get_h (vitems h)) with (@nil hrec); [reflexivity|].
    unfold vitems. destruct (h_rep h); [reflexivity|].
    induction (vars_for (h_id h) V) as [|v t IHt]; [reflexivity|exact IHt].
  Qed.

  Lemma get_v_sel S : flat_map get_v (flat_map (fun h => IH h :: vitems h) S) = flat_map vv S.
  Proof.
    induction S as [|h r IH]; [reflexivity|]. cbn [flat_map]. rewrite flat_map_app.
    cbn [flat_map get_v app]. rewrite IH. f_equal.
    unfold vitems, vv. destruct (h_rep h); [reflexivity|].
    induction (vars_for (h_id h) V) as [|v t IHt]; [reflexivity|]. cbn [map flat_map get_v app]. now rewrite IHt.
  Qed.

  Lemma vars_for_app i l1 l2 : vars_for i (l1 ++ l2) = vars_for i l1 ++ vars_for i l2.
  Proof. apply filter_app. Qed.

  Lemma vars_for_same i l : vars_for i (vars_for i l) = vars_for i l.
  Proof.
    unfold vars_for. induction l as [|v t IH]; [reflexivity|]. cbn [filter].
    destruct (v_hap v =? i) eqn:E; [|exact IH]. cbn [filter]. rewrite E. now rewrite IH.
  Qed.

  Lemma vars_for_other i j l : i <> j -> vars_for i (vars_for j l) = [].
  Proof.
    intros Hne. unfold vars_for. induction l as [|v t IH]; [reflexivity|]. cbn [filter].
    destruct (Z.eqb_spec (v_hap v) j) as [E|E]; [|exact IH]. cbn [filter].
    destruct (Z.eqb_spec (v_hap v) i) as [E'|E']; [congruence|exact IH].
  Qed.

  Lemma vars_for_vv_other i h : h_id h <> i -> vars_for i (vv h) = [].
  Proof. intros Hne. unfold vv. destruct (h_rep h); [reflexivity|]. apply vars_for_other. congruence. Qed.

  Lemma vars_for_sel S h : NoDup (map h_id S) -> In h S ->
    vars_for (h_id h) (flat_map vv S) = vv h.
  Proof.
    induction S as [|x r IH]; [easy|]. cbn [map flat_map]. intros Hnd Hin.
    inversion Hnd as [|? ? Hni Hr]; subst. rewrite vars_for_app.
    destruct Hin as [->|Hin].
    - replace (vars_for (h_id h) (flat_map vv r)) with (@nil vrec).
      + rewrite app_nil_r. unfold vv. destruct (h_rep h); [reflexivity|apply vars_for_same].
      + symmetry. clear IH Hnd Hr. induction r as [|y t IHt]; [reflexivity|].
        cbn [flat_map]. rewrite vars_for_app, vars_for_vv_other.
        * apply IHt. intros Hc. apply Hni. now right.
        * intros E. apply Hni. left. exact E.
    - rewrite vars_for_vv_other.
      + now apply IH.
      + intros E. apply Hni. rewrite E. now apply in_map.
  Qed.

  Lemma NoDup_map_filter {A} (g : A -> Z) (P : A -> bool) l : NoDup (map g l) -> NoDup (map g (filter P l)).
  Proof.
    induction l as [|x r IH]; [easy|]. cbn [map filter]. intros Hnd.
    inversion Hnd as [|? ? Hni Hr]; subst. destruct (P x); [|now apply IH].
    cbn [map]. constructor; [|now apply IH]. intros Hin. apply Hni.
    apply in_map_iff in Hin. destruct Hin as [y [E Hy]]. apply filter_In in Hy.
    rewrite <- E. apply in_map. tauto.
  Qed.

  Lemma rep_no_vars h : In h (hrs f) -> h_rep h = true -> vars_for (h_id h) V = [].
  Proof.
    intros Hin Hrep. apply filter_none. intros v Hv.
    destruct (Z.eqb_spec (v_hap v) (h_id h)) as [E|]; [|reflexivity]. exfalso.
    eapply rep_not_hid; [apply W|exact Hin|exact Hrep|].
    apply W. rewrite <- E, <- vrecs_haps. now apply in_map.
  Qed.

  Lemma collect_sel P :
    collect (flat_map (fun h => IH h :: vitems h) (filter P (hrs f)))
    = Ok (map (entry_of V) (filter P (hrs f))).
  Proof.
    set (S := filter P (hrs f)).
    assert (Hnd : NoDup (map h_id S)) by (apply NoDup_map_filter; rewrite hrs_ids; apply W).
    unfold collect. rewrite get_h_sel, get_v_sel, dict_of_nodup by exact Hnd.
    replace (forallb _ (flat_map vv S)) with true.
    - f_equal. apply map_ext_in. intros h Hh. unfold entry_of. f_equal.
      rewrite vars_for_sel by assumption. unfold vv. destruct (h_rep h) eqn:Hrep; [|reflexivity].
      symmetry. apply rep_no_vars; [|exact Hrep]. apply filter_In in Hh. tauto.
    - symmetry. apply forallb_forall. intros v Hv. apply memZ_In.
      apply in_flat_map in Hv. destruct Hv as [h [Hh Hv]]. unfold vv in Hv.
      destruct (h_rep h); [contradiction|]. apply filter_In in Hv. destruct Hv as [_ E].
      apply Z.eqb_eq in E. rewrite E. now apply in_map.
  Qed.

  (* ---- the lines tabix returns for a contig of the file are H/R lines ----- *)

  Lemma In_vhap h s e j a x : In (LV h s e j a x) f -> In h (v_haps f).
  Proof.
    unfold v_haps. intros Hin. apply in_flat_map. eexists. split; [exact Hin|]. now left.
  Qed.

  Lemma hit_lines_hr c a b : In c (contigs f) ->
    (forall t s e x, ~ In (LX t c s e x) f) ->       (* no line of an unknown type on this contig *)
    forall l, In l (filter (hit c a b) f) ->
      match l with LH _ _ _ _ _ | LR _ _ _ _ _ => True | _ => False end.
  Proof.
    intros Hc NoX l Hl. apply filter_In in Hl. destruct Hl as [Hin Hhit].
    destruct l as [k|k s e j x|k s e j x|h s e j al x|t q s e x]; try exact I.
    - discriminate.
    - unfold hit in Hhit. cbn [tbx] in Hhit. apply andb_true_iff in Hhit. destruct Hhit as [E _].
      apply Z.eqb_eq in E. subst h. eapply (wf_idcontig f W); [|exact Hc]. apply W. eapply In_vhap; eauto.
    - unfold hit in Hhit. cbn [tbx] in Hhit. apply andb_true_iff in Hhit. destruct Hhit as [E _].
      apply Z.eqb_eq in E. subst q. exact (NoX _ _ _ _ Hin).
  Qed.

  (* containment implies overlap, so filtering by overlap first loses nothing *)
  Lemma sel_hit c a b ids rep k s e j : (a = None -> b = None) -> s <= e ->
    sel (mkreg c a b) ids (mkh rep k s e j) && (k =? c) = true ->
    (k =? c) && overlaps a b s e = true.
  Proof.
    intros Hab Hse H. apply andb_true_iff in H. destruct H as [H1 H2]. rewrite H2. cbn [andb].
    unfold sel in H1. apply andb_true_iff in H1. destruct H1 as [_ H1].
    unfold inside, overlaps in *. cbn in *. destruct a as [a|], b as [b|]; cbn in *; zb2.
    specialize (Hab eq_refl). discriminate.
  Qed.

  Lemma sel_after_hit c a b ids g : (a = None -> b = None) -> (forall l, In l g -> In l f) ->
    filter (sel (mkreg c a b) ids) (hrs (filter (hit c a b) g))
    = filter (fun h => sel (mkreg c a b) ids h && (h_chrom h =? c)) (hrs g).
  Proof.
    intros Hab. induction g as [|l r IH]; intros Hsub; [reflexivity|].
    assert (Hr : forall l', In l' r -> In l' f) by (intros; apply Hsub; now right).
    specialize (IH Hr). pose proof (wf_se f W l) as Hse. specialize (Hsub l (or_introl eq_refl)).
    cbn [filter]. unfold hrs in *. cbn [flat_map]. rewrite filter_app, <- IH.
    destruct l as [k|k s e j x|k s e j x|h s e j al x|t q s e x]; unfold hit at 1; cbn [tbx hr_of filter app].
    - reflexivity.
    - specialize (Hse k s e Hsub eq_refl). cbn [h_chrom].
      destruct ((k =? c) && overlaps a b s e) eqn:Eh.
      + cbn [flat_map hr_of app filter]. apply andb_true_iff in Eh. destruct Eh as [Eh _].
        rewrite Eh, andb_true_r. cbn [filter app]. destruct (sel _ _ _); reflexivity.
      + destruct (sel (mkreg c a b) ids (mkh false k s e j) && (k =? c)) eqn:Es; [|reflexivity].
        apply sel_hit in Es; [congruence|exact Hab|exact Hse].
    - specialize (Hse k s e Hsub eq_refl). cbn [h_chrom].
      destruct ((k =? c) && overlaps a b s e) eqn:Eh.
      + cbn [flat_map hr_of app filter]. apply andb_true_iff in Eh. destruct Eh as [Eh _].
        rewrite Eh, andb_true_r. cbn [filter app]. destruct (sel _ _ _); reflexivity.
      + destruct (sel (mkreg c a b) ids (mkh true k s e j) && (k =? c)) eqn:Es; [|reflexivity].
        apply sel_hit in Es; [congruence|exact Hab|exact Hse].
    - destruct ((h =? c) && overlaps a b s e); reflexivity.
    - destruct ((q =? c) && overlaps a b s e); reflexivity.
  Qed.

  Lemma contig_seq c : In c (contigs f) -> existsb (seq_is c) f = true.
  Proof.
    unfold contigs. intros Hc. apply in_flat_map in Hc. destruct Hc as [l [Hl Hc]].
    apply existsb_exists. exists l. split; [exact Hl|].
    destruct l; cbn in Hc; try contradiction; destruct Hc as [<-|[]]; unfold seq_is; cbn; apply Z.eqb_refl.
  Qed.

  (* the theorem: a region on a contig of the file, with or without IDs *)
  Lemma indexed_region_eq_filter r ids :
    (r_a r = None -> r_b r = None) ->          (* 'c', 'c:a-b' or 'c:a-' *)
    In (r_contig r) (contigs f) ->
    (forall t s e x, ~ In (LX t (r_contig r) s e x) f) ->
    exists full, read_plain f None = Ok full /\
      read_indexed false fetch f (Some r) ids = Ok (filter (selected (Some r) ids) full).
  Proof.
    intros Hab Hc NoX. eexists. split; [apply read_plain_closed, W|].
    destruct r as [c a b]. cbn [r_contig r_a r_b] in Hc, Hab, NoX.
    unfold read_indexed, iter_indexed. cbn [r_contig r_a r_b].
    rewrite fetch_ok by exact Htab. unfold fetch_spec. rewrite contig_seq by exact Hc.
    rewrite iter_region_ok by (now apply hit_lines_hr).
    cbn [bind]. rewrite sel_after_hit by auto. rewrite collect_sel. f_equal.
    fold V. induction (hrs f) as [|h t IHt]; [reflexivity|]. cbn [filter map].
    unfold selected at 1, sel at 1. cbn [fst entry_of r_contig].
    rewrite <- andb_assoc, (andb_comm (inside _ _)).
    destruct (id_ok ids (h_id h) && ((h_chrom h =? c) && inside (mkreg c a b) h)); cbn [map]; now rewrite IHt.
  Qed.
End Query.

(* ---- soundness of the multiset comparison used by holds ------------------ *)

Lemma remove1_perm {A} (e : A -> A -> bool) x l l' :
  remove1 e x l = Some l' -> exists y, e x y = true /\ Permutation l (y :: l').
Proof.
  revert l'. induction l as [|z r IH]; intros l' H; [discriminate|]. cbn [remove1] in H.
  destruct (e x z) eqn:E.
  - inversion H; subst. exists z. split; [exact E|reflexivity].
  - destruct (remove1 e x r) as [r'|] eqn:Er; [|discriminate]. inversion H; subst.
    destruct (IH r' eq_refl) as [y [Hy Hp]]. exists y. split; [exact Hy|].
    etransitivity; [apply perm_skip, Hp|apply perm_swap].
Qed.

(* perm_eqb e l1 l2 = true: l2 can be reordered so that it matches l1 pointwise *)
Lemma perm_eqb_sound {A} (e : A -> A -> bool) (R : A -> A -> Prop) :
  (forall a b, e a b = true -> R a b) ->
  forall l1 l2, perm_eqb e l1 l2 = true -> exists l2', Permutation l2 l2' /\ Forall2 R l1 l2'.
Proof.
  intros He. induction l1 as [|x r IH]; intros l2 H; cbn [perm_eqb] in H.
  - destruct l2; [|discriminate]. exists []. split; constructor.
  - destruct (remove1 e x l2) as [l2'|] eqn:Er; [|discriminate].
    destruct (remove1_perm _ _ _ _ Er) as [y [Hy Hp]].
    destruct (IH _ H) as [l3 [Hp3 Hf]]. exists (y :: l3). split.
    + etransitivity; [exact Hp|]. now apply perm_skip.
    + constructor; [now apply He|exact Hf].
Qed.

Lemma hrec_eqb_eq a b : hrec_eqb a b = true -> a = b.
Proof.
  destruct a, b. unfold hrec_eqb. cbn. rewrite !andb_true_iff, !Z.eqb_eq, Bool.eqb_true_iff.
  intros [[[[-> ->] ->] ->] ->]. reflexivity.
Qed.

Lemma vrec_eqb_eq a b : vrec_eqb a b = true -> a = b.
Proof.
  destruct a, b. unfold vrec_eqb. cbn. rewrite !andb_true_iff, !Z.eqb_eq.
  intros [[[[-> ->] ->] ->] ->]. reflexivity.
Qed.

Lemma Forall2_eq {A} (l1 l2 : list A) : Forall2 eq l1 l2 -> l1 = l2.
Proof. induction 1; [reflexivity|]. now subst. Qed.

(* the relation "same record, same variants in some order" *)
Definition entry_same (a b : hrec * list vrec) : Prop :=
  fst a = fst b /\ Permutation (snd a) (snd b).

Lemma entry_sim_sound a b : entry_sim a b = true -> entry_same a b.
Proof.
  unfold entry_sim, entry_same. rewrite andb_true_iff. intros [H1 H2]. split; [now apply hrec_eqb_eq|].
  destruct (perm_eqb_sound vrec_eqb eq vrec_eqb_eq _ _ H2) as [l [Hp Hf]].
  apply Forall2_eq in Hf. subst. now symmetry.
Qed.

(* what holds_query1 = true says about an observed answer *)
Lemma demand_sound full q : demand full q = true ->
  exists out out', q_res q = Ok out /\ Permutation out out' /\
    Forall2 entry_same (filter (selected (q_reg q) (q_ids q)) full) out'.
Proof.
  unfold demand. intros H. destruct (q_res q) as [out|]; [|discriminate].
  destruct (perm_eqb_sound entry_sim entry_same entry_sim_sound _ _ H) as [l [Hl Hf]].
  exists out, l. auto.
Qed.

(* a region query counts when its contig is in the file, the string passed is the
   canonical spelling of (contig, a, b) and the region is in the scope of the
   demand; a query by IDs alone always counts *)
Definition counts (strict : bool) (nm : names) (file : list line) (q : qobs) : Prop :=
  (strict = true \/ risky_ids nm file = false) /\
  match q_reg q, q_str q with
  | Some r, Some s => In (r_contig r) (contigs file) /\ canonical nm r s = true
                      /\ in_scope strict nm file r s = true
  | None, None => True
  | _, _ => False
  end.

Lemma holds_query1_sound strict nm file full q :
  holds_query1 strict nm file full q = true -> counts strict nm file q ->
  exists out out', q_res q = Ok out /\ Permutation out out' /\
    Forall2 entry_same (filter (selected (q_reg q) (q_ids q)) full) out'.
Proof.
  unfold holds_query1, counts. intros H [Hr Hp].
  replace (negb strict && risky_ids nm file) with false in H
    by (destruct Hr as [->| ->]; [reflexivity|now rewrite andb_false_r]).
  destruct (q_reg q) as [r|] eqn:Er, (q_str q) as [s|]; try contradiction.
  - destruct Hp as [Hc [Hk Hs]]. apply memZ_In in Hc. rewrite Hc, Hk, Hs in H. cbn [andb] in H.
    rewrite <- Er. now apply demand_sound.
  - rewrite <- Er. now apply demand_sound.
Qed.

(* the pinned tree: a haplotype without variants breaks every query selecting it *)
Example legacy_variantless_query_refuted :
  let f := [LC 0; LH 1 10 30 2 []] in
  tabix_accepts f = true /\ wf_file f = true /\
  read_plain f None = Ok [(mkh false 1 10 30 2, [])] /\
  read_indexed true fetch_spec f (Some (mkreg 1 None None)) None = Err E_Value /\
  read_indexed false fetch_spec f (Some (mkreg 1 None None)) None = Ok [(mkh false 1 10 30 2, [])].
Proof. vm_compute. repeat split. Qed.
