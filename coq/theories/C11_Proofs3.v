(* C11 - index_haps keeps every record (sorted mode: as a multiset of
   mandatory-field records; --no-sort: verbatim). *)
From HV Require Import Prelude C11_Model C11_Check C11_Proofs C11_Proofs2.
From Coq Require Import Permutation Sorted.

Lemma Permutation_filter {A} (p : A -> bool) l l' :
  Permutation l l' -> Permutation (filter p l) (filter p l').
Proof.
  induction 1 as [|x l l' H IH|x y l|l l' l'' H1 IH1 H2 IH2]; cbn [filter].
  - constructor.
  - destruct (p x); [now apply perm_skip|exact IH].
  - destruct (p x), (p y); try reflexivity. apply perm_swap.
  - etransitivity; eassumption.
Qed.

Lemma Permutation_flat_map_ext {A B} (g g' : A -> list B) l :
  (forall x, In x l -> Permutation (g x) (g' x)) -> Permutation (flat_map g l) (flat_map g' l).
Proof.
  induction l as [|x r IH]; intros H; [constructor|]. cbn [flat_map].
  apply Permutation_app; [apply H; now left|apply IH; intros; apply H; now right].
Qed.

Lemma flat_map_ext_in' {A B} (g g' : A -> list B) l :
  (forall x, In x l -> g x = g' x) -> flat_map g l = flat_map g' l.
Proof.
  induction l as [|x r IH]; intros H; [reflexivity|]. cbn [flat_map].
  rewrite (H x (or_introl eq_refl)), IH; [reflexivity|intros; apply H; now right].
Qed.

(* ---- the records of a file, by kind -------------------------------------- *)

Lemma records_split f : Permutation (records f) (map IH (hrs f) ++ map IV (vrecs f)).
Proof.
  unfold records, iter_plain, hrs, vrecs. induction f as [|l r IH]; [constructor|].
  cbn [flat_map]. rewrite !map_app.
  destruct l as [c|c s e j x|c s e j x|h s e j a x|t q s e x]; cbn [plain_item id_ok hr_of v_of map app]; try exact IH.
  - now apply perm_skip.
  - now apply perm_skip.
  - now apply Permutation_cons_app.
Qed.

(* ---- variants partition by haplotype ID --------------------------------- *)

Lemma partition_perm {A} (p : A -> bool) l : Permutation l (filter p l ++ filter (fun x => negb (p x)) l).
Proof.
  induction l as [|x r IH]; [constructor|]. cbn [filter]. destruct (p x); cbn [negb app].
  - now apply perm_skip.
  - now apply Permutation_cons_app.
Qed.

Lemma vars_partition I : NoDup I -> forall V, (forall v, In v V -> In (v_hap v) I) ->
  Permutation V (flat_map (fun i => vars_for i V) I).
Proof.
  induction 1 as [|i I' Hni Hnd IH]; intros V HV.
  - destruct V as [|v t]; [constructor|]. destruct (HV v (or_introl eq_refl)).
  - cbn [flat_map]. etransitivity; [apply (partition_perm (fun v => v_hap v =? i))|].
    apply Permutation_app; [reflexivity|].
    set (V' := filter (fun x => negb (v_hap x =? i)) V).
    etransitivity; [apply (IH V')|].
    + intros v Hv. apply filter_In in Hv. destruct Hv as [Hv Hne].
      destruct (HV v Hv) as [E|E]; [|exact E]. rewrite <- E, Z.eqb_refl in Hne. discriminate.
    + replace (flat_map (fun j => vars_for j V') I') with (flat_map (fun j => vars_for j V) I'); [reflexivity|].
      apply flat_map_ext_in'. intros j Hj. unfold vars_for, V'.
      clear - Hj Hni. induction V as [|v t IHt]; [reflexivity|]. cbn [filter].
      destruct (Z.eqb_spec (v_hap v) j) as [E|E].
      * destruct (Z.eqb_spec (v_hap v) i) as [E'|E']; [exfalso; apply Hni; congruence|].
        cbn [negb filter]. rewrite (proj2 (Z.eqb_eq _ _) E). now rewrite IHt.
      * destruct (v_hap v =? i); cbn [negb filter]; [exact IHt|].
        rewrite (proj2 (Z.eqb_neq _ _) E). exact IHt.
Qed.

Definition notrep (h : hrec) : bool := negb (h_rep h).

Lemma h_ids_filter f : h_ids f = map h_id (filter notrep (hrs f)).
Proof.
  unfold h_ids, hrs. induction f as [|l r IH]; [reflexivity|]. cbn [flat_map].
  rewrite filter_app, map_app, <- IH. destruct l; reflexivity.
Qed.

(* ---- what to_str writes, as records ------------------------------------- *)

Definition rehap (i : Z) (v : vrec) : vrec := mkv i (v_start v) (v_end v) (v_id v) (v_al v).

Lemma records_app a b : records (a ++ b) = records a ++ records b.
Proof. unfold records, iter_plain. apply flat_map_app. Qed.

Lemma records_hr_lines hs : records (map hr_line hs) = map IH hs.
Proof.
  unfold records, iter_plain. induction hs as [|h r IH]; [reflexivity|]. cbn [map flat_map]. rewrite IH.
  destruct h as [rep c s e i]. destruct rep; reflexivity.
Qed.

Lemma records_v_lines i vs : records (map (v_line i) vs) = map IV (map (rehap i) vs).
Proof.
  unfold records, iter_plain. induction vs as [|v r IH]; [reflexivity|]. cbn [map flat_map]. now rewrite IH.
Qed.

Lemma records_to_str d :
  records (to_str d)
  = map IH (map fst d)
    ++ map IV (flat_map (fun hv : hrec * list vrec => map (rehap (h_id (fst hv))) (snd hv))
                 (isort (fun a b : hrec * list vrec => h_id (fst a) <? h_id (fst b))
                        (filter (fun hv : hrec * list vrec => negb (h_rep (fst hv))) d))).
Proof.
  unfold to_str. change (LC VERSION_LINE :: ?x) with ([LC VERSION_LINE] ++ x).
  rewrite !records_app. change (records [LC VERSION_LINE]) with (@nil item). cbn [app].
  f_equal.
  - rewrite <- (map_map fst hr_line). apply records_hr_lines.
  - induction (isort _ _) as [|hv r IH]; [reflexivity|]. cbn [flat_map].
    rewrite records_app, map_app, IH, records_v_lines. reflexivity.
Qed.

(* ---- sort_data ---------------------------------------------------------- *)

Definition hlt' (a b : hrec * list vrec) : bool := h_ltb (fst a) (fst b).
Definition gsort (hv : hrec * list vrec) : hrec * list vrec :=
  (fst hv, if h_rep (fst hv) then snd hv else isort v_ltb (snd hv)).
Definition Pnr (hv : hrec * list vrec) : bool := negb (h_rep (fst hv)).

Lemma sort_data_eq d : sort_data d = map gsort (isort hlt' d).
Proof. reflexivity. Qed.

Lemma sd_fst d : map fst (sort_data d) = map fst (isort hlt' d).
Proof. rewrite sort_data_eq, map_map. apply map_ext. reflexivity. Qed.

Lemma sd_perm_fst d : Permutation (map fst d) (map fst (sort_data d)).
Proof. rewrite sd_fst. apply Permutation_map, isort_perm. Qed.

Lemma filter_map_inv {A} (P : A -> bool) (g : A -> A) l :
  (forall x, P (g x) = P x) -> filter P (map g l) = map g (filter P l).
Proof.
  intros H. induction l as [|x r IH]; [reflexivity|]. cbn [map filter]. rewrite H.
  destruct (P x); cbn [map]; now rewrite IH.
Qed.

Lemma snd_gsort_perm hv : Permutation (snd hv) (snd (gsort hv)).
Proof. unfold gsort. cbn [snd]. destruct (h_rep (fst hv)); [reflexivity|apply isort_perm]. Qed.

Lemma Permutation_flat_map' {A B} (g : A -> list B) l l' :
  Permutation l l' -> Permutation (flat_map g l) (flat_map g l').
Proof.
  induction 1 as [|x l l' H IH|x y l|l l' l'' H1 IH1 H2 IH2]; cbn [flat_map].
  - constructor.
  - now apply Permutation_app_head.
  - rewrite !app_assoc. apply Permutation_app_tail, Permutation_app_comm.
  - etransitivity; eassumption.
Qed.

Lemma flat_snd_gsort l : Permutation (flat_map snd l) (flat_map snd (map gsort l)).
Proof.
  induction l as [|x r IH]; [constructor|]. cbn [map flat_map].
  apply Permutation_app; [apply snd_gsort_perm|exact IH].
Qed.

Section Keeps.
  Variable f : list line.
  Hypothesis W : wf f.
  Let V := vrecs f.
  Let d := map (entry_of V) (hrs f).

  Lemma d_snd_haps hv : In hv d -> forall v, In v (snd hv) -> v_hap v = h_id (fst hv).
  Proof.
    unfold d. intros Hin v Hv. apply in_map_iff in Hin. destruct Hin as [h [<- _]].
    cbn [entry_of fst snd] in *. apply filter_In in Hv. destruct Hv as [_ E]. now apply Z.eqb_eq.
  Qed.

  Lemma sd_snd_haps hv : In hv (sort_data d) -> forall v, In v (snd hv) -> v_hap v = h_id (fst hv).
  Proof.
    rewrite sort_data_eq. intros Hin v Hv. apply in_map_iff in Hin. destruct Hin as [x [<- Hx]].
    eapply Permutation_in in Hx; [|symmetry; apply isort_perm].
    cbn [gsort fst]. apply (d_snd_haps x Hx).
    eapply Permutation_in; [symmetry; apply snd_gsort_perm|exact Hv].
  Qed.

  Lemma rehap_id i v : v_hap v = i -> rehap i v = v.
  Proof. intros <-. destruct v; reflexivity. Qed.

  Lemma flat_snd_d : flat_map snd (filter Pnr d) = flat_map (fun i => vars_for i V) (h_ids f).
  Proof.
    rewrite h_ids_filter. unfold d. induction (hrs f) as [|h r IH]; [reflexivity|].
    cbn [map filter]. unfold Pnr at 1, notrep at 1. cbn [entry_of fst].
    destruct (h_rep h); cbn [negb map flat_map]; [exact IH|]. now rewrite IH.
  Qed.

  Lemma h_ids_nodup : NoDup (h_ids f).
  Proof. rewrite h_ids_filter. apply NoDup_map_filter. rewrite hrs_ids. apply W. Qed.

  Lemma variants_kept :
    Permutation (vrecs f) (flat_map snd (isort (fun a b : hrec * list vrec => h_id (fst a) <? h_id (fst b))
                                               (filter Pnr (sort_data d)))).
  Proof.
    transitivity (flat_map snd (filter Pnr (sort_data d))); [|apply Permutation_flat_map', isort_perm].
    rewrite sort_data_eq, filter_map_inv by reflexivity.
    transitivity (flat_map snd (filter Pnr (isort hlt' d))); [|apply flat_snd_gsort].
    transitivity (flat_map snd (filter Pnr d)); [|apply Permutation_flat_map', Permutation_filter, isort_perm].
    rewrite flat_snd_d. apply vars_partition; [apply h_ids_nodup|].
    intros v Hv. apply W. rewrite <- vrecs_haps. now apply in_map.
  Qed.

  (* sorted mode: the H, R and V records written are exactly those read *)
  Lemma sorted_output_keeps_records :
    Permutation (records f) (records (to_str (sort_data d))).
  Proof.
    etransitivity; [apply records_split|]. rewrite records_to_str.
    apply Permutation_app.
    - apply Permutation_map. replace (hrs f) with (map fst d); [apply sd_perm_fst|].
      unfold d. rewrite map_map. cbn [entry_of fst]. apply map_id.
    - apply Permutation_map. fold Pnr.
      erewrite flat_map_ext_in'; [apply variants_kept|].
      intros hv Hhv. cbn beta.
      eapply Permutation_in in Hhv; [|symmetry; apply isort_perm]. apply filter_In in Hhv. destruct Hhv as [Hhv _].
      rewrite <- (map_id (snd hv)) at 2. apply map_ext_in. intros v Hv. apply rehap_id.
      now apply (sd_snd_haps hv Hhv).
  Qed.

  Lemma index_sorted_keeps_records out :
    index_output true f = Ok out -> Permutation (records f) (records out).
  Proof.
    unfold index_output. rewrite read_plain_closed by exact W. cbn [bind]. fold V. fold d.
    destruct (tabix_accepts (to_str (sort_data d))); [|discriminate].
    intros E. inversion E; subst. apply sorted_output_keeps_records.
  Qed.
End Keeps.

(* --no-sort: every line, header and extra fields included, verbatim *)
Lemma index_nosort_verbatim f out : index_output false f = Ok out -> out = f.
Proof. unfold index_output. destruct (tabix_accepts f); [|discriminate]. now inversion 1. Qed.

Lemma index_nosort_accepts f : tabix_accepts f = true -> index_output false f = Ok f.
Proof. unfold index_output. now intros ->. Qed.

(* and refused otherwise: the two cases are exhaustive *)
Lemma index_nosort_refuses f : tabix_accepts f = false -> index_output false f = Err E_OS.
Proof. unfold index_output. now intros ->. Qed.

Lemma tabix_accepts_okb f : tabix_accepts f = true -> tabix_okb f = true.
Proof. unfold tabix_accepts. intros H. apply andb_true_iff in H. tauto. Qed.

Lemma tabix_accepts_range f : tabix_accepts f = true -> range_okb f = true.
Proof. unfold tabix_accepts. intros H. apply andb_true_iff in H. tauto. Qed.
