(* C11 - the sorted output of index_haps is accepted by tabix: every sequence
   name (contig for H/R lines, haplotype ID for V lines) occupies one contiguous
   block and starts never decrease inside a block. *)
From HV Require Import Prelude C11_Model C11_Check C11_Proofs C11_Proofs2 C11_Proofs3.
From Coq Require Import Permutation Sorted.

(* ---- the walker on (seq, start, end) triples ----------------------------- *)

Definition T := (Z * Z * Z)%type.

Fixpoint walk3 (seen : list Z) (cur : option (Z * Z)) (ts : list T) : bool :=
  match ts with
  | [] => true
  | (q, s, e) :: r =>
    (s - 1 <=? e) &&
    match cur with
    | None => walk3 seen (Some (q, s)) r
    | Some (c, last) =>
      if q =? c then (last <=? s) && walk3 seen (Some (q, s)) r
      else negb (memZ q (c :: seen)) && walk3 (c :: seen) (Some (q, s)) r
    end
  end.

Definition triples (f : list line) : list T :=
  flat_map (fun l => match tbx l with Some t => [t] | None => [] end) f.

Lemma tabix_walk_triples f : forall seen cur, tabix_walk seen cur f = walk3 seen cur (triples f).
Proof.
  induction f as [|l r IH]; intros seen cur; [reflexivity|]. cbn [tabix_walk triples flat_map].
  fold (triples r). destruct (tbx l) as [[[q s] e]|]; cbn [app]; [|apply IH].
  cbn [walk3]. destruct cur as [[c last]|]; [destruct (q =? c)|]; now rewrite IH.
Qed.

(* the .tbi range test only looks at the triples, too *)
Lemma range_okb_triples f : range_okb f = forallb (fun t : T => snd t <=? TBI_MAX) (triples f).
Proof.
  unfold range_okb, triples. induction f as [|l r IH]; [reflexivity|]. cbn [forallb flat_map].
  rewrite forallb_app, IH. destruct (tbx l) as [[[q s] e]|]; cbn; [now rewrite andb_true_r|reflexivity].
Qed.

Lemma range_okb_line f l c s e : range_okb f = true -> In l f -> tbx l = Some (c, s, e) -> e <= TBI_MAX.
Proof.
  unfold range_okb. intros H Hl Et. rewrite forallb_forall in H. specialize (H l Hl). rewrite Et in H.
  now apply Z.leb_le.
Qed.

(* ---- sorted by (class, seq, start) => accepted --------------------------- *)

Section Walk.
  Variable cls : Z -> Z.

  Definition Kle (a b : T) : Prop :=
    let '(q1, s1, _) := a in let '(q2, s2, _) := b in
    cls q1 < cls q2 \/ (cls q1 = cls q2 /\ (q1 < q2 \/ (q1 = q2 /\ s1 <= s2))).

  Lemma Kle_trans a b c : Kle a b -> Kle b c -> Kle a c.
  Proof. destruct a as [[? ?] ?], b as [[? ?] ?], c as [[? ?] ?]. unfold Kle. lia. Qed.

  Definition seq_ne (x : Z) (t : T) : Prop := fst (fst t) <> x.
  Definition se_ok (t : T) : Prop := snd (fst t) - 1 <= snd t.

  Lemma walk3_sorted ts : forall seen cur,
    StronglySorted Kle ts -> Forall se_ok ts ->
    match cur with None => True | Some (c, last) => Forall (Kle (c, last, 0)) ts end ->
    (forall x, In x seen -> Forall (seq_ne x) ts) ->
    walk3 seen cur ts = true.
  Proof.
    induction ts as [|[[q s] e] r IH]; intros seen cur Hs Hse Hcur Hseen; [reflexivity|].
    inversion Hs as [|? ? Hsr Hall]; subst. inversion Hse as [|? ? Hse1 Hser]; subst.
    cbn [walk3]. unfold se_ok in Hse1. cbn in Hse1. rewrite (proj2 (Z.leb_le _ _) Hse1). cbn [andb].
    assert (Hnext : Forall (Kle (q, s, 0)) r).
    { eapply Forall_impl; [|exact Hall]. intros [[q' s'] e'] H. exact H. }
    destruct cur as [[c last]|].
    - inversion Hcur as [|? ? Hc1 Hcr]; subst. destruct (Z.eqb_spec q c) as [->|Hne].
      + unfold Kle in Hc1. rewrite (proj2 (Z.leb_le last s)) by lia. cbn [andb].
        apply IH; auto. intros x Hx. specialize (Hseen x Hx). now inversion Hseen.
      + assert (Hq : ~ In q (c :: seen)).
        { intros [E|Hin]; [congruence|]. specialize (Hseen q Hin). inversion Hseen as [|? ? H1 _]; subst.
          apply H1. reflexivity. }
        rewrite (proj2 (memZ_false _ _) Hq). cbn [negb andb].
        apply IH; auto. intros x [<-|Hx].
        * (* the block of c is over: nothing later carries c *)
          apply Forall_forall. intros [[q' s'] e'] Hin. unfold seq_ne. cbn [fst].
          rewrite Forall_forall in Hall. specialize (Hall _ Hin). unfold Kle in Hc1, Hall. intros ->. lia.
        * specialize (Hseen x Hx). now inversion Hseen.
    - apply IH; auto. intros x Hx. specialize (Hseen x Hx). now inversion Hseen.
  Qed.
End Walk.

(* ---- generic facts about StronglySorted --------------------------------- *)

Lemma SS_app {A} (R : A -> A -> Prop) a b :
  StronglySorted R a -> StronglySorted R b -> (forall x y, In x a -> In y b -> R x y) ->
  StronglySorted R (a ++ b).
Proof.
  induction 1 as [|x a Hs IH Hall]; intros Hb Hab; [exact Hb|]. cbn [app]. constructor.
  - apply IH; [exact Hb|]. intros; apply Hab; [now right|assumption].
  - apply Forall_app. split; [exact Hall|]. apply Forall_forall. intros y Hy. apply Hab; [now left|exact Hy].
Qed.

Lemma SS_map {A B} (R : A -> A -> Prop) (Q : B -> B -> Prop) (g : A -> B) l :
  (forall x y, In x l -> In y l -> R x y -> Q (g x) (g y)) -> StronglySorted R l -> StronglySorted Q (map g l).
Proof.
  intros H. induction 1 as [|x l Hs IH Hall]; [constructor|]. cbn [map]. constructor.
  - apply IH. intros; apply H; auto; now right.
  - apply Forall_forall. intros y Hy. apply in_map_iff in Hy. destruct Hy as [z [<- Hz]].
    rewrite Forall_forall in Hall. apply H; [now left|now right|now apply Hall].
Qed.

Lemma SS_flat_map {A B} (R : A -> A -> Prop) (Q : B -> B -> Prop) (g : A -> list B) l :
  StronglySorted R l ->
  (forall x, In x l -> StronglySorted Q (g x)) ->
  (forall x y u v, In x l -> In y l -> R x y -> In u (g x) -> In v (g y) -> Q u v) ->
  StronglySorted Q (flat_map g l).
Proof.
  induction 1 as [|x l Hs IH Hall]; intros Hin Hx; [constructor|]. cbn [flat_map].
  apply SS_app.
  - apply Hin. now left.
  - apply IH; [intros; apply Hin; now right|].
    intros a b u v Ha Hb Hab Hu Hv. apply (Hx a b u v); [now right|now right|assumption..].
  - intros u v Hu Hv. apply in_flat_map in Hv. destruct Hv as [y [Hy Hv]].
    rewrite Forall_forall in Hall. apply (Hx x y u v); [now left|now right|now apply Hall|exact Hu|exact Hv].
Qed.

Lemma SS_strict {A} (key : A -> Z) l :
  StronglySorted (fun a b => key a <= key b) l -> NoDup (map key l) ->
  StronglySorted (fun a b => key a < key b) l.
Proof.
  induction 1 as [|x l Hs IH Hall]; intros Hnd; [constructor|]. cbn [map] in Hnd.
  inversion Hnd as [|? ? Hni Hr]; subst. constructor; [now apply IH|].
  apply Forall_forall. intros y Hy. rewrite Forall_forall in Hall. specialize (Hall y Hy).
  assert (key x <> key y) by (intros E; apply Hni; rewrite E; now apply in_map). lia.
Qed.

(* ---- the file index_haps writes ----------------------------------------- *)

Definition hr_t (hv : hrec * list vrec) : T := (h_chrom (fst hv), h_start (fst hv), h_end (fst hv)).
Definition v_t (i : Z) (v : vrec) : T := (i, v_start v, v_end v).
Definition byid (a b : hrec * list vrec) : bool := h_id (fst a) <? h_id (fst b).

Lemma triples_app a b : triples (a ++ b) = triples a ++ triples b.
Proof. unfold triples. apply flat_map_app. Qed.

Lemma triples_to_str d :
  triples (to_str d)
  = map hr_t d ++ flat_map (fun hv => map (v_t (h_id (fst hv))) (snd hv)) (isort byid (filter Pnr d)).
Proof.
  unfold to_str. change (LC VERSION_LINE :: ?x) with ([LC VERSION_LINE] ++ x).
  rewrite !triples_app. change (triples [LC VERSION_LINE]) with (@nil T). cbn [app]. f_equal.
  - unfold triples. induction d as [|hv r IH]; [reflexivity|]. cbn [map flat_map]. rewrite IH.
    unfold hr_line, hr_t. destruct (h_rep (fst hv)); reflexivity.
  - fold byid. fold Pnr. induction (isort byid (filter Pnr d)) as [|hv r IH]; [reflexivity|]. cbn [flat_map].
    rewrite triples_app, IH. f_equal. unfold triples.
    induction (snd hv) as [|v t IHt]; [reflexivity|]. cbn [map flat_map]. now rewrite IHt.
Qed.

Lemma hrs_line f h : In h (hrs f) -> exists l, In l f /\ tbx l = Some (h_chrom h, h_start h, h_end h).
Proof.
  unfold hrs. intros H. apply in_flat_map in H. destruct H as [l [Hl Hh]]. exists l. split; [exact Hl|].
  destruct l; cbn in Hh; try contradiction; destruct Hh as [<-|[]]; reflexivity.
Qed.

Lemma vrecs_line f v : In v (vrecs f) -> exists l, In l f /\ tbx l = Some (v_hap v, v_start v, v_end v).
Proof.
  unfold vrecs. intros H. apply in_flat_map in H. destruct H as [l [Hl Hh]]. exists l. split; [exact Hl|].
  destruct l; cbn in Hh; try contradiction; destruct Hh as [<-|[]]; reflexivity.
Qed.

Lemma contigs_hrs f : contigs f = map h_chrom (hrs f).
Proof.
  unfold contigs, hrs. induction f as [|l r IH]; [reflexivity|]. cbn [flat_map]. rewrite map_app, <- IH.
  destruct l; reflexivity.
Qed.

Section Accepted.
  Variable f : list line.
  Hypothesis W : wf f.
  Let V := vrecs f.
  Let d := map (entry_of V) (hrs f).
  Let sd := sort_data d.
  Let C := contigs f.
  Definition cls (q : Z) : Z := if memZ q C then 0 else 1.

  Lemma sd_in hv : In hv sd -> exists x, In x d /\ hv = gsort x.
  Proof.
    unfold sd. rewrite sort_data_eq. intros H. apply in_map_iff in H. destruct H as [x [<- Hx]].
    exists x. split; [|reflexivity]. eapply Permutation_in; [symmetry; apply isort_perm|exact Hx].
  Qed.

  Lemma d_in x : In x d -> In (fst x) (hrs f) /\ snd x = vars_for (h_id (fst x)) V.
  Proof. unfold d. intros H. apply in_map_iff in H. destruct H as [h [<- Hh]]. now split. Qed.

  Lemma sd_fst_in hv : In hv sd -> In (fst hv) (hrs f).
  Proof. intros H. destruct (sd_in hv H) as [x [Hx ->]]. cbn [gsort fst]. now apply d_in. Qed.

  Lemma sd_contig hv : In hv sd -> cls (h_chrom (fst hv)) = 0.
  Proof.
    intros H. unfold cls. replace (memZ _ C) with true; [reflexivity|]. symmetry. apply memZ_In.
    unfold C. rewrite contigs_hrs. apply in_map. now apply sd_fst_in.
  Qed.

  Lemma sd_hapid hv : In hv sd -> Pnr hv = true -> cls (h_id (fst hv)) = 1.
  Proof.
    intros H Hp. unfold cls. replace (memZ _ C) with false; [reflexivity|]. symmetry. apply memZ_false.
    apply W. rewrite h_ids_filter. apply in_map. apply filter_In. split; [now apply sd_fst_in|exact Hp].
  Qed.

  Lemma sd_vars_in hv v : In hv sd -> In v (snd hv) -> In v V /\ v_hap v = h_id (fst hv).
  Proof.
    intros H Hv. destruct (sd_in hv H) as [x [Hx ->]]. cbn [gsort fst].
    eapply Permutation_in in Hv; [|symmetry; apply snd_gsort_perm].
    destruct (d_in x Hx) as [_ E]. rewrite E in Hv. apply filter_In in Hv. destruct Hv as [Hv Eh].
    split; [exact Hv|now apply Z.eqb_eq].
  Qed.

  Lemma sd_vars_sorted hv : In hv sd -> Pnr hv = true -> StronglySorted v_key_le (snd hv).
  Proof.
    intros H Hp. destruct (sd_in hv H) as [x [Hx ->]]. unfold Pnr in Hp. cbn [gsort fst snd] in *.
    apply negb_true_iff in Hp. rewrite Hp. apply sort_v_perm_sorted.
  Qed.

  Lemma d_fst : map fst d = hrs f.
  Proof. unfold d. rewrite map_map. cbn [entry_of fst]. apply map_id. Qed.

  Lemma sd_ids_nodup : NoDup (map (fun hv : hrec * list vrec => h_id (fst hv)) sd).
  Proof.
    rewrite <- (map_map fst h_id). unfold sd. eapply Permutation_NoDup; [apply Permutation_map, sd_perm_fst|].
    rewrite d_fst, hrs_ids. apply W.
  Qed.

  Theorem sorted_output_tabix_ok : tabix_okb (to_str sd) = true.
  Proof.
    unfold tabix_okb. rewrite tabix_walk_triples, triples_to_str.
    apply (walk3_sorted cls); [|  | exact I | intros x []].
    - (* sorted by (class, seq, start) *)
      apply SS_app.
      + (* H/R lines *)
        apply SS_map with (R := fun a b => h_key_le (fst a) (fst b)).
        * intros x y Hx Hy Hk. unfold Kle, hr_t. rewrite (sd_contig x Hx), (sd_contig y Hy).
          unfold h_key_le in Hk. lia.
        * pose proof (proj2 (sort_h_perm_sorted (map fst d))) as Hs.
          assert (E : map fst sd = isort h_ltb (map fst d)).
          { unfold sd. rewrite sd_fst. clear. induction d as [|x r IH]; [reflexivity|].
            cbn [isort map]. rewrite <- IH. clear IH. induction (isort hlt' r) as [|y t IHt]; [reflexivity|].
            cbn [insert map]. unfold hlt' at 1. destruct (h_ltb (fst y) (fst x)); cbn [map]; [now rewrite IHt|reflexivity]. }
          rewrite <- E in Hs. clear E. induction sd as [|x r IHr]; [constructor|]. cbn [map] in Hs.
          inversion Hs as [|? ? Hsr Hall]; subst. constructor; [now apply IHr|].
          apply Forall_forall. intros y Hy. rewrite Forall_forall in Hall. apply Hall. now apply in_map.
      + (* V lines: blocks in ascending haplotype ID, each sorted by start *)
        apply SS_flat_map with (R := fun a b : hrec * list vrec => h_id (fst a) < h_id (fst b)).
        * apply (SS_strict (fun hv : hrec * list vrec => h_id (fst hv))).
          -- eapply StronglySorted_impl; [|apply (isort_sorted byid)].
             ++ intros a b. unfold leR, byid. intros H. apply Z.ltb_ge in H. exact H.
             ++ intros a b. unfold byid. rewrite Z.ltb_lt. intros H. apply Z.ltb_ge. lia.
             ++ intros a b c. unfold leR, byid. rewrite !Z.ltb_ge. lia.
          -- eapply Permutation_NoDup; [apply Permutation_map, isort_perm|].
             apply NoDup_map_filter. apply sd_ids_nodup.
        * intros hv Hhv. eapply Permutation_in in Hhv; [|symmetry; apply isort_perm].
          apply filter_In in Hhv. destruct Hhv as [Hin Hp].
          apply SS_map with (R := v_key_le); [|now apply sd_vars_sorted].
          intros x y _ _ Hk. unfold Kle, v_t, v_key_le in *. lia.
        * intros x y u v Hx Hy Hlt Hu Hv.
          eapply Permutation_in in Hx; [|symmetry; apply isort_perm].
          eapply Permutation_in in Hy; [|symmetry; apply isort_perm].
          apply filter_In in Hx. apply filter_In in Hy. destruct Hx as [Hx Px], Hy as [Hy Py].
          apply in_map_iff in Hu. apply in_map_iff in Hv. destruct Hu as [u' [<- _]], Hv as [v' [<- _]].
          unfold Kle, v_t. rewrite (sd_hapid x Hx Px), (sd_hapid y Hy Py). lia.
      + (* contigs come before haplotype IDs *)
        intros a b Ha Hb. apply in_map_iff in Ha. destruct Ha as [x [<- Hx]].
        apply in_flat_map in Hb. destruct Hb as [y [Hy Hb]].
        eapply Permutation_in in Hy; [|symmetry; apply isort_perm]. apply filter_In in Hy. destruct Hy as [Hy Py].
        apply in_map_iff in Hb. destruct Hb as [v [<- _]].
        unfold Kle, hr_t, v_t. rewrite (sd_contig x Hx), (sd_hapid y Hy Py). lia.
    - (* no record ends before it starts *)
      apply Forall_app. split.
      + apply Forall_forall. intros t Ht. apply in_map_iff in Ht. destruct Ht as [x [<- Hx]].
        destruct (hrs_line f _ (sd_fst_in x Hx)) as [l [Hl Et]]. pose proof (wf_se f W l _ _ _ Hl Et).
        unfold se_ok, hr_t. cbn. lia.
      + apply Forall_forall. intros t Ht. apply in_flat_map in Ht. destruct Ht as [y [Hy Ht]].
        eapply Permutation_in in Hy; [|symmetry; apply isort_perm]. apply filter_In in Hy. destruct Hy as [Hy _].
        apply in_map_iff in Ht. destruct Ht as [v [<- Hv]].
        destruct (sd_vars_in y v Hy Hv) as [HvV _].
        destruct (vrecs_line f v HvV) as [l [Hl Et]]. pose proof (wf_se f W l _ _ _ Hl Et).
        unfold se_ok, v_t. cbn. lia.
  Qed.

  (* every coordinate written was read: the output fits a .tbi if the input does *)
  Theorem sorted_output_range_ok : range_okb f = true -> range_okb (to_str sd) = true.
  Proof.
    intros R. rewrite range_okb_triples, triples_to_str. apply forallb_forall. intros t Ht.
    apply Z.leb_le. apply in_app_or in Ht. destruct Ht as [Ht|Ht].
    - apply in_map_iff in Ht. destruct Ht as [x [<- Hx]].
      destruct (hrs_line f _ (sd_fst_in x Hx)) as [l [Hl Et]]. exact (range_okb_line f l _ _ _ R Hl Et).
    - apply in_flat_map in Ht. destruct Ht as [y [Hy Ht]].
      eapply Permutation_in in Hy; [|symmetry; apply isort_perm]. apply filter_In in Hy. destruct Hy as [Hy _].
      apply in_map_iff in Ht. destruct Ht as [v [<- Hv]].
      destruct (sd_vars_in y v Hy Hv) as [HvV _].
      destruct (vrecs_line f v HvV) as [l [Hl Et]]. exact (range_okb_line f l _ _ _ R Hl Et).
  Qed.

  Theorem sorted_output_accepted : range_okb f = true -> tabix_accepts (to_str sd) = true.
  Proof.
    intros R. unfold tabix_accepts. now rewrite sorted_output_tabix_ok, sorted_output_range_ok.
  Qed.

  (* hence index_haps never fails on a well-formed file whose coordinates fit a
     .tbi, and keeps its records *)
  Theorem index_sorted_total : range_okb f = true ->
    exists out, index_output true f = Ok out /\
    tabix_accepts out = true /\ Permutation (records f) (records out).
  Proof.
    intros R. exists (to_str sd). unfold index_output. rewrite read_plain_closed by exact W. cbn [bind].
    fold V. fold d. fold sd. rewrite (sorted_output_accepted R). split; [reflexivity|]. split; [reflexivity|].
    apply sorted_output_keeps_records. exact W.
  Qed.
End Accepted.
