(* C11 - indexed read restricted to a set of IDs only (no region): the early
   exit of _iter_haps ("stop once every requested ID was seen") loses nothing. *)
From HV Require Import Prelude C11_Model C11_Check C11_Proofs C11_Proofs2.
From Coq Require Import Permutation.

Lemma hrs_app a b : hrs (a ++ b) = hrs a ++ hrs b.
Proof. unfold hrs. apply flat_map_app. Qed.

Lemma hrs_data_lines f : hrs (data_lines f) = hrs f.
Proof.
  unfold hrs, data_lines. induction f as [|l r IH]; [reflexivity|]. cbn [filter flat_map].
  destruct l; cbn [is_data tbx hr_of flat_map app]; now rewrite ?IH.
Qed.

Section Ids.
  Variable fetch : list line -> Z -> option Z -> option Z -> res (list line).
  Hypothesis fetch_ok : forall f q a b, tabix_accepts f = true -> fetch f q a b = fetch_spec f q a b.
  Variable f : list line.
  Hypothesis Htab : tabix_accepts f = true.
  Variable ids : list Z.
  Hypothesis ids_nodup : NoDup ids.

  Definition want (h : hrec) : bool := memZ (h_id h) ids.
  Definition out_of (ls : list line) : list item :=
    flat_map (fun h => IH h :: vitems f h) (filter want (hrs ls)).

  (* once every requested ID has been matched, nothing later matches *)
  Lemma all_seen matched ls :
    NoDup matched -> incl matched ids -> (length ids <= length matched)%nat ->
    (forall h, In h (hrs ls) -> ~ In (h_id h) matched) ->
    filter want (hrs ls) = [].
  Proof.
    intros Hnd Hincl Hlen Hdis. apply filter_none. intros h Hh. unfold want. apply memZ_false. intros Hin.
    apply (Hdis h Hh). apply (NoDup_length_incl Hnd Hlen Hincl). exact Hin.
  Qed.

  Lemma iter_ids_ok ls : forall matched,
    NoDup matched -> incl matched ids ->
    NoDup (map h_id (hrs ls)) ->
    (forall h, In h (hrs ls) -> ~ In (h_id h) matched) ->
    iter_ids false fetch f ids (Z.of_nat (length matched)) ls = Ok (out_of ls).
  Proof.
    induction ls as [|l rest IH]; intros matched Hnd Hincl Hfile Hdis; [reflexivity|].
    assert (Hstop : (Z.of_nat (length matched) =? lenZ ids) = true -> out_of rest = []).
    { intros E. apply Z.eqb_eq in E. unfold lenZ in E. apply Nat2Z.inj in E. unfold out_of.
      rewrite (all_seen matched rest); auto; [lia|].
      intros h Hh. apply Hdis. change (l :: rest) with ([l] ++ rest). rewrite hrs_app. apply in_or_app. now right. }
    assert (Hskip : hrs (l :: rest) = hrs rest ->
            (if Z.of_nat (length matched) =? lenZ ids then Ok []
             else iter_ids false fetch f ids (Z.of_nat (length matched)) rest) = Ok (out_of (l :: rest))).
    { intros E. unfold out_of at 1. rewrite E. fold (out_of rest).
      destruct (Z.of_nat (length matched) =? lenZ ids) eqn:Ec; [now rewrite Hstop|].
      apply IH; auto; rewrite <- E; assumption. }
    destruct l as [c|c s e j x|c s e j x|h s e j a x|t q s e x]; cbn [iter_ids];
      try (apply Hskip; reflexivity).
    - (* H line *)
      set (hh := mkh false c s e j).
      assert (Ehrs : hrs (LH c s e j x :: rest) = hh :: hrs rest) by reflexivity.
      destruct (memZ j ids) eqn:Em.
      + unfold out_of. rewrite Ehrs. cbn [filter]. unfold want at 1. cbn [h_id hh]. rewrite Em.
        cbn [flat_map]. fold (out_of rest). unfold emit. rewrite (variants_of_ok fetch fetch_ok f Htab).
        cbn [bind].
        assert (Hj : ~ In j matched) by (apply (Hdis hh); rewrite Ehrs; now left).
        rewrite Ehrs in Hfile. cbn [map h_id hh] in Hfile. inversion Hfile as [|? ? Hjr Hrest]; subst.
        replace (Z.of_nat (length matched) + 1) with (Z.of_nat (length (j :: matched))) by (cbn [length]; lia).
        assert (Hm' : NoDup (j :: matched)) by (constructor; assumption).
        assert (Hi' : incl (j :: matched) ids).
        { intros y [<-|Hy]; [now apply memZ_In|now apply Hincl]. }
        assert (Hd' : forall h, In h (hrs rest) -> ~ In (h_id h) (j :: matched)).
        { intros h Hh [E|Hin].
          - apply Hjr. rewrite E. now apply in_map.
          - apply (Hdis h); [rewrite Ehrs; now right|exact Hin]. }
        destruct (Z.of_nat (length (j :: matched)) =? lenZ ids) eqn:Ec.
        * apply Z.eqb_eq in Ec. unfold lenZ in Ec. apply Nat2Z.inj in Ec.
          assert (Hnil : filter want (hrs rest) = []) by (apply (all_seen (j :: matched) rest); auto; lia).
          unfold out_of. rewrite Hnil. cbn [flat_map bind]. now rewrite !app_nil_r.
        * rewrite (IH (j :: matched)); auto.
      + unfold out_of at 1. rewrite Ehrs. cbn [filter]. unfold want at 1. cbn [h_id hh]. rewrite Em.
        fold (out_of rest).
        destruct (Z.of_nat (length matched) =? lenZ ids) eqn:Ec; [now rewrite Hstop|].
        apply IH; auto.
        * rewrite Ehrs in Hfile. now inversion Hfile.
        * intros h Hh. apply Hdis. rewrite Ehrs. now right.
    - (* R line *)
      set (hh := mkh true c s e j).
      assert (Ehrs : hrs (LR c s e j x :: rest) = hh :: hrs rest) by reflexivity.
      destruct (memZ j ids) eqn:Em.
      + unfold out_of. rewrite Ehrs. cbn [filter]. unfold want at 1. cbn [h_id hh]. rewrite Em.
        cbn [flat_map]. fold (out_of rest). unfold emit. rewrite (variants_of_ok fetch fetch_ok f Htab).
        cbn [bind].
        assert (Hj : ~ In j matched) by (apply (Hdis hh); rewrite Ehrs; now left).
        rewrite Ehrs in Hfile. cbn [map h_id hh] in Hfile. inversion Hfile as [|? ? Hjr Hrest]; subst.
        replace (Z.of_nat (length matched) + 1) with (Z.of_nat (length (j :: matched))) by (cbn [length]; lia).
        assert (Hm' : NoDup (j :: matched)) by (constructor; assumption).
        assert (Hi' : incl (j :: matched) ids).
        { intros y [<-|Hy]; [now apply memZ_In|now apply Hincl]. }
        assert (Hd' : forall h, In h (hrs rest) -> ~ In (h_id h) (j :: matched)).
        { intros h Hh [E|Hin].
          - apply Hjr. rewrite E. now apply in_map.
          - apply (Hdis h); [rewrite Ehrs; now right|exact Hin]. }
        destruct (Z.of_nat (length (j :: matched)) =? lenZ ids) eqn:Ec.
        * apply Z.eqb_eq in Ec. unfold lenZ in Ec. apply Nat2Z.inj in Ec.
          assert (Hnil : filter want (hrs rest) = []) by (apply (all_seen (j :: matched) rest); auto; lia).
          unfold out_of. rewrite Hnil. cbn [flat_map bind]. now rewrite !app_nil_r.
        * rewrite (IH (j :: matched)); auto.
      + unfold out_of at 1. rewrite Ehrs. cbn [filter]. unfold want at 1. cbn [h_id hh]. rewrite Em.
        fold (out_of rest).
        destruct (Z.of_nat (length matched) =? lenZ ids) eqn:Ec; [now rewrite Hstop|].
        apply IH; auto.
        * rewrite Ehrs in Hfile. now inversion Hfile.
        * intros h Hh. apply Hdis. rewrite Ehrs. now right.
  Qed.

  Hypothesis W : wf f.

  (* IDs alone: the records whose ID was asked for, each with all its variants *)
  Lemma indexed_ids_eq_filter : ids <> [] ->
    exists full, read_plain f None = Ok full /\
      read_indexed false fetch f None (Some ids) = Ok (filter (selected None (Some ids)) full).
  Proof.
    intros Hne. eexists. split; [apply read_plain_closed, W|].
    unfold read_indexed, iter_indexed. destruct ids as [|i0 ids'] eqn:Eids; [congruence|]. rewrite <- Eids.
    change 0 with (Z.of_nat (length (@nil Z))).
    rewrite iter_ids_ok; [|constructor|intros y []|rewrite hrs_data_lines, hrs_ids; apply W|intros h _ []].
    cbn [bind]. unfold out_of. rewrite hrs_data_lines, collect_sel by exact W. f_equal.
    induction (hrs f) as [|h t IHt]; [reflexivity|]. cbn [filter map].
    unfold selected at 1, want at 1. cbn [fst entry_of id_ok]. rewrite andb_true_r.
    destruct (memZ (h_id h) ids); cbn [map]; now rewrite IHt.
  Qed.
End Ids.
