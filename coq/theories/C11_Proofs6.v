(* C11 - soundness of the index checker: what holds_index = true means. *)
From HV Require Import Prelude C11_Model C11_Check C11_Proofs C11_Proofs2.
From Coq Require Import Permutation.

Lemma zl_eqb_eq a b : zl_eqb a b = true -> a = b.
Proof. apply (proj1 (list_eqb_spec Z.eqb Z.eqb_eq a b)). Qed.

Lemma line_eqb_eq a b : line_eqb a b = true -> a = b.
Proof.
  destruct a, b; cbn [line_eqb]; try discriminate; rewrite ?andb_true_iff, ?Z.eqb_eq; intros H;
    repeat match goal with H : _ /\ _ |- _ => destruct H end;
    repeat match goal with H : zl_eqb _ _ = true |- _ => apply zl_eqb_eq in H end; subst; reflexivity.
Qed.

Lemma lines_eqb_eq a b : lines_eqb a b = true -> a = b.
Proof.
  revert b. induction a as [|x r IH]; intros [|y s]; cbn; try discriminate; [reflexivity|].
  rewrite andb_true_iff. intros [H1 H2]. apply line_eqb_eq in H1. apply IH in H2. now subst.
Qed.

Lemma res_lines_eqb_ok x y : res_eqb lines_eqb x (Ok y) = true -> x = Ok y.
Proof. destruct x as [a|k]; cbn; [|discriminate]. intros H. apply lines_eqb_eq in H. now subst. Qed.

Lemma item_eqb_eq a b : item_eqb a b = true -> a = b.
Proof.
  destruct a, b; cbn [item_eqb]; try discriminate; intros H;
    [apply hrec_eqb_eq in H|apply vrec_eqb_eq in H]; now subst.
Qed.

Lemma perm_eqb_item l1 l2 : perm_eqb item_eqb l1 l2 = true -> Permutation l1 l2.
Proof.
  intros H. destruct (perm_eqb_sound item_eqb eq item_eqb_eq _ _ H) as [l [Hp Hf]].
  apply Forall2_eq in Hf. subst. now symmetry.
Qed.

Lemma unchanged_ok_sound k : unchanged_ok k = true -> i_plain k = true -> i_after k = Some (i_in k).
Proof.
  unfold unchanged_ok. intros H Hp. rewrite Hp in H. cbn [negb orb] in H.
  destruct (i_after k) as [a|]; [|discriminate]. cbn in H. apply lines_eqb_eq in H. now subst.
Qed.

Lemma indexed_ok_sound k out : indexed_ok k out = true -> i_tbi k = true /\ i_fetch k = Ok (data_lines out).
Proof.
  unfold indexed_ok. rewrite andb_true_iff. intros [H1 H2]. split; [exact H1|now apply res_lines_eqb_ok].
Qed.

(* sorted mode on a .hap file: either the run was not observed, or a coordinate
   lies beyond what a .tbi can hold and the run failed, or it returned normally
   with a complete, accepted and indexed file *)
Lemma holds_index_sorted_sound k :
  i_sort k = true -> wf_file (i_in k) = true -> holds_index k = true ->
  i_obs k = Err E_Unobserved \/
  (range_okb (i_in k) = false /\ exists e, i_obs k = Err e) \/
  exists out, i_obs k = Ok out
    /\ Permutation (records (i_in k)) (records out)
    /\ (forall l, In l out -> match l with LX _ _ _ _ _ => False | _ => True end)
    /\ tabix_okb out = true
    /\ i_tbi k = true
    /\ i_fetch k = Ok (data_lines out)
    /\ (i_plain k = true -> i_after k = Some (i_in k)).
Proof.
  intros Hs Hw. unfold holds_index. rewrite Hs, Hw. destruct (i_obs k) as [out|e].
  2: { intros E. apply orb_true_iff in E. destruct E as [E|E].
       - apply Z.eqb_eq in E. subst. now left.
       - right. left. apply negb_true_iff in E. split; [exact E|now exists e]. }
  rewrite !andb_true_iff. intros [[[[H1 H2] H3] H4] H5]. right. right. exists out. split; [reflexivity|].
  split; [now apply perm_eqb_item|]. split.
  - intros l Hl. rewrite forallb_forall in H2. specialize (H2 l Hl). destruct l; try exact I. discriminate.
  - split; [exact H3|]. destruct (indexed_ok_sound _ _ H4) as [H6 H7].
    split; [exact H6|]. split; [exact H7|]. now apply unchanged_ok_sound.
Qed.

(* in particular, when every coordinate fits: the run succeeded *)
Lemma holds_index_sorted_total k :
  i_sort k = true -> wf_file (i_in k) = true -> range_okb (i_in k) = true -> holds_index k = true ->
  i_obs k = Err E_Unobserved \/ exists out, i_obs k = Ok out /\ i_tbi k = true /\ i_fetch k = Ok (data_lines out).
Proof.
  intros Hs Hw Hr H. destruct (holds_index_sorted_sound k Hs Hw H) as [E|[[E _]|[out [E1 [_ [_ [_ [E2 [E3 _]]]]]]]]].
  - now left.
  - congruence.
  - right. exists out. auto.
Qed.

(* --no-sort, whatever the input: a normal return is a verbatim, indexed copy; an
   error only when tabix cannot take the file as it is *)
Lemma holds_index_nosort_sound k :
  i_sort k = false -> holds_index k = true ->
  i_obs k = Err E_Unobserved \/
  (tabix_accepts (i_in k) = false /\ exists e, i_obs k = Err e) \/
  (i_obs k = Ok (i_in k)
   /\ i_tbi k = true
   /\ i_fetch k = Ok (data_lines (i_in k))
   /\ (i_plain k = true -> i_after k = Some (i_in k))).
Proof.
  intros Hs. unfold holds_index. rewrite Hs. destruct (i_obs k) as [out|e].
  2: { intros E. apply orb_true_iff in E. destruct E as [E|E].
       - apply Z.eqb_eq in E. subst. now left.
       - right. left. apply negb_true_iff in E. split; [exact E|now exists e]. }
  rewrite !andb_true_iff. intros [[H1 H2] H3]. right. right.
  apply lines_eqb_eq in H1. subst out. destruct (indexed_ok_sound _ _ H2) as [H4 H5].
  split; [reflexivity|]. split; [exact H4|]. split; [exact H5|]. now apply unchanged_ok_sound.
Qed.

(* the case the property speaks of: tabix can take the file, so the run must succeed *)
Lemma holds_index_nosort_accepted k :
  i_sort k = false -> tabix_accepts (i_in k) = true -> holds_index k = true ->
  i_obs k = Err E_Unobserved \/
  (i_obs k = Ok (i_in k) /\ i_tbi k = true /\ i_fetch k = Ok (data_lines (i_in k))
   /\ (i_plain k = true -> i_after k = Some (i_in k))).
Proof.
  intros Hs Ht H. destruct (holds_index_nosort_sound k Hs H) as [E|[[E _]|E]]; [now left|congruence|now right].
Qed.
