(* C11 - soundness of the index checker: what holds_index = true means. *)
From HV Require Import Prelude C11_Model C11_Check C11_Proofs C11_Proofs2.
From Coq Require Import Permutation.

Lemma zl_eqb_eq a b : zl_eqb a b = true -> a = b.
Proof. apply (proj1 (list_eqb_spec Z.eqb Z.eqb_eq a b)). Qed.

Lemma line_eqb_eq a b : line_eqb a b = true -> a = b.
Proof.
  destruct a, b; cbn [line_eqb]; try discriminate; rewrite ?andb_true_iff, ?Z.eqb_eq; intros H;
    repeat match goal with H : _ /\ _ |- _ => destruct H end;
    repeat match goal with H : zl_eqb _ _ = true |- _ => apply zl_eqb_eq in H end; subst; reflexivity.
Qed.

Lemma lines_eqb_eq a b : lines_eqb a b = true -> a = b.
Proof.
  revert b. induction a as [|x r IH]; intros [|y s]; cbn; try discriminate; [reflexivity|].
  rewrite andb_true_iff. intros [H1 H2]. apply line_eqb_eq in H1. apply IH in H2. now subst.
Qed.

Lemma res_lines_eqb_ok x y : res_eqb lines_eqb x (Ok y) = true -> x = Ok y.
Proof. destruct x as [a|k]; cbn; [|discriminate]. intros H. apply lines_eqb_eq in H. now subst. Qed.

Lemma item_eqb_eq a b : item_eqb a b = true -> a = b.
Proof.
  destruct a, b; cbn [item_eqb]; try discriminate; intros H;
    [apply hrec_eqb_eq in H|apply vrec_eqb_eq in H]; now subst.
Qed.

Lemma perm_eqb_item l1 l2 : perm_eqb item_eqb l1 l2 = true -> Permutation l1 l2.
Proof.
  intros H. destruct (perm_eqb_sound item_eqb eq item_eqb_eq _ _ H) as [l [Hp Hf]].
  apply Forall2_eq in Hf. subst. now symmetry.
Qed.

Lemma holds_index_sorted_sound k :
  i_sort k = true -> wf_file (i_in k) = true -> holds_index k = true ->
  i_obs k = Err E_Unobserved \/
  exists out, i_obs k = Ok out
    /\ Permutation (records (i_in k)) (records out)
    /\ (forall l, In l out -> match l with LX _ _ _ _ _ => False | _ => True end)
    /\ tabix_okb out = true
    /\ i_fetch k = Ok (data_lines out)
    /\ (i_plain k = true -> i_after k = Some (i_in k)).
Proof.
  intros Hs Hw. unfold holds_index. rewrite Hs, Hw. destruct (i_obs k) as [out|e].
  2: { intros E. apply Z.eqb_eq in E. subst. now left. }
  rewrite !andb_true_iff. intros [[[[H1 H2] H3] H4] H5]. right. exists out. split; [reflexivity|].
  split; [now apply perm_eqb_item|]. split.
  - intros l Hl. rewrite forallb_forall in H2. specialize (H2 l Hl). destruct l; try exact I. discriminate.
  - split; [exact H3|]. split; [now apply res_lines_eqb_ok|].
    intros Hp. rewrite Hp in H5. cbn [negb orb] in H5. destruct (i_after k) as [a|]; [|discriminate].
    cbn in H5. apply lines_eqb_eq in H5. now subst.
Qed.

Lemma holds_index_nosort_sound k :
  i_sort k = false -> tabix_okb (i_in k) = true -> holds_index k = true ->
  i_obs k = Ok (i_in k)
  /\ i_fetch k = Ok (data_lines (i_in k))
  /\ (i_plain k = true -> i_after k = Some (i_in k)).
Proof.
  intros Hs Ht. unfold holds_index. rewrite Hs, Ht. rewrite !andb_true_iff. intros [[H1 H2] H3].
  split; [now apply res_lines_eqb_ok|]. split; [now apply res_lines_eqb_ok|].
  intros Hp. rewrite Hp in H3. cbn [negb orb] in H3. destruct (i_after k) as [a|]; [|discriminate].
  cbn in H3. apply lines_eqb_eq in H3. now subst.
Qed.
