(* C11 - the chain: a region query on the file index_haps wrote returns the
   records that filtering a full read of the ORIGINAL (un-indexed, unsorted)
   file gives, up to the order of records and of the variants in a record. *)
From HV Require Import Prelude C11_Model C11_Check C11_Proofs C11_Proofs2 C11_Proofs3 C11_Proofs4.
From Coq Require Import Permutation.

(* ---- well-formedness only depends on the records (files without other lines) *)

Definition noX (f : list line) : Prop :=
  forall l, In l f -> match l with LX _ _ _ _ _ => False | _ => True end.

Record wfR (H : list hrec) (V : list vrec) : Prop := {
  wr_nodup : NoDup (map h_id H);
  wr_vhap : forall v, In v V -> In (v_hap v) (map h_id (filter notrep H));
  wr_idcontig : forall h, In h H -> h_rep h = false -> ~ In (h_id h) (map h_chrom H);
  wr_hse : forall h, In h H -> h_start h <= h_end h;
  wr_vse : forall v, In v V -> v_start v <= v_end v
}.

Lemma wf_wfR f : wf f -> wfR (hrs f) (vrecs f).
Proof.
  intros W. split.
  - rewrite hrs_ids. apply W.
  - intros v Hv. rewrite <- h_ids_filter. apply W. rewrite <- vrecs_haps. now apply in_map.
  - intros h Hh Hr. rewrite <- contigs_hrs. apply W. rewrite h_ids_filter. apply in_map.
    apply filter_In. split; [exact Hh|]. unfold notrep. now rewrite Hr.
  - intros h Hh. destruct (hrs_line f h Hh) as [l [Hl Et]]. exact (wf_se f W l _ _ _ Hl Et).
  - intros v Hv. destruct (vrecs_line f v Hv) as [l [Hl Et]]. exact (wf_se f W l _ _ _ Hl Et).
Qed.

Lemma wfR_wf f : noX f -> wfR (hrs f) (vrecs f) -> wf f.
Proof.
  intros Hx R. split.
  - rewrite <- hrs_ids. apply R.
  - intros h Hh. rewrite <- vrecs_haps in Hh. apply in_map_iff in Hh. destruct Hh as [v [<- Hv]].
    rewrite h_ids_filter. now apply R.
  - intros i Hi. rewrite h_ids_filter in Hi. apply in_map_iff in Hi. destruct Hi as [h [<- Hh]].
    apply filter_In in Hh. destruct Hh as [Hh Hn]. rewrite contigs_hrs. apply R; [exact Hh|].
    unfold notrep in Hn. now apply negb_true_iff.
  - intros l c s e Hl Et. specialize (Hx l Hl).
    destruct l as [k|k s' e' j x|k s' e' j x|h s' e' j a x|t q s' e' x]; cbn [tbx] in Et; try discriminate;
      try contradiction; inversion Et; subst.
    + apply (wr_hse _ _ R (mkh false c s e j)). unfold hrs. apply in_flat_map. eexists. split; [exact Hl|now left].
    + apply (wr_hse _ _ R (mkh true c s e j)). unfold hrs. apply in_flat_map. eexists. split; [exact Hl|now left].
    + apply (wr_vse _ _ R (mkv c s e j a)). unfold vrecs. apply in_flat_map. eexists. split; [exact Hl|now left].
Qed.

Lemma wfR_perm H V H' V' : Permutation H H' -> Permutation V V' -> wfR H V -> wfR H' V'.
Proof.
  intros PH PV R. split.
  - eapply Permutation_NoDup; [apply Permutation_map, PH|apply R].
  - intros v Hv. eapply Permutation_in; [apply Permutation_map, Permutation_filter, PH|].
    apply R. eapply Permutation_in; [symmetry; exact PV|exact Hv].
  - intros h Hh Hr Hin. eapply (wr_idcontig _ _ R h); [eapply Permutation_in; [symmetry; exact PH|exact Hh]|exact Hr|].
    eapply Permutation_in; [symmetry; apply Permutation_map, PH|exact Hin].
  - intros h Hh. apply R. eapply Permutation_in; [symmetry; exact PH|exact Hh].
  - intros v Hv. apply R. eapply Permutation_in; [symmetry; exact PV|exact Hv].
Qed.

(* ---- the records of the written file ------------------------------------ *)

Lemma get_h_IH l : flat_map get_h (map IH l) = l.
Proof. induction l as [|x r IHl]; [reflexivity|]. cbn. now rewrite IHl. Qed.
Lemma get_h_IV l : flat_map get_h (map IV l) = [].
Proof. induction l as [|x r IHl]; [reflexivity|]. exact IHl. Qed.
Lemma get_v_IV l : flat_map get_v (map IV l) = l.
Proof. induction l as [|x r IHl]; [reflexivity|]. cbn. now rewrite IHl. Qed.
Lemma get_v_IH l : flat_map get_v (map IH l) = [].
Proof. induction l as [|x r IHl]; [reflexivity|]. exact IHl. Qed.

Lemma to_str_noX d : noX (to_str d).
Proof.
  intros l Hl. unfold to_str in Hl. destruct Hl as [<-|Hl]; [exact I|]. apply in_app_or in Hl.
  destruct Hl as [Hl|Hl].
  - apply in_map_iff in Hl. destruct Hl as [hv [<- _]]. unfold hr_line. now destruct (h_rep (fst hv)).
  - apply in_flat_map in Hl. destruct Hl as [hv [_ Hl]]. apply in_map_iff in Hl. now destruct Hl as [v [<- _]].
Qed.

Lemma filter_entries_same reg ids V1 V2 H : Permutation V1 V2 ->
  Forall2 entry_same (filter (selected reg ids) (map (entry_of V1) H))
                     (filter (selected reg ids) (map (entry_of V2) H)).
Proof.
  intros PV. induction H as [|h t IHt]; [constructor|]. cbn [map filter].
  assert (E : selected reg ids (entry_of V1 h) = selected reg ids (entry_of V2 h)) by reflexivity.
  rewrite E. destruct (selected reg ids (entry_of V2 h)); [|exact IHt]. constructor; [|exact IHt].
  split; [reflexivity|]. cbn [entry_of snd]. now apply Permutation_filter.
Qed.

Section Chain.
  Variable f : list line.
  Hypothesis W : wf f.
  Let V := vrecs f.
  Let d := map (entry_of V) (hrs f).
  Let sd := sort_data d.
  Let out := to_str sd.

  Lemma out_hrs : hrs out = map fst sd.
  Proof.
    rewrite <- get_h_plain. fold (records out). unfold out. rewrite records_to_str, flat_map_app.
    now rewrite get_h_IH, get_h_IV, app_nil_r.
  Qed.

  Lemma out_vrecs_perm : Permutation (vrecs f) (vrecs out).
  Proof.
    rewrite <- (get_v_plain out). fold (records out). unfold out. rewrite records_to_str, flat_map_app.
    rewrite get_v_IH, get_v_IV. cbn [app]. fold Pnr.
    erewrite flat_map_ext_in'; [apply variants_kept, W|].
    intros hv Hhv. cbn beta.
    eapply Permutation_in in Hhv; [|symmetry; apply isort_perm]. apply filter_In in Hhv. destruct Hhv as [Hhv _].
    rewrite <- (map_id (snd hv)) at 2. apply map_ext_in. intros v Hv. apply rehap_id.
    now apply (sd_snd_haps f hv Hhv).
  Qed.

  Lemma out_hrs_perm : Permutation (hrs f) (hrs out).
  Proof.
    rewrite out_hrs. unfold sd. replace (hrs f) with (map fst d); [apply sd_perm_fst|].
    unfold d. rewrite map_map. cbn [entry_of fst]. apply map_id.
  Qed.

  Lemma out_wf : wf out.
  Proof.
    apply wfR_wf; [apply to_str_noX|].
    eapply wfR_perm; [apply out_hrs_perm|apply out_vrecs_perm|now apply wf_wfR].
  Qed.

  Variable fetch : list line -> Z -> option Z -> option Z -> res (list line).
  Hypothesis fetch_ok : forall g q a b, tabix_accepts g = true -> fetch g q a b = fetch_spec g q a b.
  Hypothesis R : range_okb f = true.

  (* the property's second sentence, end to end *)
  Theorem query_on_index_output r ids :
    (r_a r = None -> r_b r = None) -> In (r_contig r) (contigs f) ->
    exists full res res',
      index_output true f = Ok out /\
      read_plain f None = Ok full /\
      read_indexed false fetch out (Some r) ids = Ok res /\
      Permutation res res' /\
      Forall2 entry_same (filter (selected (Some r) ids) full) res'.
  Proof.
    intros Hab Hc.
    assert (Hc' : In (r_contig r) (contigs out)).
    { rewrite contigs_hrs in *. eapply Permutation_in; [apply Permutation_map, out_hrs_perm|exact Hc]. }
    destruct (indexed_region_eq_filter fetch fetch_ok out (sorted_output_accepted f W R) out_wf
                r ids Hab Hc' (fun t s e x Hin => to_str_noX sd _ Hin)) as [full_out [E1 E2]].
    rewrite (read_plain_closed out out_wf) in E1. inversion E1 as [E1']. clear E1.
    exists (map (entry_of V) (hrs f)), (filter (selected (Some r) ids) full_out),
           (filter (selected (Some r) ids) (map (entry_of (vrecs out)) (hrs f))).
    split; [|split; [|split; [|split]]].
    - unfold index_output. rewrite (read_plain_closed f W). cbn [bind].
      rewrite (sorted_output_accepted f W R). reflexivity.
    - apply read_plain_closed, W.
    - exact E2.
    - rewrite <- E1'. apply Permutation_filter, Permutation_map. symmetry. apply out_hrs_perm.
    - apply filter_entries_same. apply out_vrecs_perm.
  Qed.
End Chain.
