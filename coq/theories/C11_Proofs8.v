(* C11 - the sorted order is unique when IDs are distinct, so any correct
   comparison sort (Python's sorted included) returns what the model's
   insertion sort returns. *)
From HV Require Import Prelude C11_Model C11_Check C11_Proofs C11_Proofs2.
From Coq Require Import Permutation Sorted.

Lemma SS_perm_eq {A} (R : A -> A -> Prop) (l1 : list A) : forall l2,
  (forall a b, In a l1 -> In b l1 -> R a b -> R b a -> a = b) ->
  StronglySorted R l1 -> StronglySorted R l2 -> Permutation l1 l2 -> l1 = l2.
Proof.
  induction l1 as [|x r1 IH]; intros l2 Hanti H1 H2 Hp.
  - apply Permutation_nil in Hp. now subst.
  - destruct l2 as [|y r2]; [apply Permutation_sym, Permutation_nil in Hp; discriminate|].
    inversion H1 as [|? ? Hs1 Hall1]; subst. inversion H2 as [|? ? Hs2 Hall2]; subst.
    rewrite Forall_forall in Hall1, Hall2.
    assert (Hxy : x = y).
    { assert (Hx : In x (y :: r2)) by (eapply Permutation_in; [exact Hp|now left]).
      assert (Hy : In y (x :: r1)) by (eapply Permutation_in; [symmetry; exact Hp|now left]).
      destruct Hx as [->|Hx]; [reflexivity|]. destruct Hy as [->|Hy]; [reflexivity|].
      apply Hanti; [now left|now right|now apply Hall1|now apply Hall2]. }
    subst y. f_equal. apply IH; auto.
    + intros a b Ha Hb. apply Hanti; now right.
    + eapply Permutation_cons_inv; exact Hp.
Qed.

Lemma h_key_antisym l a b : NoDup (map h_id l) -> In a l -> In b l ->
  h_key_le a b -> h_key_le b a -> a = b.
Proof.
  intros Hnd Ha Hb H1 H2. eapply NoDup_map_eq; eauto. unfold h_key_le in *. lia.
Qed.

(* any list that is a sorted permutation of the data is the model's result *)
Lemma sorted_unique (l l' : list hrec) :
  NoDup (map h_id l) -> Permutation l l' -> StronglySorted h_key_le l' -> l' = isort h_ltb l.
Proof.
  intros Hnd Hp Hs. destruct (sort_h_perm_sorted l) as [Hp' Hs'].
  apply SS_perm_eq with (R := h_key_le); auto.
  - intros a b Ha Hb. apply (h_key_antisym l'); auto.
    eapply Permutation_NoDup; [apply Permutation_map, Hp|exact Hnd].
  - etransitivity; [symmetry; exact Hp|exact Hp'].
Qed.
