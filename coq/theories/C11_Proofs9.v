(* C11 - (1) the 2^29 limit of a .tbi is sharp for index_haps; (2) what exactly
   the sorted mode writes: one version line, then mandatory fields only;
   (3) the chain index -> query for IDs alone and for region STRINGS. *)
From HV Require Import Prelude C11_Model C11_Check C11_Proofs C11_Proofs2 C11_Proofs3 C11_Proofs4 C11_Proofs5
  C11_Proofs7 C11_ProofsRegion C11_ProofsRegion2 C11_Proofs10.
From Coq Require Import Permutation.

(* ---- (1) coordinates beyond 2^29 ------------------------------------------ *)

Definition item_end (x : item) : Z := match x with IH h => h_end h | IV v => v_end v end.
Definition items_in_range (l : list item) : bool := forallb (fun x => item_end x <=? TBI_MAX) l.

Lemma range_okb_records g : noX g -> range_okb g = items_in_range (records g).
Proof.
  unfold range_okb, items_in_range, records, iter_plain. induction g as [|l r IH]; intros Hx; [reflexivity|].
  assert (Hr : noX r) by (intros l' Hl'; apply Hx; now right).
  specialize (Hx l (or_introl eq_refl)). cbn [forallb flat_map]. rewrite forallb_app, (IH Hr).
  destruct l as [c|c s e j x|c s e j x|h s e j a x|t q s e x]; try contradiction; cbn; now rewrite ?andb_true_r.
Qed.

Lemma forallb_perm {A} (p : A -> bool) l l' : Permutation l l' -> forallb p l = forallb p l'.
Proof.
  induction 1 as [|x l l' H IH|x y l|l l' l'' H1 IH1 H2 IH2]; cbn [forallb].
  - reflexivity.
  - now rewrite IH.
  - destruct (p x), (p y); reflexivity.
  - now rewrite IH1.
Qed.

(* a well-formed file with a record ending beyond 2^29: index_haps fails (the
   .gz is written, tabix refuses, the .tbi to copy does not exist) *)
Theorem index_sorted_beyond_range f : wf f -> noX f -> range_okb f = false ->
  index_output true f = Err E_OS.
Proof.
  intros W Hx R. unfold index_output. rewrite read_plain_closed by exact W. cbn [bind].
  replace (tabix_accepts _) with false; [reflexivity|]. symmetry.
  unfold tabix_accepts. apply andb_false_iff. right.
  rewrite range_okb_records by apply to_str_noX.
  unfold items_in_range. rewrite <- (forallb_perm _ _ _ (sorted_output_keeps_records f W)).
  fold (items_in_range (records f)). now rewrite <- range_okb_records.
Qed.

(* ---- (2) the shape of the sorted output ------------------------------------ *)

Definition extras_of (l : line) : list Z :=
  match l with
  | LH _ _ _ _ x | LR _ _ _ _ x | LV _ _ _ _ _ x | LX _ _ _ _ x => x
  | LC _ => []
  end.

Definition is_header (l : line) : bool := match l with LC _ => true | _ => false end.

(* to_str: the version line, then data lines only, none with an extra field *)
Theorem to_str_shape d : exists body,
  to_str d = LC VERSION_LINE :: body /\
  (forall l, In l body -> is_header l = false /\ extras_of l = []).
Proof.
  eexists. split; [reflexivity|]. intros l Hl. apply in_app_or in Hl. destruct Hl as [Hl|Hl].
  - apply in_map_iff in Hl. destruct Hl as [hv [<- _]]. unfold hr_line. destruct (h_rep (fst hv)); now split.
  - apply in_flat_map in Hl. destruct Hl as [hv [_ Hl]]. apply in_map_iff in Hl. destruct Hl as [v [<- _]]. now split.
Qed.

(* so: whatever header lines (comments, extra-field declarations, order lines, a
   version line) and extra fields the input has, the sorted output has exactly
   the version line 0.2.0 and the mandatory fields of every record *)
Theorem index_sorted_shape f out : index_output true f = Ok out ->
  exists body, out = LC VERSION_LINE :: body /\
    (forall l, In l body -> is_header l = false /\ extras_of l = []).
Proof.
  unfold index_output. destruct (read_plain f None) as [d|]; [|discriminate]. cbn [bind].
  destruct (tabix_accepts _); [|discriminate]. intros E. inversion E. apply to_str_shape.
Qed.

(* ---- (3) index, then query ------------------------------------------------- *)

Section Chain2.
  Variable f : list line.
  Hypothesis W : wf f.
  Hypothesis R : range_okb f = true.
  Let V := vrecs f.
  Let d := map (entry_of V) (hrs f).
  Let out := to_str (sort_data d).

  Variable fetch : list line -> Z -> option Z -> option Z -> res (list line).
  Hypothesis fetch_ok : forall g q a b, tabix_accepts g = true -> fetch g q a b = fetch_spec g q a b.

  Lemma index_ok : index_output true f = Ok out.
  Proof.
    unfold index_output. rewrite (read_plain_closed f W). cbn [bind].
    now rewrite (sorted_output_accepted f W R).
  Qed.

  (* an answer that is the filter of the full read of the OUTPUT is, up to order,
     the filter of the full read of the INPUT *)
  Lemma transfer reg ids res :
    res = filter (selected reg ids) (map (entry_of (vrecs out)) (hrs out)) ->
    exists res', Permutation res res' /\
      Forall2 entry_same (filter (selected reg ids) (map (entry_of V) (hrs f))) res'.
  Proof.
    intros ->. exists (filter (selected reg ids) (map (entry_of (vrecs out)) (hrs f))). split.
    - apply Permutation_filter, Permutation_map. symmetry. apply (out_hrs_perm f).
    - apply filter_entries_same. apply (out_vrecs_perm f W).
  Qed.

  (* IDs alone, on the file index_haps wrote *)
  Theorem ids_on_index_output ids : NoDup ids ->
    exists full res res',
      index_output true f = Ok out /\
      read_plain f None = Ok full /\
      read_indexed false fetch out None (Some ids) = Ok res /\
      Permutation res res' /\
      Forall2 entry_same (filter (selected None (Some ids)) full) res'.
  Proof.
    intros Hnd.
    destruct (indexed_ids_eq_filter_all fetch fetch_ok out (sorted_output_accepted f W R) (out_wf f W) ids Hnd)
      as [full_out [E1 E2]].
    rewrite (read_plain_closed out (out_wf f W)) in E1. inversion E1 as [E1']. clear E1.
    destruct (transfer None (Some ids) _ (eq_sym (f_equal (filter (selected None (Some ids))) E1')))
      as [res' [P1 P2]].
    exists (map (entry_of V) (hrs f)), (filter (selected None (Some ids)) full_out), res'.
    split; [apply index_ok|]. split; [apply read_plain_closed, W|]. split; [exact E2|]. split; assumption.
  Qed.

  (* a canonical region STRING, on the file index_haps wrote.  The side conditions
     are about the sequence names of the output (its contigs and the IDs of its
     haplotypes that have variants) *)
  Theorem region_string_on_index_output fixed nm r c s ids :
    names_ok nm -> ids_safe out nm fixed ->
    name_of nm (r_contig r) = Some c ->
    bounds_ok r = true -> print_reg c (r_a r) (r_b r) = Some s ->
    (if fixed then r_a r = None -> bare_ambiguous nm out s = false
     else has_colon c = false /\ (r_a r = None \/ is_seq nm out s = false)) ->
    In (r_contig r) (contigs f) ->
    exists full res res',
      index_output true f = Ok out /\
      read_plain f None = Ok full /\
      read_indexed_s fixed fetch out nm s ids = Ok res /\
      Permutation res res' /\
      Forall2 entry_same (filter (selected (Some r) ids) full) res'.
  Proof.
    intros Nok Hs Ec Hb Hp Hscope Hc.
    assert (Hc' : In (r_contig r) (contigs out)).
    { rewrite contigs_hrs in *. eapply Permutation_in; [apply Permutation_map, (out_hrs_perm f)|exact Hc]. }
    assert (NoX : forall t s' e x, ~ In (LX t (r_contig r) s' e x) out).
    { intros t s' e x Hin. exact (to_str_noX _ _ Hin). }
    assert (Hq : exists full_out, read_plain out None = Ok full_out /\
               read_indexed_s fixed fetch out nm s ids = Ok (filter (selected (Some r) ids) full_out)).
    { destruct fixed.
      - apply (region_string_query_fixed fetch fetch_ok out (sorted_output_accepted f W R) (out_wf f W) nm Nok
                 r c s ids Hs Ec Hb Hp Hscope Hc' NoX).
      - destruct Hscope as [Hcol Hseq].
        apply (region_string_query_legacy fetch fetch_ok out (sorted_output_accepted f W R) (out_wf f W) nm Nok
                 r c s ids Hs Ec Hcol Hb Hp Hseq Hc' NoX). }
    destruct Hq as [full_out [E1 E2]].
    rewrite (read_plain_closed out (out_wf f W)) in E1. inversion E1 as [E1']. clear E1.
    destruct (transfer (Some r) ids _ (eq_sym (f_equal (filter (selected (Some r) ids)) E1')))
      as [res' [P1 P2]].
    exists (map (entry_of V) (hrs f)), (filter (selected (Some r) ids) full_out), res'.
    split; [apply index_ok|]. split; [apply read_plain_closed, W|]. split; [exact E2|]. split; assumption.
  Qed.
End Chain2.

(* the hypotheses of the string theorems are satisfiable: contig "HLA-A" (a dash,
   no colon), haplotype "h", region "HLA-A:4-10" *)
Example region_string_hypotheses_satisfiable :
  let f := [LC 0; LH 1 5 10 2 []; LH 1 5 20 3 []; LV 2 6 6 4 5 []] in
  let nm := [([72; 76; 65; 45; 65], 1); ([104], 2); ([105], 3)] in
  let r := mkreg 1 (Some 4) (Some 10) in
  let s := [72; 76; 65; 45; 65; 58; 52; 45; 49; 48] in
  tabix_accepts f = true /\ wf_file f = true /\ names_okb nm = true /\ risky_ids nm f = false /\
  has_colon [72; 76; 65; 45; 65] = false /\ bounds_ok r = true /\
  print_reg [72; 76; 65; 45; 65] (r_a r) (r_b r) = Some s /\ is_seq nm f s = false /\
  read_indexed_s false fetch_spec f nm s None = Ok [(mkh false 1 5 10 2, [mkv 2 6 6 4 5])].
Proof. vm_compute. repeat split. Qed.
