(* C11 - histories on one output path (C11_Hist): the result of a history is [index_output] of
   the input of the LAST run, whatever lay at the path before; composed with the theorems about
   [index_output] (records kept, verbatim, queries = filter of the full read of that input);
   what [holds_hist] means; the "skip if up to date" variant and the gzip-beside-a-.tbi defect
   refuted on smallest histories. *)
From HV Require Import Prelude C11_Model C11_Check C11_Proofs C11_Proofs2 C11_Proofs3 C11_Proofs4 C11_Proofs5
  C11_Proofs6 C11_Proofs7 C11_ProofsRegion C11_ProofsRegion2 C11_Proofs10 C11_Proofs9 C11_Hist.
From Coq Require Import Permutation.

Lemma index_output_handed sort f :
  index_output sort f
  = bind (index_handed sort f) (fun h => if tabix_accepts h then Ok h else Err E_OS).
Proof.
  unfold index_output, index_handed. destruct sort; [|reflexivity].
  destruct (read_plain f None); reflexivity.
Qed.

Lemma run_snoc fixed skip d hist o :
  run fixed skip d (hist ++ [o]) = step fixed skip (run fixed skip d hist) o.
Proof. unfold run. rewrite fold_left_app. reflexivity. Qed.

Lemma place_index src f d : od_index (place src f d) = od_index d.
Proof. destruct src; reflexivity. Qed.

(* the fresh state: the data file is BGZF, the index was built from it *)
Definition fresh (out : list line) : odisk := mkod (Some (true, out)) (Some out).

(* one run of the anchored code (no skipping), outside the NotImplementedError defect: the
   state it finds does not matter *)
Lemma index_step_result fixed sort older src f d :
  negb fixed && gzip_beside_tbi sort src (present (od_index d)) = false ->
  match index_output sort f with
  | Ok out => index_step fixed false sort older src f d = (fresh out, Ok tt)
  | Err e => snd (index_step fixed false sort older src f d) = Err e
  end.
Proof.
  intros H. unfold index_step. cbn [andb]. rewrite place_index, H, index_output_handed.
  destruct (index_handed sort f) as [h|e]; cbn [bind]; [|reflexivity].
  destruct (tabix_accepts h); reflexivity.
Qed.

(* ---- history independence ------------------------------------------------------- *)

Theorem hist_last_input fixed d0 hist sort older src f :
  negb fixed && gzip_beside_tbi sort src (present (od_index (fst (run fixed false d0 hist)))) = false ->
  match index_output sort f with
  | Ok out => run fixed false d0 (hist ++ [HIndex sort older src f]) = (fresh out, Ok tt)
  | Err e => snd (run fixed false d0 (hist ++ [HIndex sort older src f])) = Err e
  end.
Proof.
  intros H. rewrite run_snoc. cbn [step].
  exact (index_step_result fixed sort older src f (fst (run fixed false d0 hist)) H).
Qed.

(* the repaired reader: no condition at all *)
Theorem hist_last_input_fixed d0 hist sort older src f :
  match index_output sort f with
  | Ok out => run true false d0 (hist ++ [HIndex sort older src f]) = (fresh out, Ok tt)
  | Err e => snd (run true false d0 (hist ++ [HIndex sort older src f])) = Err e
  end.
Proof. apply hist_last_input. reflexivity. Qed.

(* the tree as it is: every run except the sorted in-place run on a gzip (not BGZF) file *)
Theorem hist_last_input_legacy d0 hist sort older src f :
  sort = false \/ src <> Here false \/ od_index (fst (run false false d0 hist)) = None ->
  match index_output sort f with
  | Ok out => run false false d0 (hist ++ [HIndex sort older src f]) = (fresh out, Ok tt)
  | Err e => snd (run false false d0 (hist ++ [HIndex sort older src f])) = Err e
  end.
Proof.
  intros H. apply hist_last_input. cbn [negb andb]. unfold gzip_beside_tbi.
  destruct H as [->|[H|H]]; [reflexivity| |].
  - destruct sort; [|reflexivity]. destruct src as [|[|]]; try reflexivity. now elim H.
  - rewrite H. destruct sort; [|reflexivity]. destruct src as [|[|]]; reflexivity.
Qed.

(* two histories, two starting states, two ways of handing over the same lines: the same path *)
Theorem hist_independent d0 d1 h0 h1 sort o0 o1 s0 s1 f out :
  index_output sort f = Ok out ->
  run true false d0 (h0 ++ [HIndex sort o0 s0 f]) = run true false d1 (h1 ++ [HIndex sort o1 s1 f]).
Proof.
  intros E.
  pose proof (hist_last_input_fixed d0 h0 sort o0 s0 f) as A.
  pose proof (hist_last_input_fixed d1 h1 sort o1 s1 f) as B.
  rewrite E in A, B. now rewrite A, B.
Qed.

(* ---- composed with what is proved about index_output -------------------------------- *)

(* sorted mode, a .hap file whose coordinates fit a .tbi: after ANY history the path holds a
   BGZF file with a fresh index, accepted by tabix, with exactly the records of the last input *)
Theorem hist_keeps_records f : wf f -> range_okb f = true ->
  forall fixed d0 hist older src,
  negb fixed && gzip_beside_tbi true src (present (od_index (fst (run fixed false d0 hist)))) = false ->
  exists out,
    run fixed false d0 (hist ++ [HIndex true older src f]) = (fresh out, Ok tt) /\
    tabix_accepts out = true /\ Permutation (records f) (records out).
Proof.
  intros W R fixed d0 hist older src H.
  destruct (index_sorted_total f W R) as [out [E [T P]]].
  exists out. split; [|split; assumption].
  pose proof (hist_last_input fixed d0 hist true older src f H) as A. now rewrite E in A.
Qed.

(* --no-sort: every line of the last input, verbatim, whenever tabix accepts it; the defect
   does not touch this mode *)
Theorem hist_nosort_verbatim f : tabix_accepts f = true ->
  forall fixed d0 hist older src,
    run fixed false d0 (hist ++ [HIndex false older src f]) = (fresh f, Ok tt).
Proof.
  intros T fixed d0 hist older src.
  assert (H : negb fixed && gzip_beside_tbi false src (present (od_index (fst (run fixed false d0 hist)))) = false)
    by (destruct fixed; reflexivity).
  pose proof (hist_last_input fixed d0 hist false older src f H) as A.
  now rewrite (index_nosort_accepts f T) in A.
Qed.

Theorem hist_nosort_refused f : tabix_accepts f = false ->
  forall fixed d0 hist older src,
    snd (run fixed false d0 (hist ++ [HIndex false older src f])) = Err E_OS.
Proof.
  intros T fixed d0 hist older src.
  assert (H : negb fixed && gzip_beside_tbi false src (present (od_index (fst (run fixed false d0 hist)))) = false)
    by (destruct fixed; reflexivity).
  pose proof (hist_last_input fixed d0 hist false older src f H) as A.
  now rewrite (index_nosort_refuses f T) in A.
Qed.

(* queries on the path after any history = filter of the full read of the LAST input *)
Section HistQuery.
  Variable fetch : list line -> Z -> option Z -> option Z -> res (list line).
  Hypothesis fetch_ok : forall g q a b, tabix_accepts g = true -> fetch g q a b = fetch_spec g q a b.
  Variable f : list line.
  Hypothesis W : wf f.
  Hypothesis R : range_okb f = true.
  Variables (fixed : bool) (d0 : odisk) (hist : list hop) (older : bool) (src : isrc).
  Hypothesis Hdef :
    negb fixed && gzip_beside_tbi true src (present (od_index (fst (run fixed false d0 hist)))) = false.

  Let out := to_str (sort_data (map (entry_of (vrecs f)) (hrs f))).

  Lemma hist_state : run fixed false d0 (hist ++ [HIndex true older src f]) = (fresh out, Ok tt).
  Proof.
    pose proof (hist_last_input fixed d0 hist true older src f Hdef) as A.
    pose proof (index_ok f W R) as E. cbv zeta in E. fold out in E. now rewrite E in A.
  Qed.

  Theorem hist_region_string_query pfixed nm r c s ids :
    names_ok nm -> ids_safe out nm pfixed ->
    name_of nm (r_contig r) = Some c ->
    bounds_ok r = true -> print_reg c (r_a r) (r_b r) = Some s ->
    (if pfixed then r_a r = None -> bare_ambiguous nm out s = false
     else has_colon c = false /\ (r_a r = None \/ is_seq nm out s = false)) ->
    In (r_contig r) (contigs f) ->
    exists full res res',
      run fixed false d0 (hist ++ [HIndex true older src f]) = (fresh out, Ok tt) /\
      read_plain f None = Ok full /\
      read_indexed_s pfixed fetch out nm s ids = Ok res /\
      Permutation res res' /\
      Forall2 entry_same (filter (selected (Some r) ids) full) res'.
  Proof.
    intros Nok Hs Ec Hb Hp Hscope Hc.
    destruct (region_string_on_index_output f W R fetch fetch_ok pfixed nm r c s ids Nok Hs Ec Hb Hp Hscope Hc)
      as [full [res [res' [_ [E2 [E3 [P1 P2]]]]]]].
    exists full, res, res'. split; [exact hist_state|]. repeat split; assumption.
  Qed.

  Theorem hist_ids_query ids : NoDup ids ->
    exists full res res',
      run fixed false d0 (hist ++ [HIndex true older src f]) = (fresh out, Ok tt) /\
      read_plain f None = Ok full /\
      read_indexed false fetch out None (Some ids) = Ok res /\
      Permutation res res' /\
      Forall2 entry_same (filter (selected None (Some ids)) full) res'.
  Proof.
    intros Hnd.
    destruct (ids_on_index_output f W R fetch fetch_ok ids Hnd) as [full [res [res' [_ [E2 [E3 [P1 P2]]]]]]].
    exists full, res, res'. split; [exact hist_state|]. repeat split; assumption.
  Qed.
End HistQuery.

(* ---- what the checker means ------------------------------------------------------ *)

Lemma rev_cons_snoc {A} (l : list A) x h : rev l = x :: h -> l = rev h ++ [x].
Proof. intros E. rewrite <- (rev_involutive l), E. reflexivity. Qed.

Lemma split_run_spec ops hist sort older src f :
  split_run ops = Some (hist, (sort, older, src, f)) -> ops = hist ++ [HIndex sort older src f].
Proof.
  unfold split_run. destruct (rev ops) as [|o h] eqn:E; [discriminate|].
  destruct o; try discriminate. intros X. inversion X; subst. now apply rev_cons_snoc.
Qed.

Lemma split_run_snoc hist sort older src f :
  split_run (hist ++ [HIndex sort older src f]) = Some (hist, (sort, older, src, f)).
Proof. unfold split_run. rewrite rev_app_distr. cbn. now rewrite rev_involutive. Qed.

Lemma split_run_iff ops hist sort older src f :
  split_run ops = Some (hist, (sort, older, src, f)) <-> ops = hist ++ [HIndex sort older src f].
Proof. split; [apply split_run_spec|intros ->; apply split_run_snoc]. Qed.

Lemma holds_hist_sound k hist sort older src f :
  split_run (hc_ops k) = Some (hist, (sort, older, src, f)) ->
  holds_hist k = true ->
  hc_ret k = Err E_Unobserved \/
  (hc_fixed k = false /\ gzip_beside_tbi sort src (hc_tbi_before k) = true) \/
  (holds_index (as_icase k sort f) = true /\
   forall out, hist_obs k = Ok out -> holds_query (as_qcase k f out) = true).
Proof.
  intros S H. unfold holds_hist in H. rewrite S in H.
  destruct (unobserved k) eqn:U.
  { left. unfold unobserved in U. destruct (hc_ret k) as [u|e]; [discriminate|].
    apply Z.eqb_eq in U. now subst. }
  destruct (negb (hc_fixed k) && gzip_beside_tbi sort src (hc_tbi_before k)) eqn:D.
  { right. left. apply andb_true_iff in D. destruct D as [D1 D2]. split; [|exact D2].
    now destruct (hc_fixed k). }
  right. right. apply andb_true_iff in H. destruct H as [H1 H2]. split; [exact H1|].
  intros out E. now rewrite E in H2.
Qed.

(* sorted mode: what is at the path in the end holds the records of the last input *)
Lemma holds_hist_sorted_sound k hist older src f :
  split_run (hc_ops k) = Some (hist, (true, older, src, f)) ->
  wf_file f = true -> range_okb f = true ->
  (hc_fixed k = true \/ gzip_beside_tbi true src (hc_tbi_before k) = false) ->
  holds_hist k = true ->
  hc_ret k = Err E_Unobserved \/
  exists out, hc_ret k = Ok tt /\ hc_data k = Some out
    /\ Permutation (records f) (records out)
    /\ tabix_okb out = true
    /\ hc_tbi k = true
    /\ hc_fetch k = Ok (data_lines out)
    /\ (hc_plain k = true -> hc_after k = Some f)
    /\ holds_query (as_qcase k f out) = true.
Proof.
  intros S Wf Rg Hd H.
  destruct (holds_hist_sound k hist true older src f S H) as [E|[[E1 E2]|[Hi Hq]]]; [now left| |].
  { destruct Hd as [Hd|Hd]; congruence. }
  destruct (holds_index_sorted_sound (as_icase k true f) eq_refl Wf Hi) as [E|[[E _]|[out [E [P [_ [T [B [F A]]]]]]]]];
    cbn [as_icase i_obs i_in i_tbi i_fetch i_plain i_after] in *.
  - left. unfold hist_obs in E. destruct (hc_ret k) as [u|e]; [|now inversion E].
    destruct (hc_data k); discriminate.
  - congruence.
  - right. exists out. pose proof (Hq out E) as Q.
    unfold hist_obs in E. destruct (hc_ret k) as [[]|e]; [|discriminate].
    destruct (hc_data k) as [o|]; [|discriminate]. inversion E; subst.
    repeat split; try assumption; reflexivity.
Qed.

(* --no-sort: every line of the last input, indexed *)
Lemma holds_hist_nosort_sound k hist older src f :
  split_run (hc_ops k) = Some (hist, (false, older, src, f)) ->
  holds_hist k = true ->
  hc_ret k = Err E_Unobserved \/
  (tabix_accepts f = false /\ exists e, hist_obs k = Err e) \/
  (hc_ret k = Ok tt /\ hc_data k = Some f /\ hc_tbi k = true /\ hc_fetch k = Ok (data_lines f)
   /\ (hc_plain k = true -> hc_after k = Some f)).
Proof.
  intros S H.
  destruct (holds_hist_sound k hist false older src f S H) as [E|[[_ E2]|[Hi _]]]; [now left|discriminate|].
  destruct (holds_index_nosort_sound (as_icase k false f) eq_refl Hi) as [E|[[E1 E2]|[E [B [F A]]]]];
    cbn [as_icase i_obs i_in i_tbi i_fetch i_plain i_after] in *.
  - left. unfold hist_obs in E. destruct (hc_ret k) as [u|e]; [|now inversion E].
    destruct (hc_data k); discriminate.
  - right. left. split; assumption.
  - right. right. unfold hist_obs in E. destruct (hc_ret k) as [[]|e]; [|discriminate].
    destruct (hc_data k) as [o|]; [|discriminate]. inversion E; subst. repeat split; assumption.
Qed.

(* ---- refuted variants, smallest histories ----------------------------------------- *)

(* "skip when <output> and <output>.tbi exist and the .tbi is not older than the input":
   two different files indexed one after the other to the same path; the same file first
   sorted, then --no-sort.  The second run returns normally and the path still holds the
   first run's output. *)
Example skip_if_up_to_date_refuted :
  let f1 := [LH 1 5 20 2 []; LH 1 5 10 3 []; LV 2 8 8 4 5 []] in
  let f2 := [LH 2 3 10 6 []; LV 6 4 4 4 5 []] in
  let g := [LC 7; LH 1 5 10 3 [8]; LH 1 5 20 2 []; LV 2 8 8 4 5 [9]] in
  let out1 := [LC 0; LH 1 5 10 3 []; LH 1 5 20 2 []; LV 2 8 8 4 5 []] in
  let out2 := [LC 0; LH 2 3 10 6 []; LV 6 4 4 4 5 []] in
  wf_file f1 = true /\ wf_file f2 = true /\ wf_file g = true /\
  index_output true f1 = Ok out1 /\ index_output true f2 = Ok out2 /\
  index_output true g = Ok out1 /\ index_output false g = Ok g /\
  (* the anchored code *)
  run true false disk0 [HIndex true false Elsewhere f1; HIndex true true Elsewhere f2] = (fresh out2, Ok tt) /\
  run true false disk0 [HIndex true false Elsewhere g; HIndex false true Elsewhere g] = (fresh g, Ok tt) /\
  (* the skipping variant *)
  run true true disk0 [HIndex true false Elsewhere f1; HIndex true true Elsewhere f2] = (fresh out1, Ok tt) /\
  perm_eqb item_eqb (records f2) (records out1) = false /\
  run true true disk0 [HIndex true false Elsewhere g; HIndex false true Elsewhere g] = (fresh out1, Ok tt) /\
  lines_eqb out1 g = false /\
  (* a file restored over the output with an older time stamp: the stale .tbi is kept *)
  run true true disk0 [HIndex true false Elsewhere f1; HIndex true true (Here true) f2]
    = (mkod (Some (true, f2)) (Some out1), Ok tt) /\
  (* a newer input is indexed again: this is why a single first run never shows the variant *)
  run true true disk0 [HIndex true false Elsewhere f1; HIndex true false Elsewhere f2] = (fresh out2, Ok tt).
Proof. vm_compute. repeat split. Qed.

(* the tree as it is: a gzip (not BGZF) input indexed in place beside the .tbi of an earlier
   run: the sorted mode raises NotImplementedError; --no-sort, a BGZF input and a path
   without a .tbi are not affected; the repaired reader indexes it *)
Example legacy_gzip_beside_tbi_refuted :
  let f1 := [LH 1 5 20 2 []; LH 1 5 10 3 []] in
  let f2 := [LH 2 3 10 6 []; LV 6 4 4 4 5 []] in
  let out2 := [LC 0; LH 2 3 10 6 []; LV 6 4 4 4 5 []] in
  wf_file f2 = true /\ index_output true f2 = Ok out2 /\
  snd (run false false disk0 [HIndex true false Elsewhere f1; HIndex true false (Here false) f2]) = Err E_Runtime /\
  run true false disk0 [HIndex true false Elsewhere f1; HIndex true false (Here false) f2] = (fresh out2, Ok tt) /\
  run false false disk0 [HIndex true false Elsewhere f1; HIndex true false (Here true) f2] = (fresh out2, Ok tt) /\
  run false false disk0 [HIndex true false Elsewhere f1; HIndex false false (Here false) f2] = (fresh f2, Ok tt) /\
  run false false disk0 [HIndex true false Elsewhere f1; HRmIndex; HIndex true false (Here false) f2] = (fresh out2, Ok tt).
Proof. vm_compute. repeat split. Qed.

(* a run that tabix refuses leaves the new data beside the OLD index: loud (FileNotFoundError),
   and repaired by the next successful run whatever it is *)
Example failed_run_leaves_stale_index :
  let f1 := [LH 1 5 20 2 []; LH 1 5 10 3 []] in
  let bad := [LH 1 9 20 2 []; LH 1 5 10 3 []] in
  let out1 := [LC 0; LH 1 5 10 3 []; LH 1 5 20 2 []] in
  run true false disk0 [HIndex true false Elsewhere f1; HIndex false false Elsewhere bad]
    = (mkod (Some (true, bad)) (Some out1), Err E_OS) /\
  run true false disk0 [HIndex true false Elsewhere f1; HIndex false false Elsewhere bad; HIndex true true Elsewhere f1]
    = (fresh out1, Ok tt).
Proof. vm_compute. repeat split. Qed.

(* the hypotheses of the history theorems are satisfiable, and the checker accepts what the
   model does on such a history *)
Example hist_hypotheses_satisfiable :
  let f1 := [LH 1 5 20 2 []; LH 1 5 10 3 []; LV 2 8 8 4 5 []] in
  let f2 := [LH 2 3 10 6 []; LV 6 4 4 4 5 []] in
  let out2 := [LC 0; LH 2 3 10 6 []; LV 6 4 4 4 5 []] in
  let k := mkhc false [HIndex true false Elsewhere f1; HRmData; HIndex true true Elsewhere f2] true true
             (Ok tt) (Some out2) true (Ok (data_lines out2)) (Some f2)
             (Ok [(mkh false 2 3 10 6, [mkv 6 4 4 4 5])]) [([50], 2); ([104], 6)] true
             [mkqo (Some (mkreg 2 (Some 3) None)) (Some [50; 58; 51; 45]) None (Ok [(mkh false 2 3 10 6, [mkv 6 4 4 4 5])])] in
  wf_file f2 = true /\ range_okb f2 = true /\ check_hist k = (true, true).
Proof. vm_compute. repeat split. Qed.
