(* C11 - region strings.  The two parsers of a region string (_iter_haps: text
   after the first colon; htslib: whole name first, else text after the last
   colon) invert the canonical printing of (contig, a, b) for contigs without
   ':'; the repaired parser does so for every contig name. *)
From HV Require Import Prelude C11_Model C11_Check C11_Proofs C11_Proofs2.
From Coq Require Import Permutation.

(* ---- decimal printing ---------------------------------------------------- *)

Definition val (l : list Z) : Z := fold_left (fun a c => a * 10 + (c - 48)) l 0.

Lemma val_snoc l d : val (l ++ [d]) = val l * 10 + (d - 48).
Proof. unfold val. now rewrite fold_left_app. Qed.

Lemma forallb_snoc {A} (p : A -> bool) l x : forallb p (l ++ [x]) = forallb p l && p x.
Proof. rewrite forallb_app. cbn. now rewrite andb_true_r. Qed.

Lemma dec_fuel_ok n : forall z, 0 <= z < 2 ^ (Z.of_nat n + 1) ->
  forallb is_digit (dec_fuel n z) = true /\ val (dec_fuel n z) = z /\ dec_fuel n z <> [].
Proof.
  induction n as [|n IH]; intros z Hz.
  - cbn [dec_fuel]. change (2 ^ (Z.of_nat 0 + 1)) with 2 in Hz.
    assert (z = 0 \/ z = 1) as [-> | ->] by lia; (split; [reflexivity|split; [reflexivity|discriminate]]).
  - cbn [dec_fuel]. destruct (Z.ltb_spec z 10) as [Hlt|Hge].
    + split; [|split; [|discriminate]].
      * cbn [forallb]. unfold is_digit. rewrite andb_true_r. apply andb_true_iff. split; apply Z.leb_le; lia.
      * unfold val. cbn [fold_left]. lia.
    + assert (Hq : 0 <= z / 10 < 2 ^ (Z.of_nat n + 1)).
      { split; [apply Z.div_pos; lia|].
        apply Z.div_lt_upper_bound; [lia|].
        replace (Z.of_nat (S n) + 1) with (Z.succ (Z.of_nat n + 1)) in Hz by lia.
        rewrite Z.pow_succ_r in Hz by lia. lia. }
      destruct (IH _ Hq) as [H1 [H2 H3]].
      pose proof (Z.mod_pos_bound z 10 ltac:(lia)) as Hm.
      split; [|split].
      * rewrite forallb_snoc, H1. cbn [andb]. unfold is_digit. apply andb_true_iff. split; apply Z.leb_le; lia.
      * rewrite val_snoc, H2. pose proof (Z.div_mod z 10 ltac:(lia)). lia.
      * intros E. apply app_eq_nil in E. destruct E as [_ E]. discriminate.
Qed.

Lemma dec_ok z : 0 <= z ->
  forallb is_digit (dec z) = true /\ val (dec z) = z /\ dec z <> [].
Proof.
  intros Hz. unfold dec. apply dec_fuel_ok. split; [exact Hz|].
  destruct (Z.eq_dec z 0) as [->|Hne]; [cbn; lia|].
  rewrite Z2Nat.id by apply Z.log2_nonneg.
  pose proof (Z.log2_spec z ltac:(lia)) as [_ H]. replace (Z.log2 z + 1) with (Z.succ (Z.log2 z)) by lia. exact H.
Qed.

Lemma digits_val_dec z : 0 <= z -> digits_val (dec z) = Some z.
Proof.
  intros Hz. destruct (dec_ok z Hz) as [H1 [H2 H3]]. unfold digits_val.
  destruct (dec z) as [|c r] eqn:E; [congruence|]. rewrite H1. f_equal. exact H2.
Qed.

Lemma is_digit_not c x : is_digit c = true -> x < 48 \/ 57 < x -> (c =? x) = false.
Proof.
  unfold is_digit. intros H Hx. apply andb_true_iff in H. destruct H as [H H']. apply Z.leb_le in H.
  apply Z.leb_le in H'. apply Z.eqb_neq. lia.
Qed.

(* a Python int() of a printed number *)
Lemma py_int_dec z : 0 <= z -> py_int (dec z) = Some z.
Proof.
  intros Hz. pose proof (digits_val_dec z Hz) as Hd. destruct (dec_ok z Hz) as [H1 _].
  unfold py_int. destruct (dec z) as [|c r] eqn:E; [discriminate|].
  cbn [forallb] in H1. apply andb_true_iff in H1. destruct H1 as [Hc _].
  rewrite (is_digit_not c DASH Hc) by (unfold DASH; lia).
  rewrite (is_digit_not c PLUS Hc) by (unfold PLUS; lia). exact Hd.
Qed.

(* ---- splitting ----------------------------------------------------------- *)

Definition lacks (x : Z) (l : list Z) : Prop := forallb (fun c => negb (c =? x)) l = true.

Lemma digits_lack l x : forallb is_digit l = true -> x < 48 \/ 57 < x -> lacks x l.
Proof.
  intros H Hx. unfold lacks. induction l as [|c r IH]; [reflexivity|]. cbn [forallb] in *.
  apply andb_true_iff in H. destruct H as [Hc Hr]. rewrite (is_digit_not c x Hc Hx). cbn. now apply IH.
Qed.

Lemma split_first_app x pre post : lacks x pre -> split_first x (pre ++ x :: post) = Some (pre, post).
Proof.
  unfold lacks. induction pre as [|c r IH]; intros H; cbn [app split_first].
  - now rewrite Z.eqb_refl.
  - cbn [forallb] in H. apply andb_true_iff in H. destruct H as [Hc Hr]. apply negb_true_iff in Hc.
    rewrite Hc, (IH Hr). reflexivity.
Qed.

Lemma split_first_none x l : lacks x l -> split_first x l = None.
Proof.
  unfold lacks. induction l as [|c r IH]; intros H; [reflexivity|]. cbn [forallb split_first] in *.
  apply andb_true_iff in H. destruct H as [Hc Hr]. apply negb_true_iff in Hc. now rewrite Hc, (IH Hr).
Qed.

Lemma split_last_none x l : lacks x l -> split_last x l = None.
Proof.
  unfold lacks. induction l as [|c r IH]; intros H; [reflexivity|]. cbn [forallb split_last] in *.
  apply andb_true_iff in H. destruct H as [Hc Hr]. apply negb_true_iff in Hc. now rewrite (IH Hr), Hc.
Qed.

Lemma split_last_app x pre post : lacks x post -> split_last x (pre ++ x :: post) = Some (pre, post).
Proof.
  intros H. induction pre as [|c r IH]; cbn [app split_last].
  - now rewrite (split_last_none x post H), Z.eqb_refl.
  - now rewrite IH.
Qed.

Lemma lacks_app x a b : lacks x a -> lacks x b -> lacks x (a ++ b).
Proof. unfold lacks. intros Ha Hb. now rewrite forallb_app, Ha, Hb. Qed.

Lemma lacks_cons x c l : c <> x -> lacks x l -> lacks x (c :: l).
Proof. unfold lacks. intros Hc Hl. cbn [forallb]. rewrite Hl, andb_true_r. apply negb_true_iff. now apply Z.eqb_neq. Qed.

Lemma has_colon_lacks c : has_colon c = false -> lacks COLON c.
Proof.
  unfold has_colon, lacks. induction c as [|x r IH]; [reflexivity|]. cbn [existsb forallb].
  intros H. apply orb_false_iff in H. destruct H as [H1 H2]. rewrite Z.eqb_sym, H1. cbn. now apply IH.
Qed.

Lemma dec_lacks z x : 0 <= z -> x < 48 \/ 57 < x -> lacks x (dec z).
Proof. intros Hz Hx. apply digits_lack; [apply (dec_ok z Hz)|exact Hx]. Qed.

(* the text of the positions in the two forms that have some *)
Definition tail_of (a : Z) (b : option Z) : list Z :=
  match b with None => dec a ++ [DASH] | Some b => dec a ++ DASH :: dec b end.

Lemma tail_nonempty a b : 0 <= a -> tail_of a b <> [].
Proof.
  intros Ha. destruct (dec_ok a Ha) as [_ [_ H]]. unfold tail_of.
  destruct b; intros E; apply app_eq_nil in E; destruct E as [E _]; contradiction.
Qed.

Lemma tail_lacks_colon a b : 0 <= a -> match b with Some b => 0 <= b | None => True end -> lacks COLON (tail_of a b).
Proof.
  intros Ha Hb. unfold tail_of. destruct b as [b|].
  - apply lacks_app; [apply dec_lacks; [exact Ha|unfold COLON; lia]|].
    apply lacks_cons; [unfold DASH, COLON; lia|]. apply dec_lacks; [exact Hb|unfold COLON; lia].
  - apply lacks_app; [apply dec_lacks; [exact Ha|unfold COLON; lia]|].
    apply lacks_cons; [unfold DASH, COLON; lia|reflexivity].
Qed.

(* Python's reading of the positions *)
Lemma py_bounds_tail a b : 0 <= a -> match b with Some b => 0 <= b | None => True end ->
  py_bounds (tail_of a b) = Ok (Some a, b).
Proof.
  intros Ha Hb. unfold py_bounds, tail_of. destruct b as [b|].
  - rewrite split_first_app by (apply dec_lacks; [exact Ha|unfold DASH; lia]).
    destruct (dec_ok b Hb) as [_ [_ Hne]]. destruct (dec b) as [|c r] eqn:E; [congruence|]. rewrite <- E.
    now rewrite (py_int_dec a Ha), (py_int_dec b Hb).
  - rewrite split_first_app by (apply dec_lacks; [exact Ha|unfold DASH; lia]).
    now rewrite (py_int_dec a Ha).
Qed.

(* htslib's reading of the positions *)
Lemma hts_pos_tail a b : 0 <= a -> match b with Some b => 1 <= b /\ a <= b | None => True end ->
  hts_pos (tail_of a b) = Ok (Some a, b).
Proof.
  intros Ha Hb. pose proof (tail_nonempty a b Ha) as Hne. unfold hts_pos.
  destruct (tail_of a b) as [|c0 r0] eqn:Et; [congruence|]. rewrite <- Et. clear Hne Et c0 r0.
  unfold tail_of. destruct b as [b|].
  - destruct Hb as [Hb1 Hb2].
    rewrite split_first_app by (apply dec_lacks; [exact Ha|unfold DASH; lia]).
    rewrite (digits_val_dec a Ha).
    destruct (dec_ok b ltac:(lia)) as [_ [_ Hne]]. destruct (dec b) as [|c r] eqn:E; [congruence|]. rewrite <- E.
    rewrite (digits_val_dec b ltac:(lia)).
    destruct (Z.eqb_spec b 0); [lia|]. destruct (Z.ltb_spec b a); [lia|reflexivity].
  - rewrite split_first_app by (apply dec_lacks; [exact Ha|unfold DASH; lia]).
    now rewrite (digits_val_dec a Ha).
Qed.

(* ---- the printed forms ---------------------------------------------------- *)

Definition bounds_pos (a : option Z) (b : option Z) : Prop :=
  match a, b with
  | Some a, Some b => 0 <= a /\ a <= b /\ 1 <= b
  | Some a, None => 0 <= a
  | None, None => True
  | None, Some _ => False
  end.

Lemma bounds_ok_pos r : bounds_ok r = true -> (r_a r = None -> r_b r = None) -> bounds_pos (r_a r) (r_b r).
Proof.
  unfold bounds_ok, bounds_pos. destruct (r_a r) as [a|], (r_b r) as [b|]; intros H Hab; try exact I.
  - rewrite !andb_true_iff, !Z.leb_le in H. lia.
  - now apply Z.leb_le.
  - specialize (Hab eq_refl). discriminate.
Qed.

Lemma print_reg_some c a b s : print_reg c a b = Some s ->
  (a = None /\ b = None /\ s = c) \/ (exists a', a = Some a' /\ s = c ++ COLON :: tail_of a' b).
Proof.
  unfold print_reg, tail_of. destruct a as [a|], b as [b|]; intros H; inversion H; subst.
  - right. now exists a.
  - right. now exists a.
  - now left.
Qed.

Section Parse.
  Variable nm : names.
  Variable f : list line.

  (* --- the tree as it is: contigs without ':' --- *)
  Lemma py_region_legacy c a b s : has_colon c = false -> bounds_pos a b -> print_reg c a b = Some s ->
    py_region false nm f s = Ok (a, b).
  Proof.
    intros Hc Hb Hp. apply has_colon_lacks in Hc. unfold py_region, pos_part.
    destruct (print_reg_some _ _ _ _ Hp) as [[-> [-> ->]]|[a' [-> ->]]].
    - now rewrite (split_first_none COLON c Hc).
    - rewrite (split_first_app COLON c _ Hc).
      assert (Ha : 0 <= a') by (unfold bounds_pos in Hb; destruct b; lia).
      pose proof (tail_nonempty a' b Ha) as Hne. destruct (tail_of a' b) as [|x r] eqn:E; [congruence|]. rewrite <- E.
      apply py_bounds_tail; [exact Ha|]. unfold bounds_pos in Hb. destruct b; [lia|exact I].
  Qed.

  Lemma hts_region_legacy c k a b s : has_colon c = false -> bounds_pos a b -> print_reg c a b = Some s ->
    seq_of nm f c = Some k ->
    (a = None \/ is_seq nm f s = false) ->
    hts_region false nm f s = Ok (k, a, b).
  Proof.
    intros Hc Hb Hp Hk Hs. apply has_colon_lacks in Hc. unfold hts_region.
    destruct (print_reg_some _ _ _ _ Hp) as [[-> [-> ->]]|[a' [-> ->]]].
    - now rewrite (split_last_none COLON c Hc), Hk.
    - assert (Ha : 0 <= a') by (unfold bounds_pos in Hb; destruct b; lia).
      rewrite split_last_app by (apply tail_lacks_colon; [exact Ha|unfold bounds_pos in Hb; destruct b; [lia|exact I]]).
      destruct Hs as [Hs|Hs]; [discriminate|]. unfold is_seq in Hs.
      destruct (seq_of nm f (c ++ COLON :: tail_of a' b)); [discriminate|]. rewrite Hk.
      rewrite hts_pos_tail; [reflexivity|exact Ha|]. unfold bounds_pos in Hb. destruct b; [lia|exact I].
  Qed.

  (* --- the repaired parser: any contig name --- *)
  Definition bare_ambiguous (s : list Z) : bool :=
    match split_last COLON s with Some (pre, _) => is_seq nm f pre | None => false end.

  Lemma py_region_fixed c k a b s : bounds_pos a b -> print_reg c a b = Some s ->
    seq_of nm f c = Some k ->
    (a = None -> bare_ambiguous s = false) ->
    py_region true nm f s = Ok (a, b).
  Proof.
    intros Hb Hp Hk Hamb. unfold py_region, pos_part, whole_name.
    destruct (print_reg_some _ _ _ _ Hp) as [[-> [-> ->]]|[a' [-> ->]]].
    - specialize (Hamb eq_refl). unfold bare_ambiguous in Hamb. unfold is_seq at 1. rewrite Hk. cbn [andb].
      destruct (split_last COLON c) as [[pre p]|]; [now rewrite Hamb|reflexivity].
    - assert (Ha : 0 <= a') by (unfold bounds_pos in Hb; destruct b; lia).
      rewrite split_last_app by (apply tail_lacks_colon; [exact Ha|unfold bounds_pos in Hb; destruct b; [lia|exact I]]).
      unfold is_seq at 2. rewrite Hk. cbn [negb]. rewrite andb_false_r.
      pose proof (tail_nonempty a' b Ha) as Hne. destruct (tail_of a' b) as [|x r] eqn:E; [congruence|]. rewrite <- E.
      apply py_bounds_tail; [exact Ha|]. unfold bounds_pos in Hb. destruct b; [lia|exact I].
  Qed.

  Lemma hts_region_fixed c k a b s : bounds_pos a b -> print_reg c a b = Some s ->
    seq_of nm f c = Some k ->
    (a = None -> bare_ambiguous s = false) ->
    hts_region true nm f s = Ok (k, a, b).
  Proof.
    intros Hb Hp Hk Hamb. unfold hts_region.
    destruct (print_reg_some _ _ _ _ Hp) as [[-> [-> ->]]|[a' [-> ->]]].
    - specialize (Hamb eq_refl). unfold bare_ambiguous in Hamb. rewrite Hk.
      destruct (split_last COLON c) as [[pre p]|]; [|reflexivity].
      unfold is_seq in Hamb. destruct (seq_of nm f pre); [discriminate|reflexivity].
    - assert (Ha : 0 <= a') by (unfold bounds_pos in Hb; destruct b; lia).
      rewrite split_last_app by (apply tail_lacks_colon; [exact Ha|unfold bounds_pos in Hb; destruct b; [lia|exact I]]).
      rewrite Hk.
      assert (Hh : hts_pos (tail_of a' b) = Ok (Some a', b)).
      { apply hts_pos_tail; [exact Ha|]. unfold bounds_pos in Hb. destruct b; [lia|exact I]. }
      destruct (seq_of nm f (c ++ COLON :: tail_of a' b)); now rewrite Hh.
  Qed.
End Parse.
