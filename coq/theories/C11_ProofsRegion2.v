(* C11 - from region strings and spelled haplotype IDs to the rank-level model:
   when both parsers read the string as (contig, a, b) and every haplotype ID is
   taken as a name, the string-level reader is the reader of C11_Proofs2/5, and
   the theorems about it apply. *)
From HV Require Import Prelude C11_Model C11_Check C11_Proofs C11_Proofs2 C11_Proofs3 C11_Proofs5 C11_ProofsRegion.
From Coq Require Import Permutation.

(* ---- the table of spellings ---------------------------------------------- *)

Definition names_ok (nm : names) : Prop :=
  forall t k, name_of nm k = Some t -> lookup nm t = Some k.

Lemma name_of_In nm k t : name_of nm k = Some t -> In (t, k) nm.
Proof.
  induction nm as [|[t' k'] r IH]; [discriminate|]. cbn [name_of].
  destruct (Z.eqb_spec k k') as [->|Hne].
  - intros E. inversion E; subst. now left.
  - intros E. right. now apply IH.
Qed.

Lemma names_okb_sound nm : names_okb nm = true -> names_ok nm.
Proof.
  unfold names_okb, names_ok. intros H t k E. rewrite forallb_forall in H.
  specialize (H _ (name_of_In _ _ _ E)). cbn [snd] in H. rewrite E in H.
  destruct (lookup nm t) as [k'|]; [|discriminate]. cbn in H. apply Z.eqb_eq in H. now subst.
Qed.

(* an ID that htslib does not take as a name: <sequence name>:<text> *)
Definition risky (nm : names) (f : list line) (t : list Z) : bool :=
  match split_last COLON t with
  | Some (pre, _) => is_seq nm f pre
  | None => false
  end.

Lemma risky_ids_false nm f : risky_ids nm f = false ->
  forall i, In i (h_ids f) -> exists t, name_of nm i = Some t /\ risky nm f t = false.
Proof.
  unfold risky_ids. intros H i Hi.
  destruct (name_of nm i) as [t|] eqn:E.
  - exists t. split; [reflexivity|]. unfold risky.
    destruct (split_last COLON t) as [[pre p]|] eqn:Es; [|reflexivity].
    destruct (is_seq nm f pre) eqn:Ei; [|reflexivity].
    assert (existsb (fun i => match name_of nm i with
                              | Some t => match split_last COLON t with
                                          | Some (pre, _) => is_seq nm f pre
                                          | None => false end
                              | None => true end) (h_ids f) = true); [|congruence].
    apply existsb_exists. exists i. split; [exact Hi|]. now rewrite E, Es.
  - assert (existsb (fun i => match name_of nm i with
                              | Some t => match split_last COLON t with
                                          | Some (pre, _) => is_seq nm f pre
                                          | None => false end
                              | None => true end) (h_ids f) = true); [|congruence].
    apply existsb_exists. exists i. split; [exact Hi|]. now rewrite E.
Qed.

(* how htslib reads an ID that is not risky: as a name *)
Lemma hts_region_name nm f t : risky nm f t = false ->
  hts_region false nm f t
  = match seq_of nm f t with Some k => Ok (k, None, None) | None => Err E_Value end.
Proof.
  unfold risky, hts_region. destruct (split_last COLON t) as [[pre p]|]; [|reflexivity].
  unfold is_seq. destruct (seq_of nm f pre); [discriminate|]. intros _.
  destruct (seq_of nm f t); reflexivity.
Qed.

(* ---- the generalised loops with a pointwise equal variant lookup ---------- *)

Section Same.
  Variable fetch : list line -> Z -> option Z -> option Z -> res (list line).
  Variable f : list line.
  Variable vof : hrec -> res (list item).

  Lemma iter_region_g_eq r ids ls :
    (forall h, In h (hrs ls) -> vof h = variants_of false fetch f h) ->
    iter_region_g vof r ids ls = iter_region false fetch f r ids ls.
  Proof.
    induction ls as [|l rest IH]; intros H; [reflexivity|].
    assert (Hr : forall h, In h (hrs rest) -> vof h = variants_of false fetch f h).
    { intros h Hh. apply H. change (l :: rest) with ([l] ++ rest). rewrite hrs_app. apply in_or_app. now right. }
    specialize (IH Hr).
    destruct l as [c|c s e j x|c s e j x|h s e j a x|t q s e x]; cbn [iter_region_g iter_region]; try reflexivity.
    - rewrite IH. unfold emit_g, emit. rewrite (H (mkh false c s e j)) by (left; reflexivity). reflexivity.
    - rewrite IH. unfold emit_g, emit. rewrite (H (mkh true c s e j)) by (left; reflexivity). reflexivity.
  Qed.

  Lemma iter_ids_g_eq ids ls : forall count,
    (forall h, In h (hrs ls) -> vof h = variants_of false fetch f h) ->
    iter_ids_g vof ids count ls = iter_ids false fetch f ids count ls.
  Proof.
    induction ls as [|l rest IH]; intros count H; [reflexivity|].
    assert (Hr : forall h, In h (hrs rest) -> vof h = variants_of false fetch f h).
    { intros h Hh. apply H. change (l :: rest) with ([l] ++ rest). rewrite hrs_app. apply in_or_app. now right. }
    destruct l as [c|c s e j x|c s e j x|h s e j a x|t q s e x]; cbn [iter_ids_g iter_ids];
      rewrite ?(IH _ Hr); try reflexivity.
    - unfold emit_g, emit. rewrite (H (mkh false c s e j)) by (left; reflexivity). reflexivity.
    - unfold emit_g, emit. rewrite (H (mkh true c s e j)) by (left; reflexivity). reflexivity.
  Qed.
End Same.

(* ---- the string-level reader under the tabix contract --------------------- *)

Section Str.
  Variable fetch : list line -> Z -> option Z -> option Z -> res (list line).
  Hypothesis fetch_ok : forall f q a b, tabix_accepts f = true -> fetch f q a b = fetch_spec f q a b.
  Variable f : list line.
  Hypothesis Htab : tabix_accepts f = true.
  Hypothesis W : wf f.
  Variable nm : names.
  Hypothesis Nok : names_ok nm.

  Lemma seq_of_rank t k : name_of nm k = Some t ->
    seq_of nm f t = if existsb (seq_is k) f then Some k else None.
  Proof. intros E. unfold seq_of. now rewrite (Nok _ _ E). Qed.

  (* fetch(reference=ID): with the ID taken as a name, the lookup of the rank-level model *)
  Lemma variants_as_name fixed h t :
    name_of nm (h_id h) = Some t -> (fixed = true \/ risky nm f t = false) ->
    variants_of_s fixed fetch f nm h = variants_of false fetch f h.
  Proof.
    intros E Hsafe. unfold variants_of_s, variants_of. destruct (h_rep h); [reflexivity|]. rewrite E.
    assert (Ht : (if fixed
                  then match seq_of nm f t with Some k => Ok (k, None, None) | None => Err E_Value end
                  else hts_region false nm f t)
                 = match seq_of nm f t with Some k => Ok (k, None, None) | None => Err E_Value end).
    { destruct fixed; [reflexivity|]. destruct Hsafe as [Hs|Hs]; [discriminate|]. now apply hts_region_name. }
    rewrite Ht, (seq_of_rank t (h_id h) E).
    destruct (existsb (seq_is (h_id h)) f) eqn:Ex.
    - destruct (fetch f (h_id h) None None); reflexivity.
    - change (E_Value =? E_Unobserved) with false. cbn iota.
      rewrite fetch_ok by exact Htab. unfold fetch_spec. now rewrite Ex.
  Qed.

  (* every haplotype ID of the file is spelled, and (the tree as it is) none is risky *)
  Definition ids_safe (fixed : bool) : Prop :=
    forall i, In i (h_ids f) -> exists t, name_of nm i = Some t /\ (fixed = true \/ risky nm f t = false).

  Lemma variants_pointwise fixed : ids_safe fixed ->
    forall h, In h (hrs f) -> variants_of_s fixed fetch f nm h = variants_of false fetch f h.
  Proof.
    intros Hs h Hh. destruct (h_rep h) eqn:Hr.
    - unfold variants_of_s, variants_of. now rewrite Hr.
    - destruct (Hs (h_id h)) as [t [E Ht]].
      + rewrite h_ids_filter. apply in_map. apply filter_In. split; [exact Hh|]. unfold notrep. now rewrite Hr.
      + now apply (variants_as_name fixed h t).
  Qed.

  Lemma hrs_filter_sub (p : line -> bool) g h : In h (hrs (filter p g)) -> In h (hrs g).
  Proof.
    unfold hrs. rewrite !in_flat_map. intros [l [Hl Hh]]. apply filter_In in Hl. exists l. tauto.
  Qed.

  (* the two parsers agree with the intended (contig, a, b): the string-level
     reader is the rank-level reader *)
  Lemma read_indexed_s_eq fixed s ids k a b :
    ids_safe fixed ->
    In k (contigs f) ->
    hts_region fixed nm f s = Ok (k, a, b) ->
    py_region fixed nm f s = Ok (a, b) ->
    read_indexed_s fixed fetch f nm s ids = read_indexed false fetch f (Some (mkreg k a b)) ids.
  Proof.
    intros Hs Hk Hh Hp. unfold read_indexed_s, read_indexed, iter_indexed. rewrite Hh, Hp. cbn [r_contig r_a r_b].
    rewrite fetch_ok by exact Htab. unfold fetch_spec. rewrite (contig_seq f k Hk). cbn [bind].
    rewrite (iter_region_g_eq fetch f); [reflexivity|].
    intros h Hh'. apply (variants_pointwise fixed Hs). eapply hrs_filter_sub. exact Hh'.
  Qed.

  Lemma contig_seq_of k c : name_of nm k = Some c -> In k (contigs f) -> seq_of nm f c = Some k.
  Proof. intros E Hk. rewrite (seq_of_rank c k E). now rewrite (contig_seq f k Hk). Qed.

  (* THE TREE AS IT IS: a canonical region string on a contig whose name has no
     ':' (it may contain '-'), in a file whose haplotype IDs htslib takes as names *)
  Theorem region_string_query_legacy r c s ids :
    ids_safe false ->
    name_of nm (r_contig r) = Some c -> has_colon c = false ->
    bounds_ok r = true -> print_reg c (r_a r) (r_b r) = Some s ->
    (r_a r = None \/ is_seq nm f s = false) ->
    In (r_contig r) (contigs f) ->
    (forall t s' e x, ~ In (LX t (r_contig r) s' e x) f) ->
    exists full, read_plain f None = Ok full /\
      read_indexed_s false fetch f nm s ids = Ok (filter (selected (Some r) ids) full).
  Proof.
    intros Hs Ec Hc Hb Hp Hseq Hk NoX.
    assert (Hab : r_a r = None -> r_b r = None).
    { intros E. rewrite E in Hp. unfold print_reg in Hp. destruct (r_b r); [discriminate|reflexivity]. }
    pose proof (bounds_ok_pos r Hb Hab) as Hbp.
    pose proof (contig_seq_of _ _ Ec Hk) as Hsq.
    destruct r as [k a b]. cbn [r_contig r_a r_b] in *.
    rewrite (read_indexed_s_eq false s ids k a b Hs Hk).
    - apply (indexed_region_eq_filter fetch fetch_ok f Htab W (mkreg k a b) ids Hab Hk NoX).
    - now apply (hts_region_legacy nm f c k a b s).
    - now apply (py_region_legacy nm f c a b s).
  Qed.

  (* THE REPAIRED PARSER: any contig name (colons included), any haplotype IDs;
     only a bare contig name that also reads as <sequence name>:<text> is excluded *)
  Theorem region_string_query_fixed r c s ids :
    ids_safe true ->
    name_of nm (r_contig r) = Some c ->
    bounds_ok r = true -> print_reg c (r_a r) (r_b r) = Some s ->
    (r_a r = None -> bare_ambiguous nm f s = false) ->
    In (r_contig r) (contigs f) ->
    (forall t s' e x, ~ In (LX t (r_contig r) s' e x) f) ->
    exists full, read_plain f None = Ok full /\
      read_indexed_s true fetch f nm s ids = Ok (filter (selected (Some r) ids) full).
  Proof.
    intros Hs Ec Hb Hp Hamb Hk NoX.
    assert (Hab : r_a r = None -> r_b r = None).
    { intros E. rewrite E in Hp. unfold print_reg in Hp. destruct (r_b r); [discriminate|reflexivity]. }
    pose proof (bounds_ok_pos r Hb Hab) as Hbp.
    pose proof (contig_seq_of _ _ Ec Hk) as Hsq.
    destruct r as [k a b]. cbn [r_contig r_a r_b] in *.
    rewrite (read_indexed_s_eq true s ids k a b Hs Hk).
    - apply (indexed_region_eq_filter fetch fetch_ok f Htab W (mkreg k a b) ids Hab Hk NoX).
    - now apply (hts_region_fixed nm f c k a b s).
    - now apply (py_region_fixed nm f c k a b s).
  Qed.

  (* IDs alone *)
  Theorem ids_string_query fixed ids :
    ids_safe fixed -> NoDup ids -> ids <> [] ->
    exists full, read_plain f None = Ok full /\
      read_ids_s fixed fetch f nm (Some ids) = Ok (filter (selected None (Some ids)) full).
  Proof.
    intros Hs Hnd Hne.
    destruct (indexed_ids_eq_filter fetch fetch_ok f Htab ids Hnd W Hne) as [full [E1 E2]].
    exists full. split; [exact E1|]. rewrite <- E2. unfold read_ids_s, read_indexed, iter_indexed.
    destruct ids as [|i0 r]; [congruence|].
    rewrite (iter_ids_g_eq fetch f); [reflexivity|].
    intros h Hh. apply (variants_pointwise fixed Hs). rewrite <- hrs_data_lines. exact Hh.
  Qed.
End Str.

(* the default scope of the demand is inside the hypotheses of the legacy theorem *)
Lemma in_scope_legacy nm file r s c : in_scope false nm file r s = true ->
  name_of nm (r_contig r) = Some c ->
  has_colon c = false /\ (r_a r = None \/ is_seq nm file s = false).
Proof.
  unfold in_scope. intros H E. rewrite E in H. apply andb_true_iff in H. destruct H as [H1 H2].
  split; [now apply negb_true_iff|]. apply orb_true_iff in H2. destruct H2 as [H2|H2].
  - left. destruct (r_a r); [discriminate|reflexivity].
  - right. now apply negb_true_iff.
Qed.

Lemma in_scope_fixed nm file r s : in_scope true nm file r s = true ->
  r_a r = None -> bare_ambiguous nm file s = false.
Proof.
  unfold in_scope, bare_ambiguous. intros H E. rewrite E in H. cbn [andb] in H. now apply negb_true_iff.
Qed.

(* ---- the defects of the tree as it is, on the smallest files --------------- *)

(* contig "6:7" (code points 54 58 55), one haplotype 5..10: read(region="6:7")
   drops it (the reader filters by start >= 7); the repaired reader returns it *)
Example legacy_colon_contig_refuted :
  let f := [LC 0; LH 1 5 10 2 []] in
  let nm := [([54; 58; 55], 1); ([104], 2)] in
  let s := [54; 58; 55] in
  tabix_accepts f = true /\ wf_file f = true /\ names_okb nm = true /\
  read_plain f None = Ok [(mkh false 1 5 10 2, [])] /\
  read_indexed_s false fetch_spec f nm s None = Ok [] /\
  read_indexed_s true fetch_spec f nm s None = Ok [(mkh false 1 5 10 2, [])].
Proof. vm_compute. repeat split. Qed.

(* contig "A:01" (65 58 48 49): read(region="A:01:5-10") raises ValueError (int("01:5")) *)
Example legacy_colon_contig_raises :
  let f := [LC 0; LH 1 5 10 2 []] in
  let nm := [([65; 58; 48; 49], 1); ([104], 2)] in
  let s := [65; 58; 48; 49; 58; 53; 45; 49; 48] in
  read_indexed_s false fetch_spec f nm s None = Err E_Value /\
  read_indexed_s true fetch_spec f nm s None = Ok [(mkh false 1 5 10 2, [])].
Proof. vm_compute. repeat split. Qed.

(* contig "1" (49) and a haplotype named "1:5" (49 58 53) with one variant: every
   indexed query loses the variant (htslib refuses the ID as ambiguous), and the
   region string "1:5" returns ... the same record without its variant; the
   repaired reader attaches it *)
Example legacy_region_like_id_refuted :
  let f := [LC 0; LH 1 5 10 2 []; LV 2 6 6 3 4 []] in
  let nm := [([49], 1); ([49; 58; 53], 2)] in
  tabix_accepts f = true /\ wf_file f = true /\ names_okb nm = true /\
  read_plain f None = Ok [(mkh false 1 5 10 2, [mkv 2 6 6 3 4])] /\
  read_ids_s false fetch_spec f nm (Some [2]) = Ok [(mkh false 1 5 10 2, [])] /\
  read_ids_s true fetch_spec f nm (Some [2]) = Ok [(mkh false 1 5 10 2, [mkv 2 6 6 3 4])] /\
  read_indexed_s false fetch_spec f nm [49] None = Ok [(mkh false 1 5 10 2, [])] /\
  read_indexed_s true fetch_spec f nm [49] None = Ok [(mkh false 1 5 10 2, [mkv 2 6 6 3 4])].
Proof. vm_compute. repeat split. Qed.
