(* C11 - property theorems only. *)
From HV Require Import Prelude C11_Model C11_Check C11_Proofs C11_Proofs2.
From Coq Require Import Permutation Sorted.

(* sorting (Haplotypes.sort / Haplotype.sort): a permutation, ordered by
   (chrom, start, end, id) resp. (start, end, id) *)
Theorem C11_sort_perm_sorted : forall l : list hrec,
  Permutation l (isort h_ltb l) /\ StronglySorted h_key_le (isort h_ltb l).
Proof. exact sort_h_perm_sorted. Qed.
Print Assumptions C11_sort_perm_sorted.

Theorem C11_sort_variants_perm_sorted : forall l : list vrec,
  Permutation l (isort v_ltb l) /\ StronglySorted v_key_le (isort v_ltb l).
Proof. exact sort_v_perm_sorted. Qed.
Print Assumptions C11_sort_variants_perm_sorted.

(* a sorted list is left unchanged (sorting an already sorted file is the identity) *)
Theorem C11_sort_idempotent : forall l : list hrec, isort h_ltb (isort h_ltb l) = isort h_ltb l.
Proof.
  intros l. apply isort_id. apply isort_sorted; [apply h_ltb_asym|apply h_le_trans].
Qed.
Print Assumptions C11_sort_idempotent.

(* under the tabix contract, an indexed read restricted to a region on a contig
   of the file (and optionally to IDs) is the filter of the full plain read *)
Theorem C11_indexed_query_eq_filter :
  forall (fetch : list line -> Z -> option Z -> option Z -> res (list line)),
  (forall f q a b, tabix_okb f = true -> fetch f q a b = fetch_spec f q a b) ->
  forall f, tabix_okb f = true -> wf f ->
  (forall l, In l f -> match l with LX _ _ _ _ _ => False | _ => True end) ->
  forall r ids, (r_a r = None -> r_b r = None) -> In (r_contig r) (contigs f) ->
  exists full, read_plain f None = Ok full /\
    read_indexed false fetch f (Some r) ids = Ok (filter (selected (Some r) ids) full).
Proof. exact indexed_region_eq_filter. Qed.
Print Assumptions C11_indexed_query_eq_filter.

(* the hypotheses are satisfiable: a two-contig file with nested haplotypes *)
Example C11_query_hypotheses_satisfiable :
  let f := [LC 0; LR 1 3 5 7 []; LH 1 5 10 4 []; LH 1 5 20 5 []; LH 2 5 10 6 [];
            LV 4 5 5 8 1 []; LV 4 10 10 9 2 []; LV 6 7 8 9 3 []] in
  tabix_okb f = true /\ wf_file f = true /\
  forallb (fun l => match l with LX _ _ _ _ _ => false | _ => true end) f = true /\
  memZ 1 (contigs f) = true /\
  read_indexed false fetch_spec f (Some (mkreg 1 (Some 4) (Some 10))) None
    = Ok [(mkh false 1 5 10 4, [mkv 4 5 5 8 1; mkv 4 10 10 9 2])].
Proof. vm_compute. repeat split. Qed.
Print Assumptions C11_query_hypotheses_satisfiable.

Theorem C11_wf_file_sound : forall f, wf_file f = true -> wf f.
Proof. exact wf_file_sound. Qed.
Print Assumptions C11_wf_file_sound.

(* the checker evaluated on the implementation's answers means what the property says *)
Theorem C11_holds_query_sound : forall file full q,
  holds_query1 file full q = true ->
  match q_reg q with Some r => In (r_contig r) (contigs file) | None => True end ->
  exists out out', q_res q = Ok out /\ Permutation out out' /\
    Forall2 entry_same (filter (selected (q_reg q) (q_ids q)) full) out'.
Proof. exact holds_query1_sound. Qed.
Print Assumptions C11_holds_query_sound.

Theorem C11_perm_eqb_sound : forall (A : Type) (e : A -> A -> bool) (R : A -> A -> Prop),
  (forall a b, e a b = true -> R a b) ->
  forall l1 l2, perm_eqb e l1 l2 = true -> exists l2', Permutation l2 l2' /\ Forall2 R l1 l2'.
Proof. exact @perm_eqb_sound. Qed.
Print Assumptions C11_perm_eqb_sound.

Theorem C11_legacy_variantless_query_refuted :
  let f := [LC 0; LH 1 10 30 2 []] in
  tabix_okb f = true /\ wf_file f = true /\
  read_plain f None = Ok [(mkh false 1 10 30 2, [])] /\
  read_indexed true fetch_spec f (Some (mkreg 1 None None)) None = Err E_Value /\
  read_indexed false fetch_spec f (Some (mkreg 1 None None)) None = Ok [(mkh false 1 10 30 2, [])].
Proof. exact legacy_variantless_query_refuted. Qed.
Print Assumptions C11_legacy_variantless_query_refuted.
