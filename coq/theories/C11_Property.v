(* C11 - property theorems only. *)
From HV Require Import Prelude C11_Model C11_Check C11_Proofs C11_Proofs2 C11_Proofs3 C11_Proofs4 C11_Proofs5 C11_Proofs6 C11_Proofs7 C11_Proofs8.
From Coq Require Import Permutation Sorted.

(* sorting (Haplotypes.sort / Haplotype.sort): a permutation, ordered by
   (chrom, start, end, id) resp. (start, end, id) *)
Theorem C11_sort_perm_sorted : forall l : list hrec,
  Permutation l (isort h_ltb l) /\ StronglySorted h_key_le (isort h_ltb l).
Proof. exact sort_h_perm_sorted. Qed.
Print Assumptions C11_sort_perm_sorted.

Theorem C11_sort_variants_perm_sorted : forall l : list vrec,
  Permutation l (isort v_ltb l) /\ StronglySorted v_key_le (isort v_ltb l).
Proof. exact sort_v_perm_sorted. Qed.
Print Assumptions C11_sort_variants_perm_sorted.

(* a sorted list is left unchanged (sorting an already sorted file is the identity) *)
Theorem C11_sort_idempotent : forall l : list hrec, isort h_ltb (isort h_ltb l) = isort h_ltb l.
Proof.
  intros l. apply isort_id. apply isort_sorted; [apply h_ltb_asym|apply h_le_trans].
Qed.
Print Assumptions C11_sort_idempotent.

(* under the tabix contract, an indexed read restricted to a region on a contig
   of the file (and optionally to IDs) is the filter of the full plain read *)
Theorem C11_indexed_query_eq_filter :
  forall (fetch : list line -> Z -> option Z -> option Z -> res (list line)),
  (forall f q a b, tabix_okb f = true -> fetch f q a b = fetch_spec f q a b) ->
  forall f, tabix_okb f = true -> wf f ->
  (forall l, In l f -> match l with LX _ _ _ _ _ => False | _ => True end) ->
  forall r ids, (r_a r = None -> r_b r = None) -> In (r_contig r) (contigs f) ->
  exists full, read_plain f None = Ok full /\
    read_indexed false fetch f (Some r) ids = Ok (filter (selected (Some r) ids) full).
Proof. exact indexed_region_eq_filter. Qed.
Print Assumptions C11_indexed_query_eq_filter.

(* the hypotheses are satisfiable: a two-contig file with nested haplotypes *)
Example C11_query_hypotheses_satisfiable :
  let f := [LC 0; LR 1 3 5 7 []; LH 1 5 10 4 []; LH 1 5 20 5 []; LH 2 5 10 6 [];
            LV 4 5 5 8 1 []; LV 4 10 10 9 2 []; LV 6 7 8 9 3 []] in
  tabix_okb f = true /\ wf_file f = true /\
  forallb (fun l => match l with LX _ _ _ _ _ => false | _ => true end) f = true /\
  memZ 1 (contigs f) = true /\
  read_indexed false fetch_spec f (Some (mkreg 1 (Some 4) (Some 10))) None
    = Ok [(mkh false 1 5 10 4, [mkv 4 5 5 8 1; mkv 4 10 10 9 2])].
Proof. vm_compute. repeat split. Qed.
Print Assumptions C11_query_hypotheses_satisfiable.

Theorem C11_wf_file_sound : forall f, wf_file f = true -> wf f.
Proof. exact wf_file_sound. Qed.
Print Assumptions C11_wf_file_sound.

(* the checker evaluated on the implementation's answers means what the property says *)
Theorem C11_holds_query_sound : forall file full q,
  holds_query1 file full q = true ->
  match q_reg q with Some r => In (r_contig r) (contigs file) | None => True end ->
  exists out out', q_res q = Ok out /\ Permutation out out' /\
    Forall2 entry_same (filter (selected (q_reg q) (q_ids q)) full) out'.
Proof. exact holds_query1_sound. Qed.
Print Assumptions C11_holds_query_sound.

Theorem C11_perm_eqb_sound : forall (A : Type) (e : A -> A -> bool) (R : A -> A -> Prop),
  (forall a b, e a b = true -> R a b) ->
  forall l1 l2, perm_eqb e l1 l2 = true -> exists l2', Permutation l2 l2' /\ Forall2 R l1 l2'.
Proof. exact @perm_eqb_sound. Qed.
Print Assumptions C11_perm_eqb_sound.

Theorem C11_legacy_variantless_query_refuted :
  let f := [LC 0; LH 1 10 30 2 []] in
  tabix_okb f = true /\ wf_file f = true /\
  read_plain f None = Ok [(mkh false 1 10 30 2, [])] /\
  read_indexed true fetch_spec f (Some (mkreg 1 None None)) None = Err E_Value /\
  read_indexed false fetch_spec f (Some (mkreg 1 None None)) None = Ok [(mkh false 1 10 30 2, [])].
Proof. exact legacy_variantless_query_refuted. Qed.
Print Assumptions C11_legacy_variantless_query_refuted.

(* IDs alone (no region): the early exit of _iter_haps loses nothing *)
Theorem C11_indexed_ids_eq_filter :
  forall (fetch : list line -> Z -> option Z -> option Z -> res (list line)),
  (forall f q a b, tabix_okb f = true -> fetch f q a b = fetch_spec f q a b) ->
  forall f, tabix_okb f = true ->
  forall ids, NoDup ids -> wf f -> ids <> [] ->
  exists full, read_plain f None = Ok full /\
    read_indexed false fetch f None (Some ids) = Ok (filter (selected None (Some ids)) full).
Proof. exact indexed_ids_eq_filter. Qed.
Print Assumptions C11_indexed_ids_eq_filter.

(* index_haps on a well-formed file: completes, the output is accepted by tabix
   (every sequence name contiguous and start-sorted) and holds exactly the
   H, R and V records of the input (mandatory fields) *)
Theorem C11_indexed_file_tabix_ok : forall f, wf f ->
  tabix_okb (to_str (sort_data (map (entry_of (vrecs f)) (hrs f)))) = true.
Proof. exact sorted_output_tabix_ok. Qed.
Print Assumptions C11_indexed_file_tabix_ok.

Theorem C11_index_keeps_records : forall f, wf f ->
  exists out, index_output true f = Ok out /\ tabix_okb out = true /\
    Permutation (records f) (records out).
Proof. exact index_sorted_total. Qed.
Print Assumptions C11_index_keeps_records.

(* --no-sort: every line (header, extra fields) verbatim, whenever tabix accepts the file *)
Theorem C11_index_nosort_verbatim : forall f,
  (tabix_okb f = true -> index_output false f = Ok f) /\
  (forall out, index_output false f = Ok out -> out = f).
Proof. intros f. split; [apply index_nosort_accepts|apply index_nosort_verbatim]. Qed.
Print Assumptions C11_index_nosort_verbatim.

(* tabix acceptance only looks at the (sequence, start, end) triples of the data lines *)
Theorem C11_tabix_walk_is_walk3 : forall f seen cur,
  tabix_walk seen cur f = walk3 seen cur (triples f).
Proof. exact tabix_walk_triples. Qed.
Print Assumptions C11_tabix_walk_is_walk3.

(* what the index checker means *)
Theorem C11_holds_index_sorted_sound : forall k,
  i_sort k = true -> wf_file (i_in k) = true -> holds_index k = true ->
  i_obs k = Err E_Unobserved \/
  exists out, i_obs k = Ok out
    /\ Permutation (records (i_in k)) (records out)
    /\ (forall l, In l out -> match l with LX _ _ _ _ _ => False | _ => True end)
    /\ tabix_okb out = true
    /\ i_fetch k = Ok (data_lines out)
    /\ (i_plain k = true -> i_after k = Some (i_in k)).
Proof. exact holds_index_sorted_sound. Qed.
Print Assumptions C11_holds_index_sorted_sound.

Theorem C11_holds_index_nosort_sound : forall k,
  i_sort k = false -> tabix_okb (i_in k) = true -> holds_index k = true ->
  i_obs k = Ok (i_in k)
  /\ i_fetch k = Ok (data_lines (i_in k))
  /\ (i_plain k = true -> i_after k = Some (i_in k)).
Proof. exact holds_index_nosort_sound. Qed.
Print Assumptions C11_holds_index_nosort_sound.

(* end to end: index a well-formed file, query the result by region (+IDs):
   the answer is the filter of a full read of the ORIGINAL un-indexed file, up to
   the order of the records and of the variants inside a record *)
Theorem C11_query_on_index_output : forall f, wf f ->
  forall (fetch : list line -> Z -> option Z -> option Z -> res (list line)),
  (forall g q a b, tabix_okb g = true -> fetch g q a b = fetch_spec g q a b) ->
  forall r ids, (r_a r = None -> r_b r = None) -> In (r_contig r) (contigs f) ->
  exists full res res',
    index_output true f = Ok (to_str (sort_data (map (entry_of (vrecs f)) (hrs f)))) /\
    read_plain f None = Ok full /\
    read_indexed false fetch (to_str (sort_data (map (entry_of (vrecs f)) (hrs f)))) (Some r) ids = Ok res /\
    Permutation res res' /\
    Forall2 entry_same (filter (selected (Some r) ids) full) res'.
Proof. exact query_on_index_output. Qed.
Print Assumptions C11_query_on_index_output.

(* with distinct IDs the sorted order is unique: whatever comparison sort the
   implementation uses, a sorted permutation of the data is the model's list *)
Theorem C11_sorted_unique : forall l l' : list hrec,
  NoDup (map h_id l) -> Permutation l l' -> StronglySorted h_key_le l' -> l' = isort h_ltb l.
Proof. exact sorted_unique. Qed.
Print Assumptions C11_sorted_unique.
