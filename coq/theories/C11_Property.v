(* C11 - property theorems only. *)
From HV Require Import Prelude C11_Model C11_Check C11_Proofs C11_Proofs2 C11_Proofs3 C11_Proofs4 C11_Proofs5 C11_Proofs6 C11_Proofs7 C11_Proofs8 C11_ProofsRegion C11_ProofsRegion2 C11_Proofs10 C11_Proofs9 C11_Hist C11_ProofsHist.
From Coq Require Import Permutation Sorted.

(* sorting (Haplotypes.sort / Haplotype.sort): a permutation, ordered by
   (chrom, start, end, id) resp. (start, end, id) *)
Theorem C11_sort_perm_sorted : forall l : list hrec,
  Permutation l (isort h_ltb l) /\ StronglySorted h_key_le (isort h_ltb l).
Proof. exact sort_h_perm_sorted. Qed.
Print Assumptions C11_sort_perm_sorted.

Theorem C11_sort_variants_perm_sorted : forall l : list vrec,
  Permutation l (isort v_ltb l) /\ StronglySorted v_key_le (isort v_ltb l).
Proof. exact sort_v_perm_sorted. Qed.
Print Assumptions C11_sort_variants_perm_sorted.

(* a sorted list is left unchanged (sorting an already sorted file is the identity) *)
Theorem C11_sort_idempotent : forall l : list hrec, isort h_ltb (isort h_ltb l) = isort h_ltb l.
Proof.
  intros l. apply isort_id. apply isort_sorted; [apply h_ltb_asym|apply h_le_trans].
Qed.
Print Assumptions C11_sort_idempotent.

(* under the tabix contract, an indexed read restricted to a region on a contig
   of the file (and optionally to IDs) is the filter of the full plain read *)
Theorem C11_indexed_query_eq_filter :
  forall (fetch : list line -> Z -> option Z -> option Z -> res (list line)),
  (forall f q a b, tabix_accepts f = true -> fetch f q a b = fetch_spec f q a b) ->
  forall f, tabix_accepts f = true -> wf f ->
  forall r ids, (r_a r = None -> r_b r = None) -> In (r_contig r) (contigs f) ->
  (forall t s e x, ~ In (LX t (r_contig r) s e x) f) ->      (* no line of an unknown type on that contig *)
  exists full, read_plain f None = Ok full /\
    read_indexed false fetch f (Some r) ids = Ok (filter (selected (Some r) ids) full).
Proof. exact indexed_region_eq_filter. Qed.
Print Assumptions C11_indexed_query_eq_filter.

(* the hypotheses are satisfiable: a two-contig file with nested haplotypes *)
Example C11_query_hypotheses_satisfiable :
  let f := [LC 0; LR 1 3 5 7 []; LH 1 5 10 4 []; LH 1 5 20 5 []; LH 2 5 10 6 [];
            LV 4 5 5 8 1 []; LV 4 10 10 9 2 []; LV 6 7 8 9 3 []] in
  tabix_accepts f = true /\ wf_file f = true /\
  forallb (fun l => match l with LX _ _ _ _ _ => false | _ => true end) f = true /\
  memZ 1 (contigs f) = true /\
  read_indexed false fetch_spec f (Some (mkreg 1 (Some 4) (Some 10))) None
    = Ok [(mkh false 1 5 10 4, [mkv 4 5 5 8 1; mkv 4 10 10 9 2])].
Proof. vm_compute. repeat split. Qed.
Print Assumptions C11_query_hypotheses_satisfiable.

Theorem C11_wf_file_sound : forall f, wf_file f = true -> wf f.
Proof. exact wf_file_sound. Qed.
Print Assumptions C11_wf_file_sound.

(* the checker evaluated on the implementation's answers means what the property says *)
Theorem C11_holds_query_sound : forall strict nm file full q,
  holds_query1 strict nm file full q = true -> counts strict nm file q ->
  exists out out', q_res q = Ok out /\ Permutation out out' /\
    Forall2 entry_same (filter (selected (q_reg q) (q_ids q)) full) out'.
Proof. exact holds_query1_sound. Qed.
Print Assumptions C11_holds_query_sound.

Theorem C11_perm_eqb_sound : forall (A : Type) (e : A -> A -> bool) (R : A -> A -> Prop),
  (forall a b, e a b = true -> R a b) ->
  forall l1 l2, perm_eqb e l1 l2 = true -> exists l2', Permutation l2 l2' /\ Forall2 R l1 l2'.
Proof. exact @perm_eqb_sound. Qed.
Print Assumptions C11_perm_eqb_sound.

Theorem C11_legacy_variantless_query_refuted :
  let f := [LC 0; LH 1 10 30 2 []] in
  tabix_accepts f = true /\ wf_file f = true /\
  read_plain f None = Ok [(mkh false 1 10 30 2, [])] /\
  read_indexed true fetch_spec f (Some (mkreg 1 None None)) None = Err E_Value /\
  read_indexed false fetch_spec f (Some (mkreg 1 None None)) None = Ok [(mkh false 1 10 30 2, [])].
Proof. exact legacy_variantless_query_refuted. Qed.
Print Assumptions C11_legacy_variantless_query_refuted.

(* IDs alone (no region): the early exit of _iter_haps loses nothing; an empty set selects nothing *)
Theorem C11_indexed_ids_eq_filter :
  forall (fetch : list line -> Z -> option Z -> option Z -> res (list line)),
  (forall f q a b, tabix_accepts f = true -> fetch f q a b = fetch_spec f q a b) ->
  forall f, tabix_accepts f = true -> wf f ->
  forall ids, NoDup ids ->
  exists full, read_plain f None = Ok full /\
    read_indexed false fetch f None (Some ids) = Ok (filter (selected None (Some ids)) full).
Proof. exact indexed_ids_eq_filter_all. Qed.
Print Assumptions C11_indexed_ids_eq_filter.

(* index_haps on a well-formed file: completes, the output is accepted by tabix
   (every sequence name contiguous and start-sorted) and holds exactly the
   H, R and V records of the input (mandatory fields) *)
Theorem C11_indexed_file_tabix_ok : forall f, wf f ->
  tabix_okb (to_str (sort_data (map (entry_of (vrecs f)) (hrs f)))) = true.
Proof. exact sorted_output_tabix_ok. Qed.
Print Assumptions C11_indexed_file_tabix_ok.

Theorem C11_index_keeps_records : forall f, wf f -> range_okb f = true ->
  exists out, index_output true f = Ok out /\ tabix_accepts out = true /\
    Permutation (records f) (records out).
Proof. exact index_sorted_total. Qed.
Print Assumptions C11_index_keeps_records.

(* --no-sort: every line (header, extra fields) verbatim, whenever tabix accepts the file *)
Theorem C11_index_nosort_verbatim : forall f,
  (tabix_accepts f = true -> index_output false f = Ok f) /\
  (tabix_accepts f = false -> index_output false f = Err E_OS) /\
  (forall out, index_output false f = Ok out -> out = f).
Proof. intros f. split; [apply index_nosort_accepts|split; [apply index_nosort_refuses|apply index_nosort_verbatim]]. Qed.
Print Assumptions C11_index_nosort_verbatim.

(* tabix acceptance only looks at the (sequence, start, end) triples of the data lines *)
Theorem C11_tabix_walk_is_walk3 : forall f seen cur,
  tabix_walk seen cur f = walk3 seen cur (triples f).
Proof. exact tabix_walk_triples. Qed.
Print Assumptions C11_tabix_walk_is_walk3.

(* what the index checker means *)
Theorem C11_holds_index_sorted_sound : forall k,
  i_sort k = true -> wf_file (i_in k) = true -> holds_index k = true ->
  i_obs k = Err E_Unobserved \/
  (range_okb (i_in k) = false /\ exists e, i_obs k = Err e) \/
  exists out, i_obs k = Ok out
    /\ Permutation (records (i_in k)) (records out)
    /\ (forall l, In l out -> match l with LX _ _ _ _ _ => False | _ => True end)
    /\ tabix_okb out = true
    /\ i_tbi k = true
    /\ i_fetch k = Ok (data_lines out)
    /\ (i_plain k = true -> i_after k = Some (i_in k)).
Proof. exact holds_index_sorted_sound. Qed.
Print Assumptions C11_holds_index_sorted_sound.

Theorem C11_holds_index_nosort_sound : forall k,
  i_sort k = false -> holds_index k = true ->
  i_obs k = Err E_Unobserved \/
  (tabix_accepts (i_in k) = false /\ exists e, i_obs k = Err e) \/
  (i_obs k = Ok (i_in k)
   /\ i_tbi k = true
   /\ i_fetch k = Ok (data_lines (i_in k))
   /\ (i_plain k = true -> i_after k = Some (i_in k))).
Proof. exact holds_index_nosort_sound. Qed.
Print Assumptions C11_holds_index_nosort_sound.

(* end to end: index a well-formed file, query the result by region (+IDs):
   the answer is the filter of a full read of the ORIGINAL un-indexed file, up to
   the order of the records and of the variants inside a record *)
Theorem C11_query_on_index_output : forall f, wf f ->
  forall (fetch : list line -> Z -> option Z -> option Z -> res (list line)),
  (forall g q a b, tabix_accepts g = true -> fetch g q a b = fetch_spec g q a b) ->
  range_okb f = true ->
  forall r ids, (r_a r = None -> r_b r = None) -> In (r_contig r) (contigs f) ->
  exists full res res',
    index_output true f = Ok (to_str (sort_data (map (entry_of (vrecs f)) (hrs f)))) /\
    read_plain f None = Ok full /\
    read_indexed false fetch (to_str (sort_data (map (entry_of (vrecs f)) (hrs f)))) (Some r) ids = Ok res /\
    Permutation res res' /\
    Forall2 entry_same (filter (selected (Some r) ids) full) res'.
Proof. exact query_on_index_output. Qed.
Print Assumptions C11_query_on_index_output.

(* with distinct IDs the sorted order is unique: whatever comparison sort the
   implementation uses, a sorted permutation of the data is the model's list *)
Theorem C11_sorted_unique : forall l l' : list hrec,
  NoDup (map h_id l) -> Permutation l l' -> StronglySorted h_key_le l' -> l' = isort h_ltb l.
Proof. exact sorted_unique. Qed.
Print Assumptions C11_sorted_unique.

(* ======================= added by the strengthening pass ======================= *)

(* --- the 2^29 limit of a .tbi --- *)

(* the sorted output fits a .tbi whenever the input does *)
Theorem C11_indexed_file_fits_tbi : forall f, wf f -> range_okb f = true ->
  tabix_accepts (to_str (sort_data (map (entry_of (vrecs f)) (hrs f)))) = true.
Proof. exact sorted_output_accepted. Qed.
Print Assumptions C11_indexed_file_fits_tbi.

(* and the limit is sharp: one record ending beyond 2^29 and index_haps fails *)
Theorem C11_index_beyond_tbi_range_fails : forall f, wf f -> noX f -> range_okb f = false ->
  index_output true f = Err E_OS.
Proof. exact index_sorted_beyond_range. Qed.
Print Assumptions C11_index_beyond_tbi_range_fails.

Example C11_tbi_limit_instances :
  index_output true [LH 1 5 536870912 2 []] = Ok [LC 0; LH 1 5 536870912 2 []] /\
  index_output true [LH 1 5 536870913 2 []] = Err E_OS /\
  index_output false [LH 1 5 536870913 2 []] = Err E_OS.
Proof. vm_compute. repeat split. Qed.
Print Assumptions C11_tbi_limit_instances.

(* --- what the sorted mode writes: "mandatory fields" made precise --- *)
Theorem C11_index_sorted_shape : forall f out, index_output true f = Ok out ->
  exists body, out = LC VERSION_LINE :: body /\
    (forall l, In l body -> is_header l = false /\ extras_of l = []).
Proof. exact index_sorted_shape. Qed.
Print Assumptions C11_index_sorted_shape.

(* --- the new clauses of the index checker --- *)
Theorem C11_holds_index_sorted_total : forall k,
  i_sort k = true -> wf_file (i_in k) = true -> range_okb (i_in k) = true -> holds_index k = true ->
  i_obs k = Err E_Unobserved \/
  exists out, i_obs k = Ok out /\ i_tbi k = true /\ i_fetch k = Ok (data_lines out).
Proof. exact holds_index_sorted_total. Qed.
Print Assumptions C11_holds_index_sorted_total.

Theorem C11_holds_index_nosort_accepted : forall k,
  i_sort k = false -> tabix_accepts (i_in k) = true -> holds_index k = true ->
  i_obs k = Err E_Unobserved \/
  (i_obs k = Ok (i_in k) /\ i_tbi k = true /\ i_fetch k = Ok (data_lines (i_in k))
   /\ (i_plain k = true -> i_after k = Some (i_in k))).
Proof. exact holds_index_nosort_accepted. Qed.
Print Assumptions C11_holds_index_nosort_accepted.

(* --- region strings: printing and the two parsers --- *)

(* int() / htslib's number parser invert the decimal printing *)
Theorem C11_dec_roundtrip : forall z, 0 <= z ->
  py_int (dec z) = Some z /\ digits_val (dec z) = Some z.
Proof. intros z Hz. split; [now apply py_int_dec|now apply digits_val_dec]. Qed.
Print Assumptions C11_dec_roundtrip.

(* the tree as it is: for a contig without ':' (dashes allowed) both parsers read
   the canonical string of (contig, a, b) as (contig, a, b) *)
Theorem C11_region_parsers_invert_printing : forall nm f c k a b s,
  has_colon c = false -> bounds_pos a b -> print_reg c a b = Some s ->
  seq_of nm f c = Some k -> (a = None \/ is_seq nm f s = false) ->
  py_region false nm f s = Ok (a, b) /\ hts_region false nm f s = Ok (k, a, b).
Proof.
  intros nm f c k a b s Hc Hb Hp Hk Hs. split;
    [now apply (py_region_legacy nm f c a b s)|now apply (hts_region_legacy nm f c k a b s)].
Qed.
Print Assumptions C11_region_parsers_invert_printing.

(* the repaired parser: any contig name *)
Theorem C11_region_parsers_invert_printing_fixed : forall nm f c k a b s,
  bounds_pos a b -> print_reg c a b = Some s -> seq_of nm f c = Some k ->
  (a = None -> bare_ambiguous nm f s = false) ->
  py_region true nm f s = Ok (a, b) /\ hts_region true nm f s = Ok (k, a, b).
Proof.
  intros nm f c k a b s Hb Hp Hk Ha. split;
    [now apply (py_region_fixed nm f c k a b s)|now apply (hts_region_fixed nm f c k a b s)].
Qed.
Print Assumptions C11_region_parsers_invert_printing_fixed.

Theorem C11_names_okb_sound : forall nm, names_okb nm = true -> names_ok nm.
Proof. exact names_okb_sound. Qed.
Print Assumptions C11_names_okb_sound.

Theorem C11_risky_ids_sound : forall nm f, risky_ids nm f = false ->
  forall i, In i (h_ids f) -> exists t, name_of nm i = Some t /\ risky nm f t = false.
Proof. exact risky_ids_false. Qed.
Print Assumptions C11_risky_ids_sound.

(* the property's second sentence for the STRING that is passed (no hypothesis on
   the shape of the region: the printed forms are 'c', 'c:a-', 'c:a-b') *)
Theorem C11_region_string_query :
  forall (fetch : list line -> Z -> option Z -> option Z -> res (list line)),
  (forall f q a b, tabix_accepts f = true -> fetch f q a b = fetch_spec f q a b) ->
  forall f, tabix_accepts f = true -> wf f ->
  forall nm, names_ok nm ->
  forall r c s ids,
  ids_safe f nm false ->
  name_of nm (r_contig r) = Some c -> has_colon c = false ->
  bounds_ok r = true -> print_reg c (r_a r) (r_b r) = Some s ->
  (r_a r = None \/ is_seq nm f s = false) ->
  In (r_contig r) (contigs f) ->
  (forall t s' e x, ~ In (LX t (r_contig r) s' e x) f) ->
  exists full, read_plain f None = Ok full /\
    read_indexed_s false fetch f nm s ids = Ok (filter (selected (Some r) ids) full).
Proof. exact region_string_query_legacy. Qed.
Print Assumptions C11_region_string_query.

Theorem C11_region_string_query_fixed :
  forall (fetch : list line -> Z -> option Z -> option Z -> res (list line)),
  (forall f q a b, tabix_accepts f = true -> fetch f q a b = fetch_spec f q a b) ->
  forall f, tabix_accepts f = true -> wf f ->
  forall nm, names_ok nm ->
  forall r c s ids,
  ids_safe f nm true ->
  name_of nm (r_contig r) = Some c ->
  bounds_ok r = true -> print_reg c (r_a r) (r_b r) = Some s ->
  (r_a r = None -> bare_ambiguous nm f s = false) ->
  In (r_contig r) (contigs f) ->
  (forall t s' e x, ~ In (LX t (r_contig r) s' e x) f) ->
  exists full, read_plain f None = Ok full /\
    read_indexed_s true fetch f nm s ids = Ok (filter (selected (Some r) ids) full).
Proof. exact region_string_query_fixed. Qed.
Print Assumptions C11_region_string_query_fixed.

(* IDs alone, with the variant lookup going through the spelling of each ID *)
Theorem C11_ids_string_query :
  forall (fetch : list line -> Z -> option Z -> option Z -> res (list line)),
  (forall f q a b, tabix_accepts f = true -> fetch f q a b = fetch_spec f q a b) ->
  forall f, tabix_accepts f = true -> wf f ->
  forall nm, names_ok nm ->
  forall fixed ids, ids_safe f nm fixed -> NoDup ids ->
  exists full, read_plain f None = Ok full /\
    read_ids_s fixed fetch f nm (Some ids) = Ok (filter (selected None (Some ids)) full).
Proof. exact ids_string_query_all. Qed.
Print Assumptions C11_ids_string_query.

(* the scope clause of holds_query1 lies inside the hypotheses of these theorems *)
Theorem C11_in_scope_sound : forall nm file r s,
  (forall c, in_scope false nm file r s = true -> name_of nm (r_contig r) = Some c ->
     has_colon c = false /\ (r_a r = None \/ is_seq nm file s = false)) /\
  (in_scope true nm file r s = true -> r_a r = None -> bare_ambiguous nm file s = false).
Proof. intros nm file r s. split; [intros c; apply in_scope_legacy|apply in_scope_fixed]. Qed.
Print Assumptions C11_in_scope_sound.

Example C11_region_string_hypotheses_satisfiable :
  let f := [LC 0; LH 1 5 10 2 []; LH 1 5 20 3 []; LV 2 6 6 4 5 []] in
  let nm := [([72; 76; 65; 45; 65], 1); ([104], 2); ([105], 3)] in
  let r := mkreg 1 (Some 4) (Some 10) in
  let s := [72; 76; 65; 45; 65; 58; 52; 45; 49; 48] in
  tabix_accepts f = true /\ wf_file f = true /\ names_okb nm = true /\ risky_ids nm f = false /\
  has_colon [72; 76; 65; 45; 65] = false /\ bounds_ok r = true /\
  print_reg [72; 76; 65; 45; 65] (r_a r) (r_b r) = Some s /\ is_seq nm f s = false /\
  read_indexed_s false fetch_spec f nm s None = Ok [(mkh false 1 5 10 2, [mkv 2 6 6 4 5])].
Proof. exact region_string_hypotheses_satisfiable. Qed.
Print Assumptions C11_region_string_hypotheses_satisfiable.

(* --- the defects of the tree as it is (fixes/C11_colon_names.patch) --- *)
Example C11_legacy_colon_contig_refuted :
  let f := [LC 0; LH 1 5 10 2 []] in
  let nm := [([54; 58; 55], 1); ([104], 2)] in
  let s := [54; 58; 55] in
  tabix_accepts f = true /\ wf_file f = true /\ names_okb nm = true /\
  read_plain f None = Ok [(mkh false 1 5 10 2, [])] /\
  read_indexed_s false fetch_spec f nm s None = Ok [] /\
  read_indexed_s true fetch_spec f nm s None = Ok [(mkh false 1 5 10 2, [])].
Proof. exact legacy_colon_contig_refuted. Qed.
Print Assumptions C11_legacy_colon_contig_refuted.

Example C11_legacy_colon_contig_raises :
  let f := [LC 0; LH 1 5 10 2 []] in
  let nm := [([65; 58; 48; 49], 1); ([104], 2)] in
  let s := [65; 58; 48; 49; 58; 53; 45; 49; 48] in
  read_indexed_s false fetch_spec f nm s None = Err E_Value /\
  read_indexed_s true fetch_spec f nm s None = Ok [(mkh false 1 5 10 2, [])].
Proof. exact legacy_colon_contig_raises. Qed.
Print Assumptions C11_legacy_colon_contig_raises.

Example C11_legacy_region_like_id_refuted :
  let f := [LC 0; LH 1 5 10 2 []; LV 2 6 6 3 4 []] in
  let nm := [([49], 1); ([49; 58; 53], 2)] in
  tabix_accepts f = true /\ wf_file f = true /\ names_okb nm = true /\
  read_plain f None = Ok [(mkh false 1 5 10 2, [mkv 2 6 6 3 4])] /\
  read_ids_s false fetch_spec f nm (Some [2]) = Ok [(mkh false 1 5 10 2, [])] /\
  read_ids_s true fetch_spec f nm (Some [2]) = Ok [(mkh false 1 5 10 2, [mkv 2 6 6 3 4])] /\
  read_indexed_s false fetch_spec f nm [49] None = Ok [(mkh false 1 5 10 2, [])] /\
  read_indexed_s true fetch_spec f nm [49] None = Ok [(mkh false 1 5 10 2, [mkv 2 6 6 3 4])].
Proof. exact legacy_region_like_id_refuted. Qed.
Print Assumptions C11_legacy_region_like_id_refuted.

(* --- the chain index -> query, for IDs alone and for region strings --- *)
Theorem C11_ids_on_index_output : forall f, wf f -> range_okb f = true ->
  forall (fetch : list line -> Z -> option Z -> option Z -> res (list line)),
  (forall g q a b, tabix_accepts g = true -> fetch g q a b = fetch_spec g q a b) ->
  forall ids, NoDup ids ->
  exists full res res',
    index_output true f = Ok (to_str (sort_data (map (entry_of (vrecs f)) (hrs f)))) /\
    read_plain f None = Ok full /\
    read_indexed false fetch (to_str (sort_data (map (entry_of (vrecs f)) (hrs f)))) None (Some ids) = Ok res /\
    Permutation res res' /\
    Forall2 entry_same (filter (selected None (Some ids)) full) res'.
Proof. exact ids_on_index_output. Qed.
Print Assumptions C11_ids_on_index_output.

Theorem C11_region_string_on_index_output : forall f, wf f -> range_okb f = true ->
  forall (fetch : list line -> Z -> option Z -> option Z -> res (list line)),
  (forall g q a b, tabix_accepts g = true -> fetch g q a b = fetch_spec g q a b) ->
  forall fixed nm r c s ids,
  let out := to_str (sort_data (map (entry_of (vrecs f)) (hrs f))) in
  names_ok nm -> ids_safe out nm fixed ->
  name_of nm (r_contig r) = Some c ->
  bounds_ok r = true -> print_reg c (r_a r) (r_b r) = Some s ->
  (if fixed then r_a r = None -> bare_ambiguous nm out s = false
   else has_colon c = false /\ (r_a r = None \/ is_seq nm out s = false)) ->
  In (r_contig r) (contigs f) ->
  exists full res res',
    index_output true f = Ok out /\
    read_plain f None = Ok full /\
    read_indexed_s fixed fetch out nm s ids = Ok res /\
    Permutation res res' /\
    Forall2 entry_same (filter (selected (Some r) ids) full) res'.
Proof. exact region_string_on_index_output. Qed.
Print Assumptions C11_region_string_on_index_output.

(* ======================= histories on one output path (C11_Hist) ======================= *)

(* whatever happened to the output path before - earlier runs on other inputs or in the other
   mode, inputs older or newer than what lies there, files written over it, the .gz or the
   .tbi removed - the path holds, after a run of the anchored code, a BGZF file with lines
   [index_output] of THAT run's input and an index built from it; and the run fails exactly
   when [index_output] does.  (fixed = false: outside the NotImplementedError defect below) *)
Theorem C11_hist_output_is_index_of_last_input : forall fixed d0 hist sort older src f,
  negb fixed && gzip_beside_tbi sort src (present (od_index (fst (run fixed false d0 hist)))) = false ->
  match index_output sort f with
  | Ok out => run fixed false d0 (hist ++ [HIndex sort older src f]) = (fresh out, Ok tt)
  | Err e => snd (run fixed false d0 (hist ++ [HIndex sort older src f])) = Err e
  end.
Proof. exact hist_last_input. Qed.
Print Assumptions C11_hist_output_is_index_of_last_input.

Theorem C11_hist_output_is_index_of_last_input_fixed : forall d0 hist sort older src f,
  match index_output sort f with
  | Ok out => run true false d0 (hist ++ [HIndex sort older src f]) = (fresh out, Ok tt)
  | Err e => snd (run true false d0 (hist ++ [HIndex sort older src f])) = Err e
  end.
Proof. exact hist_last_input_fixed. Qed.
Print Assumptions C11_hist_output_is_index_of_last_input_fixed.

Theorem C11_hist_output_is_index_of_last_input_legacy : forall d0 hist sort older src f,
  sort = false \/ src <> Here false \/ od_index (fst (run false false d0 hist)) = None ->
  match index_output sort f with
  | Ok out => run false false d0 (hist ++ [HIndex sort older src f]) = (fresh out, Ok tt)
  | Err e => snd (run false false d0 (hist ++ [HIndex sort older src f])) = Err e
  end.
Proof. exact hist_last_input_legacy. Qed.
Print Assumptions C11_hist_output_is_index_of_last_input_legacy.

Theorem C11_hist_independent : forall d0 d1 h0 h1 sort o0 o1 s0 s1 f out,
  index_output sort f = Ok out ->
  run true false d0 (h0 ++ [HIndex sort o0 s0 f]) = run true false d1 (h1 ++ [HIndex sort o1 s1 f]).
Proof. exact hist_independent. Qed.
Print Assumptions C11_hist_independent.

Theorem C11_hist_keeps_records : forall f, wf f -> range_okb f = true ->
  forall fixed d0 hist older src,
  negb fixed && gzip_beside_tbi true src (present (od_index (fst (run fixed false d0 hist)))) = false ->
  exists out,
    run fixed false d0 (hist ++ [HIndex true older src f]) = (fresh out, Ok tt) /\
    tabix_accepts out = true /\ Permutation (records f) (records out).
Proof. exact hist_keeps_records. Qed.
Print Assumptions C11_hist_keeps_records.

Theorem C11_hist_nosort_verbatim : forall f, tabix_accepts f = true ->
  forall fixed d0 hist older src,
    run fixed false d0 (hist ++ [HIndex false older src f]) = (fresh f, Ok tt).
Proof. exact hist_nosort_verbatim. Qed.
Print Assumptions C11_hist_nosort_verbatim.

Theorem C11_hist_nosort_refused : forall f, tabix_accepts f = false ->
  forall fixed d0 hist older src,
    snd (run fixed false d0 (hist ++ [HIndex false older src f])) = Err E_OS.
Proof. exact hist_nosort_refused. Qed.
Print Assumptions C11_hist_nosort_refused.

(* queries on the path after any history = the filter of a full read of the LAST input *)
Theorem C11_hist_region_string_query :
  forall (fetch : list line -> Z -> option Z -> option Z -> res (list line)),
  (forall g q a b, tabix_accepts g = true -> fetch g q a b = fetch_spec g q a b) ->
  forall f, wf f -> range_okb f = true ->
  forall fixed d0 hist older src,
  negb fixed && gzip_beside_tbi true src (present (od_index (fst (run fixed false d0 hist)))) = false ->
  forall pfixed nm r c s ids,
  let out := to_str (sort_data (map (entry_of (vrecs f)) (hrs f))) in
  names_ok nm -> ids_safe out nm pfixed ->
  name_of nm (r_contig r) = Some c ->
  bounds_ok r = true -> print_reg c (r_a r) (r_b r) = Some s ->
  (if pfixed then r_a r = None -> bare_ambiguous nm out s = false
   else has_colon c = false /\ (r_a r = None \/ is_seq nm out s = false)) ->
  In (r_contig r) (contigs f) ->
  exists full res res',
    run fixed false d0 (hist ++ [HIndex true older src f]) = (fresh out, Ok tt) /\
    read_plain f None = Ok full /\
    read_indexed_s pfixed fetch out nm s ids = Ok res /\
    Permutation res res' /\
    Forall2 entry_same (filter (selected (Some r) ids) full) res'.
Proof. exact hist_region_string_query. Qed.
Print Assumptions C11_hist_region_string_query.

Theorem C11_hist_ids_query :
  forall (fetch : list line -> Z -> option Z -> option Z -> res (list line)),
  (forall g q a b, tabix_accepts g = true -> fetch g q a b = fetch_spec g q a b) ->
  forall f, wf f -> range_okb f = true ->
  forall fixed d0 hist older src,
  negb fixed && gzip_beside_tbi true src (present (od_index (fst (run fixed false d0 hist)))) = false ->
  forall ids, NoDup ids ->
  let out := to_str (sort_data (map (entry_of (vrecs f)) (hrs f))) in
  exists full res res',
    run fixed false d0 (hist ++ [HIndex true older src f]) = (fresh out, Ok tt) /\
    read_plain f None = Ok full /\
    read_indexed false fetch out None (Some ids) = Ok res /\
    Permutation res res' /\
    Forall2 entry_same (filter (selected None (Some ids)) full) res'.
Proof. exact hist_ids_query. Qed.
Print Assumptions C11_hist_ids_query.

(* what the history checker means *)
Theorem C11_split_run_spec : forall ops hist sort older src f,
  split_run ops = Some (hist, (sort, older, src, f)) <-> ops = hist ++ [HIndex sort older src f].
Proof. exact split_run_iff. Qed.
Print Assumptions C11_split_run_spec.

Theorem C11_holds_hist_sound : forall k hist sort older src f,
  split_run (hc_ops k) = Some (hist, (sort, older, src, f)) ->
  holds_hist k = true ->
  hc_ret k = Err E_Unobserved \/
  (hc_fixed k = false /\ gzip_beside_tbi sort src (hc_tbi_before k) = true) \/
  (holds_index (as_icase k sort f) = true /\
   forall out, hist_obs k = Ok out -> holds_query (as_qcase k f out) = true).
Proof. exact holds_hist_sound. Qed.
Print Assumptions C11_holds_hist_sound.

Theorem C11_holds_hist_sorted_sound : forall k hist older src f,
  split_run (hc_ops k) = Some (hist, (true, older, src, f)) ->
  wf_file f = true -> range_okb f = true ->
  (hc_fixed k = true \/ gzip_beside_tbi true src (hc_tbi_before k) = false) ->
  holds_hist k = true ->
  hc_ret k = Err E_Unobserved \/
  exists out, hc_ret k = Ok tt /\ hc_data k = Some out
    /\ Permutation (records f) (records out)
    /\ tabix_okb out = true
    /\ hc_tbi k = true
    /\ hc_fetch k = Ok (data_lines out)
    /\ (hc_plain k = true -> hc_after k = Some f)
    /\ holds_query (as_qcase k f out) = true.
Proof. exact holds_hist_sorted_sound. Qed.
Print Assumptions C11_holds_hist_sorted_sound.

Theorem C11_holds_hist_nosort_sound : forall k hist older src f,
  split_run (hc_ops k) = Some (hist, (false, older, src, f)) ->
  holds_hist k = true ->
  hc_ret k = Err E_Unobserved \/
  (tabix_accepts f = false /\ exists e, hist_obs k = Err e) \/
  (hc_ret k = Ok tt /\ hc_data k = Some f /\ hc_tbi k = true /\ hc_fetch k = Ok (data_lines f)
   /\ (hc_plain k = true -> hc_after k = Some f)).
Proof. exact holds_hist_nosort_sound. Qed.
Print Assumptions C11_holds_hist_nosort_sound.

(* the "skip if the output looks up to date" variant, refuted on two-run histories *)
Example C11_skip_if_up_to_date_refuted :
  let f1 := [LH 1 5 20 2 []; LH 1 5 10 3 []; LV 2 8 8 4 5 []] in
  let f2 := [LH 2 3 10 6 []; LV 6 4 4 4 5 []] in
  let g := [LC 7; LH 1 5 10 3 [8]; LH 1 5 20 2 []; LV 2 8 8 4 5 [9]] in
  let out1 := [LC 0; LH 1 5 10 3 []; LH 1 5 20 2 []; LV 2 8 8 4 5 []] in
  let out2 := [LC 0; LH 2 3 10 6 []; LV 6 4 4 4 5 []] in
  wf_file f1 = true /\ wf_file f2 = true /\ wf_file g = true /\
  index_output true f1 = Ok out1 /\ index_output true f2 = Ok out2 /\
  index_output true g = Ok out1 /\ index_output false g = Ok g /\
  run true false disk0 [HIndex true false Elsewhere f1; HIndex true true Elsewhere f2] = (fresh out2, Ok tt) /\
  run true false disk0 [HIndex true false Elsewhere g; HIndex false true Elsewhere g] = (fresh g, Ok tt) /\
  run true true disk0 [HIndex true false Elsewhere f1; HIndex true true Elsewhere f2] = (fresh out1, Ok tt) /\
  perm_eqb item_eqb (records f2) (records out1) = false /\
  run true true disk0 [HIndex true false Elsewhere g; HIndex false true Elsewhere g] = (fresh out1, Ok tt) /\
  lines_eqb out1 g = false /\
  run true true disk0 [HIndex true false Elsewhere f1; HIndex true true (Here true) f2]
    = (mkod (Some (true, f2)) (Some out1), Ok tt) /\
  run true true disk0 [HIndex true false Elsewhere f1; HIndex true false Elsewhere f2] = (fresh out2, Ok tt).
Proof. exact skip_if_up_to_date_refuted. Qed.
Print Assumptions C11_skip_if_up_to_date_refuted.

(* a defect of the tree as it is (fixes/C11_gzip_beside_tbi.patch) *)
Example C11_legacy_gzip_beside_tbi_refuted :
  let f1 := [LH 1 5 20 2 []; LH 1 5 10 3 []] in
  let f2 := [LH 2 3 10 6 []; LV 6 4 4 4 5 []] in
  let out2 := [LC 0; LH 2 3 10 6 []; LV 6 4 4 4 5 []] in
  wf_file f2 = true /\ index_output true f2 = Ok out2 /\
  snd (run false false disk0 [HIndex true false Elsewhere f1; HIndex true false (Here false) f2]) = Err E_Runtime /\
  run true false disk0 [HIndex true false Elsewhere f1; HIndex true false (Here false) f2] = (fresh out2, Ok tt) /\
  run false false disk0 [HIndex true false Elsewhere f1; HIndex true false (Here true) f2] = (fresh out2, Ok tt) /\
  run false false disk0 [HIndex true false Elsewhere f1; HIndex false false (Here false) f2] = (fresh f2, Ok tt) /\
  run false false disk0 [HIndex true false Elsewhere f1; HRmIndex; HIndex true false (Here false) f2] = (fresh out2, Ok tt).
Proof. exact legacy_gzip_beside_tbi_refuted. Qed.
Print Assumptions C11_legacy_gzip_beside_tbi_refuted.

Example C11_failed_run_leaves_stale_index :
  let f1 := [LH 1 5 20 2 []; LH 1 5 10 3 []] in
  let bad := [LH 1 9 20 2 []; LH 1 5 10 3 []] in
  let out1 := [LC 0; LH 1 5 10 3 []; LH 1 5 20 2 []] in
  run true false disk0 [HIndex true false Elsewhere f1; HIndex false false Elsewhere bad]
    = (mkod (Some (true, bad)) (Some out1), Err E_OS) /\
  run true false disk0 [HIndex true false Elsewhere f1; HIndex false false Elsewhere bad; HIndex true true Elsewhere f1]
    = (fresh out1, Ok tt).
Proof. exact failed_run_leaves_stale_index. Qed.
Print Assumptions C11_failed_run_leaves_stale_index.

Example C11_hist_hypotheses_satisfiable :
  let f1 := [LH 1 5 20 2 []; LH 1 5 10 3 []; LV 2 8 8 4 5 []] in
  let f2 := [LH 2 3 10 6 []; LV 6 4 4 4 5 []] in
  let out2 := [LC 0; LH 2 3 10 6 []; LV 6 4 4 4 5 []] in
  let k := mkhc false [HIndex true false Elsewhere f1; HRmData; HIndex true true Elsewhere f2] true true
             (Ok tt) (Some out2) true (Ok (data_lines out2)) (Some f2)
             (Ok [(mkh false 2 3 10 6, [mkv 6 4 4 4 5])]) [([50], 2); ([104], 6)] true
             [mkqo (Some (mkreg 2 (Some 3) None)) (Some [50; 58; 51; 45]) None (Ok [(mkh false 2 3 10 6, [mkv 6 4 4 4 5])])] in
  wf_file f2 = true /\ range_okb f2 = true /\ check_hist k = (true, true).
Proof. exact hist_hypotheses_satisfiable. Qed.
Print Assumptions C11_hist_hypotheses_satisfiable.
