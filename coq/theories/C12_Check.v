(* C12 - case types and boolean checkers for the correspondence run.
   A case = the file contents, a history of operations on one real object, and for every
   executed operation what was visible afterwards (contents; the returned copy / result;
   or the exception kind that ended the history).  For every by-ID operation and every
   (re-)load the harness also applied the same call to a *fresh* object built from the same
   logical content (a new instance given copies of the arrays held before the call, resp. a
   new instance reading the same file); [fresh] is what that object showed.
   [agree]: the concrete model (caches included) predicts every observation.
   [holds]: the history object and the fresh object show the same thing, at every step
            where a fresh object was consulted.  Independent of the model. *)
From Coq Require Import PrimFloat.
From HV Require Import Prelude GenoTable C13_Model C13_Check C12_Model.
Open Scope Z_scope.

(* ---- genotypes ------------------------------------------------------------ *)

Inductive gobs := GO (t : gtab) (r : option gtab) | GE (k : Z).

Definition gobs_eqb (a b : gobs) : bool :=
  match a, b with
  | GO t r, GO t' r' => gtab_eqb t t' && opt_eqb gtab_eqb r r'
  | GE k, GE k' => k =? k'
  | _, _ => false
  end.

Definition gobs_of (x : res (gtab * option gtab)) : gobs :=
  match x with Ok (t, r) => GO t r | Err k => GE k end.

Record gcase := mkgcase {
  gk_anc : bool;                 (* GenotypesAncestry *)
  gk_legacy : bool;              (* false from the harness *)
  gk_file : gtab;                (* what a full read of the file holds *)
  gk_steps : list (xop (gop float) * gobs * option gobs)   (* operation | switch object, observed, fresh object's *)
}.

Definition model_geno (k : gcase) : list gobs :=
  map gobs_of (gm_prun float rareF (gk_file k) (gk_anc k) (gk_legacy k)
                      (map (fun s => fst (fst s)) (gk_steps k))).

Definition holds_fresh {O} (e : O -> O -> bool) (steps : list (O * option O)) : bool :=
  forallb (fun s => match snd s with Some f => e (fst s) f | None => true end) steps.

Definition check_geno (k : gcase) : bool * bool :=
  (list_eqb gobs_eqb (model_geno k) (map (fun s => snd (fst s)) (gk_steps k)),
   holds_fresh gobs_eqb (map (fun s => (snd (fst s), snd s)) (gk_steps k))).

(* ---- phenotypes / covariates ---------------------------------------------- *)

Definition ptab_eqb (a b : ptab) : bool :=
  list_eqb Z.eqb (p_samples a) (p_samples b) && list_eqb Z.eqb (p_names a) (p_names b)
  && list_eqb (list_eqb Z.eqb) (p_rows a) (p_rows b).

Inductive pobs := PO (t : ptab) (r : option ptab) | PE (k : Z).

Definition pobs_eqb (a b : pobs) : bool :=
  match a, b with
  | PO t r, PO t' r' => ptab_eqb t t' && opt_eqb ptab_eqb r r'
  | PE k, PE k' => k =? k'
  | _, _ => false
  end.

Definition pobs_of (x : res (ptab * option ptab)) : pobs :=
  match x with Ok (t, r) => PO t r | Err k => PE k end.

Record pcase := mkpcase {
  pk_legacy : bool;
  pk_file : ptab;
  pk_steps : list (xop pop * pobs * option pobs)
}.

Definition model_pheno (k : pcase) : list pobs :=
  map pobs_of (pm_prun (pk_file k) (pk_legacy k) (map (fun s => fst (fst s)) (pk_steps k))).

Definition check_pheno (k : pcase) : bool * bool :=
  (list_eqb pobs_eqb (model_pheno k) (map (fun s => snd (fst s)) (pk_steps k)),
   holds_fresh pobs_eqb (map (fun s => (snd (fst s), snd s)) (pk_steps k))).

(* ---- haplotypes ------------------------------------------------------------ *)

Definition hrec_eqb (a b : hrec) : bool :=
  (h_id a =? h_id b) && Bool.eqb (h_is_hap a) (h_is_hap b) && (h_chrom a =? h_chrom b)
  && (h_start a =? h_start b) && (h_end a =? h_end b) && list_eqb Z.eqb (h_vars a) (h_vars b).

Definition hout_eqb (a b : hout) : bool :=
  match a, b with
  | HNone, HNone => true
  | HCopy d, HCopy d' => list_eqb hrec_eqb d d'
  | HHaps l, HHaps l' => list_eqb Z.eqb l l'
  | _, _ => false
  end.

Inductive hobs := HO (d : list hrec) (r : hout) | HE (k : Z).

Definition hobs_eqb (a b : hobs) : bool :=
  match a, b with
  | HO d r, HO d' r' => list_eqb hrec_eqb d d' && hout_eqb r r'
  | HE k, HE k' => k =? k'
  | _, _ => false
  end.

Definition hobs_of (x : res (list hrec * hout)) : hobs :=
  match x with Ok (d, r) => HO d r | Err k => HE k end.

Record hcase := mkhcase {
  hk_legacy : bool;
  hk_file : list hrec;
  hk_steps : list (hop * hobs * option hobs)
}.

Definition model_haps (k : hcase) : list hobs :=
  map hobs_of (hm_run (hk_file k) (hk_legacy k) h_init (map (fun s => fst (fst s)) (hk_steps k))).

Definition check_haps (k : hcase) : bool * bool :=
  (list_eqb hobs_eqb (model_haps k) (map (fun s => snd (fst s)) (hk_steps k)),
   holds_fresh hobs_eqb (map (fun s => (snd (fst s), snd s)) (hk_steps k))).
