(* C12 - case types and boolean checkers for the correspondence run.
   A case = the file contents, a history of operations on a real object and on the objects the
   history created (copies returned by subset, objects built by merge_variants / merge), and for
   every executed operation what was visible afterwards (contents of the object in focus; the
   returned object / query result; or the exception kind - a ValueError is caught and the history
   goes on, any other exception ends it).  For every by-ID operation, every (re-)load and every
   merge the harness also applied the same call to *fresh* objects built from the same logical
   content (new instances given copies of the arrays held before the call, resp. a new instance
   reading the same file); [fresh] is what they showed.
   [agree]: the concrete model (caches included, going on after exceptions) predicts every observation.
   [holds]: the history object and the fresh object show the same thing, at every step
            where a fresh object was consulted.  Independent of the model. *)
From Coq Require Import PrimFloat.
From HV Require Import Prelude GenoTable C13_Model C13_Check C12_Model.
Open Scope Z_scope.

(* ---- genotypes ------------------------------------------------------------ *)

Definition gview_eqb (a b : gview) : bool :=
  match a, b with
  | GVSim i p, GVSim i' p' => list_eqb Z.eqb i i' && list_eqb Z.eqb p p'
  | GVTrans r, GVTrans r' => opt_eqb (list_eqb Z.eqb) r r'
  | _, _ => false
  end.

Definition out_eqb {tab V} (et : tab -> tab -> bool) (ev : V -> V -> bool) (a b : out tab V) : bool :=
  match a, b with
  | ONone, ONone => true
  | OCopy t, OCopy t' => et t t'
  | OView v, OView v' => ev v v'
  | _, _ => false
  end.

(* contents of the object in focus after the operation, and what the operation returned
   (nothing / the new object's contents / a query result), or the exception kind *)
Inductive gobs := GO (t : gtab) (r : out gtab gview) | GE (k : Z).

Definition gobs_eqb (a b : gobs) : bool :=
  match a, b with
  | GO t r, GO t' r' => gtab_eqb t t' && out_eqb gtab_eqb gview_eqb r r'
  | GE k, GE k' => k =? k'
  | _, _ => false
  end.

Definition gobs_of (x : res (gtab * out gtab gview)) : gobs :=
  match x with Ok (t, r) => GO t r | Err k => GE k end.

Record gcase := mkgcase {
  gk_anc : bool;                 (* GenotypesAncestry *)
  gk_legacy : bool;              (* false from the harness *)
  gk_heal : bool;                (* index() discards a dictionary in which it found duplicates (harness switch) *)
  gk_file : gtab;                (* what a full read of the file holds *)
  gk_steps : list (xop (gop float) * gobs * option gobs)   (* operation | switch object, observed, fresh object's *)
}.

Definition model_geno (k : gcase) : list gobs :=
  map gobs_of (gm_prunx float rareF (gk_file k) (gk_anc k) (gk_legacy k) (gk_heal k)
                       (map (fun s => fst (fst s)) (gk_steps k))).

Definition holds_fresh {O} (e : O -> O -> bool) (steps : list (O * option O)) : bool :=
  forallb (fun s => match snd s with Some f => e (fst s) f | None => true end) steps.

(* [holds], second clause (session 5; seeded change C12-r6b paired betas with columns by position
   inside PhenoSimulator.run, so the history object and the fresh object were wrong alike): the
   result of a read-only by-ID query (PhenoSimulator.run, Haplotypes.transform), and the copy a
   non-inplace subset returns, is what a search
   of the IDs the object was observed to hold at that step gives - the abstract step [a_step]
   (no caches, no history) applied to the observed contents.  No judgement when the abstract step
   refuses (duplicate IDs among the observed contents) or the operation raised. *)
Definition view_ok_gen {T} (rare : T -> Z -> Z -> bool) (file : gtab) (anc legacy : bool)
           (s : xop (gop T) * gobs * option gobs) : bool :=
  match s with
  | (XOn p, GO t r, _) =>
      match r with
      | ONone => true
      | _ =>   (* a query result, or the copy a non-inplace subset returned: [t] is also the contents before *)
        match a_step gtab gview g_ids1 g_ids2 g_sub1 g_sub2 t (g_interp T rare file anc legacy p) with
        | Ok (_, r') => out_eqb gtab_eqb gview_eqb r r'
        | Err _ => true
        end
      end
  | _ => true
  end.
Definition holds_view_gen {T} rare file anc legacy (steps : list (xop (gop T) * gobs * option gobs)) : bool :=
  forallb (view_ok_gen rare file anc legacy) steps.
Definition holds_view (k : gcase) : bool :=
  holds_view_gen rareF (gk_file k) (gk_anc k) (gk_legacy k) (gk_steps k).

Definition check_geno (k : gcase) : bool * bool :=
  (list_eqb gobs_eqb (model_geno k) (map (fun s => snd (fst s)) (gk_steps k)),
   if holds_fresh gobs_eqb (map (fun s => (snd (fst s), snd s)) (gk_steps k)) then holds_view k else false).

(* ---- phenotypes / covariates ---------------------------------------------- *)

Definition ptab_eqb (a b : ptab) : bool :=
  list_eqb Z.eqb (p_samples a) (p_samples b) && list_eqb Z.eqb (p_names a) (p_names b)
  && list_eqb (list_eqb Z.eqb) (p_rows a) (p_rows b).

Inductive pobs := PO (t : ptab) (r : out ptab unit) | PE (k : Z).

Definition pobs_eqb (a b : pobs) : bool :=
  match a, b with
  | PO t r, PO t' r' => ptab_eqb t t' && out_eqb ptab_eqb (fun _ _ => true) r r'
  | PE k, PE k' => k =? k'
  | _, _ => false
  end.

Definition pobs_of (x : res (ptab * out ptab unit)) : pobs :=
  match x with Ok (t, r) => PO t r | Err k => PE k end.

Record pcase := mkpcase {
  pk_legacy : bool;
  pk_fixapp : bool;              (* append() discards the name index when the name is already there (harness switch) *)
  pk_heal : bool;                (* as gk_heal *)
  pk_file : ptab;
  pk_steps : list (xop pop * pobs * option pobs)
}.

Definition model_pheno (k : pcase) : list pobs :=
  map pobs_of (pm_prunx (pk_file k) (pk_legacy k) (pk_fixapp k) (pk_heal k) (map (fun s => fst (fst s)) (pk_steps k))).

Definition check_pheno (k : pcase) : bool * bool :=
  (list_eqb pobs_eqb (model_pheno k) (map (fun s => snd (fst s)) (pk_steps k)),
   holds_fresh pobs_eqb (map (fun s => (snd (fst s), snd s)) (pk_steps k))).

(* ---- haplotypes ------------------------------------------------------------ *)

Definition hrec_eqb (a b : hrec) : bool :=
  (h_id a =? h_id b) && Bool.eqb (h_is_hap a) (h_is_hap b) && (h_chrom a =? h_chrom b)
  && (h_start a =? h_start b) && (h_end a =? h_end b) && list_eqb Z.eqb (h_vars a) (h_vars b).

Definition hout_eqb (a b : hout) : bool :=
  match a, b with
  | HNone, HNone => true
  | HCopy d, HCopy d' => list_eqb hrec_eqb d d'
  | HHaps l, HHaps l' => list_eqb Z.eqb l l'
  | _, _ => false
  end.

Inductive hobs := HO (d : list hrec) (r : hout) | HE (k : Z).

Definition hobs_eqb (a b : hobs) : bool :=
  match a, b with
  | HO d r, HO d' r' => list_eqb hrec_eqb d d' && hout_eqb r r'
  | HE k, HE k' => k =? k'
  | _, _ => false
  end.

Definition hobs_of (x : res (list hrec * hout)) : hobs :=
  match x with Ok (d, r) => HO d r | Err k => HE k end.

Record hcase := mkhcase {
  hk_legacy : bool;
  hk_file : list hrec;
  hk_steps : list (hxop * hobs * option hobs)
}.

Definition model_haps (k : hcase) : list hobs :=
  map hobs_of (hp_m_run (hk_file k) (hk_legacy k) [h_init] 0 (map (fun s => fst (fst s)) (hk_steps k))).

Definition check_haps (k : hcase) : bool * bool :=
  (list_eqb hobs_eqb (model_haps k) (map (fun s => snd (fst s)) (hk_steps k)),
   holds_fresh hobs_eqb (map (fun s => (snd (fst s), snd s)) (hk_steps k))).
