(* C12 - concrete objects with explicit ID->position caches, and cache-free abstract tables.

   Anchors: haptools/data/genotypes.py (Genotypes.index / subset / read / check_missing|biallelic|maf with
   discard, _samp_idx / _var_idx), haptools/transform.py (GenotypesAncestry.subset /
   check_missing|biallelic), haptools/data/phenotypes.py (Phenotypes.index / subset / read / check_missing
   / append, _samp_idx / _name_idx), haptools/data/haplotypes.py (Haplotypes.index / read /
   subset / sort / transform, type_ids), haptools/data/data.py (Data.read).

   A cache is modelled as the snapshot of the ID list it was built from
   (dict(zip(ids, range(len(ids)))): membership = membership in the snapshot, position =
   last occurrence in the snapshot).  Concrete steps (M) consult and maintain the caches
   exactly where the code does; abstract steps (A) have no caches: every by-ID lookup
   searches the current ID list.  An exception ends a history (Err kind).

   [legacy] = the pinned tree: read() kept _samp_idx / _var_idx / _name_idx, and
   Haplotypes.read() called index() without force, so type_ids survived a re-read. *)
From HV Require Import Prelude GenoTable C13_Model.
Open Scope Z_scope.

Definition E_Value : Z := 1.
Definition E_Index : Z := 2.
Definition E_Key : Z := 3.

(* position of the last occurrence (what dict(zip(ids, range)) maps an ID to) *)
Fixpoint lastpos (x : Z) (l : list Z) : option nat :=
  match l with
  | [] => None
  | y :: r => match lastpos x r with
              | Some n => Some (S n)
              | None => if x =? y then Some O else None
              end
  end.

(* numpy fancy indexing l[idx]; IndexError when a position is out of range *)
Fixpoint select {A} (idx : list nat) (l : list A) : res (list A) :=
  match idx with
  | [] => Ok []
  | i :: r => match nth_error l i with
              | Some x => bind (select r l) (fun t => Ok (x :: t))
              | None => Err E_Index
              end
  end.

Fixpoint map_res {A B} (f : A -> res B) (l : list A) : res (list B) :=
  match l with
  | [] => Ok []
  | x :: r => bind (f x) (fun y => bind (map_res f r) (fun t => Ok (y :: t)))
  end.

(* the requested IDs the index knows, and where it says they are *)
Definition known (snap req : list Z) : list Z := filter (fun x => memZ x snap) req.
Definition where_ (snap kept : list Z) : list nat :=
  map (fun x => match lastpos x snap with Some n => n | None => O end) kept.

(* ======================================================================== *)
(* objects with two ID indexes (rows / columns): Genotypes*, Phenotypes      *)

Section TwoIndex.
  Variable tab : Type.
  Variables ids1 ids2 : tab -> list Z.                      (* current row IDs / column IDs *)
  Variables sub1 sub2 : list Z -> list Z -> tab -> res tab. (* snapshot -> request -> table -> subset *)

  (* what a mutator does to a cache: leaves it, resets it to None, or registers one more ID *)
  Inductive act := Keep | Reset | Push (x : Z).

  Record obj := mko { o_tab : tab; o_c1 : option (list Z); o_c2 : option (list Z) }.

  Inductive op :=
  | Mut (f : tab -> res (tab * act * act))           (* never consults an index *)
  | Sub (r1 r2 : option (list Z)) (inplace : bool)   (* subset(samples=r1, variants|names=r2, inplace) *)
  | Index (b1 b2 : bool).                            (* index(samples=b1, variants|names=b2) *)

  Definition apply_act (a : act) (c : option (list Z)) : option (list Z) :=
    match a with
    | Keep => c
    | Reset => None
    | Push x => option_map (fun s => s ++ [x]) c
    end.

  (* index(): build the cache if absent; duplicate IDs raise ValueError *)
  Definition ensure (want : bool) (c : option (list Z)) (ids : list Z) : res (option (list Z)) :=
    if want then
      match c with
      | Some s => Ok (Some s)
      | None => if nodupZ ids then Ok (Some ids) else Err E_Value
      end
    else Ok c.

  Definition snap_of (c : option (list Z)) : list Z := match c with Some s => s | None => [] end.
  Definition is_some {A} (x : option A) : bool := match x with Some _ => true | None => false end.

  Definition m_step (o : obj) (p : op) : res (obj * option tab) :=
    let t := o_tab o in
    match p with
    | Mut f =>
        bind (f t) (fun r => let '(t', a1, a2) := r in
          Ok (mko t' (apply_act a1 (o_c1 o)) (apply_act a2 (o_c2 o)), None))
    | Sub r1 r2 inplace =>
        bind (ensure (is_some r1) (o_c1 o) (ids1 t)) (fun c1 =>
        bind (ensure (is_some r2) (o_c2 o) (ids2 t)) (fun c2 =>
        bind (match r1 with Some req => sub1 (snap_of c1) req t | None => Ok t end) (fun t1 =>
        bind (match r2 with Some req => sub2 (snap_of c2) req t1 | None => Ok t1 end) (fun t2 =>
        if inplace then
          Ok (mko t2 (if is_some r1 then None else c1) (if is_some r2 then None else c2), None)
        else Ok (mko t c1 c2, Some t2)))))
    | Index b1 b2 =>
        bind (ensure b1 (o_c1 o) (ids1 t)) (fun c1 =>
        bind (ensure b2 (o_c2 o) (ids2 t)) (fun c2 =>
        Ok (mko t c1 c2, None)))
    end.

  (* abstract: no caches; lookups search the current IDs; duplicate IDs are reported *)
  Definition chk (want : bool) (ids : list Z) : res unit :=
    if want && negb (nodupZ ids) then Err E_Value else Ok tt.

  Definition a_step (t : tab) (p : op) : res (tab * option tab) :=
    match p with
    | Mut f => bind (f t) (fun r => let '(t', _, _) := r in Ok (t', None))
    | Sub r1 r2 inplace =>
        bind (chk (is_some r1) (ids1 t)) (fun _ =>
        bind (chk (is_some r2) (ids2 t)) (fun _ =>
        bind (match r1 with Some req => sub1 (ids1 t) req t | None => Ok t end) (fun t1 =>
        bind (match r2 with Some req => sub2 (ids2 t1) req t1 | None => Ok t1 end) (fun t2 =>
        if inplace then Ok (t2, None) else Ok (t, Some t2)))))
    | Index b1 b2 =>
        bind (chk b1 (ids1 t)) (fun _ => bind (chk b2 (ids2 t)) (fun _ => Ok (t, None)))
    end.

  (* a history: after every operation the contents and the operation's result are visible *)
  Fixpoint m_run (o : obj) (ops : list op) : list (res (tab * option tab)) :=
    match ops with
    | [] => []
    | p :: r => match m_step o p with
                | Ok (o', out) => Ok (o_tab o', out) :: m_run o' r
                | Err k => [Err k]
                end
    end.

  Fixpoint a_run (t : tab) (ops : list op) : list (res (tab * option tab)) :=
    match ops with
    | [] => []
    | p :: r => match a_step t p with
                | Ok (t', out) => Ok (t', out) :: a_run t' r
                | Err k => [Err k]
                end
    end.
End TwoIndex.

Arguments Mut {tab} f.
Arguments Sub {tab} r1 r2 inplace.
Arguments Index {tab} b1 b2.
Arguments mko {tab} o_tab o_c1 o_c2.
Arguments o_tab {tab} o.
Arguments o_c1 {tab} o.
Arguments o_c2 {tab} o.

(* ======================================================================== *)
(* several objects: a copying subset returns a NEW object; the history may go on with
   any of them.  In the code the copy is built by self.__class__(fname, log): its caches
   start absent and it shares no mutable look-up state with its parent, so a step on one
   object leaves every other object as it was.                                           *)

Inductive xop (O : Type) := XOn (p : O) | XSwitch (k : nat).
Arguments XOn {O} p.
Arguments XSwitch {O} k.

Definition xmap {O O'} (f : O -> O') (x : xop O) : xop O' :=
  match x with XOn p => XOn (f p) | XSwitch k => XSwitch k end.

Fixpoint replace_nth {A} (n : nat) (x : A) (l : list A) : list A :=
  match l, n with
  | [], _ => []
  | _ :: r, O => x :: r
  | y :: r, S m => y :: replace_nth m x r
  end.

Section Pool.
  Variable tab : Type.
  Variables ids1 ids2 : tab -> list Z.
  Variables sub1 sub2 : list Z -> list Z -> tab -> res tab.

  (* objs: object 0 is the one the history started with, every copying subset appends the
     object it returned; f: the object the next operation is applied to *)
  Definition pool_m_step (objs : list (obj tab)) (f : nat) (x : xop (op tab))
    : res (list (obj tab) * nat * option tab) :=
    match x with
    | XSwitch k => match nth_error objs k with Some _ => Ok (objs, k, None) | None => Err E_Index end
    | XOn p =>
        match nth_error objs f with
        | None => Err E_Index
        | Some o =>
            bind (m_step tab ids1 ids2 sub1 sub2 o p) (fun r => let '(o', out) := r in
              Ok (replace_nth f o' objs
                    ++ match out with Some t => [mko t None None] | None => [] end, f, out))
        end
    end.

  Definition pool_a_step (ts : list tab) (f : nat) (x : xop (op tab))
    : res (list tab * nat * option tab) :=
    match x with
    | XSwitch k => match nth_error ts k with Some _ => Ok (ts, k, None) | None => Err E_Index end
    | XOn p =>
        match nth_error ts f with
        | None => Err E_Index
        | Some t =>
            bind (a_step tab ids1 ids2 sub1 sub2 t p) (fun r => let '(t', out) := r in
              Ok (replace_nth f t' ts ++ match out with Some c => [c] | None => [] end, f, out))
        end
    end.

  (* after every step: the contents of the object now in focus, and the step's result *)
  Fixpoint pool_m_run (objs : list (obj tab)) (f : nat) (ops : list (xop (op tab)))
    : list (res (tab * option tab)) :=
    match ops with
    | [] => []
    | x :: r =>
        match pool_m_step objs f x with
        | Ok (objs', f', out) =>
            match nth_error objs' f' with
            | Some o => Ok (o_tab o, out) :: pool_m_run objs' f' r
            | None => [Err E_Index]
            end
        | Err k => [Err k]
        end
    end.

  Fixpoint pool_a_run (ts : list tab) (f : nat) (ops : list (xop (op tab)))
    : list (res (tab * option tab)) :=
    match ops with
    | [] => []
    | x :: r =>
        match pool_a_step ts f x with
        | Ok (ts', f', out) =>
            match nth_error ts' f' with
            | Some t => Ok (t, out) :: pool_a_run ts' f' r
            | None => [Err E_Index]
            end
        | Err k => [Err k]
        end
    end.
End Pool.

(* ======================================================================== *)
(* Genotypes / GenotypesVCF / GenotypesPLINK / GenotypesAncestry             *)

Definition g_ids1 (t : gtab) : list Z := g_samples t.
Definition g_ids2 (t : gtab) : list Z := map vid (g_variants t).

(* gts.samples = the requested IDs the index knows; gts.data = data[positions, :] *)
Definition g_sub1 (snap req : list Z) (t : gtab) : res gtab :=
  let kept := known snap req in
  let idx := where_ snap kept in
  bind (select idx (g_rows t)) (fun rows =>
  bind (match g_anc t with
        | Some a => bind (select idx a) (fun a' => Ok (Some a'))
        | None => Ok None end) (fun anc =>
  Ok (mkg kept (g_variants t) rows (g_planes t) anc))).

(* gts.variants = variants[positions]; gts.data = data[:, positions] *)
Definition g_sub2 (snap req : list Z) (t : gtab) : res gtab :=
  let idx := where_ snap (known snap req) in
  bind (select idx (g_variants t)) (fun vs =>
  bind (map_res (select idx) (g_rows t)) (fun rows =>
  bind (match g_anc t with
        | Some a => bind (map_res (select idx) a) (fun a' => Ok (Some a'))
        | None => Ok None end) (fun anc =>
  Ok (mkg (g_samples t) vs rows (g_planes t) anc)))).

(* what read(samples=ss, variants=vs) loads from a file holding [file]: file order *)
Definition keep_by (ids : option (list Z)) (x : Z) : bool :=
  match ids with Some l => memZ x l | None => true end.
Definition g_restrict (ss vs : option (list Z)) (file : gtab) : gtab :=
  let km := map (keep_by ss) (g_samples file) in
  let kv := map (fun x => keep_by vs (vid x)) (g_variants file) in
  mkg (filter_mask km (g_samples file)) (filter_mask kv (g_variants file))
      (map (filter_mask kv) (filter_mask km (g_rows file))) (g_planes file)
      (option_map (fun a => map (filter_mask kv) (filter_mask km a)) (g_anc file)).

Section Geno.
  Variable T : Type.                      (* MAF thresholds *)
  Variable rare : T -> Z -> Z -> bool.    (* C13_Model.check_maf's predicate, per threshold *)
  Variable file : gtab.                   (* what a full read of self.fname holds *)
  Variable anc : bool.                    (* the object is a GenotypesAncestry *)
  Variable legacy : bool.

  Inductive gop :=
  | GRead (ss vs : option (list Z))
  | GSubset (ss vs : option (list Z)) (inplace : bool)
  | GIndex (s v : bool)
  | GCheckMissing                         (* discard_also=True *)
  | GCheckBiallelic                       (* discard_also=True *)
  | GCheckMaf (th : T).                   (* discard_also=True *)

  Definition flag (changed : bool) : act := if changed then Reset else Keep.
  Definition of_qout (q : qout) (t : gtab) : gtab := match q with QOk t' => t' | QRaise _ _ => t end.
  Definition nonempty {A} (l : list A) : bool := match l with [] => false | _ => true end.

  Definition g_interp (p : gop) : op gtab :=
    match p with
    | GRead ss vs =>
        Mut (fun _ => Ok (g_restrict ss vs file, flag (negb legacy), flag (negb legacy)))
    | GSubset ss vs i => Sub ss vs i
    | GIndex s v => Index s v
    | GCheckMissing =>
        (* self._samp_idx = None exactly when np.any(missing) *)
        Mut (fun t => Ok (of_qout (check_missing anc true t) t,
                          flag (nonempty (nonzero2 0 (maskof (cell_missing anc) t))), Keep))
    | GCheckBiallelic =>
        Mut (fun t => Ok (of_qout (check_biallelic true t) t, Keep,
                          flag (nonempty (nonzero2 0 (maskof cell_multi t)))))
    | GCheckMaf th =>
        Mut (fun t => Ok (of_qout (check_maf (rare th) true true false t) t, Keep,
                          flag (nonempty (rare_idx (rare th) t))))
    end.

  Definition g_empty : gtab := mkg [] [] [] 0 (if anc then Some [] else None).
  Definition g_init : obj gtab := mko g_empty None None.

  Definition gm_run (ops : list gop) := m_run gtab g_ids1 g_ids2 g_sub1 g_sub2 g_init (map g_interp ops).
  Definition ga_run (ops : list gop) := a_run gtab g_ids1 g_ids2 g_sub1 g_sub2 g_empty (map g_interp ops).
  (* histories over the object and the copies its subsets return *)
  Definition gm_prun (ops : list (xop gop)) :=
    pool_m_run gtab g_ids1 g_ids2 g_sub1 g_sub2 [g_init] 0 (map (xmap g_interp) ops).
  Definition ga_prun (ops : list (xop gop)) :=
    pool_a_run gtab g_ids1 g_ids2 g_sub1 g_sub2 [g_empty] 0 (map (xmap g_interp) ops).
End Geno.

Arguments GRead {T} ss vs.
Arguments GSubset {T} ss vs inplace.
Arguments GIndex {T} s v.
Arguments GCheckMissing {T}.
Arguments GCheckBiallelic {T}.
Arguments GCheckMaf {T} th.

(* ======================================================================== *)
(* Phenotypes / Covariates                                                   *)

Record ptab := mkp {
  p_samples : list Z;
  p_names : list Z;
  p_rows : list (list Z)        (* data: one row per sample; float64 values carried as integers *)
}.

Definition p_ids1 (t : ptab) : list Z := p_samples t.
Definition p_ids2 (t : ptab) : list Z := p_names t.

Definition p_sub1 (snap req : list Z) (t : ptab) : res ptab :=
  let kept := known snap req in
  bind (select (where_ snap kept) (p_rows t)) (fun rows => Ok (mkp kept (p_names t) rows)).

Definition p_sub2 (snap req : list Z) (t : ptab) : res ptab :=
  let kept := known snap req in
  bind (map_res (select (where_ snap kept)) (p_rows t)) (fun rows => Ok (mkp (p_samples t) kept rows)).

Definition p_restrict (ss : option (list Z)) (file : ptab) : ptab :=
  let km := map (keep_by ss) (p_samples file) in
  mkp (filter_mask km (p_samples file)) (p_names file) (filter_mask km (p_rows file)).

Section Pheno.
  Variable file : ptab.
  Variable legacy : bool.

  Inductive pop :=
  | PRead (ss : option (list Z))
  | PSubset (ss ns : option (list Z)) (inplace : bool)
  | PIndex (s n : bool)
  | PCheckMissing                          (* discard_also=True: rows holding -9 go *)
  | PAppend (name : Z) (col : list Z).

  Definition row_missing (r : list Z) : bool := existsb (fun x => x =? -9) r.
  Fixpoint append_col (rows : list (list Z)) (col : list Z) : list (list Z) :=
    match rows, col with
    | r :: rows', x :: col' => (r ++ [x]) :: append_col rows' col'
    | _, _ => []
    end.

  Definition p_interp (p : pop) : op ptab :=
    match p with
    | PRead ss =>
        Mut (fun _ => Ok (p_restrict ss file,
                          if legacy then Keep else Reset, if legacy then Keep else Reset))
    | PSubset ss ns i => Sub ss ns i
    | PIndex s n => Index s n
    | PCheckMissing =>
        (* only when np.any(missing): delete the rows, self._samp_idx = None *)
        Mut (fun t =>
          let bad := map row_missing (p_rows t) in
          if existsb (fun b => b) bad then
            Ok (mkp (filter_mask (map negb bad) (p_samples t)) (p_names t)
                    (filter_mask (map negb bad) (p_rows t)), Reset, Keep)
          else Ok (t, Keep, Keep))
    | PAppend name col =>
        (* np.concatenate raises ValueError when the column has the wrong length *)
        Mut (fun t =>
          if Nat.eqb (length col) (length (p_rows t)) then
            Ok (mkp (p_samples t) (p_names t ++ [name]) (append_col (p_rows t) col), Keep, Push name)
          else Err E_Value)
    end.

  Definition p_empty : ptab := mkp [] [] [].
  Definition p_init : obj ptab := mko p_empty None None.
  Definition pm_run (ops : list pop) := m_run ptab p_ids1 p_ids2 p_sub1 p_sub2 p_init (map p_interp ops).
  Definition pa_run (ops : list pop) := a_run ptab p_ids1 p_ids2 p_sub1 p_sub2 p_empty (map p_interp ops).
  Definition pm_prun (ops : list (xop pop)) :=
    pool_m_run ptab p_ids1 p_ids2 p_sub1 p_sub2 [p_init] 0 (map (xmap p_interp) ops).
  Definition pa_prun (ops : list (xop pop)) :=
    pool_a_run ptab p_ids1 p_ids2 p_sub1 p_sub2 [p_empty] 0 (map (xmap p_interp) ops).
End Pheno.

(* ======================================================================== *)
(* Haplotypes: data = dict ID -> Haplotype | Repeat, type_ids = cached ID lists *)

Record hrec := mkh {
  h_id : Z; h_is_hap : bool;               (* Haplotype (true) or Repeat (false) *)
  h_chrom : Z; h_start : Z; h_end : Z;
  h_vars : list Z                          (* IDs of its variant lines *)
}.

Record hobj := mkho { ho_data : list hrec; ho_tids : option (list Z * list Z) }.

Definition type_ids_of (d : list hrec) : list Z * list Z :=
  (map h_id (filter h_is_hap d), map h_id (filter (fun x => negb (h_is_hap x)) d)).

Fixpoint hfind (x : Z) (d : list hrec) : option hrec :=
  match d with
  | [] => None
  | r :: t => if h_id r =? x then Some r else hfind x t
  end.

Definition hrec_ltb (a b : hrec) : bool :=
  if h_chrom a =? h_chrom b then
    if h_start a =? h_start b then
      if h_end a =? h_end b then h_id a <? h_id b else h_end a <? h_end b
    else h_start a <? h_start b
  else h_chrom a <? h_chrom b.

Fixpoint hinsert (x : hrec) (l : list hrec) : list hrec :=
  match l with
  | [] => [x]
  | y :: r => if hrec_ltb y x || negb (hrec_ltb x y) then y :: hinsert x r else x :: y :: r
  end.
(* sorted() is stable; IDs are distinct in a dict, so the order is total *)
Definition hsort (l : list hrec) : list hrec := fold_right hinsert [] l.

Section Haps.
  Variable file : list hrec.       (* the H / R lines of the .hap file, in file order *)
  Variable legacy : bool.

  Inductive hop :=
  | HRead (ids : option (list Z))
  | HSubset (ids : list Z) (inplace : bool)
  | HSort
  | HIndex
  | HTransform.                    (* transform(): index(); [data[h] for h in type_ids["H"]] *)

  (* what a step shows: contents afterwards, and a result (subset copy / haplotypes transformed) *)
  Inductive hout := HNone | HCopy (d : list hrec) | HHaps (l : list Z).

  (* subset(): data = {}; for id in haplotypes: data[id] = self.data[id] unless KeyError
     (a dict: a repeated request keeps its first position); index(force=True) *)
  Fixpoint hsubset_from (seen ids : list Z) (d : list hrec) : list hrec :=
    match ids with
    | [] => []
    | x :: r =>
        if memZ x seen then hsubset_from seen r d
        else match hfind x d with
             | Some rec => rec :: hsubset_from (x :: seen) r d
             | None => hsubset_from seen r d
             end
    end.
  Definition hsubset (ids : list Z) (d : list hrec) : list hrec := hsubset_from [] ids d.

  Definition hindex (force : bool) (o : hobj) : hobj :=
    match ho_tids o with
    | Some _ => if force then mkho (ho_data o) (Some (type_ids_of (ho_data o))) else o
    | None => mkho (ho_data o) (Some (type_ids_of (ho_data o)))
    end.

  Definition hm_step (o : hobj) (p : hop) : res (hobj * hout) :=
    match p with
    | HRead ids =>
        let d := filter (fun r => keep_by ids (h_id r)) file in
        Ok (hindex (negb legacy) (mkho d (ho_tids o)), HNone)
    | HSubset ids inplace =>
        let d := hsubset ids (ho_data o) in
        if inplace then Ok (hindex true (mkho d (ho_tids o)), HNone)
        else Ok (o, HCopy d)
    | HSort => Ok (hindex true (mkho (hsort (ho_data o)) (ho_tids o)), HNone)
    | HIndex => Ok (hindex false o, HNone)
    | HTransform =>
        let o' := hindex false o in
        bind (map_res (fun x => match hfind x (ho_data o') with Some r => Ok (h_id r) | None => Err E_Key end)
                      (fst (match ho_tids o' with Some t => t | None => ([], []) end)))
             (fun l => Ok (o', HHaps l))
    end.

  Definition ha_step (d : list hrec) (p : hop) : res (list hrec * hout) :=
    match p with
    | HRead ids => Ok (filter (fun r => keep_by ids (h_id r)) file, HNone)
    | HSubset ids inplace =>
        if inplace then Ok (hsubset ids d, HNone) else Ok (d, HCopy (hsubset ids d))
    | HSort => Ok (hsort d, HNone)
    | HIndex => Ok (d, HNone)
    | HTransform => Ok (d, HHaps (map h_id (filter h_is_hap d)))
    end.

  Fixpoint hm_run (o : hobj) (ops : list hop) : list (res (list hrec * hout)) :=
    match ops with
    | [] => []
    | p :: r => match hm_step o p with
                | Ok (o', out) => Ok (ho_data o', out) :: hm_run o' r
                | Err k => [Err k]
                end
    end.

  Fixpoint ha_run (d : list hrec) (ops : list hop) : list (res (list hrec * hout)) :=
    match ops with
    | [] => []
    | p :: r => match ha_step d p with
                | Ok (d', out) => Ok (d', out) :: ha_run d' r
                | Err k => [Err k]
                end
    end.

  Definition h_init : hobj := mkho [] None.
End Haps.
