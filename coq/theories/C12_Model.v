(* C12 - concrete objects with explicit ID->position caches, and cache-free abstract tables.

   Anchors: haptools/data/genotypes.py (Genotypes.index / subset / read / check_missing|biallelic|maf with
   discard, _samp_idx / _var_idx), haptools/transform.py (GenotypesAncestry.subset /
   check_missing|biallelic), haptools/data/phenotypes.py (Phenotypes.index / subset / read / check_missing
   / append, _samp_idx / _name_idx), haptools/data/haplotypes.py (Haplotypes.index / read /
   subset / sort / transform, type_ids), haptools/data/data.py (Data.read).

   A cache is modelled as the snapshot of the ID list it was built from
   (dict(zip(ids, range(len(ids)))): membership = membership in the snapshot, position =
   last occurrence in the snapshot).  Concrete steps (M) consult and maintain the caches
   exactly where the code does; abstract steps (A) have no caches: every by-ID lookup
   searches the current ID list.  An exception ends a history (Err kind).

   [legacy] = the pinned tree: read() kept _samp_idx / _var_idx / _name_idx, and
   Haplotypes.read() called index() without force, so type_ids survived a re-read. *)
From HV Require Import Prelude GenoTable C13_Model.
Open Scope Z_scope.

Definition E_Value : Z := 1.
Definition E_Index : Z := 2.
Definition E_Key : Z := 3.

(* position of the last occurrence (what dict(zip(ids, range)) maps an ID to) *)
Fixpoint lastpos (x : Z) (l : list Z) : option nat :=
  match l with
  | [] => None
  | y :: r => match lastpos x r with
              | Some n => Some (S n)
              | None => if x =? y then Some O else None
              end
  end.

(* numpy fancy indexing l[idx]; IndexError when a position is out of range *)
Fixpoint select {A} (idx : list nat) (l : list A) : res (list A) :=
  match idx with
  | [] => Ok []
  | i :: r => match nth_error l i with
              | Some x => bind (select r l) (fun t => Ok (x :: t))
              | None => Err E_Index
              end
  end.

Fixpoint map_res {A B} (f : A -> res B) (l : list A) : res (list B) :=
  match l with
  | [] => Ok []
  | x :: r => bind (f x) (fun y => bind (map_res f r) (fun t => Ok (y :: t)))
  end.

(* the requested IDs the index knows, and where it says they are *)
Definition known (snap req : list Z) : list Z := filter (fun x => memZ x snap) req.
Definition where_ (snap kept : list Z) : list nat :=
  map (fun x => match lastpos x snap with Some n => n | None => O end) kept.

(* ======================================================================== *)
(* objects with two ID indexes (rows / columns): Genotypes*, Phenotypes      *)

Section TwoIndex.
  Variable tab : Type.
  Variable V : Type.                                        (* results of read-only by-ID queries *)
  Variables ids1 ids2 : tab -> list Z.                      (* current row IDs / column IDs *)
  Variables sub1 sub2 : list Z -> list Z -> tab -> res tab. (* snapshot -> request -> table -> subset *)

  (* what a mutator does to a cache: leaves it, resets it to None, or registers one more ID *)
  Inductive act := Keep | Reset | Push (x : Z).

  Record obj := mko { o_tab : tab; o_c1 : option (list Z); o_c2 : option (list Z) }.

  Inductive op :=
  | Mut (f : tab -> res (tab * act * act))           (* never consults an index *)
  | Sub (r1 r2 : option (list Z)) (inplace : bool)   (* subset(samples=r1, variants|names=r2, inplace) *)
  | Index (b1 b2 : bool)                             (* index(samples=b1, variants|names=b2) *)
  | Look (r1 r2 : option (list Z)) (view : tab -> V).
      (* a read-only by-ID query (PhenoSimulator.run, Haplotypes.transform on the genotypes): it calls
         subset(..., inplace=False) on the object - which builds the object's indexes - and returns a
         function of the copy; the copy itself is not handed out *)

  (* what an operation returns: nothing, a new object (its table), or a query result *)
  Inductive out := ONone | OCopy (t : tab) | OView (v : V).

  Definition apply_act (a : act) (c : option (list Z)) : option (list Z) :=
    match a with
    | Keep => c
    | Reset => None
    | Push x => option_map (fun s => s ++ [x]) c
    end.

  (* index(): build the cache if absent; duplicate IDs raise ValueError *)
  Definition ensure (want : bool) (c : option (list Z)) (ids : list Z) : res (option (list Z)) :=
    if want then
      match c with
      | Some s => Ok (Some s)
      | None => if nodupZ ids then Ok (Some ids) else Err E_Value
      end
    else Ok c.

  Definition snap_of (c : option (list Z)) : list Z := match c with Some s => s | None => [] end.
  Definition is_some {A} (x : option A) : bool := match x with Some _ => true | None => false end.

  Definition m_step (o : obj) (p : op) : res (obj * out) :=
    let t := o_tab o in
    match p with
    | Mut f =>
        bind (f t) (fun r => let '(t', a1, a2) := r in
          Ok (mko t' (apply_act a1 (o_c1 o)) (apply_act a2 (o_c2 o)), ONone))
    | Sub r1 r2 inplace =>
        bind (ensure (is_some r1) (o_c1 o) (ids1 t)) (fun c1 =>
        bind (ensure (is_some r2) (o_c2 o) (ids2 t)) (fun c2 =>
        bind (match r1 with Some req => sub1 (snap_of c1) req t | None => Ok t end) (fun t1 =>
        bind (match r2 with Some req => sub2 (snap_of c2) req t1 | None => Ok t1 end) (fun t2 =>
        if inplace then
          Ok (mko t2 (if is_some r1 then None else c1) (if is_some r2 then None else c2), ONone)
        else Ok (mko t c1 c2, OCopy t2)))))
    | Index b1 b2 =>
        bind (ensure b1 (o_c1 o) (ids1 t)) (fun c1 =>
        bind (ensure b2 (o_c2 o) (ids2 t)) (fun c2 =>
        Ok (mko t c1 c2, ONone)))
    | Look r1 r2 view =>
        bind (ensure (is_some r1) (o_c1 o) (ids1 t)) (fun c1 =>
        bind (ensure (is_some r2) (o_c2 o) (ids2 t)) (fun c2 =>
        bind (match r1 with Some req => sub1 (snap_of c1) req t | None => Ok t end) (fun t1 =>
        bind (match r2 with Some req => sub2 (snap_of c2) req t1 | None => Ok t1 end) (fun t2 =>
        Ok (mko t c1 c2, OView (view t2))))))
    end.

  (* abstract: no caches; lookups search the current IDs; duplicate IDs are reported *)
  Definition chk (want : bool) (ids : list Z) : res unit :=
    if want && negb (nodupZ ids) then Err E_Value else Ok tt.

  Definition a_step (t : tab) (p : op) : res (tab * out) :=
    match p with
    | Mut f => bind (f t) (fun r => let '(t', _, _) := r in Ok (t', ONone))
    | Sub r1 r2 inplace =>
        bind (chk (is_some r1) (ids1 t)) (fun _ =>
        bind (chk (is_some r2) (ids2 t)) (fun _ =>
        bind (match r1 with Some req => sub1 (ids1 t) req t | None => Ok t end) (fun t1 =>
        bind (match r2 with Some req => sub2 (ids2 t1) req t1 | None => Ok t1 end) (fun t2 =>
        if inplace then Ok (t2, ONone) else Ok (t, OCopy t2)))))
    | Index b1 b2 =>
        bind (chk b1 (ids1 t)) (fun _ => bind (chk b2 (ids2 t)) (fun _ => Ok (t, ONone)))
    | Look r1 r2 view =>
        bind (chk (is_some r1) (ids1 t)) (fun _ =>
        bind (chk (is_some r2) (ids2 t)) (fun _ =>
        bind (match r1 with Some req => sub1 (ids1 t) req t | None => Ok t end) (fun t1 =>
        bind (match r2 with Some req => sub2 (ids2 t1) req t1 | None => Ok t1 end) (fun t2 =>
        Ok (t, OView (view t2))))))
    end.

  (* a history: after every operation the contents and the operation's result are visible *)
  Fixpoint m_run (o : obj) (ops : list op) : list (res (tab * out)) :=
    match ops with
    | [] => []
    | p :: r => match m_step o p with
                | Ok (o', out) => Ok (o_tab o', out) :: m_run o' r
                | Err k => [Err k]
                end
    end.

  Fixpoint a_run (t : tab) (ops : list op) : list (res (tab * out)) :=
    match ops with
    | [] => []
    | p :: r => match a_step t p with
                | Ok (t', out) => Ok (t', out) :: a_run t' r
                | Err k => [Err k]
                end
    end.
  (* ---- histories that go on after a caught exception ---------------------------------
     index() stores the dictionary it has just built BEFORE it checks it for duplicate IDs:
       self._samp_idx = dict(zip(self.samples, range(len(self.samples))))
       if len(self._samp_idx) < len(self.samples): ... raise ValueError
     so the ValueError leaves a populated index behind, and the next index() call returns at
     once.  [heal = true]: the repaired index() discards the dictionary before it raises.
     Every other failing operation of the alphabet raises before it has changed anything
     (append: np.concatenate; the non-discarding checks; merge_variants).                 *)
  Definition idx_fail (heal b1 b2 : bool) (o : obj) : obj :=
    let t := o_tab o in
    match ensure b1 (o_c1 o) (ids1 t) with
    | Err _ => mko t (if heal then None else Some (ids1 t)) (o_c2 o)
    | Ok c1 =>
        match ensure b2 (o_c2 o) (ids2 t) with
        | Err _ => mko t c1 (if heal then None else Some (ids2 t))
        | Ok c2 => mko t c1 c2
        end
    end.

  (* the object an operation that raised leaves behind *)
  Definition fail_obj (heal : bool) (o : obj) (p : op) : obj :=
    match p with
    | Mut _ => o
    | Sub r1 r2 _ => idx_fail heal (is_some r1) (is_some r2) o
    | Look r1 r2 _ => idx_fail heal (is_some r1) (is_some r2) o
    | Index b1 b2 => idx_fail heal b1 b2 o
    end.

  Definition m_stepx (heal : bool) (o : obj) (p : op) : obj * res out :=
    match m_step o p with
    | Ok (o', r) => (o', Ok r)
    | Err k => (fail_obj heal o p, Err k)
    end.

  (* abstract: an operation that raises changes nothing *)
  Definition a_stepx (t : tab) (p : op) : tab * res out :=
    match a_step t p with
    | Ok (t', r) => (t', Ok r)
    | Err k => (t, Err k)
    end.

  (* a ValueError (the documented exception of every operation here) is caught and the
     history goes on; any other exception ends it *)
  Fixpoint m_runx (heal : bool) (o : obj) (ops : list op) : list (res (tab * out)) :=
    match ops with
    | [] => []
    | p :: r => match m_stepx heal o p with
                | (o', Ok x) => Ok (o_tab o', x) :: m_runx heal o' r
                | (o', Err k) => Err k :: (if k =? E_Value then m_runx heal o' r else [])
                end
    end.

  Fixpoint a_runx (t : tab) (ops : list op) : list (res (tab * out)) :=
    match ops with
    | [] => []
    | p :: r => match a_stepx t p with
                | (t', Ok x) => Ok (t', x) :: a_runx t' r
                | (t', Err k) => Err k :: (if k =? E_Value then a_runx t' r else [])
                end
    end.
End TwoIndex.

Arguments Mut {tab V} f.
Arguments Sub {tab V} r1 r2 inplace.
Arguments Index {tab V} b1 b2.
Arguments Look {tab V} r1 r2 view.
Arguments ONone {tab V}.
Arguments OCopy {tab V} t.
Arguments OView {tab V} v.
Arguments mko {tab} o_tab o_c1 o_c2.
Arguments o_tab {tab} o.
Arguments o_c1 {tab} o.
Arguments o_c2 {tab} o.

(* a run cut after its first exception *)
Fixpoint cut {A} (l : list (res A)) : list (res A) :=
  match l with
  | [] => []
  | Ok x :: r => Ok x :: cut r
  | Err k :: _ => [Err k]
  end.

(* ======================================================================== *)
(* several objects: a copying subset returns a NEW object, and so does the class method
   merge_variants; the history may go on with any of them.  In the code the new object is
   built by self.__class__(fname, log) resp. cls(kwargs): its caches start absent and it
   shares no mutable look-up state with the objects it came from, so a step on one object
   leaves every other object as it was.                                                  *)

Inductive xop (O : Type) :=
| XOn (p : O)                (* an operation on the object in focus *)
| XSwitch (k : nat)          (* go on with object k *)
| XMerge (ks : list nat).    (* cls.merge_variants((objects ks)): a new object; the focus stays *)
Arguments XOn {O} p.
Arguments XSwitch {O} k.
Arguments XMerge {O} ks.

Definition xmap {O O'} (f : O -> O') (x : xop O) : xop O' :=
  match x with XOn p => XOn (f p) | XSwitch k => XSwitch k | XMerge ks => XMerge ks end.

Fixpoint replace_nth {A} (n : nat) (x : A) (l : list A) : list A :=
  match l, n with
  | [], _ => []
  | _ :: r, O => x :: r
  | y :: r, S m => y :: replace_nth m x r
  end.

Fixpoint pick {A} (l : list A) (ks : list nat) : option (list A) :=
  match ks with
  | [] => Some []
  | k :: r => match nth_error l k, pick l r with
              | Some x, Some t => Some (x :: t)
              | _, _ => None
              end
  end.

Section Pool.
  Variable tab : Type.
  Variable V : Type.
  Variables ids1 ids2 : tab -> list Z.
  Variables sub1 sub2 : list Z -> list Z -> tab -> res tab.
  Variable merge : list tab -> res tab.     (* merge_variants on the tables; consults no index *)

  Definition new_objs (r : out tab V) : list (obj tab) :=
    match r with OCopy t => [mko t None None] | _ => [] end.
  Definition new_tabs (r : out tab V) : list tab :=
    match r with OCopy t => [t] | _ => [] end.

  (* objs: object 0 is the one the history started with, every copying subset and every merge
     appends the object it returned; f: the object the next operation is applied to *)
  Definition pool_m_step (objs : list (obj tab)) (f : nat) (x : xop (op tab V))
    : res (list (obj tab) * nat * out tab V) :=
    match x with
    | XSwitch k => match nth_error objs k with Some _ => Ok (objs, k, ONone) | None => Err E_Index end
    | XOn p =>
        match nth_error objs f with
        | None => Err E_Index
        | Some o =>
            bind (m_step tab V ids1 ids2 sub1 sub2 o p) (fun r => let '(o', out) := r in
              Ok (replace_nth f o' objs ++ new_objs out, f, out))
        end
    | XMerge ks =>
        match pick objs ks with
        | None => Err E_Index
        | Some os => bind (merge (map o_tab os)) (fun t => Ok (objs ++ [mko t None None], f, OCopy t))
        end
    end.

  Definition pool_a_step (ts : list tab) (f : nat) (x : xop (op tab V))
    : res (list tab * nat * out tab V) :=
    match x with
    | XSwitch k => match nth_error ts k with Some _ => Ok (ts, k, ONone) | None => Err E_Index end
    | XOn p =>
        match nth_error ts f with
        | None => Err E_Index
        | Some t =>
            bind (a_step tab V ids1 ids2 sub1 sub2 t p) (fun r => let '(t', out) := r in
              Ok (replace_nth f t' ts ++ new_tabs out, f, out))
        end
    | XMerge ks =>
        match pick ts ks with
        | None => Err E_Index
        | Some l => bind (merge l) (fun t => Ok (ts ++ [t], f, OCopy t))
        end
    end.

  (* after every step: the contents of the object now in focus, and the step's result *)
  Fixpoint pool_m_run (objs : list (obj tab)) (f : nat) (ops : list (xop (op tab V)))
    : list (res (tab * out tab V)) :=
    match ops with
    | [] => []
    | x :: r =>
        match pool_m_step objs f x with
        | Ok (objs', f', out) =>
            match nth_error objs' f' with
            | Some o => Ok (o_tab o, out) :: pool_m_run objs' f' r
            | None => [Err E_Index]
            end
        | Err k => [Err k]
        end
    end.

  Fixpoint pool_a_run (ts : list tab) (f : nat) (ops : list (xop (op tab V)))
    : list (res (tab * out tab V)) :=
    match ops with
    | [] => []
    | x :: r =>
        match pool_a_step ts f x with
        | Ok (ts', f', out) =>
            match nth_error ts' f' with
            | Some t => Ok (t, out) :: pool_a_run ts' f' r
            | None => [Err E_Index]
            end
        | Err k => [Err k]
        end
    end.

  (* ---- going on after a caught ValueError (see m_stepx) ---- *)
  Definition pool_fail (heal : bool) (objs : list (obj tab)) (f : nat) (x : xop (op tab V)) : list (obj tab) :=
    match x with
    | XOn p => match nth_error objs f with
               | Some o => replace_nth f (fail_obj tab V ids1 ids2 heal o p) objs
               | None => objs
               end
    | _ => objs
    end.

  Fixpoint pool_m_runx (heal : bool) (objs : list (obj tab)) (f : nat) (ops : list (xop (op tab V)))
    : list (res (tab * out tab V)) :=
    match ops with
    | [] => []
    | x :: r =>
        match pool_m_step objs f x with
        | Ok (objs', f', out) =>
            match nth_error objs' f' with
            | Some o => Ok (o_tab o, out) :: pool_m_runx heal objs' f' r
            | None => [Err E_Index]
            end
        | Err k => Err k :: (if k =? E_Value then pool_m_runx heal (pool_fail heal objs f x) f r else [])
        end
    end.

  Fixpoint pool_a_runx (ts : list tab) (f : nat) (ops : list (xop (op tab V)))
    : list (res (tab * out tab V)) :=
    match ops with
    | [] => []
    | x :: r =>
        match pool_a_step ts f x with
        | Ok (ts', f', out) =>
            match nth_error ts' f' with
            | Some t => Ok (t, out) :: pool_a_runx ts' f' r
            | None => [Err E_Index]
            end
        | Err k => Err k :: (if k =? E_Value then pool_a_runx ts f r else [])
        end
    end.
End Pool.

(* ======================================================================== *)
(* Genotypes / GenotypesVCF / GenotypesPLINK / GenotypesAncestry             *)

Definition g_ids1 (t : gtab) : list Z := g_samples t.
Definition g_ids2 (t : gtab) : list Z := map vid (g_variants t).

(* gts.samples = the requested IDs the index knows; gts.data = data[positions, :] *)
Definition g_sub1 (snap req : list Z) (t : gtab) : res gtab :=
  let kept := known snap req in
  let idx := where_ snap kept in
  bind (select idx (g_rows t)) (fun rows =>
  bind (match g_anc t with
        | Some a => bind (select idx a) (fun a' => Ok (Some a'))
        | None => Ok None end) (fun anc =>
  Ok (mkg kept (g_variants t) rows (g_planes t) anc))).

(* gts.variants = variants[positions]; gts.data = data[:, positions] *)
Definition g_sub2 (snap req : list Z) (t : gtab) : res gtab :=
  let idx := where_ snap (known snap req) in
  bind (select idx (g_variants t)) (fun vs =>
  bind (map_res (select idx) (g_rows t)) (fun rows =>
  bind (match g_anc t with
        | Some a => bind (map_res (select idx) a) (fun a' => Ok (Some a'))
        | None => Ok None end) (fun anc =>
  Ok (mkg (g_samples t) vs rows (g_planes t) anc)))).

(* what read(samples=ss, variants=vs) loads from a file holding [file]: file order *)
Definition keep_by (ids : option (list Z)) (x : Z) : bool :=
  match ids with Some l => memZ x l | None => true end.
(* read(variants=vs) preallocates len(vs) records and stops when they are filled: of the
   matching records only the first len(vs) are loaded (visible only when an ID occurs more
   than once in the file; the harness passes duplicate-free sets) *)
Fixpoint take_mask (n : nat) (m : list bool) : list bool :=
  match m with
  | [] => []
  | false :: r => false :: take_mask n r
  | true :: r => match n with O => false :: take_mask O r | S k => true :: take_mask k r end
  end.
Definition g_restrict (ss vs : option (list Z)) (file : gtab) : gtab :=
  let km := map (keep_by ss) (g_samples file) in
  let kv := match vs with
            | Some l => take_mask (length l) (map (fun x => memZ (vid x) l) (g_variants file))
            | None => map (fun _ => true) (g_variants file)
            end in
  mkg (filter_mask km (g_samples file)) (filter_mask kv (g_variants file))
      (map (filter_mask kv) (filter_mask km (g_rows file))) (g_planes file)
      (option_map (fun a => map (filter_mask kv) (filter_mask km a)) (g_anc file)).

(* ---- read-only by-ID queries on a genotypes object ---- *)

Inductive gview :=
| GVSim (ids : list Z) (pt : list Z)     (* PhenoSimulator.run: the effects found, the phenotype of every sample *)
| GVTrans (r : option (list Z)).         (* Haplotypes.transform: per sample strand1 + 2*strand2; None = IndexError *)

(* PhenoSimulator(g).run(effects, environment=0, normalize=False) with beta(v_k) = 4^k:
   gens = g.subset(variants=ids); pt = (betas * gens.data[:, :, :2].sum(axis=2)).sum(axis=1) *)
Fixpoint weighted (vs : list variant) (row : list cell) : Z :=
  match vs, row with
  | v :: vs', c :: row' => 4 ^ (vid v) * (ca c + cb c) + weighted vs' row'
  | _, _ => 0
  end.
Definition sim_view (t : gtab) : gview :=
  GVSim (map vid (g_variants t)) (map (weighted (g_variants t)) (g_rows t)).

(* one haplotype whose variant lines are [req] (distinct), allele = first ALT:
   gts = g.subset(variants=req); every requested line needs a column (else IndexError);
   strand k of a sample carries the haplotype iff all its alleles there are 1 *)
Fixpoint dedup_from (seen l : list Z) : list Z :=
  match l with
  | [] => []
  | x :: r => if memZ x seen then dedup_from seen r else x :: dedup_from (x :: seen) r
  end.
Definition trans_view (nreq : nat) (t : gtab) : gview :=
  GVTrans (if Nat.eqb (length (g_variants t)) nreq then
             Some (map (fun row => (if forallb (fun c => ca c =? 1) row then 1 else 0)
                                   + 2 * (if forallb (fun c => cb c =? 1) row then 1 else 0)) (g_rows t))
           else None).

(* Genotypes.merge_variants(objs): ValueError unless all objects list the same samples; variants
   and data concatenated along the variant axis; when 2-plane and 3-plane arrays are mixed the
   2-plane ones get a phase plane of ones.  (GenotypesAncestry.merge_variants is not implemented.) *)
Fixpoint zipapp {A} (a b : list (list A)) : list (list A) :=
  match a, b with
  | x :: a', y :: b' => (x ++ y) :: zipapp a' b'
  | _, _ => []
  end.
Definition E_Runtime : Z := 17.
Definition g_merge (ts : list gtab) : res gtab :=
  match ts with
  | [] => Err E_Index
  | t0 :: r =>
      if existsb (fun t => match g_anc t with Some _ => true | None => false end) ts then Err E_Runtime
      else if forallb (fun t => list_eqb Z.eqb (g_samples t) (g_samples t0)) r then
        let mixed := existsb (fun t => g_planes t =? 3) ts && existsb (fun t => negb (g_planes t =? 3)) ts in
        let cells t := if mixed && negb (g_planes t =? 3)
                       then map (map (fun c => gc (ca c) (cb c) 1)) (g_rows t) else g_rows t in
        Ok (mkg (g_samples t0) (concat (map g_variants ts))
                (fold_right (fun t acc => zipapp (cells t) acc) (map (fun _ => []) (g_samples t0)) ts)
                (if mixed then 3 else g_planes t0) None)
      else Err E_Value
  end.

Section Geno.
  Variable T : Type.                      (* MAF thresholds *)
  Variable rare : T -> Z -> Z -> bool.    (* C13_Model.check_maf's predicate, per threshold *)
  Variable file : gtab.                   (* what a full read of self.fname holds *)
  Variable anc : bool.                    (* the object is a GenotypesAncestry *)
  Variable legacy : bool.

  Inductive gop :=
  | GRead (ss vs : option (list Z))
  | GSubset (ss vs : option (list Z)) (inplace : bool)
  | GIndex (s v : bool)
  | GCheckMissing                         (* discard_also=True *)
  | GCheckBiallelic                       (* discard_also=True *)
  | GCheckMaf (th : T)                    (* discard_also=True *)
  | GCheckMissingN                        (* discard_also=False: ValueError on an offender *)
  | GCheckBiallelicN
  | GCheckMafN (th : T)
  | GCheckSorted
  | GSim (ids : list Z)                   (* PhenoSimulator(self).run(effects ids) *)
  | GTransform (vids : list Z).           (* Haplotypes{one haplotype over vids}.transform(self) *)

  Definition flag (changed : bool) : act := if changed then Reset else Keep.
  Definition of_qout (q : qout) (t : gtab) : gtab := match q with QOk t' => t' | QRaise _ _ => t end.
  Definition nonempty {A} (l : list A) : bool := match l with [] => false | _ => true end.

  Definition raising (q : qout) : res (gtab * act * act) :=
    match q with QOk t' => Ok (t', Keep, Keep) | QRaise _ _ => Err E_Value end.

  Definition g_interp (p : gop) : op gtab gview :=
    match p with
    | GRead ss vs =>
        Mut (fun _ => Ok (g_restrict ss vs file, flag (negb legacy), flag (negb legacy)))
    | GSubset ss vs i => Sub ss vs i
    | GIndex s v => Index s v
    | GCheckMissing =>
        (* self._samp_idx = None exactly when np.any(missing) *)
        Mut (fun t => Ok (of_qout (check_missing anc true t) t,
                          flag (nonempty (nonzero2 0 (maskof (cell_missing anc) t))), Keep))
    | GCheckBiallelic =>
        Mut (fun t => Ok (of_qout (check_biallelic true t) t, Keep,
                          flag (nonempty (nonzero2 0 (maskof cell_multi t)))))
    | GCheckMaf th =>
        Mut (fun t => Ok (of_qout (check_maf (rare th) true true false t) t, Keep,
                          flag (nonempty (rare_idx (rare th) t))))
    | GCheckMissingN => Mut (fun t => raising (check_missing anc false t))
    | GCheckBiallelicN => Mut (fun t => raising (check_biallelic false t))
    | GCheckMafN th => Mut (fun t => raising (check_maf (rare th) true false false t))
    | GCheckSorted => Mut (fun t => raising (check_sorted t))
    | GSim ids => Look None (Some ids) sim_view
    | GTransform vids => Look None (Some (dedup_from [] vids)) (trans_view (length (dedup_from [] vids)))
    end.

  Definition g_empty : gtab := mkg [] [] [] 0 (if anc then Some [] else None).
  Definition g_init : obj gtab := mko g_empty None None.

  Definition gm_run (ops : list gop) := m_run gtab gview g_ids1 g_ids2 g_sub1 g_sub2 g_init (map g_interp ops).
  Definition ga_run (ops : list gop) := a_run gtab gview g_ids1 g_ids2 g_sub1 g_sub2 g_empty (map g_interp ops).
  (* histories over the object, the copies its subsets return and the objects merge_variants builds *)
  Definition gm_prun (ops : list (xop gop)) :=
    pool_m_run gtab gview g_ids1 g_ids2 g_sub1 g_sub2 g_merge [g_init] 0 (map (xmap g_interp) ops).
  Definition ga_prun (ops : list (xop gop)) :=
    pool_a_run gtab gview g_ids1 g_ids2 g_sub1 g_sub2 g_merge [g_empty] 0 (map (xmap g_interp) ops).
  (* the same, going on after every caught ValueError; [heal]: index() as repaired *)
  Definition gm_prunx (heal : bool) (ops : list (xop gop)) :=
    pool_m_runx gtab gview g_ids1 g_ids2 g_sub1 g_sub2 g_merge heal [g_init] 0 (map (xmap g_interp) ops).
  Definition ga_prunx (ops : list (xop gop)) :=
    pool_a_runx gtab gview g_ids1 g_ids2 g_sub1 g_sub2 g_merge [g_empty] 0 (map (xmap g_interp) ops).
End Geno.

Arguments GRead {T} ss vs.
Arguments GSubset {T} ss vs inplace.
Arguments GIndex {T} s v.
Arguments GCheckMissing {T}.
Arguments GCheckBiallelic {T}.
Arguments GCheckMaf {T} th.
Arguments GCheckMissingN {T}.
Arguments GCheckBiallelicN {T}.
Arguments GCheckMafN {T} th.
Arguments GCheckSorted {T}.
Arguments GSim {T} ids.
Arguments GTransform {T} vids.

(* ======================================================================== *)
(* Phenotypes / Covariates                                                   *)

Record ptab := mkp {
  p_samples : list Z;
  p_names : list Z;
  p_rows : list (list Z)        (* data: one row per sample; float64 values carried as integers *)
}.

Definition p_ids1 (t : ptab) : list Z := p_samples t.
Definition p_ids2 (t : ptab) : list Z := p_names t.

Definition p_sub1 (snap req : list Z) (t : ptab) : res ptab :=
  let kept := known snap req in
  bind (select (where_ snap kept) (p_rows t)) (fun rows => Ok (mkp kept (p_names t) rows)).

Definition p_sub2 (snap req : list Z) (t : ptab) : res ptab :=
  let kept := known snap req in
  bind (map_res (select (where_ snap kept)) (p_rows t)) (fun rows => Ok (mkp (p_samples t) kept rows)).

Definition p_restrict (ss : option (list Z)) (file : ptab) : ptab :=
  let km := map (keep_by ss) (p_samples file) in
  mkp (filter_mask km (p_samples file)) (p_names file) (filter_mask km (p_rows file)).

Section Pheno.
  Variable file : ptab.
  Variable legacy : bool.
  (* Phenotypes.append(name, ...) registers the name in an existing name index,
       if self._name_idx is not None: self._name_idx[name] = len(self.names)
     also when the object already holds a phenotype of that name: the index then answers for the
     new column while a freshly built one reports the duplicate.  [fixapp = true]: the repaired
     append discards the name index in that case. *)
  Variable fixapp : bool.

  Inductive pop :=
  | PRead (ss : option (list Z))
  | PSubset (ss ns : option (list Z)) (inplace : bool)
  | PIndex (s n : bool)
  | PCheckMissing                          (* discard_also=True: rows holding -9 go *)
  | PAppend (name : Z) (col : list Z)
  | PCheckMissingN.                        (* discard_also=False: ValueError when a row holds -9 *)

  Definition row_missing (r : list Z) : bool := existsb (fun x => x =? -9) r.
  Fixpoint append_col (rows : list (list Z)) (col : list Z) : list (list Z) :=
    match rows, col with
    | r :: rows', x :: col' => (r ++ [x]) :: append_col rows' col'
    | _, _ => []
    end.

  Definition p_interp (p : pop) : op ptab unit :=
    match p with
    | PRead ss =>
        Mut (fun _ => Ok (p_restrict ss file,
                          if legacy then Keep else Reset, if legacy then Keep else Reset))
    | PSubset ss ns i => Sub ss ns i
    | PIndex s n => Index s n
    | PCheckMissing =>
        (* only when np.any(missing): delete the rows, self._samp_idx = None *)
        Mut (fun t =>
          let bad := map row_missing (p_rows t) in
          if existsb (fun b => b) bad then
            Ok (mkp (filter_mask (map negb bad) (p_samples t)) (p_names t)
                    (filter_mask (map negb bad) (p_rows t)), Reset, Keep)
          else Ok (t, Keep, Keep))
    | PAppend name col =>
        (* np.concatenate raises ValueError when the column has the wrong length *)
        Mut (fun t =>
          if Nat.eqb (length col) (length (p_rows t)) then
            Ok (mkp (p_samples t) (p_names t ++ [name]) (append_col (p_rows t) col), Keep,
                if fixapp && memZ name (p_names t) then Reset else Push name)
          else Err E_Value)
    | PCheckMissingN =>
        Mut (fun t => if existsb (fun b => b) (map row_missing (p_rows t)) then Err E_Value
                      else Ok (t, Keep, Keep))
    end.

  Definition p_empty : ptab := mkp [] [] [].
  Definition p_init : obj ptab := mko p_empty None None.
  (* there is no merge of phenotypes objects *)
  Definition p_merge (ts : list ptab) : res ptab := Err E_Runtime.
  Definition pm_run (ops : list pop) := m_run ptab unit p_ids1 p_ids2 p_sub1 p_sub2 p_init (map p_interp ops).
  Definition pa_run (ops : list pop) := a_run ptab unit p_ids1 p_ids2 p_sub1 p_sub2 p_empty (map p_interp ops).
  Definition pm_prun (ops : list (xop pop)) :=
    pool_m_run ptab unit p_ids1 p_ids2 p_sub1 p_sub2 p_merge [p_init] 0 (map (xmap p_interp) ops).
  Definition pa_prun (ops : list (xop pop)) :=
    pool_a_run ptab unit p_ids1 p_ids2 p_sub1 p_sub2 p_merge [p_empty] 0 (map (xmap p_interp) ops).
  Definition pm_prunx (heal : bool) (ops : list (xop pop)) :=
    pool_m_runx ptab unit p_ids1 p_ids2 p_sub1 p_sub2 p_merge heal [p_init] 0 (map (xmap p_interp) ops).
  Definition pa_prunx (ops : list (xop pop)) :=
    pool_a_runx ptab unit p_ids1 p_ids2 p_sub1 p_sub2 p_merge [p_empty] 0 (map (xmap p_interp) ops).
End Pheno.

(* ======================================================================== *)
(* Haplotypes: data = dict ID -> Haplotype | Repeat, type_ids = cached ID lists *)

Record hrec := mkh {
  h_id : Z; h_is_hap : bool;               (* Haplotype (true) or Repeat (false) *)
  h_chrom : Z; h_start : Z; h_end : Z;
  h_vars : list Z                          (* IDs of its variant lines *)
}.

Record hobj := mkho { ho_data : list hrec; ho_tids : option (list Z * list Z) }.

Definition type_ids_of (d : list hrec) : list Z * list Z :=
  (map h_id (filter h_is_hap d), map h_id (filter (fun x => negb (h_is_hap x)) d)).

Fixpoint hfind (x : Z) (d : list hrec) : option hrec :=
  match d with
  | [] => None
  | r :: t => if h_id r =? x then Some r else hfind x t
  end.

Definition hrec_ltb (a b : hrec) : bool :=
  if h_chrom a =? h_chrom b then
    if h_start a =? h_start b then
      if h_end a =? h_end b then h_id a <? h_id b else h_end a <? h_end b
    else h_start a <? h_start b
  else h_chrom a <? h_chrom b.

Fixpoint hinsert (x : hrec) (l : list hrec) : list hrec :=
  match l with
  | [] => [x]
  | y :: r => if hrec_ltb y x || negb (hrec_ltb x y) then y :: hinsert x r else x :: y :: r
  end.
(* sorted() is stable; IDs are distinct in a dict, so the order is total *)
Definition hsort (l : list hrec) : list hrec := fold_right hinsert [] l.

Section Haps.
  Variable file : list hrec.       (* the H / R lines of the .hap file, in file order *)
  Variable legacy : bool.

  Inductive hop :=
  | HRead (ids : option (list Z))
  | HSubset (ids : list Z) (inplace : bool)
  | HSort
  | HIndex
  | HTransform.                    (* transform(): index(); [data[h] for h in type_ids["H"]] *)

  (* what a step shows: contents afterwards, and a result (subset copy / haplotypes transformed) *)
  Inductive hout := HNone | HCopy (d : list hrec) | HHaps (l : list Z).

  (* subset(): data = {}; for id in haplotypes: data[id] = self.data[id] unless KeyError
     (a dict: a repeated request keeps its first position); index(force=True) *)
  Fixpoint hsubset_from (seen ids : list Z) (d : list hrec) : list hrec :=
    match ids with
    | [] => []
    | x :: r =>
        if memZ x seen then hsubset_from seen r d
        else match hfind x d with
             | Some rec => rec :: hsubset_from (x :: seen) r d
             | None => hsubset_from seen r d
             end
    end.
  Definition hsubset (ids : list Z) (d : list hrec) : list hrec := hsubset_from [] ids d.

  Definition hindex (force : bool) (o : hobj) : hobj :=
    match ho_tids o with
    | Some _ => if force then mkho (ho_data o) (Some (type_ids_of (ho_data o))) else o
    | None => mkho (ho_data o) (Some (type_ids_of (ho_data o)))
    end.

  Definition hm_step (o : hobj) (p : hop) : res (hobj * hout) :=
    match p with
    | HRead ids =>
        let d := filter (fun r => keep_by ids (h_id r)) file in
        Ok (hindex (negb legacy) (mkho d (ho_tids o)), HNone)
    | HSubset ids inplace =>
        let d := hsubset ids (ho_data o) in
        if inplace then Ok (hindex true (mkho d (ho_tids o)), HNone)
        else Ok (o, HCopy d)
    | HSort => Ok (hindex true (mkho (hsort (ho_data o)) (ho_tids o)), HNone)
    | HIndex => Ok (hindex false o, HNone)
    | HTransform =>
        let o' := hindex false o in
        bind (map_res (fun x => match hfind x (ho_data o') with Some r => Ok (h_id r) | None => Err E_Key end)
                      (fst (match ho_tids o' with Some t => t | None => ([], []) end)))
             (fun l => Ok (o', HHaps l))
    end.

  Definition ha_step (d : list hrec) (p : hop) : res (list hrec * hout) :=
    match p with
    | HRead ids => Ok (filter (fun r => keep_by ids (h_id r)) file, HNone)
    | HSubset ids inplace =>
        if inplace then Ok (hsubset ids d, HNone) else Ok (d, HCopy (hsubset ids d))
    | HSort => Ok (hsort d, HNone)
    | HIndex => Ok (d, HNone)
    | HTransform => Ok (d, HHaps (map h_id (filter h_is_hap d)))
    end.

  Fixpoint hm_run (o : hobj) (ops : list hop) : list (res (list hrec * hout)) :=
    match ops with
    | [] => []
    | p :: r => match hm_step o p with
                | Ok (o', out) => Ok (ho_data o', out) :: hm_run o' r
                | Err k => [Err k]
                end
    end.

  Fixpoint ha_run (d : list hrec) (ops : list hop) : list (res (list hrec * hout)) :=
    match ops with
    | [] => []
    | p :: r => match ha_step d p with
                | Ok (d', out) => Ok (d', out) :: ha_run d' r
                | Err k => [Err k]
                end
    end.

  Definition h_init : hobj := mkho [] None.

  (* ---- several objects: the copies subset(inplace=False) returns (each has been given its own
     type_ids by index(force=True)) and the objects Haplotypes.merge builds (ValueError when two
     records share an ID; index() on the new object).  A ValueError is caught and the history
     goes on - a failed merge has not changed any object.                                   *)
  Inductive hxop := HXOn (p : hop) | HXSwitch (k : nat) | HXMerge (ks : list nat).

  Definition h_merge (ds : list (list hrec)) : res (list hrec) :=
    let d := concat ds in if nodupZ (map h_id d) then Ok d else Err E_Value.

  Definition h_new (r : hout) : list hobj :=
    match r with HCopy d => [mkho d (Some (type_ids_of d))] | _ => [] end.
  Definition h_newd (r : hout) : list (list hrec) :=
    match r with HCopy d => [d] | _ => [] end.

  Definition hp_m_step (objs : list hobj) (f : nat) (x : hxop) : res (list hobj * nat * hout) :=
    match x with
    | HXSwitch k => match nth_error objs k with Some _ => Ok (objs, k, HNone) | None => Err E_Index end
    | HXOn p =>
        match nth_error objs f with
        | None => Err E_Index
        | Some o => bind (hm_step o p) (fun r => let '(o', out) := r in
                      Ok (replace_nth f o' objs ++ h_new out, f, out))
        end
    | HXMerge ks =>
        match pick objs ks with
        | None => Err E_Index
        | Some os => bind (h_merge (map ho_data os)) (fun d =>
                       Ok (objs ++ [mkho d (Some (type_ids_of d))], f, HCopy d))
        end
    end.

  Definition hp_a_step (ds : list (list hrec)) (f : nat) (x : hxop) : res (list (list hrec) * nat * hout) :=
    match x with
    | HXSwitch k => match nth_error ds k with Some _ => Ok (ds, k, HNone) | None => Err E_Index end
    | HXOn p =>
        match nth_error ds f with
        | None => Err E_Index
        | Some d => bind (ha_step d p) (fun r => let '(d', out) := r in
                      Ok (replace_nth f d' ds ++ h_newd out, f, out))
        end
    | HXMerge ks =>
        match pick ds ks with
        | None => Err E_Index
        | Some l => bind (h_merge l) (fun d => Ok (ds ++ [d], f, HCopy d))
        end
    end.

  Fixpoint hp_m_run (objs : list hobj) (f : nat) (ops : list hxop) : list (res (list hrec * hout)) :=
    match ops with
    | [] => []
    | x :: r =>
        match hp_m_step objs f x with
        | Ok (objs', f', out) =>
            match nth_error objs' f' with
            | Some o => Ok (ho_data o, out) :: hp_m_run objs' f' r
            | None => [Err E_Index]
            end
        | Err k => Err k :: (if k =? E_Value then hp_m_run objs f r else [])
        end
    end.

  Fixpoint hp_a_run (ds : list (list hrec)) (f : nat) (ops : list hxop) : list (res (list hrec * hout)) :=
    match ops with
    | [] => []
    | x :: r =>
        match hp_a_step ds f x with
        | Ok (ds', f', out) =>
            match nth_error ds' f' with
            | Some d => Ok (d, out) :: hp_a_run ds' f' r
            | None => [Err E_Index]
            end
        | Err k => Err k :: (if k =? E_Value then hp_a_run ds f r else [])
        end
    end.
End Haps.
