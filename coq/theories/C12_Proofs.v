(* C12 - the refinement proof: cache_valid is an invariant of every operation, hence the
   concrete run (with caches) shows exactly what the abstract run (without) shows. *)
From HV Require Import Prelude GenoTable C13_Model C12_Model.
Open Scope Z_scope.

(* ======================================================================== *)
(* generic: objects with two ID indexes                                      *)

Section TwoIndexProofs.
  Variable tab : Type.
  Variable VT : Type.
  Variables ids1 ids2 : tab -> list Z.
  Variables sub1 sub2 : list Z -> list Z -> tab -> res tab.
  (* subsetting rows leaves the column IDs alone and vice versa *)
  Hypothesis sub1_ids2 : forall s r t t', sub1 s r t = Ok t' -> ids2 t' = ids2 t.
  Hypothesis sub2_ids1 : forall s r t t', sub2 s r t = Ok t' -> ids1 t' = ids1 t.

  Notation obj := (obj tab).
  Notation op := (op tab VT).
  Notation m_step := (m_step tab VT ids1 ids2 sub1 sub2).
  Notation a_step := (a_step tab VT ids1 ids2 sub1 sub2).
  Notation m_run := (m_run tab VT ids1 ids2 sub1 sub2).
  Notation a_run := (a_run tab VT ids1 ids2 sub1 sub2).
  Notation m_stepx := (m_stepx tab VT ids1 ids2 sub1 sub2).
  Notation a_stepx := (a_stepx tab VT ids1 ids2 sub1 sub2).
  Notation m_runx := (m_runx tab VT ids1 ids2 sub1 sub2).
  Notation a_runx := (a_runx tab VT ids1 ids2 sub1 sub2).

  (* a cache is absent, or it is the current (duplicate-free) ID list *)
  Definition valid (c : option (list Z)) (ids : list Z) : Prop :=
    c = None \/ (c = Some ids /\ nodupZ ids = true).

  Definition cache_valid (o : obj) : Prop :=
    valid (o_c1 o) (ids1 (o_tab o)) /\ valid (o_c2 o) (ids2 (o_tab o)).

  (* what a mutator says it does to a cache must be true of what it does to the IDs *)
  Definition act_ok (a : act) (old new : list Z) : Prop :=
    match a with
    | Keep => new = old
    | Reset => True
    | Push x => new = old ++ [x] /\ ~ In x old
    end.

  Definition op_ok (t : tab) (p : op) : Prop :=
    match p with
    | Mut f => forall t' a1 a2, f t = Ok (t', a1, a2) ->
               act_ok a1 (ids1 t) (ids1 t') /\ act_ok a2 (ids2 t) (ids2 t')
    | _ => True
    end.

  Fixpoint ops_ok (t : tab) (ops : list op) : Prop :=
    match ops with
    | [] => True
    | p :: r => op_ok t p /\ forall t' out, a_step t p = Ok (t', out) -> ops_ok t' r
    end.

  Lemma nodupZ_app_fresh l x : nodupZ l = true -> ~ In x l -> nodupZ (l ++ [x]) = true.
  Proof.
    intros H Hx. apply nodupZ_NoDup. apply nodupZ_NoDup in H.
    induction l as [|y r IH]; cbn.
    - constructor; [intros []|constructor].
    - inversion H as [|? ? Hy Hr]; subst. constructor.
      + intro Hin. apply in_app_or in Hin. destruct Hin as [Hin|[Hin|[]]]; [contradiction|].
        subst. apply Hx. left. reflexivity.
      + apply IH; [exact Hr|]. intro Hin. apply Hx. right. exact Hin.
  Qed.

  Lemma apply_act_valid a c old new :
    valid c old -> act_ok a old new -> valid (apply_act a c) new.
  Proof.
    intros V A. destruct a as [| |x]; cbn in *.
    - subst. exact V.
    - left. reflexivity.
    - destruct A as [-> Hx]. destruct V as [->|[-> Hn]]; [left; reflexivity|].
      right. split; [reflexivity|]. apply nodupZ_app_fresh; assumption.
  Qed.

  (* index() on a valid cache = the duplicate check of the abstract step *)
  Lemma ensure_spec want c ids :
    valid c ids ->
    (ensure want c ids = Err E_Value /\ chk want ids = Err E_Value)
    \/ (exists c', ensure want c ids = Ok c' /\ chk want ids = Ok tt /\ valid c' ids
                   /\ (want = true -> c' = Some ids) /\ (want = false -> c' = c)).
  Proof.
    intro V. unfold ensure, chk. destruct want; cbn.
    - destruct V as [->|[-> Hn]].
      + destruct (nodupZ ids) eqn:E; cbn.
        * right. exists (Some ids). repeat split; auto; try discriminate. right. auto.
        * left. auto.
      + rewrite Hn. cbn. right. exists (Some ids). repeat split; auto; try discriminate. right. auto.
    - right. exists c. repeat split; auto. discriminate.
  Qed.

  Lemma sub_part (sub : list Z -> list Z -> tab -> res tab) (r : option (list Z)) c ids t :
    (is_some r = true -> c = Some ids) ->
    match r with Some req => sub (snap_of c) req t | None => Ok t end
    = match r with Some req => sub ids req t | None => Ok t end.
  Proof. destruct r; cbn; intro H; [rewrite (H eq_refl); reflexivity|reflexivity]. Qed.

  Theorem step_refines o p :
    cache_valid o -> op_ok (o_tab o) p ->
    match m_step o p with
    | Ok (o', out) => a_step (o_tab o) p = Ok (o_tab o', out) /\ cache_valid o'
    | Err k => a_step (o_tab o) p = Err k
    end.
  Proof.
    intros [V1 V2] OK. destruct o as [t c1 c2]. cbn [o_tab o_c1 o_c2] in *.
    destruct p as [f|r1 r2 inplace|b1 b2|r1 r2 view].
    - (* a mutator: the caches follow its declared effect *)
      cbn [C12_Model.m_step C12_Model.a_step o_tab o_c1 o_c2].
      destruct (f t) as [[[t' a1] a2]|k] eqn:F; cbn [bind]; [|reflexivity].
      split; [reflexivity|]. destruct (OK t' a1 a2 F) as [A1 A2].
      split; cbn [o_tab o_c1 o_c2]; eapply apply_act_valid; eauto.
    - (* subset *)
      cbn [C12_Model.m_step C12_Model.a_step o_tab o_c1 o_c2].
      destruct (ensure_spec (is_some r1) c1 (ids1 t) V1) as [[E1 K1]|[c1' [E1 [K1 [V1' [W1 N1]]]]]];
        rewrite E1, K1; cbn [bind]; [reflexivity|].
      destruct (ensure_spec (is_some r2) c2 (ids2 t) V2) as [[E2 K2]|[c2' [E2 [K2 [V2' [W2 N2]]]]]];
        rewrite E2, K2; cbn [bind]; [reflexivity|].
      rewrite (sub_part sub1 r1 c1' (ids1 t) t W1).
      destruct (match r1 with Some req => sub1 (ids1 t) req t | None => Ok t end) as [t1|k] eqn:T1;
        cbn [bind]; [|reflexivity].
      assert (I2 : ids2 t1 = ids2 t).
      { destruct r1; [eapply sub1_ids2; exact T1|injection T1 as <-; reflexivity]. }
      rewrite (sub_part sub2 r2 c2' (ids2 t1) t1) by (rewrite I2; exact W2).
      destruct (match r2 with Some req => sub2 (ids2 t1) req t1 | None => Ok t1 end) as [t2|k] eqn:T2;
        cbn [bind]; [|reflexivity].
      destruct inplace.
      + split; [reflexivity|]. split; cbn [o_tab o_c1 o_c2].
        * destruct r1 as [req1|]; cbn [is_some]; [left; reflexivity|].
          rewrite (N1 eq_refl) in *. injection T1 as <-.
          assert (I1 : ids1 t2 = ids1 t).
          { destruct r2; [eapply sub2_ids1; exact T2|injection T2 as <-; reflexivity]. }
          rewrite I1. exact V1.
        * destruct r2 as [req2|]; cbn [is_some]; [left; reflexivity|].
          rewrite (N2 eq_refl) in *. injection T2 as <-. rewrite I2. exact V2.
      + split; [reflexivity|]. split; cbn [o_tab o_c1 o_c2]; assumption.
    - (* index *)
      cbn [C12_Model.m_step C12_Model.a_step o_tab o_c1 o_c2].
      destruct (ensure_spec b1 c1 (ids1 t) V1) as [[E1 K1]|[c1' [E1 [K1 [V1' _]]]]];
        rewrite E1, K1; cbn [bind]; [reflexivity|].
      destruct (ensure_spec b2 c2 (ids2 t) V2) as [[E2 K2]|[c2' [E2 [K2 [V2' _]]]]];
        rewrite E2, K2; cbn [bind]; [reflexivity|].
      split; [reflexivity|]. split; cbn [o_tab o_c1 o_c2]; assumption.
    - (* a read-only by-ID query: subset(inplace=False) on the object, then a function of the copy *)
      cbn [C12_Model.m_step C12_Model.a_step o_tab o_c1 o_c2].
      destruct (ensure_spec (is_some r1) c1 (ids1 t) V1) as [[E1 K1]|[c1' [E1 [K1 [V1' [W1 N1]]]]]];
        rewrite E1, K1; cbn [bind]; [reflexivity|].
      destruct (ensure_spec (is_some r2) c2 (ids2 t) V2) as [[E2 K2]|[c2' [E2 [K2 [V2' [W2 N2]]]]]];
        rewrite E2, K2; cbn [bind]; [reflexivity|].
      rewrite (sub_part sub1 r1 c1' (ids1 t) t W1).
      destruct (match r1 with Some req => sub1 (ids1 t) req t | None => Ok t end) as [t1|k] eqn:T1;
        cbn [bind]; [|reflexivity].
      assert (I2 : ids2 t1 = ids2 t).
      { destruct r1; [eapply sub1_ids2; exact T1|injection T1 as <-; reflexivity]. }
      rewrite (sub_part sub2 r2 c2' (ids2 t1) t1) by (rewrite I2; exact W2).
      destruct (match r2 with Some req => sub2 (ids2 t1) req t1 | None => Ok t1 end) as [t2|k] eqn:T2;
        cbn [bind]; [|reflexivity].
      split; [reflexivity|]. split; cbn [o_tab o_c1 o_c2]; assumption.
  Qed.

  Corollary cache_valid_step o p o' out :
    cache_valid o -> op_ok (o_tab o) p -> m_step o p = Ok (o', out) -> cache_valid o'.
  Proof.
    intros V OK E. pose proof (step_refines o p V OK) as H. rewrite E in H. apply H.
  Qed.

  Theorem run_refines ops : forall o,
    cache_valid o -> ops_ok (o_tab o) ops -> m_run o ops = a_run (o_tab o) ops.
  Proof.
    induction ops as [|p r IH]; intros o V OK; [reflexivity|].
    destruct OK as [OKp OKr]. pose proof (step_refines o p V OKp) as H.
    cbn [C12_Model.m_run C12_Model.a_run].
    destruct (m_step o p) as [[o' out]|k] eqn:E.
    - destruct H as [HA V']. rewrite HA. f_equal. apply IH; [exact V'|].
      eapply OKr. exact HA.
    - rewrite H. reflexivity.
  Qed.

  Lemma ops_ok_all ops : (forall t p, In p ops -> op_ok t p) -> forall t, ops_ok t ops.
  Proof.
    induction ops as [|p r IH]; intros H t; cbn; [exact I|]. split.
    - apply H. left. reflexivity.
    - intros t' out _. apply IH. intros t0 q Hq. apply H. right. exact Hq.
  Qed.
  (* ---- histories that go on after a caught exception (repaired index(): heal = true) ---- *)

  Lemma idx_fail_valid b1 b2 o :
    cache_valid o ->
    cache_valid (idx_fail tab ids1 ids2 true b1 b2 o) /\ o_tab (idx_fail tab ids1 ids2 true b1 b2 o) = o_tab o.
  Proof.
    intros [V1 V2]. destruct o as [t c1 c2]. unfold idx_fail. cbn [o_tab o_c1 o_c2] in *.
    destruct (ensure_spec b1 c1 (ids1 t) V1) as [[E1 _]|[c1' [E1 [_ [V1' _]]]]]; rewrite E1.
    - split; [|reflexivity]. split; cbn [o_tab o_c1 o_c2]; [left; reflexivity|exact V2].
    - destruct (ensure_spec b2 c2 (ids2 t) V2) as [[E2 _]|[c2' [E2 [_ [V2' _]]]]]; rewrite E2.
      + split; [|reflexivity]. split; cbn [o_tab o_c1 o_c2]; [exact V1'|left; reflexivity].
      + split; [|reflexivity]. split; cbn [o_tab o_c1 o_c2]; assumption.
  Qed.

  Lemma fail_obj_valid o p :
    cache_valid o ->
    cache_valid (fail_obj tab VT ids1 ids2 true o p) /\ o_tab (fail_obj tab VT ids1 ids2 true o p) = o_tab o.
  Proof.
    intro Vo. destruct p as [f|r1 r2 i|b1 b2|r1 r2 view]; cbn [fail_obj];
      [split; [exact Vo|reflexivity]|apply idx_fail_valid; exact Vo..].
  Qed.

  Theorem stepx_refines o p :
    cache_valid o -> op_ok (o_tab o) p ->
    a_stepx (o_tab o) p = (o_tab (fst (m_stepx true o p)), snd (m_stepx true o p))
    /\ cache_valid (fst (m_stepx true o p)).
  Proof.
    intros Vo OK. pose proof (step_refines o p Vo OK) as H. unfold C12_Model.m_stepx, C12_Model.a_stepx.
    destruct (m_step o p) as [[o' r]|k].
    - destruct H as [HA V']. rewrite HA. cbn [fst snd]. split; [reflexivity|exact V'].
    - rewrite H. cbn [fst snd]. destruct (fail_obj_valid o p Vo) as [V' T']. rewrite T'.
      split; [reflexivity|exact V'].
  Qed.

  Fixpoint ops_okx (t : tab) (ops : list op) : Prop :=
    match ops with
    | [] => True
    | p :: r => op_ok t p /\ ops_okx (fst (a_stepx t p)) r
    end.

  Theorem runx_refines ops : forall o,
    cache_valid o -> ops_okx (o_tab o) ops -> m_runx true o ops = a_runx (o_tab o) ops.
  Proof.
    induction ops as [|p r IH]; intros o Vo OK; [reflexivity|].
    destruct OK as [OKp OKr]. destruct (stepx_refines o p Vo OKp) as [HA V'].
    cbn [C12_Model.m_runx C12_Model.a_runx]. rewrite HA in *. cbn [fst] in OKr.
    destruct (m_stepx true o p) as [o' [x|k]]; cbn [fst snd] in *.
    - f_equal. apply IH; assumption.
    - f_equal. destruct (k =? E_Value); [apply IH; assumption|reflexivity].
  Qed.

  Lemma ops_okx_all ops : (forall t p, In p ops -> op_ok t p) -> forall t, ops_okx t ops.
  Proof.
    induction ops as [|p r IH]; intros H t; cbn; [exact I|]. split.
    - apply H. left. reflexivity.
    - apply IH. intros t0 q Hq. apply H. right. exact Hq.
  Qed.

  (* the history that stops at the first exception is the beginning of the one that goes on,
     whatever index() leaves behind when it raises *)
  Theorem run_cut_runx heal ops : forall o, m_run o ops = cut (m_runx heal o ops).
  Proof.
    induction ops as [|p r IH]; intro o; [reflexivity|].
    cbn [C12_Model.m_run C12_Model.m_runx]. unfold C12_Model.m_stepx.
    destruct (m_step o p) as [[o' x]|k]; cbn [cut]; [f_equal; apply IH|reflexivity].
  Qed.
End TwoIndexProofs.

(* ======================================================================== *)
(* genotypes                                                                  *)

Lemma bind_ok {A B} (x : res A) (f : A -> res B) y :
  bind x f = Ok y -> exists a, x = Ok a /\ f a = Ok y.
Proof. destruct x as [a|k]; cbn; [intro H; exists a; auto|discriminate]. Qed.

Lemma g_sub1_ids2 s r t t' : g_sub1 s r t = Ok t' -> g_ids2 t' = g_ids2 t.
Proof.
  unfold g_sub1. intro H.
  apply bind_ok in H. destruct H as [rows [_ H]].
  apply bind_ok in H. destruct H as [a [_ H]]. injection H as <-. reflexivity.
Qed.

Lemma g_sub2_ids1 s r t t' : g_sub2 s r t = Ok t' -> g_ids1 t' = g_ids1 t.
Proof.
  unfold g_sub2. intro H.
  apply bind_ok in H. destruct H as [vs [_ H]].
  apply bind_ok in H. destruct H as [rows [_ H]].
  apply bind_ok in H. destruct H as [a [_ H]]. injection H as <-. reflexivity.
Qed.

Section GenoProofs.
  Variable T : Type.
  Variable rare : T -> Z -> Z -> bool.
  Variable file : gtab.
  Variable anc : bool.

  (* every Genotypes operation of the repaired code declares its effect on the caches truthfully *)
  Lemma g_op_ok t p : op_ok gtab gview g_ids1 g_ids2 t (g_interp T rare file anc false p).
  Proof.
    destruct p as [ss vs|ss vs i|s v| | |th| | |th| |ids|vids]; cbn; try exact I.
    - intros t' a1 a2 H. injection H as <- <- <-. cbn. auto.
    - intros t' a1 a2 H. injection H as <- <- <-. unfold check_missing.
      destruct (nonzero2 0 (maskof (cell_missing anc) t)); cbn; auto.
    - intros t' a1 a2 H. injection H as <- <- <-. unfold check_biallelic.
      destruct (nonzero2 0 (maskof cell_multi t)); cbn; auto.
    - intros t' a1 a2 H. injection H as <- <- <-. unfold check_maf.
      destruct (rare_idx (rare th) t); cbn; auto.
    - (* the non-discarding checks return with the IDs untouched, or raise *)
      intros t' a1 a2 H. unfold raising, check_missing in H.
      destruct (nonzero2 0 (maskof (cell_missing anc) t)); [|discriminate].
      injection H as <- <- <-. cbn. auto.
    - intros t' a1 a2 H. unfold raising, check_biallelic in H.
      destruct (nonzero2 0 (maskof cell_multi t)); [|discriminate].
      injection H as <- <- <-. cbn. auto.
    - intros t' a1 a2 H. unfold raising, check_maf in H.
      destruct (rare_idx (rare th) t); [|discriminate].
      injection H as <- <- <-. cbn. auto.
    - intros t' a1 a2 H. unfold raising, check_sorted in H.
      destruct (sorted_ok (g_variants t)); [|discriminate].
      injection H as <- <- <-. cbn. auto.
  Qed.

  Theorem refines_geno ops :
    gm_run T rare file anc false ops = ga_run T rare file anc false ops.
  Proof.
    unfold gm_run, ga_run.
    apply (run_refines gtab gview g_ids1 g_ids2 g_sub1 g_sub2 g_sub1_ids2 g_sub2_ids1).
    - split; left; reflexivity.
    - apply ops_ok_all. intros t p Hp. apply in_map_iff in Hp. destruct Hp as [q [<- _]].
      apply g_op_ok.
  Qed.

  (* the invariant itself, for any reachable object *)
  Theorem geno_cache_valid_step o p o' out :
    cache_valid gtab g_ids1 g_ids2 o ->
    m_step gtab gview g_ids1 g_ids2 g_sub1 g_sub2 o (g_interp T rare file anc false p) = Ok (o', out) ->
    cache_valid gtab g_ids1 g_ids2 o'.
  Proof.
    intros V E. eapply (cache_valid_step gtab gview g_ids1 g_ids2 g_sub1 g_sub2 g_sub1_ids2 g_sub2_ids1); eauto.
    apply g_op_ok.
  Qed.
End GenoProofs.

(* ======================================================================== *)
(* phenotypes / covariates                                                    *)

Lemma p_sub1_ids2 s r t t' : p_sub1 s r t = Ok t' -> p_ids2 t' = p_ids2 t.
Proof.
  unfold p_sub1. intro H. apply bind_ok in H. destruct H as [rows [_ H]].
  injection H as <-. reflexivity.
Qed.

Lemma p_sub2_ids1 s r t t' : p_sub2 s r t = Ok t' -> p_ids1 t' = p_ids1 t.
Proof.
  unfold p_sub2. intro H. apply bind_ok in H. destruct H as [rows [_ H]].
  injection H as <-. reflexivity.
Qed.

Section PhenoProofs.
  Variable file : ptab.

  (* append as it is in the tree must be given a name the object does not hold yet *)
  Definition p_pre (t : ptab) (p : pop) : Prop :=
    match p with PAppend name _ => ~ In name (p_names t) | _ => True end.

  Fixpoint fresh_appends (t : ptab) (ops : list pop) : Prop :=
    match ops with
    | [] => True
    | p :: r =>
        p_pre t p
        /\ forall t' out, a_step ptab unit p_ids1 p_ids2 p_sub1 p_sub2 t (p_interp file false false p) = Ok (t', out) ->
                          fresh_appends t' r
    end.

  Lemma p_op_ok t p : p_pre t p -> op_ok ptab unit p_ids1 p_ids2 t (p_interp file false false p).
  Proof.
    destruct p as [ss|ss ns i|s n| |name col|]; cbn; try (intros; exact I).
    - intros _ t' a1 a2 H. injection H as <- <- <-. cbn. auto.
    - intros _ t' a1 a2 H.
      destruct (existsb (fun b => b) (map row_missing (p_rows t))); injection H as <- <- <-; cbn; auto.
    - intros Hn t' a1 a2 H. destruct (Nat.eqb (length col) (length (p_rows t))); [|discriminate].
      injection H as <- <- <-. cbn. split; [reflexivity|]. split; [reflexivity|exact Hn].
    - intros _ t' a1 a2 H.
      destruct (existsb (fun b => b) (map row_missing (p_rows t))); [discriminate|].
      injection H as <- <- <-. cbn. auto.
  Qed.

  Lemma fresh_appends_ops_ok ops : forall t,
    fresh_appends t ops -> ops_ok ptab unit p_ids1 p_ids2 p_sub1 p_sub2 t (map (p_interp file false false) ops).
  Proof.
    induction ops as [|p r IH]; intros t H; cbn; [exact I|].
    destruct H as [Hp Hr]. split; [apply p_op_ok; exact Hp|].
    intros t' out E. apply IH. eapply Hr. exact E.
  Qed.

  Theorem refines_pheno ops :
    fresh_appends p_empty ops -> pm_run file false false ops = pa_run file false false ops.
  Proof.
    intro H. unfold pm_run, pa_run.
    apply (run_refines ptab unit p_ids1 p_ids2 p_sub1 p_sub2 p_sub1_ids2 p_sub2_ids1).
    - split; left; reflexivity.
    - apply fresh_appends_ops_ok. exact H.
  Qed.

  (* without append no precondition is left *)
  Definition no_append (p : pop) : Prop := match p with PAppend _ _ => False | _ => True end.

  Theorem refines_pheno_no_append ops :
    Forall no_append ops -> pm_run file false false ops = pa_run file false false ops.
  Proof.
    intro H. apply refines_pheno. generalize p_empty. induction H as [|p r Hp _ IH]; intro t; cbn; [exact I|].
    split; [destruct p; cbn in *; auto|]. intros t' out _. apply IH.
  Qed.
End PhenoProofs.

(* ======================================================================== *)
(* haplotypes                                                                 *)

Section HapsProofs.
  Variable file : list hrec.

  Definition hvalid (o : hobj) : Prop :=
    ho_tids o = None \/ ho_tids o = Some (type_ids_of (ho_data o)).

  Lemma hindex_valid force o :
    hvalid o -> hindex force o = mkho (ho_data o) (Some (type_ids_of (ho_data o))).
  Proof.
    intros [H|H]; unfold hindex; rewrite H; [reflexivity|].
    destruct force; [reflexivity|]. destruct o as [d t]; cbn in *. rewrite H. reflexivity.
  Qed.

  Lemma hindex_force d t : hindex true (mkho d t) = mkho d (Some (type_ids_of d)).
  Proof. unfold hindex; cbn. destruct t; reflexivity. Qed.

  Lemma hfind_in r0 d : In r0 d -> exists r, hfind (h_id r0) d = Some r /\ h_id r = h_id r0.
  Proof.
    induction d as [|y d IH]; intro H; [contradiction|]. cbn.
    destruct (h_id y =? h_id r0) eqn:E.
    - exists y. split; [reflexivity|apply Z.eqb_eq; exact E].
    - destruct H as [->|H]; [rewrite Z.eqb_refl in E; discriminate|]. apply IH. exact H.
  Qed.

  (* looking up the haplotype IDs derived from the current data always succeeds *)
  Lemma lookup_current d l :
    (forall r, In r l -> In r d) ->
    map_res (fun x => match hfind x d with Some r => Ok (h_id r) | None => Err E_Key end) (map h_id l)
    = Ok (map h_id l).
  Proof.
    induction l as [|r0 l IH]; intro H; cbn; [reflexivity|].
    destruct (hfind_in r0 d (H r0 (or_introl eq_refl))) as [r [E1 E2]].
    rewrite E1. cbn. rewrite IH by (intros r1 H1; apply H; right; exact H1). cbn. rewrite E2. reflexivity.
  Qed.

  Theorem hstep_refines o p :
    hvalid o ->
    match hm_step file false o p with
    | Ok (o', out) => ha_step file (ho_data o) p = Ok (ho_data o', out) /\ hvalid o'
    | Err k => ha_step file (ho_data o) p = Err k
    end.
  Proof.
    intro V. destruct p as [ids|ids inplace| | | ]; cbn [hm_step ha_step negb].
    - rewrite hindex_force. cbn. split; [reflexivity|right; reflexivity].
    - destruct inplace.
      + rewrite hindex_force. cbn. split; [reflexivity|right; reflexivity].
      + split; [reflexivity|exact V].
    - rewrite hindex_force. cbn. split; [reflexivity|right; reflexivity].
    - rewrite (hindex_valid false o V). cbn. split; [reflexivity|right; reflexivity].
    - rewrite (hindex_valid false o V). cbn [ho_data ho_tids type_ids_of fst].
      rewrite lookup_current by (intros r Hr; apply filter_In in Hr; apply Hr).
      cbn. split; [reflexivity|right; reflexivity].
  Qed.

  Theorem refines_haps ops : forall o,
    hvalid o -> hm_run file false o ops = ha_run file (ho_data o) ops.
  Proof.
    induction ops as [|p r IH]; intros o V; [reflexivity|].
    pose proof (hstep_refines o p V) as H. cbn [hm_run ha_run].
    destruct (hm_step file false o p) as [[o' out]|k] eqn:E.
    - destruct H as [HA V']. rewrite HA. f_equal. apply IH. exact V'.
    - rewrite H. reflexivity.
  Qed.
End HapsProofs.

(* ======================================================================== *)
(* the pinned tree's behaviour, refuted                                       *)

Definition f3 : gtab :=
  mkg [0; 1; 2] [gv 0 1 10; gv 1 1 12; gv 2 1 14]
      [[gc 0 1 1; gc 1 1 1; gc 0 0 1]; [gc 1 0 1; gc 0 0 1; gc 1 1 1]; [gc 1 1 1; gc 0 1 1; gc 1 0 1]]
      3 None.
Definition norare : unit -> Z -> Z -> bool := fun _ _ _ => false.
Definition stale_history : list (gop unit) :=
  [GRead None None; GSubset None (Some [1]) false; GRead None (Some [1; 2]);
   GSubset None (Some [1]) false; GSubset None (Some [0]) false].

Definition columns_of (x : res (gtab * out gtab gview)) : list Z :=
  match x with Ok (_, OCopy r) => map vid (g_variants r) | _ => [] end.

(* read(); subset(v1); read({v1,v2}); subset(v1) returned v2's column, and subset(v0)
   (no longer present) was resolved to v1; the repaired model returns v1 resp. nothing *)
Example legacy_stale_refuted :
  map columns_of (gm_run unit norare f3 false true stale_history) = [[]; [1]; []; [2]; [1]]
  /\ map columns_of (gm_run unit norare f3 false false stale_history) = [[]; [1]; []; [1]; []]
  /\ gm_run unit norare f3 false true stale_history <> ga_run unit norare f3 false true stale_history.
Proof. split; [|split]; [vm_compute; reflexivity|vm_compute; reflexivity|vm_compute; discriminate]. Qed.

Definition pf3 : ptab := mkp [0; 1; 2] [0; 1] [[1; 2]; [3; 5]; [7; 0]].

(* phenotypes: another sample's row, or IndexError *)
Example legacy_pheno_stale_refuted :
  pm_run pf3 true false [PRead None; PSubset (Some [1]) None false; PRead (Some [1; 2]); PSubset (Some [1]) None false]
  <> pa_run pf3 true false [PRead None; PSubset (Some [1]) None false; PRead (Some [1; 2]); PSubset (Some [1]) None false]
  /\ last (pm_run pf3 true false [PRead None; PIndex true false; PRead (Some [2]); PSubset (Some [2]) None false]) (Err 0)
     = Err E_Index.
Proof. split; [vm_compute; discriminate|vm_compute; reflexivity]. Qed.

Definition hf3 : list hrec :=
  [mkh 1 true 1 10 12 [0]; mkh 2 true 1 12 14 [1; 2]; mkh 11 false 1 10 14 []].

(* haplotypes: stale type_ids -> KeyError, or a haplotype silently left out *)
Example legacy_haps_stale_refuted :
  last (hm_run hf3 true h_init [HRead None; HRead (Some [2]); HTransform]) (Err 0) = Err E_Key
  /\ last (hm_run hf3 true h_init [HRead (Some [2]); HRead None; HTransform]) (Err 0)
     = Ok (hf3, HHaps [2])
  /\ last (hm_run hf3 false h_init [HRead (Some [2]); HRead None; HTransform]) (Err 0)
     = Ok (hf3, HHaps [1; 2]).
Proof. repeat split; vm_compute; reflexivity. Qed.

(* the precondition of refines_pheno is satisfiable, appends included *)
Example fresh_appends_example :
  fresh_appends pf3 p_empty [PRead None; PIndex true true; PAppend 5 [4; 4; 4]; PSubset None (Some [5]) false].
Proof.
  cbn [fresh_appends]. split; [exact I|]. intros t1 o1 E1. vm_compute in E1. injection E1 as <- <-.
  split; [exact I|]. intros t2 o2 E2. vm_compute in E2. injection E2 as <- <-.
  split; [cbn; intros [H|[H|[]]]; discriminate|]. intros t3 o3 E3. vm_compute in E3. injection E3 as <- <-.
  split; [exact I|]. intros t4 o4 E4. exact I.
Qed.

(* ======================================================================== *)
(* several objects (an object and the copies its subsets returned)           *)

Lemma nth_error_replace_same {A} (l : list A) n x :
  (n < length l)%nat -> nth_error (replace_nth n x l) n = Some x.
Proof.
  revert n. induction l as [|y r IH]; intros [|n] H; cbn in *; try lia; [reflexivity|].
  apply IH. lia.
Qed.

Lemma nth_error_replace_other {A} (l : list A) n j x :
  j <> n -> nth_error (replace_nth n x l) j = nth_error l j.
Proof.
  revert n j. induction l as [|y r IH]; intros [|n] [|j] H; cbn; try reflexivity; try congruence.
  apply IH. congruence.
Qed.

Lemma replace_nth_length {A} (l : list A) n x : length (replace_nth n x l) = length l.
Proof. revert n. induction l as [|y r IH]; intros [|n]; cbn; auto. Qed.

Lemma map_replace_nth {A B} (g : A -> B) (l : list A) n x :
  map g (replace_nth n x l) = replace_nth n (g x) (map g l).
Proof. revert n. induction l as [|y r IH]; intros [|n]; cbn; auto. rewrite IH. reflexivity. Qed.

Lemma Forall_replace_nth {A} (P : A -> Prop) (l : list A) n x :
  Forall P l -> P x -> Forall P (replace_nth n x l).
Proof.
  intros H Hx. revert n. induction H as [|y r Hy Hr IH]; intros [|n]; cbn; constructor; auto.
Qed.

Section PoolProofs.
  Variable tab : Type.
  Variable VT : Type.
  Variables ids1 ids2 : tab -> list Z.
  Variables sub1 sub2 : list Z -> list Z -> tab -> res tab.
  Variable merge : list tab -> res tab.
  Hypothesis sub1_ids2 : forall s r t t', sub1 s r t = Ok t' -> ids2 t' = ids2 t.
  Hypothesis sub2_ids1 : forall s r t t', sub2 s r t = Ok t' -> ids1 t' = ids1 t.

  Notation pool_m_step := (pool_m_step tab VT ids1 ids2 sub1 sub2 merge).
  Notation pool_a_step := (pool_a_step tab VT ids1 ids2 sub1 sub2 merge).
  Notation pool_m_run := (pool_m_run tab VT ids1 ids2 sub1 sub2 merge).
  Notation pool_a_run := (pool_a_run tab VT ids1 ids2 sub1 sub2 merge).
  Notation pool_m_runx := (pool_m_runx tab VT ids1 ids2 sub1 sub2 merge).
  Notation pool_a_runx := (pool_a_runx tab VT ids1 ids2 sub1 sub2 merge).
  Notation cache_valid := (cache_valid tab ids1 ids2).

  (* every mutator applied along the history declares its cache effect truthfully for the
     object it is applied to *)
  Fixpoint pool_ops_ok (ts : list tab) (f : nat) (ops : list (xop (op tab VT))) : Prop :=
    match ops with
    | [] => True
    | x :: r =>
        match x with
        | XOn p => match nth_error ts f with Some t => op_ok tab VT ids1 ids2 t p | None => True end
        | _ => True
        end
        /\ forall ts' f' out, pool_a_step ts f x = Ok (ts', f', out) -> pool_ops_ok ts' f' r
    end.

  Lemma pick_map {A B} (g : A -> B) (l : list A) ks : pick (map g l) ks = option_map (map g) (pick l ks).
  Proof.
    induction ks as [|k r IH]; cbn; [reflexivity|]. rewrite nth_error_map, IH.
    destruct (nth_error l k); cbn; [|reflexivity]. destruct (pick l r); reflexivity.
  Qed.

  Lemma new_objs_tabs (r : out tab VT) : map o_tab (new_objs tab VT r) = new_tabs tab VT r.
  Proof. destruct r; reflexivity. Qed.

  Lemma new_objs_valid (r : out tab VT) : Forall cache_valid (new_objs tab VT r).
  Proof. destruct r; cbn; constructor; [|constructor]. split; left; reflexivity. Qed.

  Definition focus_ok (objs : list (obj tab)) (f : nat) (x : xop (op tab VT)) : Prop :=
    match x with
    | XOn p => match nth_error objs f with Some o => op_ok tab VT ids1 ids2 (o_tab o) p | None => True end
    | _ => True
    end.

  Theorem pool_step_refines objs f x :
    Forall cache_valid objs ->
    focus_ok objs f x ->
    match pool_m_step objs f x with
    | Ok (objs', f', out) =>
        pool_a_step (map o_tab objs) f x = Ok (map o_tab objs', f', out) /\ Forall cache_valid objs'
    | Err k => pool_a_step (map o_tab objs) f x = Err k
    end.
  Proof.
    intros V OK. destruct x as [p|k|ks]; cbn [C12_Model.pool_m_step C12_Model.pool_a_step focus_ok] in *.
    - rewrite nth_error_map. destruct (nth_error objs f) as [o|] eqn:E; cbn [option_map]; [|reflexivity].
      assert (Vo : cache_valid o).
      { rewrite Forall_forall in V. apply V. eapply nth_error_In. exact E. }
      pose proof (step_refines tab VT ids1 ids2 sub1 sub2 sub1_ids2 sub2_ids1 o p Vo OK) as H.
      destruct (m_step tab VT ids1 ids2 sub1 sub2 o p) as [[o' out]|k] eqn:M; cbn [bind].
      + destruct H as [HA V']. rewrite HA. cbn [bind]. split.
        * rewrite map_app, map_replace_nth, new_objs_tabs. reflexivity.
        * apply Forall_app. split; [apply Forall_replace_nth; assumption|apply new_objs_valid].
      + rewrite H. reflexivity.
    - rewrite nth_error_map. destruct (nth_error objs k); cbn [option_map]; [|reflexivity].
      split; [reflexivity|exact V].
    - (* merge_variants: reads the tables, builds an object without caches *)
      rewrite pick_map. destruct (pick objs ks) as [os|]; cbn [option_map]; [|reflexivity].
      destruct (merge (map o_tab os)) as [t|k]; cbn [bind]; [|reflexivity].
      split; [rewrite map_app; reflexivity|].
      apply Forall_app. split; [exact V|]. constructor; [|constructor]. split; left; reflexivity.
  Qed.

  Lemma focus_ok_map objs f x :
    match x with
    | XOn p => match nth_error (map o_tab objs) f with Some t => op_ok tab VT ids1 ids2 t p | None => True end
    | _ => True
    end -> focus_ok objs f x.
  Proof.
    destruct x as [p|k|ks]; cbn; try (intros; exact I). rewrite nth_error_map.
    destruct (nth_error objs f); cbn; auto.
  Qed.

  Theorem pool_run_refines ops : forall objs f,
    Forall cache_valid objs -> pool_ops_ok (map o_tab objs) f ops ->
    pool_m_run objs f ops = pool_a_run (map o_tab objs) f ops.
  Proof.
    induction ops as [|x r IH]; intros objs f V OK; [reflexivity|].
    destruct OK as [OKx OKr].
    pose proof (pool_step_refines objs f x V (focus_ok_map objs f x OKx)) as H.
    cbn [C12_Model.pool_m_run C12_Model.pool_a_run].
    destruct (pool_m_step objs f x) as [[[objs' f'] out]|k] eqn:E.
    - destruct H as [HA V']. rewrite HA. rewrite nth_error_map.
      destruct (nth_error objs' f') as [o|]; cbn [option_map]; [|reflexivity].
      f_equal. apply IH; [exact V'|]. eapply OKr. exact HA.
    - rewrite H. reflexivity.
  Qed.

  (* ---- going on after a caught ValueError; index() as repaired ---- *)

  Fixpoint pool_ops_okx (ts : list tab) (f : nat) (ops : list (xop (op tab VT))) : Prop :=
    match ops with
    | [] => True
    | x :: r =>
        match x with
        | XOn p => match nth_error ts f with Some t => op_ok tab VT ids1 ids2 t p | None => True end
        | _ => True
        end
        /\ match pool_a_step ts f x with
           | Ok (ts', f', _) => pool_ops_okx ts' f' r
           | Err _ => pool_ops_okx ts f r
           end
    end.

  Lemma replace_nth_same {A} (l : list A) n x : nth_error l n = Some x -> replace_nth n x l = l.
  Proof.
    revert n. induction l as [|y r IH]; intros [|n] H; cbn in *; try discriminate.
    - injection H as ->. reflexivity.
    - rewrite IH by exact H. reflexivity.
  Qed.

  Lemma pool_fail_ok objs f x :
    Forall cache_valid objs ->
    Forall cache_valid (pool_fail tab VT ids1 ids2 true objs f x)
    /\ map o_tab (pool_fail tab VT ids1 ids2 true objs f x) = map o_tab objs.
  Proof.
    intro V. destruct x as [p|k|ks]; cbn [pool_fail]; [|split; [exact V|reflexivity]..].
    destruct (nth_error objs f) as [o|] eqn:E; [|split; [exact V|reflexivity]].
    assert (Vo : cache_valid o).
    { rewrite Forall_forall in V. apply V. eapply nth_error_In. exact E. }
    destruct (fail_obj_valid tab VT ids1 ids2 o p Vo) as [V' T']. split.
    - apply Forall_replace_nth; assumption.
    - rewrite map_replace_nth, T'. apply replace_nth_same. rewrite nth_error_map, E. reflexivity.
  Qed.

  Theorem pool_runx_refines ops : forall objs f,
    Forall cache_valid objs -> pool_ops_okx (map o_tab objs) f ops ->
    pool_m_runx true objs f ops = pool_a_runx (map o_tab objs) f ops.
  Proof.
    induction ops as [|x r IH]; intros objs f V OK; [reflexivity|].
    destruct OK as [OKx OKr].
    pose proof (pool_step_refines objs f x V (focus_ok_map objs f x OKx)) as H.
    cbn [C12_Model.pool_m_runx C12_Model.pool_a_runx].
    destruct (pool_m_step objs f x) as [[[objs' f'] out]|k] eqn:E.
    - destruct H as [HA V']. rewrite HA in *. rewrite nth_error_map.
      destruct (nth_error objs' f') as [o|]; cbn [option_map]; [|reflexivity].
      f_equal. apply IH; [exact V'|exact OKr].
    - rewrite H in *. f_equal. destruct (k =? E_Value); [|reflexivity].
      destruct (pool_fail_ok objs f x V) as [V' T']. rewrite <- T'. apply IH; [exact V'|].
      rewrite T'. exact OKr.
  Qed.

  Theorem pool_run_cut_runx heal ops : forall objs f,
    pool_m_run objs f ops = cut (pool_m_runx heal objs f ops).
  Proof.
    induction ops as [|x r IH]; intros objs f; [reflexivity|].
    cbn [C12_Model.pool_m_run C12_Model.pool_m_runx].
    destruct (pool_m_step objs f x) as [[[objs' f'] out]|k]; [|reflexivity].
    destruct (nth_error objs' f'); cbn [cut]; [f_equal; apply IH|reflexivity].
  Qed.

  (* non-interference: an operation on the object in focus leaves every other object -
     contents and caches - exactly as it was, so no by-ID query on another object can
     change its answer; and a copy starts with no cache at all *)
  Theorem pool_step_frame objs f p objs' f' out :
    pool_m_step objs f (XOn p) = Ok (objs', f', out) ->
    f' = f
    /\ (forall j, j <> f -> (j < length objs)%nat -> nth_error objs' j = nth_error objs j)
    /\ match out with
       | OCopy t => nth_error objs' (length objs) = Some (mko t None None)
                    /\ length objs' = S (length objs)
       | _ => length objs' = length objs
       end.
  Proof.
    cbn [C12_Model.pool_m_step]. destruct (nth_error objs f) as [o|] eqn:E; [|discriminate].
    destruct (m_step tab VT ids1 ids2 sub1 sub2 o p) as [[o' out0]|k]; cbn [bind]; [|discriminate].
    intro H. injection H as <- <- <-. split; [reflexivity|]. split.
    - intros j Hj Hl. rewrite nth_error_app1 by (rewrite replace_nth_length; exact Hl).
      apply nth_error_replace_other. exact Hj.
    - destruct out0 as [|t|v]; cbn [new_objs].
      + rewrite app_nil_r. apply replace_nth_length.
      + split.
        * rewrite nth_error_app2 by (rewrite replace_nth_length; lia).
          rewrite replace_nth_length, Nat.sub_diag. reflexivity.
        * rewrite app_length, replace_nth_length. cbn. lia.
      + rewrite app_nil_r. apply replace_nth_length.
  Qed.

  (* the same for an operation that raised: only the object in focus can have changed *)
  Theorem pool_fail_frame heal objs f x j :
    j <> f -> nth_error (pool_fail tab VT ids1 ids2 heal objs f x) j = nth_error objs j.
  Proof.
    intro Hj. destruct x as [p|k|ks]; cbn [pool_fail]; try reflexivity.
    destruct (nth_error objs f); [|reflexivity]. apply nth_error_replace_other. exact Hj.
  Qed.

  (* a merge changes none of the existing objects and returns an object without caches *)
  Theorem pool_merge_frame objs f ks objs' f' out :
    pool_m_step objs f (XMerge ks) = Ok (objs', f', out) ->
    f' = f /\ exists t, out = OCopy t /\ objs' = objs ++ [mko t None None].
  Proof.
    cbn [C12_Model.pool_m_step]. destruct (pick objs ks) as [os|]; [|discriminate].
    destruct (merge (map o_tab os)) as [t|k]; cbn [bind]; [|discriminate].
    intro H. injection H as <- <- <-. split; [reflexivity|]. exists t. auto.
  Qed.

  Theorem pool_switch_frame objs f k objs' f' out :
    pool_m_step objs f (XSwitch k) = Ok (objs', f', out) -> objs' = objs /\ f' = k /\ out = ONone.
  Proof.
    cbn [C12_Model.pool_m_step]. destruct (nth_error objs k); [|discriminate].
    intro H. injection H as <- <- <-. auto.
  Qed.

  Lemma pool_ops_ok_all ops :
    (forall t x p, In x ops -> x = XOn p -> op_ok tab VT ids1 ids2 t p) ->
    forall ts f, pool_ops_ok ts f ops.
  Proof.
    induction ops as [|x r IH]; intros H ts f; cbn; [exact I|]. split.
    - destruct x as [p|k|ks]; try exact I. destruct (nth_error ts f); [|exact I].
      eapply H; [left; reflexivity|reflexivity].
    - intros ts' f' out _. apply IH. intros t y p Hy. apply H. right. exact Hy.
  Qed.

  Lemma pool_ops_okx_all ops :
    (forall t x p, In x ops -> x = XOn p -> op_ok tab VT ids1 ids2 t p) ->
    forall ts f, pool_ops_okx ts f ops.
  Proof.
    induction ops as [|x r IH]; intros H ts f; cbn; [exact I|]. split.
    - destruct x as [p|k|ks]; try exact I. destruct (nth_error ts f); [|exact I].
      eapply H; [left; reflexivity|reflexivity].
    - assert (R : forall ts f, pool_ops_okx ts f r).
      { apply IH. intros t y p Hy. apply H. right. exact Hy. }
      destruct (pool_a_step ts f x) as [[[ts' f'] o]|k]; apply R.
  Qed.
End PoolProofs.

(* genotypes: every history over the object, its copies and merged objects, no precondition *)
Lemma g_pool_all_ok (T : Type) (rare : T -> Z -> Z -> bool) (file : gtab) (anc : bool) (ops : list (xop (gop T))) :
  forall t x p, In x (map (xmap (g_interp T rare file anc false)) ops) -> x = XOn p ->
                op_ok gtab gview g_ids1 g_ids2 t p.
Proof.
  intros t x p Hx ->. apply in_map_iff in Hx. destruct Hx as [y [Hy _]].
  destruct y as [q|k|ks]; cbn in Hy; try discriminate. injection Hy as <-. apply g_op_ok.
Qed.

Theorem refines_geno_pool (T : Type) (rare : T -> Z -> Z -> bool) (file : gtab) (anc : bool)
        (ops : list (xop (gop T))) :
  gm_prun T rare file anc false ops = ga_prun T rare file anc false ops.
Proof.
  unfold gm_prun, ga_prun.
  change [g_empty anc] with (map (@o_tab gtab) [g_init anc]).
  apply (pool_run_refines gtab gview g_ids1 g_ids2 g_sub1 g_sub2 g_merge g_sub1_ids2 g_sub2_ids1).
  - constructor; [split; left; reflexivity|constructor].
  - apply pool_ops_ok_all. apply g_pool_all_ok.
Qed.

(* ... and going on after every caught ValueError, once index() discards the dictionary in
   which it found duplicates *)
Theorem refines_geno_poolx (T : Type) (rare : T -> Z -> Z -> bool) (file : gtab) (anc : bool)
        (ops : list (xop (gop T))) :
  gm_prunx T rare file anc false true ops = ga_prunx T rare file anc false ops.
Proof.
  unfold gm_prunx, ga_prunx.
  change [g_empty anc] with (map (@o_tab gtab) [g_init anc]).
  apply (pool_runx_refines gtab gview g_ids1 g_ids2 g_sub1 g_sub2 g_merge g_sub1_ids2 g_sub2_ids1).
  - constructor; [split; left; reflexivity|constructor].
  - apply pool_ops_okx_all. apply g_pool_all_ok.
Qed.

(* the histories that stop at the first exception are prefixes of those, for the tree as it is too *)
Theorem geno_prun_cut (T : Type) (rare : T -> Z -> Z -> bool) (file : gtab) (anc legacy heal : bool)
        (ops : list (xop (gop T))) :
  gm_prun T rare file anc legacy ops = cut (gm_prunx T rare file anc legacy heal ops).
Proof. apply pool_run_cut_runx. Qed.

(* index() as it is in the tree: a file in which variant 0 occurs twice; the first by-ID subset
   raises ValueError (duplicate IDs) but leaves the dictionary behind, so the same call then
   answers - with the last of the two columns - where a fresh object raises again *)
Definition fdup : gtab :=
  mkg [0; 1] [gv 0 1 10; gv 1 1 12; gv 0 1 14]
      [[gc 0 1 1; gc 1 1 1; gc 0 0 1]; [gc 1 0 1; gc 0 0 1; gc 1 1 1]] 3 None.
Definition dup_history : list (xop (gop unit)) :=
  [XOn (GRead None None); XOn (GSubset None (Some [0]) false); XOn (GSubset None (Some [0]) false)].
Definition shown (x : res (gtab * out gtab gview)) : res (list Z) :=
  match x with
  | Ok (_, OCopy r) => Ok (map vpos (g_variants r))
  | Ok _ => Ok []
  | Err k => Err k
  end.

Example index_failure_poisons_refuted :
  map shown (gm_prunx unit norare fdup false false false dup_history) = [Ok []; Err E_Value; Ok [14]]
  /\ map shown (gm_prunx unit norare fdup false false true dup_history) = [Ok []; Err E_Value; Err E_Value]
  /\ map shown (ga_prunx unit norare fdup false false dup_history) = [Ok []; Err E_Value; Err E_Value].
Proof. repeat split; vm_compute; reflexivity. Qed.

(* phenotypes: append must be given a name the object IT IS APPLIED TO does not hold *)
Section PhenoPool.
  Variable file : ptab.

  Fixpoint fresh_appends_pool (ts : list ptab) (f : nat) (ops : list (xop pop)) : Prop :=
    match ops with
    | [] => True
    | x :: r =>
        match x with
        | XOn p => match nth_error ts f with Some t => p_pre t p | None => True end
        | _ => True
        end
        /\ forall ts' f' out,
             pool_a_step ptab unit p_ids1 p_ids2 p_sub1 p_sub2 p_merge ts f (xmap (p_interp file false false) x)
             = Ok (ts', f', out) ->
             fresh_appends_pool ts' f' r
    end.

  Lemma fresh_appends_pool_ok ops : forall ts f,
    fresh_appends_pool ts f ops ->
    pool_ops_ok ptab unit p_ids1 p_ids2 p_sub1 p_sub2 p_merge ts f (map (xmap (p_interp file false false)) ops).
  Proof.
    induction ops as [|x r IH]; intros ts f H; cbn; [exact I|]. destruct H as [Hx Hr]. split.
    - destruct x as [p|k|ks]; cbn; try exact I. destruct (nth_error ts f); [|exact I].
      apply p_op_ok. exact Hx.
    - intros ts' f' out E. apply IH. eapply Hr. exact E.
  Qed.

  Theorem refines_pheno_pool ops :
    fresh_appends_pool [p_empty] 0 ops -> pm_prun file false false ops = pa_prun file false false ops.
  Proof.
    intro H. unfold pm_prun, pa_prun.
    change [p_empty] with (map (@o_tab ptab) [p_init]).
    apply (pool_run_refines ptab unit p_ids1 p_ids2 p_sub1 p_sub2 p_merge p_sub1_ids2 p_sub2_ids1).
    - constructor; [split; left; reflexivity|constructor].
    - apply fresh_appends_pool_ok. exact H.
  Qed.

  (* the repaired append (the name index is discarded when the name is already there): every
     operation declares its effect truthfully, no precondition is left *)
  Lemma p_op_ok_fixed t p : op_ok ptab unit p_ids1 p_ids2 t (p_interp file false true p).
  Proof.
    destruct p as [ss|ss ns i|s n| |name col|]; cbn; try exact I.
    - intros t' a1 a2 H. injection H as <- <- <-. cbn. auto.
    - intros t' a1 a2 H.
      destruct (existsb (fun b => b) (map row_missing (p_rows t))); injection H as <- <- <-; cbn; auto.
    - intros t' a1 a2 H. destruct (Nat.eqb (length col) (length (p_rows t))); [|discriminate].
      injection H as <- <- <-. cbn. split; [reflexivity|].
      destruct (memZ name (p_names t)) eqn:E; cbn; [exact I|].
      split; [reflexivity|]. intro Hin. apply (proj2 (memZ_In _ _)) in Hin. unfold p_ids2 in Hin. congruence.
    - intros t' a1 a2 H.
      destruct (existsb (fun b => b) (map row_missing (p_rows t))); [discriminate|].
      injection H as <- <- <-. cbn. auto.
  Qed.

  Lemma p_pool_all_ok (ops : list (xop pop)) :
    forall t x p, In x (map (xmap (p_interp file false true)) ops) -> x = XOn p ->
                  op_ok ptab unit p_ids1 p_ids2 t p.
  Proof.
    intros t x p Hx ->. apply in_map_iff in Hx. destruct Hx as [y [Hy _]].
    destruct y as [q|k|ks]; cbn in Hy; try discriminate. injection Hy as <-. apply p_op_ok_fixed.
  Qed.

  Theorem refines_pheno_fixed ops : pm_run file false true ops = pa_run file false true ops.
  Proof.
    unfold pm_run, pa_run.
    apply (run_refines ptab unit p_ids1 p_ids2 p_sub1 p_sub2 p_sub1_ids2 p_sub2_ids1).
    - split; left; reflexivity.
    - apply ops_ok_all. intros t p Hp. apply in_map_iff in Hp. destruct Hp as [q [<- _]].
      apply p_op_ok_fixed.
  Qed.

  Theorem refines_pheno_pool_fixed ops : pm_prun file false true ops = pa_prun file false true ops.
  Proof.
    unfold pm_prun, pa_prun.
    change [p_empty] with (map (@o_tab ptab) [p_init]).
    apply (pool_run_refines ptab unit p_ids1 p_ids2 p_sub1 p_sub2 p_merge p_sub1_ids2 p_sub2_ids1).
    - constructor; [split; left; reflexivity|constructor].
    - apply pool_ops_ok_all. apply p_pool_all_ok.
  Qed.

  Theorem refines_pheno_poolx_fixed ops : pm_prunx file false true true ops = pa_prunx file false true ops.
  Proof.
    unfold pm_prunx, pa_prunx.
    change [p_empty] with (map (@o_tab ptab) [p_init]).
    apply (pool_runx_refines ptab unit p_ids1 p_ids2 p_sub1 p_sub2 p_merge p_sub1_ids2 p_sub2_ids1).
    - constructor; [split; left; reflexivity|constructor].
    - apply pool_ops_okx_all. apply p_pool_all_ok.
  Qed.

  Theorem pheno_prun_cut legacy fixapp heal ops :
    pm_prun file legacy fixapp ops = cut (pm_prunx file legacy fixapp heal ops).
  Proof. apply pool_run_cut_runx. Qed.
End PhenoPool.

(* the seeded sharing bug in the model's terms: parent indexed, copy taken, "sim" appended to the
   copy only; the parent reports "sim" (5) missing, the copy finds it *)
Example copies_do_not_share :
  map (fun x => match x with Ok (_, OCopy r) => p_names r | _ => [] end)
      (pm_prun pf3 false false [XOn (PRead None); XOn (PIndex true true); XOn (PSubset (Some [0; 2]) None false);
                          XSwitch 1; XOn (PAppend 5 [4; 4]); XOn (PSubset None (Some [5; 1]) false);
                          XSwitch 0; XOn (PSubset None (Some [5; 1]) false)])
  = [[]; []; [0; 1]; []; []; [5; 1]; []; [1]].
Proof. vm_compute. reflexivity. Qed.

(* append() as it is in the tree, given a name the object already holds (what PhenoSimulator.run
   does on every replicate): with the name index built the look-up answers with the new column,
   without it (and on a fresh object) the duplicate is reported; the repaired append agrees
   with the cache-free run *)
Definition pshown (x : res (ptab * out ptab unit)) : res (list (list Z)) :=
  match x with
  | Ok (_, OCopy r) => Ok (p_rows r)
  | Ok _ => Ok []
  | Err k => Err k
  end.
Definition app_history (build : bool) : list pop :=
  [PRead None; PIndex false build; PAppend 0 [4; 6; 8]; PSubset None (Some [0]) false].

Example append_present_refuted :
  map pshown (pm_run pf3 false false (app_history true)) = [Ok []; Ok []; Ok []; Ok [[4]; [6]; [8]]]
  /\ map pshown (pm_run pf3 false false (app_history false)) = [Ok []; Ok []; Ok []; Err E_Value]
  /\ map pshown (pa_run pf3 false false (app_history true)) = [Ok []; Ok []; Ok []; Err E_Value]
  /\ map pshown (pm_run pf3 false true (app_history true)) = [Ok []; Ok []; Ok []; Err E_Value].
Proof. repeat split; vm_compute; reflexivity. Qed.
