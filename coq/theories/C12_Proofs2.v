(* C12 - (1) what a by-ID subset on the CURRENT IDs returns (the specification the abstract steps
   embody): exactly the rows / columns bearing the requested IDs, in request order, absent IDs
   left out, never an exception on a well-shaped table; (2) haplotypes objects, their copies and
   merged objects: the refinement for histories that switch between them. *)
From HV Require Import Prelude GenoTable C13_Model C12_Model C12_Proofs.
Open Scope Z_scope.

(* ======================================================================== *)
(* (1) the specification of sub (current ids) req                             *)

Lemma lastpos_nth x l : forall n, lastpos x l = Some n -> nth_error l n = Some x.
Proof.
  induction l as [|y r IH]; cbn; intros n H; [discriminate|].
  destruct (lastpos x r) as [m|] eqn:E.
  - injection H as <-. cbn. apply IH. reflexivity.
  - destruct (x =? y) eqn:Exy; [|discriminate]. injection H as <-. apply Z.eqb_eq in Exy. subst. reflexivity.
Qed.

Lemma lastpos_in x l : In x l -> exists n, lastpos x l = Some n.
Proof.
  induction l as [|y r IH]; cbn; intro H; [contradiction|].
  destruct (lastpos x r) as [m|] eqn:E; [eauto|].
  destruct H as [->|H]; [rewrite Z.eqb_refl; eauto|]. destruct (IH H) as [n Hn]. discriminate.
Qed.

(* an ID the table does not hold is never among the IDs acted on; the others keep the order of the request *)
Lemma known_spec ids req x : In x (known ids req) <-> In x req /\ In x ids.
Proof. unfold known. rewrite filter_In, memZ_In. tauto. Qed.

Lemma known_is_filter ids req : known ids req = filter (fun x => memZ x ids) req.
Proof. reflexivity. Qed.

(* "y is what the table holds under the ID x" *)
Definition held_under {A} (ids : list Z) (l : list A) (x : Z) (y : A) : Prop :=
  exists i, nth_error ids i = Some x /\ nth_error l i = Some y.

(* with duplicate-free IDs there is one position per ID, so held_under is a function of x *)
Lemma held_under_unique {A} ids (l : list A) x y y' :
  NoDup ids -> held_under ids l x y -> held_under ids l x y' -> y = y'.
Proof.
  intros N [i [Hi Hy]] [j [Hj Hy']].
  assert (i = j).
  { apply (proj1 (NoDup_nth_error ids) N); [apply nth_error_Some; congruence|congruence]. }
  subst. congruence.
Qed.

Theorem select_current {A} ids (l : list A) : length l = length ids ->
  forall kept, (forall x, In x kept -> In x ids) ->
  exists out, select (where_ ids kept) l = Ok out /\ Forall2 (held_under ids l) kept out.
Proof.
  intros Hlen kept. induction kept as [|x r IH]; intro Hin; cbn.
  - exists []. split; [reflexivity|constructor].
  - destruct (lastpos_in x ids (Hin x (or_introl eq_refl))) as [n Hn]. rewrite Hn.
    pose proof (lastpos_nth x ids n Hn) as Hx.
    assert (Hlt : (n < length l)%nat) by (rewrite Hlen; apply nth_error_Some; congruence).
    destruct (nth_error l n) as [y|] eqn:Ey; [|apply nth_error_None in Ey; lia].
    destruct (IH (fun z Hz => Hin z (or_intror Hz))) as [out [Eo Fo]].
    unfold where_ in Eo. rewrite Eo. cbn. exists (y :: out). split; [reflexivity|].
    constructor; [exists n; auto|exact Fo].
Qed.

Corollary select_known {A} ids req (l : list A) : length l = length ids ->
  exists out, select (where_ ids (known ids req)) l = Ok out
              /\ Forall2 (held_under ids l) (known ids req) out.
Proof. intro H. apply select_current; [exact H|]. intros x Hx. apply known_spec in Hx. tauto. Qed.

Lemma map_res_select {A} ids kept (rows : list (list A)) :
  (forall r, In r rows -> length r = length ids) -> (forall x, In x kept -> In x ids) ->
  exists out, map_res (select (where_ ids kept)) rows = Ok out
              /\ Forall2 (fun r r' => Forall2 (held_under ids r) kept r') rows out.
Proof.
  intros Hrows Hin. induction rows as [|r rest IH]; cbn.
  - exists []. split; [reflexivity|constructor].
  - destruct (select_current ids r (Hrows r (or_introl eq_refl)) kept Hin) as [r' [E F]]. rewrite E. cbn.
    destruct (IH (fun z Hz => Hrows z (or_intror Hz))) as [out [Eo Fo]]. rewrite Eo. cbn.
    exists (r' :: out). split; [reflexivity|constructor; assumption].
Qed.

(* ---- phenotypes tables ---- *)

Definition p_shaped (t : ptab) : Prop :=
  length (p_rows t) = length (p_samples t) /\ forall r, In r (p_rows t) -> length r = length (p_names t).

Theorem p_sub1_current req t : p_shaped t ->
  exists rows, p_sub1 (p_samples t) req t = Ok (mkp (known (p_samples t) req) (p_names t) rows)
               /\ Forall2 (held_under (p_samples t) (p_rows t)) (known (p_samples t) req) rows.
Proof.
  intros [H1 _]. unfold p_sub1. destruct (select_known (p_samples t) req (p_rows t) H1) as [out [E F]].
  rewrite E. cbn. exists out. auto.
Qed.

Theorem p_sub2_current req t : p_shaped t ->
  exists rows, p_sub2 (p_names t) req t = Ok (mkp (p_samples t) (known (p_names t) req) rows)
               /\ Forall2 (fun r r' => Forall2 (held_under (p_names t) r) (known (p_names t) req) r') (p_rows t) rows.
Proof.
  intros [_ H2]. unfold p_sub2.
  destruct (map_res_select (p_names t) (known (p_names t) req) (p_rows t) H2) as [out [E F]].
  { intros x Hx. apply known_spec in Hx. tauto. }
  rewrite E. cbn. exists out. auto.
Qed.

(* ---- genotypes tables (the ancestry array of a GenotypesAncestry is subset alongside) ---- *)

Definition g_shaped (t : gtab) : Prop :=
  length (g_rows t) = length (g_samples t)
  /\ (forall r, In r (g_rows t) -> length r = length (g_variants t))
  /\ match g_anc t with
     | Some a => length a = length (g_samples t) /\ forall r, In r a -> length r = length (g_variants t)
     | None => True
     end.

Theorem g_sub1_current req t : g_shaped t ->
  exists rows anc,
    g_sub1 (g_ids1 t) req t = Ok (mkg (known (g_ids1 t) req) (g_variants t) rows (g_planes t) anc)
    /\ Forall2 (held_under (g_ids1 t) (g_rows t)) (known (g_ids1 t) req) rows
    /\ match g_anc t, anc with
       | Some a, Some a' => Forall2 (held_under (g_ids1 t) a) (known (g_ids1 t) req) a'
       | None, None => True
       | _, _ => False
       end.
Proof.
  intros [H1 [_ H3]]. unfold g_sub1, g_ids1 in *.
  destruct (select_known (g_samples t) req (g_rows t) H1) as [rows [E F]]. rewrite E. cbn.
  destruct (g_anc t) as [a|].
  - destruct H3 as [H3 _]. destruct (select_known (g_samples t) req a H3) as [a' [Ea Fa]]. rewrite Ea. cbn.
    exists rows, (Some a'). auto.
  - cbn. exists rows, None. auto.
Qed.

Theorem g_sub2_current req t : g_shaped t ->
  exists vs rows anc,
    g_sub2 (g_ids2 t) req t = Ok (mkg (g_samples t) vs rows (g_planes t) anc)
    /\ map vid vs = known (g_ids2 t) req
    /\ Forall2 (held_under (g_ids2 t) (g_variants t)) (known (g_ids2 t) req) vs
    /\ Forall2 (fun r r' => Forall2 (held_under (g_ids2 t) r) (known (g_ids2 t) req) r') (g_rows t) rows
    /\ match g_anc t, anc with
       | Some a, Some a' =>
           Forall2 (fun r r' => Forall2 (held_under (g_ids2 t) r) (known (g_ids2 t) req) r') a a'
       | None, None => True
       | _, _ => False
       end.
Proof.
  intros [_ [H2 H3]]. unfold g_sub2, g_ids2 in *.
  assert (Hk : forall x, In x (known (map vid (g_variants t)) req) -> In x (map vid (g_variants t))).
  { intros x Hx. apply known_spec in Hx. tauto. }
  assert (Hl : length (g_variants t) = length (map vid (g_variants t))) by (rewrite map_length; reflexivity).
  destruct (select_current (map vid (g_variants t)) (g_variants t) Hl _ Hk) as [vs [Ev Fv]]. rewrite Ev. cbn.
  destruct (map_res_select (map vid (g_variants t)) (known (map vid (g_variants t)) req) (g_rows t)) as [rows [Er Fr]];
    [intros r Hr; rewrite map_length; apply H2; exact Hr|exact Hk|]. rewrite Er. cbn.
  assert (Hvid : map vid vs = known (map vid (g_variants t)) req).
  { clear -Fv. induction Fv as [|x v kept vs [i [Hi Hv]] _ IH]; cbn; [reflexivity|]. f_equal; [|exact IH].
    rewrite nth_error_map, Hv in Hi. cbn in Hi. congruence. }
  destruct (g_anc t) as [a|].
  - destruct H3 as [_ H3].
    destruct (map_res_select (map vid (g_variants t)) (known (map vid (g_variants t)) req) a) as [a' [Ea Fa]];
      [intros r Hr; rewrite map_length; apply H3; exact Hr|exact Hk|]. rewrite Ea. cbn.
    exists vs, rows, (Some a'). auto 6.
  - cbn. exists vs, rows, None. auto 6.
Qed.

(* the premises are satisfiable *)
Example shaped_examples : g_shaped f3 /\ p_shaped pf3 /\ NoDup (g_ids2 f3) /\ NoDup (p_samples pf3).
Proof.
  split; [|split; [|split]].
  - split; [reflexivity|]. split; [|exact I]. cbn. intros r [<-|[<-|[<-|[]]]]; reflexivity.
  - split; [reflexivity|]. cbn. intros r [<-|[<-|[<-|[]]]]; reflexivity.
  - apply nodupZ_NoDup. reflexivity.
  - apply nodupZ_NoDup. reflexivity.
Qed.

(* ======================================================================== *)
(* (2) haplotypes objects, their copies and merged objects                    *)

Section HapsPool.
  Variable file : list hrec.

  Lemma h_new_data r : map ho_data (h_new r) = h_newd r.
  Proof. destruct r; reflexivity. Qed.

  Lemma h_new_valid r : Forall hvalid (h_new r).
  Proof. destruct r; cbn; constructor; [|constructor]. right. reflexivity. Qed.

  Theorem hp_step_refines objs f x :
    Forall hvalid objs ->
    match hp_m_step file false objs f x with
    | Ok (objs', f', out) =>
        hp_a_step file (map ho_data objs) f x = Ok (map ho_data objs', f', out) /\ Forall hvalid objs'
    | Err k => hp_a_step file (map ho_data objs) f x = Err k
    end.
  Proof.
    intro V. destruct x as [p|k|ks]; cbn [hp_m_step hp_a_step].
    - rewrite nth_error_map. destruct (nth_error objs f) as [o|] eqn:E; cbn [option_map]; [|reflexivity].
      assert (Vo : hvalid o).
      { rewrite Forall_forall in V. apply V. eapply nth_error_In. exact E. }
      pose proof (hstep_refines file o p Vo) as H.
      destruct (hm_step file false o p) as [[o' out]|k]; cbn [bind].
      + destruct H as [HA V']. rewrite HA. cbn [bind]. split.
        * rewrite map_app, map_replace_nth, h_new_data. reflexivity.
        * apply Forall_app. split; [apply Forall_replace_nth; assumption|apply h_new_valid].
      + rewrite H. reflexivity.
    - rewrite nth_error_map. destruct (nth_error objs k); cbn [option_map]; [|reflexivity].
      split; [reflexivity|exact V].
    - rewrite pick_map. destruct (pick objs ks) as [os|]; cbn [option_map]; [|reflexivity].
      destruct (h_merge (map ho_data os)) as [d|k]; cbn [bind]; [|reflexivity].
      split; [rewrite map_app; reflexivity|].
      apply Forall_app. split; [exact V|]. constructor; [right; reflexivity|constructor].
  Qed.

  Theorem refines_haps_pool ops : forall objs f,
    Forall hvalid objs -> hp_m_run file false objs f ops = hp_a_run file (map ho_data objs) f ops.
  Proof.
    induction ops as [|x r IH]; intros objs f V; [reflexivity|].
    pose proof (hp_step_refines objs f x V) as H. cbn [hp_m_run hp_a_run].
    destruct (hp_m_step file false objs f x) as [[[objs' f'] out]|k].
    - destruct H as [HA V']. rewrite HA, nth_error_map.
      destruct (nth_error objs' f'); cbn [option_map]; [|reflexivity]. f_equal. apply IH. exact V'.
    - rewrite H. f_equal. destruct (k =? E_Value); [apply IH; exact V|reflexivity].
  Qed.

  (* from the constructor state *)
  Corollary refines_haps_pool_init ops :
    hp_m_run file false [h_init] 0 ops = hp_a_run file [[]] 0 ops.
  Proof.
    change [[]] with (map ho_data [h_init]). apply refines_haps_pool.
    constructor; [left; reflexivity|constructor].
  Qed.

  (* no by-ID operation of such a history ever fails on a stale ID: the only exceptions are the
     ValueError of a merge of overlapping objects and a switch to an object that does not exist *)
  Theorem haps_pool_errors ops : forall ds f k,
    In (Err k) (hp_a_run file ds f ops) -> k = E_Value \/ k = E_Index.
  Proof.
    induction ops as [|x r IH]; intros ds f k H; [contradiction|]. cbn [hp_a_run] in H.
    destruct (hp_a_step file ds f x) as [[[ds' f'] out]|k0] eqn:E.
    - destruct (nth_error ds' f').
      + destruct H as [H|H]; [discriminate|]. eapply IH. exact H.
      + destruct H as [H|[]]. injection H as <-. right. reflexivity.
    - assert (K : k0 = E_Value \/ k0 = E_Index).
      { destruct x as [p|j|ks]; cbn [hp_a_step] in E.
        - destruct (nth_error ds f) as [d|]; [|injection E as <-; auto].
          destruct p as [ids|ids [|]| | | ]; cbn in E; discriminate.
        - destruct (nth_error ds j); [discriminate|injection E as <-; auto].
        - destruct (pick ds ks) as [l|]; [|injection E as <-; auto].
          unfold h_merge in E. destruct (nodupZ (map h_id (concat l))); cbn in E; [discriminate|].
          injection E as <-. auto. }
      destruct H as [H|H]; [injection H as <-; exact K|].
      destruct (k0 =? E_Value); [eapply IH; exact H|contradiction].
  Qed.
End HapsPool.

(* a copy keeps answering from its own contents after its parent was re-read, and a merged object
   is transformed with the haplotypes of both sources *)
Example haps_pool_example :
  map (fun x => match x with Ok (_, HHaps l) => Ok l | Ok _ => Ok [] | Err k => Err k end)
      (hp_m_run hf3 false [h_init] 0
         [HXOn (HRead None); HXOn (HSubset [2] false); HXOn (HSubset [1; 11] true); HXOn HTransform;
          HXSwitch 1; HXOn HTransform; HXMerge [0%nat; 1%nat]; HXMerge [0%nat; 0%nat]; HXSwitch 2; HXOn HTransform])
  = [Ok []; Ok []; Ok []; Ok [1]; Ok []; Ok [2]; Ok []; Err E_Value; Ok []; Ok [1; 2]].
Proof. vm_compute. reflexivity. Qed.
