(* C12 - property theorems only.  Concrete (M) and abstract (A) steps: C12_Model.v. *)
From HV Require Import Prelude GenoTable C13_Model C13_Check C12_Model C12_Proofs C12_Check C12_Sound.

(* ---- generic: any object with two ID indexes whose mutators declare their effect on
        the caches truthfully ---- *)

Theorem C12_cache_valid_step :
  forall (tab : Type) (ids1 ids2 : tab -> list Z) (sub1 sub2 : list Z -> list Z -> tab -> res tab),
  (forall s r t t', sub1 s r t = Ok t' -> ids2 t' = ids2 t) ->
  (forall s r t t', sub2 s r t = Ok t' -> ids1 t' = ids1 t) ->
  forall o p o' out,
  cache_valid tab ids1 ids2 o -> op_ok tab ids1 ids2 (o_tab o) p ->
  m_step tab ids1 ids2 sub1 sub2 o p = Ok (o', out) -> cache_valid tab ids1 ids2 o'.
Proof. exact cache_valid_step. Qed.
Print Assumptions C12_cache_valid_step.

Theorem C12_step_refines :
  forall (tab : Type) (ids1 ids2 : tab -> list Z) (sub1 sub2 : list Z -> list Z -> tab -> res tab),
  (forall s r t t', sub1 s r t = Ok t' -> ids2 t' = ids2 t) ->
  (forall s r t t', sub2 s r t = Ok t' -> ids1 t' = ids1 t) ->
  forall o p,
  cache_valid tab ids1 ids2 o -> op_ok tab ids1 ids2 (o_tab o) p ->
  match m_step tab ids1 ids2 sub1 sub2 o p with
  | Ok (o', out) => a_step tab ids1 ids2 sub1 sub2 (o_tab o) p = Ok (o_tab o', out)
                    /\ cache_valid tab ids1 ids2 o'
  | Err k => a_step tab ids1 ids2 sub1 sub2 (o_tab o) p = Err k
  end.
Proof. exact step_refines. Qed.
Print Assumptions C12_step_refines.

Theorem C12_run_refines :
  forall (tab : Type) (ids1 ids2 : tab -> list Z) (sub1 sub2 : list Z -> list Z -> tab -> res tab),
  (forall s r t t', sub1 s r t = Ok t' -> ids2 t' = ids2 t) ->
  (forall s r t t', sub2 s r t = Ok t' -> ids1 t' = ids1 t) ->
  forall ops o,
  cache_valid tab ids1 ids2 o -> ops_ok tab ids1 ids2 sub1 sub2 (o_tab o) ops ->
  m_run tab ids1 ids2 sub1 sub2 o ops = a_run tab ids1 ids2 sub1 sub2 (o_tab o) ops.
Proof. exact run_refines. Qed.
Print Assumptions C12_run_refines.

(* ---- genotypes objects: every history (read all|subset, subset in place|copy, index,
        check_missing / check_biallelic / check_maf with discard, read again, ...), every
        by-ID query, every file, every MAF predicate; no precondition ---- *)

Theorem C12_refines_geno :
  forall (T : Type) (rare : T -> Z -> Z -> bool) (file : gtab) (anc : bool) (ops : list (gop T)),
  gm_run T rare file anc false ops = ga_run T rare file anc false ops.
Proof. exact refines_geno. Qed.
Print Assumptions C12_refines_geno.

Theorem C12_geno_cache_valid :
  forall (T : Type) (rare : T -> Z -> Z -> bool) (file : gtab) (anc : bool) o p o' out,
  cache_valid gtab g_ids1 g_ids2 o ->
  m_step gtab g_ids1 g_ids2 g_sub1 g_sub2 o (g_interp T rare file anc false p) = Ok (o', out) ->
  cache_valid gtab g_ids1 g_ids2 o'.
Proof. exact geno_cache_valid_step. Qed.
Print Assumptions C12_geno_cache_valid.

(* ---- phenotypes / covariates: every history in which append() is given a new name ---- *)

Theorem C12_refines_pheno :
  forall (file : ptab) (ops : list pop),
  fresh_appends file p_empty ops -> pm_run file false ops = pa_run file false ops.
Proof. exact refines_pheno. Qed.
Print Assumptions C12_refines_pheno.

Theorem C12_refines_pheno_no_append :
  forall (file : ptab) (ops : list pop),
  Forall no_append ops -> pm_run file false ops = pa_run file false ops.
Proof. exact refines_pheno_no_append. Qed.
Print Assumptions C12_refines_pheno_no_append.

Theorem C12_fresh_appends_satisfiable :
  fresh_appends pf3 p_empty [PRead None; PIndex true true; PAppend 5 [4; 4; 4]; PSubset None (Some [5]) false].
Proof. exact fresh_appends_example. Qed.
Print Assumptions C12_fresh_appends_satisfiable.

(* ---- haplotypes: every history from any object whose type_ids are absent or current ---- *)

Theorem C12_refines_haps :
  forall (file : list hrec) (ops : list hop) (o : hobj),
  hvalid o -> hm_run file false o ops = ha_run file (ho_data o) ops.
Proof. exact refines_haps. Qed.
Print Assumptions C12_refines_haps.

Theorem C12_haps_step_refines :
  forall (file : list hrec) o p,
  hvalid o ->
  match hm_step file false o p with
  | Ok (o', out) => ha_step file (ho_data o) p = Ok (ho_data o', out) /\ hvalid o'
  | Err k => ha_step file (ho_data o) p = Err k
  end.
Proof. exact hstep_refines. Qed.
Print Assumptions C12_haps_step_refines.

(* ---- the pinned tree ---- *)

Theorem C12_legacy_stale_refuted :
  map columns_of (gm_run unit norare f3 false true stale_history) = [[]; [1]; []; [2]; [1]]
  /\ map columns_of (gm_run unit norare f3 false false stale_history) = [[]; [1]; []; [1]; []]
  /\ gm_run unit norare f3 false true stale_history <> ga_run unit norare f3 false true stale_history.
Proof. exact legacy_stale_refuted. Qed.
Print Assumptions C12_legacy_stale_refuted.

Theorem C12_legacy_pheno_stale_refuted :
  pm_run pf3 true [PRead None; PSubset (Some [1]) None false; PRead (Some [1; 2]); PSubset (Some [1]) None false]
  <> pa_run pf3 true [PRead None; PSubset (Some [1]) None false; PRead (Some [1; 2]); PSubset (Some [1]) None false]
  /\ last (pm_run pf3 true [PRead None; PIndex true false; PRead (Some [2]); PSubset (Some [2]) None false]) (Err 0)
     = Err E_Index.
Proof. exact legacy_pheno_stale_refuted. Qed.
Print Assumptions C12_legacy_pheno_stale_refuted.

Theorem C12_legacy_haps_stale_refuted :
  last (hm_run hf3 true h_init [HRead None; HRead (Some [2]); HTransform]) (Err 0) = Err E_Key
  /\ last (hm_run hf3 true h_init [HRead (Some [2]); HRead None; HTransform]) (Err 0)
     = Ok (hf3, HHaps [2])
  /\ last (hm_run hf3 false h_init [HRead (Some [2]); HRead None; HTransform]) (Err 0)
     = Ok (hf3, HHaps [1; 2]).
Proof. exact legacy_haps_stale_refuted. Qed.
Print Assumptions C12_legacy_haps_stale_refuted.

(* ---- soundness of the boolean checker evaluated on the implementation ---- *)

Theorem C12_holds_fresh_sound :
  forall (O : Type) (e : O -> O -> bool) (steps : list (O * option O)),
  (forall a b, e a b = true -> a = b) ->
  holds_fresh e steps = true ->
  Forall (fun s => match snd s with Some f => fst s = f | None => True end) steps.
Proof. exact @holds_fresh_sound. Qed.
Print Assumptions C12_holds_fresh_sound.

Theorem C12_gobs_eqb_sound : forall a b, gobs_eqb a b = true -> a = b.
Proof. exact gobs_eqb_true. Qed.
Print Assumptions C12_gobs_eqb_sound.

Theorem C12_pobs_eqb_sound : forall a b, pobs_eqb a b = true -> a = b.
Proof. exact pobs_eqb_true. Qed.
Print Assumptions C12_pobs_eqb_sound.

Theorem C12_hobs_eqb_sound : forall a b, hobs_eqb a b = true -> a = b.
Proof. exact hobs_eqb_true. Qed.
Print Assumptions C12_hobs_eqb_sound.

(* ---- an object AND the copies its subsets return: histories that go on with any of them ---- *)

Theorem C12_pool_run_refines :
  forall (tab : Type) (ids1 ids2 : tab -> list Z) (sub1 sub2 : list Z -> list Z -> tab -> res tab),
  (forall s r t t', sub1 s r t = Ok t' -> ids2 t' = ids2 t) ->
  (forall s r t t', sub2 s r t = Ok t' -> ids1 t' = ids1 t) ->
  forall ops objs f,
  Forall (cache_valid tab ids1 ids2) objs ->
  pool_ops_ok tab ids1 ids2 sub1 sub2 (map (@o_tab tab) objs) f ops ->
  pool_m_run tab ids1 ids2 sub1 sub2 objs f ops
  = pool_a_run tab ids1 ids2 sub1 sub2 (map (@o_tab tab) objs) f ops.
Proof. exact pool_run_refines. Qed.
Print Assumptions C12_pool_run_refines.

(* non-interference: an operation on one object changes no other object (contents or caches),
   and a returned copy starts without caches *)
Theorem C12_pool_step_frame :
  forall (tab : Type) (ids1 ids2 : tab -> list Z) (sub1 sub2 : list Z -> list Z -> tab -> res tab)
         objs f p objs' f' out,
  pool_m_step tab ids1 ids2 sub1 sub2 objs f (XOn p) = Ok (objs', f', out) ->
  f' = f
  /\ (forall j, j <> f -> (j < length objs)%nat -> nth_error objs' j = nth_error objs j)
  /\ match out with
     | Some t => nth_error objs' (length objs) = Some (mko t None None)
                 /\ length objs' = S (length objs)
     | None => length objs' = length objs
     end.
Proof. exact pool_step_frame. Qed.
Print Assumptions C12_pool_step_frame.

Theorem C12_refines_geno_pool :
  forall (T : Type) (rare : T -> Z -> Z -> bool) (file : gtab) (anc : bool) (ops : list (xop (gop T))),
  gm_prun T rare file anc false ops = ga_prun T rare file anc false ops.
Proof. exact refines_geno_pool. Qed.
Print Assumptions C12_refines_geno_pool.

Theorem C12_refines_pheno_pool :
  forall (file : ptab) (ops : list (xop pop)),
  fresh_appends_pool file [p_empty] 0 ops -> pm_prun file false ops = pa_prun file false ops.
Proof. exact refines_pheno_pool. Qed.
Print Assumptions C12_refines_pheno_pool.

Theorem C12_copies_do_not_share :
  map (fun x => match x with Ok (_, Some r) => p_names r | _ => [] end)
      (pm_prun pf3 false [XOn (PRead None); XOn (PIndex true true); XOn (PSubset (Some [0; 2]) None false);
                          XSwitch 1; XOn (PAppend 5 [4; 4]); XOn (PSubset None (Some [5; 1]) false);
                          XSwitch 0; XOn (PSubset None (Some [5; 1]) false)])
  = [[]; []; [0; 1]; []; []; [5; 1]; []; [1]].
Proof. exact copies_do_not_share. Qed.
Print Assumptions C12_copies_do_not_share.
