(* C12 - property theorems only.  Concrete (M) and abstract (A) steps: C12_Model.v. *)
From HV Require Import Prelude GenoTable C13_Model C13_Check C12_Model C12_Proofs C12_Proofs2 C12_Check C12_Sound.

(* ---- generic: any object with two ID indexes whose mutators declare their effect on
        the caches truthfully ---- *)

Theorem C12_cache_valid_step :
  forall (tab V : Type) (ids1 ids2 : tab -> list Z) (sub1 sub2 : list Z -> list Z -> tab -> res tab),
  (forall s r t t', sub1 s r t = Ok t' -> ids2 t' = ids2 t) ->
  (forall s r t t', sub2 s r t = Ok t' -> ids1 t' = ids1 t) ->
  forall o p o' out,
  cache_valid tab ids1 ids2 o -> op_ok tab V ids1 ids2 (o_tab o) p ->
  m_step tab V ids1 ids2 sub1 sub2 o p = Ok (o', out) -> cache_valid tab ids1 ids2 o'.
Proof. exact cache_valid_step. Qed.
Print Assumptions C12_cache_valid_step.

Theorem C12_step_refines :
  forall (tab V : Type) (ids1 ids2 : tab -> list Z) (sub1 sub2 : list Z -> list Z -> tab -> res tab),
  (forall s r t t', sub1 s r t = Ok t' -> ids2 t' = ids2 t) ->
  (forall s r t t', sub2 s r t = Ok t' -> ids1 t' = ids1 t) ->
  forall o p,
  cache_valid tab ids1 ids2 o -> op_ok tab V ids1 ids2 (o_tab o) p ->
  match m_step tab V ids1 ids2 sub1 sub2 o p with
  | Ok (o', out) => a_step tab V ids1 ids2 sub1 sub2 (o_tab o) p = Ok (o_tab o', out)
                    /\ cache_valid tab ids1 ids2 o'
  | Err k => a_step tab V ids1 ids2 sub1 sub2 (o_tab o) p = Err k
  end.
Proof. exact step_refines. Qed.
Print Assumptions C12_step_refines.

Theorem C12_run_refines :
  forall (tab V : Type) (ids1 ids2 : tab -> list Z) (sub1 sub2 : list Z -> list Z -> tab -> res tab),
  (forall s r t t', sub1 s r t = Ok t' -> ids2 t' = ids2 t) ->
  (forall s r t t', sub2 s r t = Ok t' -> ids1 t' = ids1 t) ->
  forall ops o,
  cache_valid tab ids1 ids2 o -> ops_ok tab V ids1 ids2 sub1 sub2 (o_tab o) ops ->
  m_run tab V ids1 ids2 sub1 sub2 o ops = a_run tab V ids1 ids2 sub1 sub2 (o_tab o) ops.
Proof. exact run_refines. Qed.
Print Assumptions C12_run_refines.

(* ---- genotypes objects: every history (read all|subset, subset in place|copy, index,
        check_missing / check_biallelic / check_maf with discard, read again, ...), every
        by-ID query, every file, every MAF predicate; no precondition ---- *)

Theorem C12_refines_geno :
  forall (T : Type) (rare : T -> Z -> Z -> bool) (file : gtab) (anc : bool) (ops : list (gop T)),
  gm_run T rare file anc false ops = ga_run T rare file anc false ops.
Proof. exact refines_geno. Qed.
Print Assumptions C12_refines_geno.

Theorem C12_geno_cache_valid :
  forall (T : Type) (rare : T -> Z -> Z -> bool) (file : gtab) (anc : bool) o p o' out,
  cache_valid gtab g_ids1 g_ids2 o ->
  m_step gtab gview g_ids1 g_ids2 g_sub1 g_sub2 o (g_interp T rare file anc false p) = Ok (o', out) ->
  cache_valid gtab g_ids1 g_ids2 o'.
Proof. exact geno_cache_valid_step. Qed.
Print Assumptions C12_geno_cache_valid.

(* ---- phenotypes / covariates: every history in which append() is given a new name ---- *)

Theorem C12_refines_pheno :
  forall (file : ptab) (ops : list pop),
  fresh_appends file p_empty ops -> pm_run file false false ops = pa_run file false false ops.
Proof. exact refines_pheno. Qed.
Print Assumptions C12_refines_pheno.

Theorem C12_refines_pheno_no_append :
  forall (file : ptab) (ops : list pop),
  Forall no_append ops -> pm_run file false false ops = pa_run file false false ops.
Proof. exact refines_pheno_no_append. Qed.
Print Assumptions C12_refines_pheno_no_append.

Theorem C12_fresh_appends_satisfiable :
  fresh_appends pf3 p_empty [PRead None; PIndex true true; PAppend 5 [4; 4; 4]; PSubset None (Some [5]) false].
Proof. exact fresh_appends_example. Qed.
Print Assumptions C12_fresh_appends_satisfiable.

(* ---- haplotypes: every history from any object whose type_ids are absent or current ---- *)

Theorem C12_refines_haps :
  forall (file : list hrec) (ops : list hop) (o : hobj),
  hvalid o -> hm_run file false o ops = ha_run file (ho_data o) ops.
Proof. exact refines_haps. Qed.
Print Assumptions C12_refines_haps.

Theorem C12_haps_step_refines :
  forall (file : list hrec) o p,
  hvalid o ->
  match hm_step file false o p with
  | Ok (o', out) => ha_step file (ho_data o) p = Ok (ho_data o', out) /\ hvalid o'
  | Err k => ha_step file (ho_data o) p = Err k
  end.
Proof. exact hstep_refines. Qed.
Print Assumptions C12_haps_step_refines.

(* ---- the pinned tree ---- *)

Theorem C12_legacy_stale_refuted :
  map columns_of (gm_run unit norare f3 false true stale_history) = [[]; [1]; []; [2]; [1]]
  /\ map columns_of (gm_run unit norare f3 false false stale_history) = [[]; [1]; []; [1]; []]
  /\ gm_run unit norare f3 false true stale_history <> ga_run unit norare f3 false true stale_history.
Proof. exact legacy_stale_refuted. Qed.
Print Assumptions C12_legacy_stale_refuted.

Theorem C12_legacy_pheno_stale_refuted :
  pm_run pf3 true false [PRead None; PSubset (Some [1]) None false; PRead (Some [1; 2]); PSubset (Some [1]) None false]
  <> pa_run pf3 true false [PRead None; PSubset (Some [1]) None false; PRead (Some [1; 2]); PSubset (Some [1]) None false]
  /\ last (pm_run pf3 true false [PRead None; PIndex true false; PRead (Some [2]); PSubset (Some [2]) None false]) (Err 0)
     = Err E_Index.
Proof. exact legacy_pheno_stale_refuted. Qed.
Print Assumptions C12_legacy_pheno_stale_refuted.

Theorem C12_legacy_haps_stale_refuted :
  last (hm_run hf3 true h_init [HRead None; HRead (Some [2]); HTransform]) (Err 0) = Err E_Key
  /\ last (hm_run hf3 true h_init [HRead (Some [2]); HRead None; HTransform]) (Err 0)
     = Ok (hf3, HHaps [2])
  /\ last (hm_run hf3 false h_init [HRead (Some [2]); HRead None; HTransform]) (Err 0)
     = Ok (hf3, HHaps [1; 2]).
Proof. exact legacy_haps_stale_refuted. Qed.
Print Assumptions C12_legacy_haps_stale_refuted.

(* ---- soundness of the boolean checker evaluated on the implementation ---- *)

Theorem C12_holds_fresh_sound :
  forall (O : Type) (e : O -> O -> bool) (steps : list (O * option O)),
  (forall a b, e a b = true -> a = b) ->
  holds_fresh e steps = true ->
  Forall (fun s => match snd s with Some f => fst s = f | None => True end) steps.
Proof. exact @holds_fresh_sound. Qed.
Print Assumptions C12_holds_fresh_sound.

(* second clause of [holds] (session 5): a read-only by-ID query answered on contents [t] is the
   answer a search of the IDs of [t] gives; for PhenoSimulator.run: the columns bearing the
   requested IDs, in the order requested (beta k stays with the column named k) *)
Theorem C12_holds_view_sound :
  forall (T : Type) (rare : T -> Z -> Z -> bool) file anc legacy steps,
  holds_view_gen rare file anc legacy steps = true ->
  forall p t r fr t' r',
    In (XOn p, GO t r, fr) steps -> r <> ONone ->
    a_step gtab gview g_ids1 g_ids2 g_sub1 g_sub2 t (g_interp T rare file anc legacy p) = Ok (t', r') ->
    r = r'.
Proof. exact @holds_view_sound. Qed.
Print Assumptions C12_holds_view_sound.

Theorem C12_holds_view_sim :
  forall (T : Type) (rare : T -> Z -> Z -> bool) file anc legacy steps,
  holds_view_gen rare file anc legacy steps = true ->
  forall ids t v fr,
    In (XOn (GSim ids), GO t (OView v), fr) steps ->
    nodupZ (g_ids2 t) = true ->
    forall t2, g_sub2 (g_ids2 t) ids t = Ok t2 -> v = sim_view t2.
Proof. exact @holds_view_sim. Qed.
Print Assumptions C12_holds_view_sim.

Theorem C12_gobs_eqb_sound : forall a b, gobs_eqb a b = true -> a = b.
Proof. exact gobs_eqb_true. Qed.
Print Assumptions C12_gobs_eqb_sound.

Theorem C12_pobs_eqb_sound : forall a b, pobs_eqb a b = true -> a = b.
Proof. exact pobs_eqb_true. Qed.
Print Assumptions C12_pobs_eqb_sound.

Theorem C12_hobs_eqb_sound : forall a b, hobs_eqb a b = true -> a = b.
Proof. exact hobs_eqb_true. Qed.
Print Assumptions C12_hobs_eqb_sound.

(* ---- an object AND the copies its subsets return: histories that go on with any of them ---- *)

Theorem C12_pool_run_refines :
  forall (tab V : Type) (ids1 ids2 : tab -> list Z) (sub1 sub2 : list Z -> list Z -> tab -> res tab),
  (forall s r t t', sub1 s r t = Ok t' -> ids2 t' = ids2 t) ->
  (forall s r t t', sub2 s r t = Ok t' -> ids1 t' = ids1 t) ->
  forall (merge : list tab -> res tab) ops objs f,
  Forall (cache_valid tab ids1 ids2) objs ->
  pool_ops_ok tab V ids1 ids2 sub1 sub2 merge (map (@o_tab tab) objs) f ops ->
  pool_m_run tab V ids1 ids2 sub1 sub2 merge objs f ops
  = pool_a_run tab V ids1 ids2 sub1 sub2 merge (map (@o_tab tab) objs) f ops.
Proof. intros tab V ids1 ids2 sub1 sub2 H1 H2 merge. exact (pool_run_refines tab V ids1 ids2 sub1 sub2 merge H1 H2). Qed.
Print Assumptions C12_pool_run_refines.

(* non-interference: an operation on one object changes no other object (contents or caches),
   and a returned copy starts without caches *)
Theorem C12_pool_step_frame :
  forall (tab V : Type) (ids1 ids2 : tab -> list Z) (sub1 sub2 : list Z -> list Z -> tab -> res tab)
         (merge : list tab -> res tab) objs f p objs' f' out,
  pool_m_step tab V ids1 ids2 sub1 sub2 merge objs f (XOn p) = Ok (objs', f', out) ->
  f' = f
  /\ (forall j, j <> f -> (j < length objs)%nat -> nth_error objs' j = nth_error objs j)
  /\ match out with
     | OCopy t => nth_error objs' (length objs) = Some (mko t None None)
                  /\ length objs' = S (length objs)
     | _ => length objs' = length objs
     end.
Proof. exact pool_step_frame. Qed.
Print Assumptions C12_pool_step_frame.

Theorem C12_refines_geno_pool :
  forall (T : Type) (rare : T -> Z -> Z -> bool) (file : gtab) (anc : bool) (ops : list (xop (gop T))),
  gm_prun T rare file anc false ops = ga_prun T rare file anc false ops.
Proof. exact refines_geno_pool. Qed.
Print Assumptions C12_refines_geno_pool.

Theorem C12_refines_pheno_pool :
  forall (file : ptab) (ops : list (xop pop)),
  fresh_appends_pool file [p_empty] 0 ops -> pm_prun file false false ops = pa_prun file false false ops.
Proof. exact refines_pheno_pool. Qed.
Print Assumptions C12_refines_pheno_pool.

Theorem C12_copies_do_not_share :
  map (fun x => match x with Ok (_, OCopy r) => p_names r | _ => [] end)
      (pm_prun pf3 false false [XOn (PRead None); XOn (PIndex true true); XOn (PSubset (Some [0; 2]) None false);
                          XSwitch 1; XOn (PAppend 5 [4; 4]); XOn (PSubset None (Some [5; 1]) false);
                          XSwitch 0; XOn (PSubset None (Some [5; 1]) false)])
  = [[]; []; [0; 1]; []; []; [5; 1]; []; [1]].
Proof. exact copies_do_not_share. Qed.
Print Assumptions C12_copies_do_not_share.

(* ======================================================================== *)
(* added: the specification of a by-ID subset, read-only queries, merges, histories that go on
   after a caught exception, haplotypes copies and merges                                    *)

(* ---- what sub (current IDs) req returns: exactly the rows / columns held under the requested
        IDs, in request order, absent IDs left out; never an exception on a well-shaped table ---- *)

Theorem C12_requested_ids_acted_on :
  forall ids req x, In x (known ids req) <-> In x req /\ In x ids.
Proof. exact known_spec. Qed.
Print Assumptions C12_requested_ids_acted_on.

Theorem C12_request_order_kept :
  forall ids req, known ids req = filter (fun x => memZ x ids) req.
Proof. exact known_is_filter. Qed.
Print Assumptions C12_request_order_kept.

Theorem C12_select_current :
  forall (A : Type) ids req (l : list A), length l = length ids ->
  exists out, select (where_ ids (known ids req)) l = Ok out
              /\ Forall2 (held_under ids l) (known ids req) out.
Proof. exact @select_known. Qed.
Print Assumptions C12_select_current.

Theorem C12_one_row_per_id :
  forall (A : Type) ids (l : list A) x y y',
  NoDup ids -> held_under ids l x y -> held_under ids l x y' -> y = y'.
Proof. exact @held_under_unique. Qed.
Print Assumptions C12_one_row_per_id.

Theorem C12_pheno_subset_samples_spec :
  forall req t, p_shaped t ->
  exists rows, p_sub1 (p_samples t) req t = Ok (mkp (known (p_samples t) req) (p_names t) rows)
               /\ Forall2 (held_under (p_samples t) (p_rows t)) (known (p_samples t) req) rows.
Proof. exact p_sub1_current. Qed.
Print Assumptions C12_pheno_subset_samples_spec.

Theorem C12_pheno_subset_names_spec :
  forall req t, p_shaped t ->
  exists rows, p_sub2 (p_names t) req t = Ok (mkp (p_samples t) (known (p_names t) req) rows)
               /\ Forall2 (fun r r' => Forall2 (held_under (p_names t) r) (known (p_names t) req) r') (p_rows t) rows.
Proof. exact p_sub2_current. Qed.
Print Assumptions C12_pheno_subset_names_spec.

Theorem C12_geno_subset_samples_spec :
  forall req t, g_shaped t ->
  exists rows anc,
    g_sub1 (g_ids1 t) req t = Ok (mkg (known (g_ids1 t) req) (g_variants t) rows (g_planes t) anc)
    /\ Forall2 (held_under (g_ids1 t) (g_rows t)) (known (g_ids1 t) req) rows
    /\ match g_anc t, anc with
       | Some a, Some a' => Forall2 (held_under (g_ids1 t) a) (known (g_ids1 t) req) a'
       | None, None => True
       | _, _ => False
       end.
Proof. exact g_sub1_current. Qed.
Print Assumptions C12_geno_subset_samples_spec.

Theorem C12_geno_subset_variants_spec :
  forall req t, g_shaped t ->
  exists vs rows anc,
    g_sub2 (g_ids2 t) req t = Ok (mkg (g_samples t) vs rows (g_planes t) anc)
    /\ map vid vs = known (g_ids2 t) req
    /\ Forall2 (held_under (g_ids2 t) (g_variants t)) (known (g_ids2 t) req) vs
    /\ Forall2 (fun r r' => Forall2 (held_under (g_ids2 t) r) (known (g_ids2 t) req) r') (g_rows t) rows
    /\ match g_anc t, anc with
       | Some a, Some a' =>
           Forall2 (fun r r' => Forall2 (held_under (g_ids2 t) r) (known (g_ids2 t) req) r') a a'
       | None, None => True
       | _, _ => False
       end.
Proof. exact g_sub2_current. Qed.
Print Assumptions C12_geno_subset_variants_spec.

Theorem C12_shaped_satisfiable : g_shaped f3 /\ p_shaped pf3 /\ NoDup (g_ids2 f3) /\ NoDup (p_samples pf3).
Proof. exact shaped_examples. Qed.
Print Assumptions C12_shaped_satisfiable.

(* ---- histories that go on after a caught ValueError (index() discarding the dictionary in which
        it found duplicates): generic step and run, pools with merges, genotypes, phenotypes ---- *)

Theorem C12_stepx_refines :
  forall (tab V : Type) (ids1 ids2 : tab -> list Z) (sub1 sub2 : list Z -> list Z -> tab -> res tab),
  (forall s r t t', sub1 s r t = Ok t' -> ids2 t' = ids2 t) ->
  (forall s r t t', sub2 s r t = Ok t' -> ids1 t' = ids1 t) ->
  forall o p,
  cache_valid tab ids1 ids2 o -> op_ok tab V ids1 ids2 (o_tab o) p ->
  a_stepx tab V ids1 ids2 sub1 sub2 (o_tab o) p
  = (o_tab (fst (m_stepx tab V ids1 ids2 sub1 sub2 true o p)), snd (m_stepx tab V ids1 ids2 sub1 sub2 true o p))
  /\ cache_valid tab ids1 ids2 (fst (m_stepx tab V ids1 ids2 sub1 sub2 true o p)).
Proof. exact stepx_refines. Qed.
Print Assumptions C12_stepx_refines.

Theorem C12_runx_refines :
  forall (tab V : Type) (ids1 ids2 : tab -> list Z) (sub1 sub2 : list Z -> list Z -> tab -> res tab),
  (forall s r t t', sub1 s r t = Ok t' -> ids2 t' = ids2 t) ->
  (forall s r t t', sub2 s r t = Ok t' -> ids1 t' = ids1 t) ->
  forall ops o,
  cache_valid tab ids1 ids2 o -> ops_okx tab V ids1 ids2 sub1 sub2 (o_tab o) ops ->
  m_runx tab V ids1 ids2 sub1 sub2 true o ops = a_runx tab V ids1 ids2 sub1 sub2 (o_tab o) ops.
Proof. exact runx_refines. Qed.
Print Assumptions C12_runx_refines.

Theorem C12_pool_runx_refines :
  forall (tab V : Type) (ids1 ids2 : tab -> list Z) (sub1 sub2 : list Z -> list Z -> tab -> res tab)
         (merge : list tab -> res tab),
  (forall s r t t', sub1 s r t = Ok t' -> ids2 t' = ids2 t) ->
  (forall s r t t', sub2 s r t = Ok t' -> ids1 t' = ids1 t) ->
  forall ops objs f,
  Forall (cache_valid tab ids1 ids2) objs ->
  pool_ops_okx tab V ids1 ids2 sub1 sub2 merge (map (@o_tab tab) objs) f ops ->
  pool_m_runx tab V ids1 ids2 sub1 sub2 merge true objs f ops
  = pool_a_runx tab V ids1 ids2 sub1 sub2 merge (map (@o_tab tab) objs) f ops.
Proof. exact pool_runx_refines. Qed.
Print Assumptions C12_pool_runx_refines.

(* the history that stops at the first exception is the beginning of the one that goes on *)
Theorem C12_pool_run_is_cut :
  forall (tab V : Type) (ids1 ids2 : tab -> list Z) (sub1 sub2 : list Z -> list Z -> tab -> res tab)
         (merge : list tab -> res tab) heal ops objs f,
  pool_m_run tab V ids1 ids2 sub1 sub2 merge objs f ops
  = cut (pool_m_runx tab V ids1 ids2 sub1 sub2 merge heal objs f ops).
Proof. exact pool_run_cut_runx. Qed.
Print Assumptions C12_pool_run_is_cut.

(* a merge and a failed operation change no other object; a merged object starts without caches *)
Theorem C12_pool_merge_frame :
  forall (tab V : Type) (ids1 ids2 : tab -> list Z) (sub1 sub2 : list Z -> list Z -> tab -> res tab)
         (merge : list tab -> res tab) objs f ks objs' f' out,
  pool_m_step tab V ids1 ids2 sub1 sub2 merge objs f (XMerge ks) = Ok (objs', f', out) ->
  f' = f /\ exists t, out = OCopy t /\ objs' = objs ++ [mko t None None].
Proof. exact pool_merge_frame. Qed.
Print Assumptions C12_pool_merge_frame.

Theorem C12_pool_fail_frame :
  forall (tab V : Type) (ids1 ids2 : tab -> list Z) heal objs f (x : xop (op tab V)) j,
  j <> f -> nth_error (pool_fail tab V ids1 ids2 heal objs f x) j = nth_error objs j.
Proof. exact pool_fail_frame. Qed.
Print Assumptions C12_pool_fail_frame.

(* genotypes: read, subset, index, the three checks with and without discard, check_sorted,
   PhenoSimulator.run, Haplotypes.transform, merge_variants, on the object, its copies and the
   merged objects, going on after every ValueError; no precondition *)
Theorem C12_refines_geno_poolx :
  forall (T : Type) (rare : T -> Z -> Z -> bool) (file : gtab) (anc : bool) (ops : list (xop (gop T))),
  gm_prunx T rare file anc false true ops = ga_prunx T rare file anc false ops.
Proof. exact refines_geno_poolx. Qed.
Print Assumptions C12_refines_geno_poolx.

Theorem C12_geno_prun_is_cut :
  forall (T : Type) (rare : T -> Z -> Z -> bool) (file : gtab) (anc legacy heal : bool) (ops : list (xop (gop T))),
  gm_prun T rare file anc legacy ops = cut (gm_prunx T rare file anc legacy heal ops).
Proof. exact geno_prun_cut. Qed.
Print Assumptions C12_geno_prun_is_cut.

(* index() as it is in the tree: after the ValueError the same look-up answers (with the last of
   the two columns bearing the ID) where a fresh object raises again *)
Theorem C12_index_failure_poisons_refuted :
  map shown (gm_prunx unit norare fdup false false false dup_history) = [Ok []; Err E_Value; Ok [14]]
  /\ map shown (gm_prunx unit norare fdup false false true dup_history) = [Ok []; Err E_Value; Err E_Value]
  /\ map shown (ga_prunx unit norare fdup false false dup_history) = [Ok []; Err E_Value; Err E_Value].
Proof. exact index_failure_poisons_refuted. Qed.
Print Assumptions C12_index_failure_poisons_refuted.

(* phenotypes with the repaired append: no precondition on the appended names *)
Theorem C12_refines_pheno_fixed :
  forall (file : ptab) (ops : list pop), pm_run file false true ops = pa_run file false true ops.
Proof. exact refines_pheno_fixed. Qed.
Print Assumptions C12_refines_pheno_fixed.

Theorem C12_refines_pheno_pool_fixed :
  forall (file : ptab) (ops : list (xop pop)), pm_prun file false true ops = pa_prun file false true ops.
Proof. exact refines_pheno_pool_fixed. Qed.
Print Assumptions C12_refines_pheno_pool_fixed.

Theorem C12_refines_pheno_poolx_fixed :
  forall (file : ptab) (ops : list (xop pop)), pm_prunx file false true true ops = pa_prunx file false true ops.
Proof. exact refines_pheno_poolx_fixed. Qed.
Print Assumptions C12_refines_pheno_poolx_fixed.

Theorem C12_pheno_prun_is_cut :
  forall (file : ptab) legacy fixapp heal (ops : list (xop pop)),
  pm_prun file legacy fixapp ops = cut (pm_prunx file legacy fixapp heal ops).
Proof. exact pheno_prun_cut. Qed.
Print Assumptions C12_pheno_prun_is_cut.

(* append() as it is in the tree, given a name the object already holds *)
Theorem C12_append_present_refuted :
  map pshown (pm_run pf3 false false (app_history true)) = [Ok []; Ok []; Ok []; Ok [[4]; [6]; [8]]]
  /\ map pshown (pm_run pf3 false false (app_history false)) = [Ok []; Ok []; Ok []; Err E_Value]
  /\ map pshown (pa_run pf3 false false (app_history true)) = [Ok []; Ok []; Ok []; Err E_Value]
  /\ map pshown (pm_run pf3 false true (app_history true)) = [Ok []; Ok []; Ok []; Err E_Value].
Proof. exact append_present_refuted. Qed.
Print Assumptions C12_append_present_refuted.

(* ---- haplotypes: the object, the copies its subsets return and the objects merge builds ---- *)

Theorem C12_refines_haps_pool :
  forall (file : list hrec) (ops : list hxop) (objs : list hobj) (f : nat),
  Forall hvalid objs -> hp_m_run file false objs f ops = hp_a_run file (map ho_data objs) f ops.
Proof. exact refines_haps_pool. Qed.
Print Assumptions C12_refines_haps_pool.

Theorem C12_refines_haps_pool_init :
  forall (file : list hrec) (ops : list hxop),
  hp_m_run file false [h_init] 0 ops = hp_a_run file [[]] 0 ops.
Proof. exact refines_haps_pool_init. Qed.
Print Assumptions C12_refines_haps_pool_init.

Theorem C12_haps_pool_errors :
  forall (file : list hrec) (ops : list hxop) ds f k,
  In (Err k) (hp_a_run file ds f ops) -> k = E_Value \/ k = E_Index.
Proof. exact haps_pool_errors. Qed.
Print Assumptions C12_haps_pool_errors.

Theorem C12_haps_pool_example :
  map (fun x => match x with Ok (_, HHaps l) => Ok l | Ok _ => Ok [] | Err k => Err k end)
      (hp_m_run hf3 false [h_init] 0
         [HXOn (HRead None); HXOn (HSubset [2] false); HXOn (HSubset [1; 11] true); HXOn HTransform;
          HXSwitch 1; HXOn HTransform; HXMerge [0%nat; 1%nat]; HXMerge [0%nat; 0%nat]; HXSwitch 2; HXOn HTransform])
  = [Ok []; Ok []; Ok []; Ok [1]; Ok []; Ok [2]; Ok []; Err E_Value; Ok []; Ok [1; 2]].
Proof. exact haps_pool_example. Qed.
Print Assumptions C12_haps_pool_example.

Theorem C12_gview_eqb_sound : forall a b, gview_eqb a b = true -> a = b.
Proof. exact gview_eqb_true. Qed.
Print Assumptions C12_gview_eqb_sound.
