(* C12 - soundness of the boolean checker: [holds_fresh] true means that, at every step where a
   fresh object was consulted, the history object showed literally the same thing. *)
From HV Require Import Prelude GenoTable C13_Model C13_Check C13_Sound C12_Model C12_Check.
Open Scope Z_scope.

Lemma holds_fresh_sound {O} (e : O -> O -> bool) (steps : list (O * option O)) :
  (forall a b, e a b = true -> a = b) ->
  holds_fresh e steps = true ->
  Forall (fun s => match snd s with Some f => fst s = f | None => True end) steps.
Proof.
  intros He H. unfold holds_fresh in H. rewrite forallb_forall in H. apply Forall_forall.
  intros s Hs. specialize (H s Hs). destruct (snd s); [apply He; exact H|exact I].
Qed.

Lemma opt_gtab_eqb_true a b : opt_eqb gtab_eqb a b = true -> a = b.
Proof. apply (opt_eqb_spec gtab_eqb gtab_eqb_true). Qed.

Lemma out_eqb_true {tab V} (et : tab -> tab -> bool) (ev : V -> V -> bool) :
  (forall x y, et x y = true -> x = y) -> (forall x y, ev x y = true -> x = y) ->
  forall a b, out_eqb et ev a b = true -> a = b.
Proof.
  intros Ht Hv a b. destruct a, b; cbn; try discriminate; intro H.
  - reflexivity.
  - f_equal. apply Ht. exact H.
  - f_equal. apply Hv. exact H.
Qed.

Lemma gview_eqb_true a b : gview_eqb a b = true -> a = b.
Proof.
  destruct a as [i p|r], b as [i' p'|r']; cbn; try discriminate; intro H.
  - apply andb_true_iff in H. destruct H as [H1 H2].
    apply (list_eqb_spec Z.eqb Z.eqb_eq) in H1. apply (list_eqb_spec Z.eqb Z.eqb_eq) in H2. subst. reflexivity.
  - apply (opt_eqb_spec _ (list_eqb_spec Z.eqb Z.eqb_eq)) in H. subst. reflexivity.
Qed.

Lemma gobs_eqb_true a b : gobs_eqb a b = true -> a = b.
Proof.
  destruct a as [t r|k], b as [t' r'|k']; cbn; try discriminate.
  - intro H. apply andb_true_iff in H. destruct H as [H1 H2].
    apply gtab_eqb_true in H1. apply (out_eqb_true gtab_eqb gview_eqb (fun x y E => proj1 (gtab_eqb_true x y) E) gview_eqb_true) in H2.
    subst. reflexivity.
  - intro H. apply Z.eqb_eq in H. subst. reflexivity.
Qed.

Lemma ptab_eqb_true a b : ptab_eqb a b = true <-> a = b.
Proof.
  destruct a as [s n r], b as [s' n' r']. unfold ptab_eqb; cbn.
  rewrite !andb_true_iff.
  rewrite !(list_eqb_spec Z.eqb Z.eqb_eq).
  rewrite (list_eqb_spec _ (list_eqb_spec Z.eqb Z.eqb_eq)).
  split; [intros [[-> ->] ->]; reflexivity|intro H; inversion H; auto].
Qed.

Lemma pobs_eqb_true a b : pobs_eqb a b = true -> a = b.
Proof.
  destruct a as [t r|k], b as [t' r'|k']; cbn; try discriminate.
  - intro H. apply andb_true_iff in H. destruct H as [H1 H2].
    apply ptab_eqb_true in H1.
    apply (out_eqb_true ptab_eqb (fun _ _ : unit => true)) in H2;
      [subst; reflexivity|intros x y E; apply ptab_eqb_true; exact E|intros [] [] _; reflexivity].
  - intro H. apply Z.eqb_eq in H. subst. reflexivity.
Qed.

Lemma hrec_eqb_true a b : hrec_eqb a b = true <-> a = b.
Proof.
  destruct a as [i k c s e v], b as [i' k' c' s' e' v']. unfold hrec_eqb; cbn.
  rewrite !andb_true_iff, !Z.eqb_eq, Bool.eqb_true_iff, (list_eqb_spec Z.eqb Z.eqb_eq).
  split; [intros [[[[[-> ->] ->] ->] ->] ->]; reflexivity|intro H; inversion H; auto 10].
Qed.

Lemma hobs_eqb_true a b : hobs_eqb a b = true -> a = b.
Proof.
  destruct a as [d r|k], b as [d' r'|k']; cbn; try discriminate.
  - intro H. apply andb_true_iff in H. destruct H as [H1 H2].
    apply (list_eqb_spec hrec_eqb hrec_eqb_true) in H1. subst. f_equal.
    destruct r, r'; cbn in H2; try discriminate; try reflexivity.
    + apply (list_eqb_spec hrec_eqb hrec_eqb_true) in H2. subst. reflexivity.
    + apply (list_eqb_spec Z.eqb Z.eqb_eq) in H2. subst. reflexivity.
  - intro H. apply Z.eqb_eq in H. subst. reflexivity.
Qed.

(* [holds_view] true means: at every step at which the implementation answered a read-only by-ID
   query (PhenoSimulator.run, Haplotypes.transform) on contents [t], and a search of the IDs of
   [t] itself answers it (no duplicates among them), the implementation's answer is that answer.
   For PhenoSimulator.run this names the columns: the answer is [sim_view] of the columns of [t]
   bearing the requested IDs, in the order requested.  Stated for every threshold type [T]
   ([holds_view k] is the instance T = float, rare = rareF, by definition). *)
Lemma holds_view_sound {T} (rare : T -> Z -> Z -> bool) file anc legacy steps :
  holds_view_gen rare file anc legacy steps = true ->
  forall p t r fr t' r',
    In (XOn p, GO t r, fr) steps -> r <> ONone ->
    a_step gtab gview g_ids1 g_ids2 g_sub1 g_sub2 t (g_interp T rare file anc legacy p) = Ok (t', r') ->
    r = r'.
Proof.
  intros H p t r fr t' r' Hin Hr Ha. unfold holds_view_gen in H. rewrite forallb_forall in H.
  specialize (H _ Hin). unfold view_ok_gen in H. rewrite Ha in H.
  destruct r as [|c|v]; [contradiction| |];
    apply (out_eqb_true gtab_eqb gview_eqb (fun x y => proj1 (gtab_eqb_true x y)) gview_eqb_true); exact H.
Qed.

Lemma holds_view_sim {T} (rare : T -> Z -> Z -> bool) file anc legacy steps :
  holds_view_gen rare file anc legacy steps = true ->
  forall ids t v fr,
    In (XOn (GSim ids), GO t (OView v), fr) steps ->
    nodupZ (g_ids2 t) = true ->
    forall t2, g_sub2 (g_ids2 t) ids t = Ok t2 -> v = sim_view t2.
Proof.
  intros H ids t v fr Hin Hnd t2 Hs.
  assert (E : OView v = OView (sim_view t2) :> out gtab gview); [|inversion E; reflexivity].
  apply (holds_view_sound rare file anc legacy steps H (GSim ids) t (OView v) fr t (OView (sim_view t2)) Hin);
    [discriminate|].
  unfold g_interp, a_step, chk. cbn [is_some andb bind]. rewrite Hnd. cbn [negb bind]. rewrite Hs. reflexivity.
Qed.
