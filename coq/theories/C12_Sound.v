(* C12 - soundness of the boolean checker: [holds_fresh] true means that, at every step where a
   fresh object was consulted, the history object showed literally the same thing. *)
From HV Require Import Prelude GenoTable C13_Model C13_Check C13_Sound C12_Model C12_Check.
Open Scope Z_scope.

Lemma holds_fresh_sound {O} (e : O -> O -> bool) (steps : list (O * option O)) :
  (forall a b, e a b = true -> a = b) ->
  holds_fresh e steps = true ->
  Forall (fun s => match snd s with Some f => fst s = f | None => True end) steps.
Proof.
  intros He H. unfold holds_fresh in H. rewrite forallb_forall in H. apply Forall_forall.
  intros s Hs. specialize (H s Hs). destruct (snd s); [apply He; exact H|exact I].
Qed.

Lemma opt_gtab_eqb_true a b : opt_eqb gtab_eqb a b = true -> a = b.
Proof. apply (opt_eqb_spec gtab_eqb gtab_eqb_true). Qed.

Lemma out_eqb_true {tab V} (et : tab -> tab -> bool) (ev : V -> V -> bool) :
  (forall x y, et x y = true -> x = y) -> (forall x y, ev x y = true -> x = y) ->
  forall a b, out_eqb et ev a b = true -> a = b.
Proof.
  intros Ht Hv a b. destruct a, b; cbn; try discriminate; intro H.
  - reflexivity.
  - f_equal. apply Ht. exact H.
  - f_equal. apply Hv. exact H.
Qed.

Lemma gview_eqb_true a b : gview_eqb a b = true -> a = b.
Proof.
  destruct a as [i p|r], b as [i' p'|r']; cbn; try discriminate; intro H.
  - apply andb_true_iff in H. destruct H as [H1 H2].
    apply (list_eqb_spec Z.eqb Z.eqb_eq) in H1. apply (list_eqb_spec Z.eqb Z.eqb_eq) in H2. subst. reflexivity.
  - apply (opt_eqb_spec _ (list_eqb_spec Z.eqb Z.eqb_eq)) in H. subst. reflexivity.
Qed.

Lemma gobs_eqb_true a b : gobs_eqb a b = true -> a = b.
Proof.
  destruct a as [t r|k], b as [t' r'|k']; cbn; try discriminate.
  - intro H. apply andb_true_iff in H. destruct H as [H1 H2].
    apply gtab_eqb_true in H1. apply (out_eqb_true gtab_eqb gview_eqb (fun x y E => proj1 (gtab_eqb_true x y) E) gview_eqb_true) in H2.
    subst. reflexivity.
  - intro H. apply Z.eqb_eq in H. subst. reflexivity.
Qed.

Lemma ptab_eqb_true a b : ptab_eqb a b = true <-> a = b.
Proof.
  destruct a as [s n r], b as [s' n' r']. unfold ptab_eqb; cbn.
  rewrite !andb_true_iff.
  rewrite !(list_eqb_spec Z.eqb Z.eqb_eq).
  rewrite (list_eqb_spec _ (list_eqb_spec Z.eqb Z.eqb_eq)).
  split; [intros [[-> ->] ->]; reflexivity|intro H; inversion H; auto].
Qed.

Lemma pobs_eqb_true a b : pobs_eqb a b = true -> a = b.
Proof.
  destruct a as [t r|k], b as [t' r'|k']; cbn; try discriminate.
  - intro H. apply andb_true_iff in H. destruct H as [H1 H2].
    apply ptab_eqb_true in H1.
    apply (out_eqb_true ptab_eqb (fun _ _ : unit => true)) in H2;
      [subst; reflexivity|intros x y E; apply ptab_eqb_true; exact E|intros [] [] _; reflexivity].
  - intro H. apply Z.eqb_eq in H. subst. reflexivity.
Qed.

Lemma hrec_eqb_true a b : hrec_eqb a b = true <-> a = b.
Proof.
  destruct a as [i k c s e v], b as [i' k' c' s' e' v']. unfold hrec_eqb; cbn.
  rewrite !andb_true_iff, !Z.eqb_eq, Bool.eqb_true_iff, (list_eqb_spec Z.eqb Z.eqb_eq).
  split; [intros [[[[[-> ->] ->] ->] ->] ->]; reflexivity|intro H; inversion H; auto 10].
Qed.

Lemma hobs_eqb_true a b : hobs_eqb a b = true -> a = b.
Proof.
  destruct a as [d r|k], b as [d' r'|k']; cbn; try discriminate.
  - intro H. apply andb_true_iff in H. destruct H as [H1 H2].
    apply (list_eqb_spec hrec_eqb hrec_eqb_true) in H1. subst. f_equal.
    destruct r, r'; cbn in H2; try discriminate; try reflexivity.
    + apply (list_eqb_spec hrec_eqb hrec_eqb_true) in H2. subst. reflexivity.
    + apply (list_eqb_spec Z.eqb Z.eqb_eq) in H2. subst. reflexivity.
  - intro H. apply Z.eqb_eq in H. subst. reflexivity.
Qed.
