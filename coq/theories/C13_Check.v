(* C13 - case type and boolean checkers for the correspondence run.
   A case = an initial object (class flag + arrays) and a list of QC calls with what the
   implementation did at each (returned / raised naming (sample, variant) / anything else)
   and the object's contents afterwards.
   [agree]: the model, run from the initial object, predicts every observation exactly
            (first offender in row-major order, exact IEEE MAF values and comparisons).
   [holds]: each observation satisfies the property's clause for that call relative to the
            *observed* contents before the call; independent of the model's search order
            and lenient exactly where the property is silent (254 in an ancestry object,
            missing values seen by the biallelic/phase checks, a MAF within 1e-9 of the
            threshold, zero samples).  Sample and variant IDs may repeat (a VCF whose ID column
            is '.' everywhere): offenders and survivors are identified by position, never by ID.
   A second case type ([fcase], relation files) is a history on ONE object that read()s real
   files: read / check / read again / check ...; see the end of this file. *)
From Coq Require Import QArith PrimFloat Uint63 FloatOps SpecFloat.
From HV Require Import Prelude GenoTable C13_Model.
Open Scope Z_scope.

(* ---- IEEE doubles --------------------------------------------------------- *)

Definition fofZ (k : Z) : float := PrimFloat.of_uint63 (Uint63.of_Z k).
(* maf = np.array([f, 1-f]).min(axis=0), f = k / (2n) in float64 *)
Definition mafF (k n : Z) : float :=
  let f := (fofZ k / fofZ (2 * n))%float in
  let g := (1 - f)%float in
  if PrimFloat.ltb g f then g else f.
Definition rareF (thr : float) (k n : Z) : bool := PrimFloat.ltb (mafF k n) thr.

(* exact value of a finite double; None for nan/inf *)
Definition float_to_Q (f : float) : option Q :=
  match Prim2SF f with
  | S754_zero _ => Some 0%Q
  | S754_finite s m e =>
      let num := if s then Z.neg m else Z.pos m in
      Some (if 0 <=? e then Qmake (num * 2 ^ e) 1 else Qmake num (Z.to_pos (2 ^ (- e))))
  | _ => None
  end.

Definition optQ_eqb (a b : option Q) : bool :=
  match a, b with
  | Some x, Some y => Qeq_bool x y
  | None, None => true
  | _, _ => false
  end.

(* ---- cases ---------------------------------------------------------------- *)

Inductive qop :=
| OpMissing (discard : bool)
| OpBiallelic (discard : bool)
| OpPhase
| OpMaf (thr : option float) (discard warn : bool)
| OpSorted.

Inductive qobs :=
| ORet (t : gtab) (maf : list (option Q))   (* returned; contents afterwards; check_maf's return value *)
| ORaise (s v : option Z) (t : gtab)        (* ValueError naming s / v; contents afterwards *)
| OOther (k : Z).                           (* any other exception kind (97 = not observed) *)

Record qcase := mkq {
  q_anc : bool;                (* GenotypesAncestry *)
  q_legacy : bool;             (* always false from the harness; used by the refuted examples *)
  q_init : gtab;
  q_steps : list (qop * qobs)
}.

(* ---- model run ------------------------------------------------------------ *)

Definition model_step (legacy anc : bool) (t : gtab) (op : qop) : qout * list (option Q) :=
  match op with
  | OpMissing d => (check_missing anc d t, [])
  | OpBiallelic d => (check_biallelic d t, [])
  | OpPhase => (check_phase legacy t, [])
  | OpSorted => (check_sorted t, [])
  | OpMaf None _ _ =>
      (QOk t, map (fun k => float_to_Q (mafF k (lenZ (g_rows t)))) (col_counts t))
  | OpMaf (Some th) d w =>
      let r := check_maf (rareF th) (negb legacy) d w t in
      (r, match r with
          | QOk _ => map (fun k => float_to_Q (mafF k (lenZ (g_rows t)))) (maf_ret (rareF th) d t)
          | _ => []
          end)
  end.

Definition agree_step (t : gtab) (m : qout * list (option Q)) (o : qobs) : bool :=
  match m, o with
  | (QOk t', mf), ORet t'' mf' => gtab_eqb t' t'' && list_eqb optQ_eqb mf mf'
  | (QRaise s v, _), ORaise s' v' t'' =>
      opt_eqb Z.eqb s s' && opt_eqb Z.eqb v v' && gtab_eqb t t''
  | _, _ => false
  end.

Fixpoint agree_run (legacy anc : bool) (t : gtab) (steps : list (qop * qobs)) : bool :=
  match steps with
  | [] => true
  | (op, o) :: r =>
      let m := model_step legacy anc t op in
      agree_step t m o
      && agree_run legacy anc (match fst m with QOk t' => t' | QRaise _ _ => t end) r
  end.

Fixpoint model_run (legacy anc : bool) (t : gtab) (ops : list qop) : list (qout * list (option Q)) :=
  match ops with
  | [] => []
  | op :: r =>
      let m := model_step legacy anc t op in
      m :: model_run legacy anc (match fst m with QOk t' => t' | QRaise _ _ => t end) r
  end.

(* ---- the property, clause by clause -------------------------------------- *)

Fixpoint posZ (x : Z) (l : list Z) : option nat :=
  match l with
  | [] => None
  | y :: r => if x =? y then Some O else option_map S (posZ x r)
  end.

Definition cell_at (t : gtab) (i j : nat) : option cell :=
  match nth_error (g_rows t) i with Some r => nth_error r j | None => None end.

(* the error names a sample ID and a variant ID: some cell whose row carries that sample ID and
   whose column carries that variant ID satisfies f (IDs may repeat, so "some") *)
Fixpoint named_in_row (f : cell -> bool) (v : Z) (vs : list variant) (row : list cell) : bool :=
  match vs, row with
  | x :: vs', c :: row' => ((vid x =? v) && f c) || named_in_row f v vs' row'
  | _, _ => false
  end.
Fixpoint named_in_rows (f : cell -> bool) (s v : Z) (ss : list Z) (vs : list variant)
         (rows : list (list cell)) : bool :=
  match ss, rows with
  | s' :: ss', r :: rows' => ((s' =? s) && named_in_row f v vs r) || named_in_rows f s v ss' vs rows'
  | _, _ => false
  end.
Definition named_sat (f : cell -> bool) (t : gtab) (s v : Z) : bool :=
  named_in_rows f s v (g_samples t) (g_variants t) (g_rows t).

(* "must" = the property certainly calls it an offender; "may" = it can be read as one *)
Definition allele (x : Z) : bool := (0 <=? x) && (x <=? 253).
Definition miss_may (x : cell) : bool := (254 <=? ca x) || (254 <=? cb x).
Definition miss_must (anc : bool) (x : cell) : bool :=
  if anc then (ca x =? 255) || (cb x =? 255) else miss_may x.
Definition multi_must (x : cell) : bool :=
  (allele (ca x) && (1 <? ca x)) || (allele (cb x) && (1 <? cb x)).
Definition multi_may (x : cell) : bool := (1 <? ca x) || (1 <? cb x).
Definition unph_must (x : cell) : bool :=
  allele (ca x) && allele (cb x) && negb (ca x =? cb x) && (cp x =? 0).
(* "raises iff some heterozygous call is unphased": a call with a missing allele is not a
   heterozygote, so there is no lenient reading here *)
Definition unph_may (x : cell) : bool := unph_must x.

Definition same_but_rows (keep : list bool) (p t : gtab) : bool :=
  list_eqb Z.eqb (g_samples t) (filter_mask keep (g_samples p))
  && list_eqb variant_eqb (g_variants t) (g_variants p)
  && list_eqb (list_eqb cell_eqb) (g_rows t) (filter_mask keep (g_rows p))
  && (g_planes t =? g_planes p)
  && opt_eqb (list_eqb (list_eqb zz_eqb)) (g_anc t) (option_map (filter_mask keep) (g_anc p)).

Definition same_but_cols (keep : list bool) (p t : gtab) : bool :=
  list_eqb Z.eqb (g_samples t) (g_samples p)
  && list_eqb variant_eqb (g_variants t) (filter_mask keep (g_variants p))
  && list_eqb (list_eqb cell_eqb) (g_rows t) (map (filter_mask keep) (g_rows p))
  && (g_planes t =? g_planes p)
  && opt_eqb (list_eqb (list_eqb zz_eqb)) (g_anc t) (option_map (map (filter_mask keep)) (g_anc p)).

(* all cells 0/1-cast: check_biallelic leaves booleans *)
Definition boolified (p t : gtab) : bool :=
  gtab_eqb t (cast_bool p).

Fixpoint forallb2 {A B} (f : A -> B -> bool) (a : list A) (b : list B) : bool :=
  match a, b with
  | x :: a', y :: b' => f x y && forallb2 f a' b'
  | [], [] => true
  | _, _ => false
  end.

Definition col_exists (f : cell -> bool) (rows : list (list cell)) (j : nat) : bool :=
  existsb (fun r => match nth_error r j with Some x => f x | None => false end) rows.

(* Which positions were kept?  IDs may repeat, so the survivors cannot be looked up by ID:
   [find_keep] searches a mask under which the surviving items are the kept items of p, in
   order, such that a certain offender (must) is dropped and an item that cannot be read as
   offending (not may) is kept.  An item is a whole row (sample ID, calls, ancestry row) resp.
   a whole column (variant record, calls, ancestry column).  The mask found is then verified
   field by field ([same_but_rows] / [same_but_cols]) and against the flags. *)
Fixpoint find_keep {A} (eqb : A -> A -> bool) (ps : list (A * (bool * bool))) (ts : list A)
  : option (list bool) :=
  match ps with
  | [] => match ts with [] => Some [] | _ => None end
  | (x, (must, may)) :: ps' =>
      let drop (_ : unit) :=
        if may then option_map (cons false) (find_keep eqb ps' ts) else None in
      if must then drop tt else
      match ts with
      | y :: ts' =>
          if eqb x y then
            match find_keep eqb ps' ts' with
            | Some k => Some (true :: k)
            | None => drop tt
            end
          else drop tt
      | [] => drop tt
      end
  end.

Definition item_eqb {K} (e : K -> K -> bool) : K * (list cell * list (Z * Z)) -> _ -> bool :=
  pair_eqb e (pair_eqb (list_eqb cell_eqb) (list_eqb zz_eqb)).

Definition row_items (t : gtab) : list (Z * (list cell * list (Z * Z))) :=
  map (fun i => (nth i (g_samples t) 0,
                 (nth i (g_rows t) [], match g_anc t with Some a => nth i a [] | None => [] end)))
      (seq 0 (length (g_rows t))).
Definition col_items (t : gtab) : list (variant * (list cell * list (Z * Z))) :=
  map (fun j => (nth j (g_variants t) dv,
                 (map (fun r => nth j r (gc 0 0 0)) (g_rows t),
                  match g_anc t with Some a => map (fun r => nth j r (0, 0)) a | None => [] end)))
      (seq 0 (length (g_variants t))).

Definition rows_keep (must may : cell -> bool) (p t : gtab) : option (list bool) :=
  find_keep (item_eqb Z.eqb)
            (combine (row_items p) (map (fun row => (existsb must row, existsb may row)) (g_rows p)))
            (row_items t).
Definition cols_keep (must may : nat -> bool) (p t : gtab) : option (list bool) :=
  find_keep (item_eqb variant_eqb)
            (combine (col_items p) (map (fun j => (must j, may j)) (seq 0 (length (g_variants p)))))
            (col_items t).

(* rows discarded: exactly the rows with an offender (must => gone, not may => kept);
   the survivors keep order, sample IDs, values, ancestry rows *)
Definition rows_discard_ok (must may : cell -> bool) (p t : gtab) : bool :=
  match rows_keep must may p t with
  | Some keep =>
      same_but_rows keep p t
      && forallb2 (fun k row => (negb (existsb must row) || negb k) && (existsb may row || k))
                  keep (g_rows p)
  | None => false
  end.

Definition cols_discard_ok (must may : nat -> bool) (p t : gtab) : bool :=
  match cols_keep must may p t with
  | Some keep =>
      same_but_cols keep p t
      && forallb2 (fun k j => (negb (must j) || negb k) && (may j || k))
                  keep (seq 0 (length (g_variants p)))
  | None => false
  end.

Definition no_cell (f : cell -> bool) (t : gtab) : bool :=
  negb (existsb (existsb f) (g_rows t)).

Definition eps : Q := (1 # 1000000000)%Q.
Definition mafQ (k n : Z) : Q :=
  let f := Qmake k (Z.to_pos (2 * n)) in
  if Qle_bool f (1 - f) then f else (1 - f)%Q.
Definition close (a : option Q) (b : Q) : bool :=
  match a with
  | Some x => Qle_bool (x - b) eps && Qle_bool (b - x) eps
  | None => false
  end.

(* one function per check (no IEEE doubles inside: the threshold arrives as its exact value) *)

Definition holds_missing (anc : bool) (p : gtab) (d : bool) (o : qobs) : bool :=
  match o with
  | ORaise (Some s) (Some v) t =>
      negb d && gtab_eqb t p
      && named_sat miss_may p s v
  | ORet t _ =>
      if d then rows_discard_ok (miss_must anc) miss_may p t
      else no_cell (miss_must anc) p && gtab_eqb t p
  | _ => false
  end.

Definition holds_biallelic (p : gtab) (d : bool) (o : qobs) : bool :=
  match o with
  | ORaise (Some s) (Some v) t =>
      negb d && gtab_eqb t p
      && named_sat multi_may p s v
  | ORet t _ =>
      if d then
        cols_discard_ok (col_exists multi_must (g_rows p)) (col_exists multi_may (g_rows p))
                        (cast_bool p) t
      else no_cell multi_must p && boolified p t
  | _ => false
  end.

Definition holds_phase (p : gtab) (o : qobs) : bool :=
  match o with
  | ORaise (Some s) (Some v) t =>
      (3 <=? g_planes p) && gtab_eqb t p
      && named_sat unph_may p s v
  | ORet t _ =>
      if g_planes p <? 3 then gtab_eqb t p
      else no_cell unph_must p && gtab_eqb t (strip_phase p)
  | _ => false
  end.

Definition holds_sorted (p : gtab) (o : qobs) : bool :=
  match o with
  | ORaise None None t => negb (sorted_ok (g_variants p)) && gtab_eqb t p
  | ORet t _ => sorted_ok (g_variants p) && gtab_eqb t p
  | _ => false
  end.

(* thr: None = no threshold given; Some None = a threshold that is not a finite number
   (nothing demanded); Some (Some q) = the threshold's exact value *)
Definition holds_maf (p : gtab) (thr : option (option Q)) (d w : bool) (o : qobs) : bool :=
  let n := lenZ (g_rows p) in
  if n =? 0 then true else
  let mq := map (fun k => mafQ k n) (col_counts p) in
  match thr, o with
  | None, ORet t mf => gtab_eqb t p && forallb2 close mf mq
  | Some None, _ => true
  | Some (Some tq), _ =>
      let must j := Qle_bool (nth j mq 0%Q + eps) tq && negb (Qeq_bool (nth j mq 0%Q + eps) tq) in
      (* a MAF that equals the threshold exactly is not below it (then k/2n is itself a double,
         the code's comparison is exact); otherwise allow a 1e-9 band for rounding *)
      let may j := Qle_bool (nth j mq 0%Q) (tq + eps) && negb (Qeq_bool (nth j mq 0%Q) tq) in
      match o with
      | ORet t mf =>
          if d then
            cols_discard_ok must may p t
            && match cols_keep must may p t with
               | Some keep => forallb2 close mf (filter_mask keep mq)
               | None => false
               end
          else
            (w || negb (existsb must (seq 0 (length mq))))
            && gtab_eqb t p && forallb2 close mf mq
      | ORaise None (Some v) t =>
          negb d && negb w && gtab_eqb t p
          && existsb (fun j => (vid (nth j (g_variants p) dv) =? v) && may j)
                     (seq 0 (length (g_variants p)))
      | _ => false
      end
  | _, _ => false
  end.

Definition holds_step (anc : bool) (p : gtab) (op : qop) (o : qobs) : bool :=
  match o with
  | OOther k => k =? E_Unobserved
  | _ =>
    match op with
    | OpMissing d => holds_missing anc p d o
    | OpBiallelic d => holds_biallelic p d o
    | OpPhase => holds_phase p o
    | OpSorted => holds_sorted p o
    | OpMaf thr d w => holds_maf p (option_map float_to_Q thr) d w o
    end
  end.

Fixpoint holds_run (anc : bool) (p : gtab) (steps : list (qop * qobs)) : bool :=
  match steps with
  | [] => true
  | (op, o) :: r =>
      holds_step anc p op o
      && match o with
         | ORet t _ => holds_run anc t r
         | ORaise _ _ t => holds_run anc t r
         | OOther _ => true
         end
  end.

Definition model_qc (k : qcase) := model_run (q_legacy k) (q_anc k) (q_init k) (map fst (q_steps k)).

Definition check_qc (k : qcase) : bool * bool :=
  (agree_run (q_legacy k) (q_anc k) (q_init k) (q_steps k),
   holds_run (q_anc k) (q_init k) (q_steps k)).

(* ---- the default loader: cls.load(file) = read; check_missing; check_biallelic; check_phase *)

Record lcase := mkl {
  l_anc : bool;        (* GenotypesAncestry.load *)
  l_input : gtab;      (* what the harness wrote into the VCF (for the replay file only) *)
  l_raw : gtab;        (* what a bare read() of that file holds: the table the checks start from *)
  l_out : qobs         (* what load() did *)
}.

Definition model_load (k : lcase) : qout := load_checks false (l_anc k) (l_raw k).

Definition holds_load (k : lcase) : bool :=
  let raw := l_raw k in
  match l_out k with
  | OOther e => e =? E_Unobserved
  | ORet t _ =>
      no_cell (miss_must (l_anc k)) raw && no_cell multi_must raw && no_cell unph_must raw
      && gtab_eqb t (strip_phase (cast_bool raw))
  | ORaise (Some s) (Some v) _ =>
      named_sat (fun x => miss_may x || multi_may x || unph_may x) raw s v
  | _ => false
  end.

Definition check_load (k : lcase) : bool * bool :=
  (match model_load k, l_out k with
   | QOk t, ORet t' _ => gtab_eqb t t'
   | QRaise s v, ORaise s' v' _ => opt_eqb Z.eqb s s' && opt_eqb Z.eqb v v'
   | _, _ => false
   end,
   holds_load k).

(* ---- histories on one object that read()s real files ------------------------------------
   The harness writes the files (VCF.gz with GT or GT:POP, PGEN+PVAR+PSAM) from the tables
   [f_files] and then, on ONE object, calls read() (of any of the files, all of it or the
   samples / variants asked for) and the checks in any order, reading again in between.
   After every call it records the outcome and the object's contents.
   [agree]: the model (C13_Model.hrun: read = the file's table, checks as before) predicts
            every outcome and every content.
   [holds]: every check's verdict and effect is the property's clause for the data that is
            loaded at that moment: after read() that is the content of the file just read (as
            the harness wrote it), whatever was read or checked before on the same object;
            after a check it is what the check left. *)

Inductive fop :=
| FRead (file : nat) (ss vs : option (list Z))   (* read(samples=ss, variants=vs) of file #file *)
| FCheck (op : qop).

Record fcase := mkf {
  f_anc : bool;
  f_files : list gtab;
  f_steps : list (fop * qobs)
}.

Definition no_table : gtab := mkg [] [] [] 3 None.
Definition file_read (files : list gtab) (k : nat) (ss vs : option (list Z)) : gtab :=
  read_sel ss vs (nth k files no_table).

Definition model_fstep (anc : bool) (files : list gtab) (t : gtab) (op : fop)
  : qout * list (option Q) :=
  match op with
  | FRead k ss vs => (QOk (file_read files k ss vs), [])
  | FCheck q => model_step false anc t q
  end.

Fixpoint agree_frun (anc : bool) (files : list gtab) (t : gtab) (steps : list (fop * qobs)) : bool :=
  match steps with
  | [] => true
  | (op, o) :: r =>
      let m := model_fstep anc files t op in
      agree_step t m o
      && agree_frun anc files (match fst m with QOk t' => t' | QRaise _ _ => t end) r
  end.

Fixpoint model_frun (anc : bool) (files : list gtab) (t : gtab) (ops : list fop)
  : list (qout * list (option Q)) :=
  match ops with
  | [] => []
  | op :: r =>
      let m := model_fstep anc files t op in
      m :: model_frun anc files (match fst m with QOk t' => t' | QRaise _ _ => t end) r
  end.

(* p = the data currently loaded *)
Fixpoint holds_frun (anc : bool) (files : list gtab) (p : gtab) (steps : list (fop * qobs)) : bool :=
  match steps with
  | [] => true
  | (FRead k ss vs, o) :: r =>
      match o with
      | OOther _ => true     (* read() itself failed: nothing is loaded, no check follows *)
      | _ => holds_frun anc files (file_read files k ss vs) r
      end
  | (FCheck q, o) :: r =>
      holds_step anc p q o
      && match o with
         | ORet t _ => holds_frun anc files t r
         | ORaise _ _ t => holds_frun anc files t r
         | OOther _ => true
         end
  end.

Definition model_files (k : fcase) :=
  model_frun (f_anc k) (f_files k) no_table (map fst (f_steps k)).

Definition check_files (k : fcase) : bool * bool :=
  (agree_frun (f_anc k) (f_files k) no_table (f_steps k),
   holds_frun (f_anc k) (f_files k) no_table (f_steps k)).
