(* C13 - case types and checkers of the strengthened correspondence (C13_Check.v is shared with
   C12 / C04 and left untouched; everything here is built on its definitions).

   Observed in addition to C13_Check.qobs, per call:
     w_bool : self.data.dtype == bool after the call;
     w_warn : one entry per WARNING-level log record the call emitted (recorded for check_maf
              only): Some v when the text is the "Variant with ID v ... has MAF" message, None
              when it is anything else.
   [agree] : the untyped model (C13_Check.agree_run) AND the dtype-following model predict every
             outcome, content, dtype and warning.
   [holds] : C13_Check.holds_step for every call, and for check_maf(threshold, warn_only=True)
             without discard: a warning is logged if some variant is certainly below the threshold,
             none is logged if no variant can be read as below it, and a variant a warning names
             can be read as below it.  The wording is not demanded. *)
From Coq Require Import QArith PrimFloat.
From HV Require Import Prelude GenoTable C13_Model C13_Check C13_ModelW.
Open Scope Z_scope.

Record wobs := mkw { w_o : qobs; w_bool : bool; w_warn : list (option Z) }.

(* ---- the dtype-following model of one call ---------------------------------------- *)

Definition model_step_w (anc : bool) (t : gtab) (isb : bool) (op : qop)
  : (qout * list (option Q)) * bool * list Z :=
  match op with
  | OpMissing d =>
      if isb then ((QOk t, []), true, []) else (model_step false anc t op, false, [])
  | OpBiallelic d =>
      if isb then ((QOk t, []), true, [])
      else let m := model_step false anc t op in
           (m, match fst m with QOk _ => true | QRaise _ _ => false end, [])
  | OpMaf (Some th) d w => (model_step false anc t op, isb, maf_log (rareF th) d w t)
  | _ => (model_step false anc t op, isb, [])
  end.

(* an unparsed record (None) agrees with any prediction; a parsed one must be the predicted ID *)
Definition warn_agree (m : list Z) (o : list (option Z)) : bool :=
  forallb2 (fun x y => match y with Some v => x =? v | None => true end) m o.

Definition agree_wstep (t : gtab) (m : (qout * list (option Q)) * bool * list Z) (o : wobs) : bool :=
  agree_step t (fst (fst m)) (w_o o)
  && Bool.eqb (snd (fst m)) (w_bool o)
  && warn_agree (snd m) (w_warn o).

Definition next_tab (t : gtab) (o : qout) : gtab := match o with QOk t' => t' | QRaise _ _ => t end.

Fixpoint agree_wrun (anc : bool) (t : gtab) (isb : bool) (steps : list (qop * wobs)) : bool :=
  match steps with
  | [] => true
  | (op, o) :: r =>
      let m := model_step_w anc t isb op in
      agree_wstep t m o && agree_wrun anc (next_tab t (fst (fst (fst m)))) (snd (fst m)) r
  end.

(* ---- the warn_only clause ---------------------------------------------------------- *)

Definition mafs (p : gtab) : list Q := map (fun k => mafQ k (lenZ (g_rows p))) (col_counts p).
(* certainly below the threshold / can be read as below it (1e-9 band around the float arithmetic;
   a MAF that equals the threshold exactly is not below it) - as in C13_Check.holds_maf *)
Definition maf_must (tq : Q) (mq : list Q) (j : nat) : bool :=
  Qle_bool (nth j mq 0%Q + eps) tq && negb (Qeq_bool (nth j mq 0%Q + eps) tq).
Definition maf_may (tq : Q) (mq : list Q) (j : nat) : bool :=
  Qle_bool (nth j mq 0%Q) (tq + eps) && negb (Qeq_bool (nth j mq 0%Q) tq).

Definition named_may (tq : Q) (p : gtab) (v : Z) : bool :=
  existsb (fun j => (vid (nth j (g_variants p) dv) =? v) && maf_may tq (mafs p) j)
          (seq 0 (length (g_variants p))).

Definition warn_clause (tq : Q) (p : gtab) (warn : list (option Z)) : bool :=
  let js := seq 0 (length (mafs p)) in
  (negb (existsb (maf_must tq (mafs p)) js) || negb (match warn with [] => true | _ => false end))
  && (existsb (maf_may tq (mafs p)) js || match warn with [] => true | _ => false end)
  && forallb (fun w => match w with Some v => named_may tq p v | None => true end) warn.

Definition holds_warn (p : gtab) (op : qop) (o : wobs) : bool :=
  match op, w_o o with
  | OpMaf (Some th) false true, ORet _ _ =>
      if lenZ (g_rows p) =? 0 then true
      else match float_to_Q th with
           | Some tq => warn_clause tq p (w_warn o)
           | None => true
           end
  | _, _ => true
  end.

Definition obs_tab (o : qobs) : option gtab :=
  match o with ORet t _ => Some t | ORaise _ _ t => Some t | OOther _ => None end.

Fixpoint holds_warns (p : gtab) (steps : list (qop * wobs)) : bool :=
  match steps with
  | [] => true
  | (op, o) :: r =>
      holds_warn p op o
      && match obs_tab (w_o o) with Some t => holds_warns t r | None => true end
  end.

Definition strip_w {A} (steps : list (A * wobs)) : list (A * qobs) :=
  map (fun x => (fst x, w_o (snd x))) steps.

(* ---- qc ---------------------------------------------------------------------------- *)

Record wqcase := mkwq {
  wq_anc : bool;
  wq_bool : bool;              (* the arrays were handed over with dtype bool *)
  wq_init : gtab;
  wq_steps : list (qop * wobs)
}.

Fixpoint model_wrun (anc : bool) (t : gtab) (isb : bool) (ops : list qop)
  : list ((qout * list (option Q)) * bool * list Z) :=
  match ops with
  | [] => []
  | op :: r =>
      let m := model_step_w anc t isb op in
      m :: model_wrun anc (next_tab t (fst (fst (fst m)))) (snd (fst m)) r
  end.

Definition model_wqc (k : wqcase) :=
  model_wrun (wq_anc k) (wq_init k) (wq_bool k) (map fst (wq_steps k)).

Definition check_wqc (k : wqcase) : bool * bool :=
  (agree_run false (wq_anc k) (wq_init k) (strip_w (wq_steps k))
   && agree_wrun (wq_anc k) (wq_init k) (wq_bool k) (wq_steps k),
   holds_run (wq_anc k) (wq_init k) (strip_w (wq_steps k))
   && holds_warns (wq_init k) (wq_steps k)).

(* ---- files --------------------------------------------------------------------------- *)

Record wfcase := mkwf {
  wf_anc : bool;
  wf_files : list gtab;
  wf_steps : list (fop * wobs)
}.

Definition model_fstep_w (anc : bool) (files : list gtab) (t : gtab) (isb : bool) (op : fop)
  : (qout * list (option Q)) * bool * list Z :=
  match op with
  | FRead k ss vs => ((QOk (file_read files k ss vs), []), false, [])
  | FCheck q => model_step_w anc t isb q
  end.

Fixpoint agree_wfrun (anc : bool) (files : list gtab) (t : gtab) (isb : bool)
         (steps : list (fop * wobs)) : bool :=
  match steps with
  | [] => true
  | (op, o) :: r =>
      let m := model_fstep_w anc files t isb op in
      agree_wstep t m o
      && agree_wfrun anc files (next_tab t (fst (fst (fst m)))) (snd (fst m)) r
  end.

Fixpoint model_wfrun (anc : bool) (files : list gtab) (t : gtab) (isb : bool) (ops : list fop)
  : list ((qout * list (option Q)) * bool * list Z) :=
  match ops with
  | [] => []
  | op :: r =>
      let m := model_fstep_w anc files t isb op in
      m :: model_wfrun anc files (next_tab t (fst (fst (fst m)))) (snd (fst m)) r
  end.

(* p = the data currently loaded (as in C13_Check.holds_frun) *)
Fixpoint holds_wfwarns (files : list gtab) (p : gtab) (steps : list (fop * wobs)) : bool :=
  match steps with
  | [] => true
  | (FRead k ss vs, o) :: r =>
      match w_o o with
      | OOther _ => true
      | _ => holds_wfwarns files (file_read files k ss vs) r
      end
  | (FCheck q, o) :: r =>
      holds_warn p q o
      && match obs_tab (w_o o) with Some t => holds_wfwarns files t r | None => true end
  end.

Definition model_wfiles (k : wfcase) :=
  model_wfrun (wf_anc k) (wf_files k) no_table false (map fst (wf_steps k)).

Definition check_wfiles (k : wfcase) : bool * bool :=
  (agree_frun (wf_anc k) (wf_files k) no_table (strip_w (wf_steps k))
   && agree_wfrun (wf_anc k) (wf_files k) no_table false (wf_steps k),
   holds_frun (wf_anc k) (wf_files k) no_table (strip_w (wf_steps k))
   && holds_wfwarns (wf_files k) no_table (wf_steps k)).

(* ---- the default loaders, all classes ------------------------------------------------ *)

Record lwcase := mklw {
  lw_ld : loader;
  lw_cls : Z;          (* 0 Genotypes 1 GenotypesVCF 2 GenotypesPLINK 3 GenotypesAncestry 4 GenotypesTR
                          5 GenotypesPLINKTR (for the replay file only) *)
  lw_input : gtab;     (* what the harness wrote into the file (for the replay file only) *)
  lw_raw : gtab;       (* what a bare read() of that file holds: the table the checks start from *)
  lw_out : qobs;       (* what load() did *)
  lw_bool : bool       (* dtype of the returned data is bool *)
}.

Definition model_loadw (k : lwcase) : qout := load_model (lw_ld k) (lw_raw k).

(* LdPlain / LdAnc: C13_Check.holds_load (returned => free of missing, multiallelic and unphased
   heterozygous calls, and = the raw table cast and stripped; raised => names an offender).
   LdTR: the phase clause alone (C13_Check.holds_phase): returned => no unphased heterozygote and the
   phase plane stripped, nothing else changed; raised => names an unphased heterozygote. *)
Definition holds_loadw (k : lwcase) : bool :=
  match lw_ld k with
  | LdTR =>
      match lw_out k with
      | OOther e => e =? E_Unobserved
      | o => holds_phase (lw_raw k) o
      end
  | ld => holds_load (mkl (loader_anc ld) (lw_input k) (lw_raw k) (lw_out k))
  end.

Definition check_loadw (k : lwcase) : bool * bool :=
  (match model_loadw k, lw_out k with
   | QOk t, ORet t' _ =>
       gtab_eqb t t' && Bool.eqb (lw_bool k) (match lw_ld k with LdTR => false | _ => true end)
   | QRaise s v, ORaise s' v' _ => opt_eqb Z.eqb s s' && opt_eqb Z.eqb v v'
   | _, _ => false
   end,
   holds_loadw k).
