(* C13 - executable model of the quality-control steps of haptools/data/genotypes.py
   (Genotypes.check_missing / check_biallelic / check_phase / check_maf / check_sorted,
   inherited by GenotypesVCF and GenotypesPLINK) and of the overrides in
   haptools/transform.py (GenotypesAncestry.check_missing / check_biallelic / check_maf,
   which carry the parallel ancestry array).

   Observable level: the object's (samples, variants, data, ancestry) before and after,
   the returned MAF array, and a raised ValueError with the sample / variant it names.
   The code finds offenders with np.nonzero (row-major) and removes them with np.delete
   on the index arrays; the model does the same (GenoTable.nonzero2 / np_delete).

   Not modelled: log messages; the dtype of data (check_biallelic casts to bool; on every
   path on which it returns, all cells are already 0/1, so the cast and its "already
   bool" early return are invisible in the values - the model still applies the cast).

   [legacy] = the pinned tree: check_phase compared alleles after a cast to bool (unphased
   1/2 passed, and 0/. raised while 1/. did not) and GenotypesAncestry.check_maf(discard) left the ancestry array unshrunk. *)
From HV Require Import Prelude GenoTable.
Open Scope Z_scope.

Inductive qout :=
| QOk (t : gtab)                      (* returned; the object's new contents *)
| QRaise (s v : option Z).            (* ValueError naming sample s / variant v (interned IDs) *)

(* anc = the object is a GenotypesAncestry: only 255 counts as missing there *)
Definition is_missing (anc : bool) (x : Z) : bool := if anc then x =? 255 else 254 <=? x.
Definition cell_missing (anc : bool) (x : cell) : bool := is_missing anc (ca x) || is_missing anc (cb x).
Definition cell_multi (x : cell) : bool := (1 <? ca x) || (1 <? cb x).
(* heterozygous = both alleles present (< 254, as in check_missing) and different; a half-missing
   or haploid call (second allele 255, phase flag 0) is not a heterozygote *)
Definition cell_unphased (legacy : bool) (x : cell) : bool :=
  (if legacy then xorb (negb (ca x =? 0)) (negb (cb x =? 0))
   else negb (ca x =? cb x) && (ca x <? 254) && (cb x <? 254))
  && (cp x =? 0).

Definition maskof (f : cell -> bool) (t : gtab) : list (list bool) := map (map f) (g_rows t).

Definition name_cell (t : gtab) (ij : nat * nat) : qout :=
  QRaise (Some (nth (fst ij) (g_samples t) 0)) (Some (vid (nth (snd ij) (g_variants t) dv))).

Definition del_rows (idx : list nat) (t : gtab) : gtab :=
  mkg (np_delete idx (g_samples t)) (g_variants t) (np_delete idx (g_rows t)) (g_planes t)
      (option_map (np_delete idx) (g_anc t)).

Definition del_cols (with_anc : bool) (idx : list nat) (t : gtab) : gtab :=
  mkg (g_samples t) (np_delete idx (g_variants t)) (map (np_delete idx) (g_rows t)) (g_planes t)
      (if with_anc then option_map (map (np_delete idx)) (g_anc t) else g_anc t).

Definition check_missing (anc discard : bool) (t : gtab) : qout :=
  match nonzero2 0 (maskof (cell_missing anc) t) with
  | [] => QOk t
  | ij :: rest =>
      if discard then QOk (del_rows (map fst (ij :: rest)) t) else name_cell t ij
  end.

Definition to_bool (x : Z) : Z := if x =? 0 then 0 else 1.
Definition cast_bool (t : gtab) : gtab :=
  mkg (g_samples t) (g_variants t)
      (map (map (fun x => gc (to_bool (ca x)) (to_bool (cb x)) (to_bool (cp x)))) (g_rows t))
      (g_planes t) (g_anc t).

Definition check_biallelic (discard : bool) (t : gtab) : qout :=
  match nonzero2 0 (maskof cell_multi t) with
  | [] => QOk (cast_bool t)
  | ij :: rest =>
      if discard then QOk (cast_bool (del_cols true (map snd (ij :: rest)) t)) else name_cell t ij
  end.

Definition strip_phase (t : gtab) : gtab :=
  mkg (g_samples t) (g_variants t) (map (map (fun x => gc (ca x) (cb x) 0)) (g_rows t)) 2 (g_anc t).

Definition check_phase (legacy : bool) (t : gtab) : qout :=
  if g_planes t <? 3 then QOk t
  else match nonzero2 0 (maskof (cell_unphased legacy) t) with
       | [] => QOk (strip_phase t)
       | ij :: _ => name_cell t ij
       end.

(* ---- allele frequency ----------------------------------------------------- *)

Definition nonref (x : cell) : Z := (if ca x =? 0 then 0 else 1) + (if cb x =? 0 then 0 else 1).

Fixpoint addl (a b : list Z) : list Z :=
  match a, b with
  | x :: a', y :: b' => (x + y) :: addl a' b'
  | _, _ => b
  end.

(* data[:, :, :2].astype(bool).sum(axis=(0, 2)): non-reference alleles per variant *)
Definition col_counts (t : gtab) : list Z :=
  fold_right (fun row acc => addl (map nonref row) acc)
             (repeat 0 (length (g_variants t))) (g_rows t).

Section Maf.
  (* [rare k n]: the MAF min(f, 1-f), f = k/(2n), of a variant carrying k non-reference
     alleles among n samples is below the threshold.  The theorems hold for every such
     predicate; the correspondence instantiates it with IEEE doubles (C13_Check.rareF). *)
  Variable rare : Z -> Z -> bool.

  Definition rare_idx (t : gtab) : list nat :=
    nonzero1 0 (map (fun k => rare k (lenZ (g_rows t))) (col_counts t)).

  (* threshold given.  with_anc: the ancestry array is shrunk together with data
     (GenotypesAncestry after the fix; irrelevant for the other classes) *)
  Definition check_maf (with_anc discard warn : bool) (t : gtab) : qout :=
    match rare_idx t with
    | [] => QOk t
    | j :: r =>
        if discard then QOk (del_cols with_anc (j :: r) t)
        else if warn then QOk t
        else QRaise None (Some (vid (nth j (g_variants t) dv)))
    end.

  (* the returned array, as non-reference counts (the caller divides by 2n) *)
  Definition maf_ret (discard : bool) (t : gtab) : list Z :=
    if discard then np_delete (rare_idx t) (col_counts t) else col_counts t.
End Maf.

(* ---- check_sorted --------------------------------------------------------- *)

Fixpoint nondecr (l : list Z) : bool :=
  match l with
  | a :: r => match r with b :: _ => (a <=? b) | [] => true end && nondecr r
  | [] => true
  end.
Definition positions_on (ch : Z) (vs : list variant) : list Z :=
  map vpos (filter (fun x => vchrom x =? ch) vs).
Definition sorted_ok (vs : list variant) : bool :=
  forallb (fun x => nondecr (positions_on (vchrom x) vs)) vs.
Definition check_sorted (t : gtab) : qout :=
  if sorted_ok (g_variants t) then QOk t else QRaise None None.

(* ---- the loaders ---------------------------------------------------------- *)

(* Genotypes.load = read; check_missing(); check_biallelic(); check_phase() *)
Definition load_checks (legacy anc : bool) (t : gtab) : qout :=
  match check_missing anc false t with
  | QOk t1 => match check_biallelic false t1 with
              | QOk t2 => check_phase legacy t2
              | e => e end
  | e => e
  end.

(* ---- reading files, histories ---------------------------------------------- *)

(* what read(samples=ss, variants=vs) of a file holding the table f loads: the samples whose ID
   is requested and the variants whose ID is requested, in file order (None = all).  The
   harness only asks for variant IDs that occur once in the file, so that the preallocation
   of len(variants) records never truncates. *)
Definition read_sel (ss vs : option (list Z)) (f : gtab) : gtab :=
  let km := map (fun s => match ss with None => true | Some l => memZ s l end) (g_samples f) in
  let kv := map (fun v => match vs with None => true | Some l => memZ (vid v) l end) (g_variants f) in
  mkg (filter_mask km (g_samples f)) (filter_mask kv (g_variants f))
      (map (filter_mask kv) (filter_mask km (g_rows f))) (g_planes f)
      (option_map (fun a => map (filter_mask kv) (filter_mask km a)) (g_anc f)).

(* A history on one object: read() of some file (the table it delivers), or one of the checks.
   T = the type thresholds come in, [rare_of th k n] = "k non-reference alleles among n samples
   is rarer than th".  The object has no state besides its arrays: what a check sees is what
   the last read() loaded, as left by the checks since. *)
Section Hist.
  Variable T : Type.
  Variable rare_of : T -> Z -> Z -> bool.

  Inductive hop :=
  | HRead (f : gtab)
  | HMissing (discard : bool)
  | HBiallelic (discard : bool)
  | HPhase
  | HMaf (thr : option T) (discard warn : bool)
  | HSorted.

  Definition hstep (anc : bool) (t : gtab) (op : hop) : qout :=
    match op with
    | HRead f => QOk f
    | HMissing d => check_missing anc d t
    | HBiallelic d => check_biallelic d t
    | HPhase => check_phase false t
    | HMaf None _ _ => QOk t
    | HMaf (Some th) d w => check_maf (rare_of th) true d w t
    | HSorted => check_sorted t
    end.

  (* an exception leaves the object as it was *)
  Definition after (t : gtab) (o : qout) : gtab :=
    match o with QOk t' => t' | QRaise _ _ => t end.

  Fixpoint state_after (anc : bool) (t : gtab) (ops : list hop) : gtab :=
    match ops with
    | [] => t
    | op :: r => state_after anc (after t (hstep anc t op)) r
    end.

  (* (contents before the call, the call, its outcome) for every call of the history *)
  Fixpoint hrun (anc : bool) (t : gtab) (ops : list hop) : list (gtab * hop * qout) :=
    match ops with
    | [] => []
    | op :: r => let o := hstep anc t op in (t, op, o) :: hrun anc (after t o) r
    end.
End Hist.
Arguments HRead {T}. Arguments HMissing {T}. Arguments HBiallelic {T}. Arguments HPhase {T}.
Arguments HMaf {T}. Arguments HSorted {T}.
