(* C13 - additions to the model (C13_Model.v is shared with C12 / C04 and left untouched):

   1. the default loaders, one model per class:
        Genotypes.load (inherited unchanged by GenotypesVCF and GenotypesPLINK)
            = read; check_missing(); check_biallelic(); check_phase()         [LdPlain]
        GenotypesAncestry inherits load but overrides check_missing / check_biallelic   [LdAnc]
        GenotypesTR.load and GenotypesPLINKTR.load
            = read; check_phase()                                             [LdTR]
      Repeats are multiallelic by nature: check_biallelic and check_maf are NotImplementedError stubs
      in the TR classes and their loaders do not call check_missing either, so of "the first three
      checks" only the phase check applies to what a TR loader returns (copy numbers, 255 = missing).

   2. the dtype of self.data.  read() delivers uint8; check_biallelic casts to bool.  On bool data
      the code behaves differently: check_biallelic returns at once ("already biallelic"), and the
      comparisons  data >= 254  /  data == 255  of check_missing are False everywhere.  [hstep_d]
      follows those branches; C13_ProofsW.typed_history_refines proves that no outcome and no
      content differs from the untyped history model (on which the history theorems are stated),
      because data of dtype bool holds only 0 and 1.

   3. the log record of check_maf(warn_only=True): the message names the first rare variant. *)
From HV Require Import Prelude GenoTable C13_Model.
Open Scope Z_scope.

(* ---- loaders ------------------------------------------------------------------ *)

Inductive loader := LdPlain | LdAnc | LdTR.

Definition loader_anc (ld : loader) : bool := match ld with LdAnc => true | _ => false end.

Definition load_model (ld : loader) (t : gtab) : qout :=
  match ld with
  | LdTR => check_phase false t
  | _ => load_checks false (loader_anc ld) t
  end.

(* ---- dtype ---------------------------------------------------------------------- *)

Definition b01 (x : Z) : bool := (x =? 0) || (x =? 1).
Definition bool_cell (x : cell) : bool := b01 (ca x) && b01 (cb x) && b01 (cp x).
(* what an array of dtype bool can hold *)
Definition bool_tab (t : gtab) : bool := forallb (forallb bool_cell) (g_rows t).

Section HistD.
  Variable T : Type.
  Variable rare_of : T -> Z -> Z -> bool.

  (* one call on an object whose data has dtype bool (isb) or uint8; returns the outcome and the
     dtype afterwards (an exception leaves the dtype as it was) *)
  Definition hstep_d (anc : bool) (t : gtab) (isb : bool) (op : hop T) : qout * bool :=
    match op with
    | HRead f => (QOk f, false)
    | HMissing d => if isb then (QOk t, true) else (check_missing anc d t, false)
    | HBiallelic d =>
        if isb then (QOk t, true)
        else match check_biallelic d t with
             | QOk t' => (QOk t', true)
             | e => (e, false)
             end
    | _ => (hstep T rare_of anc t op, isb)
    end.

  Fixpoint hrun_d (anc : bool) (t : gtab) (isb : bool) (ops : list (hop T))
    : list (gtab * bool * hop T * qout) :=
    match ops with
    | [] => []
    | op :: r =>
        let m := hstep_d anc t isb op in
        (t, isb, op, fst m) :: hrun_d anc (after t (fst m)) (snd m) r
    end.
End HistD.

(* ---- the warning of check_maf --------------------------------------------------- *)

(* IDs of the variants named by the WARNING records of one check_maf(threshold, discard, warn) *)
Definition maf_log (rare : Z -> Z -> bool) (discard warn : bool) (t : gtab) : list Z :=
  match rare_idx rare t with
  | [] => []
  | j :: _ => if discard then [] else if warn then [vid (nth j (g_variants t) dv)] else []
  end.
