(* C13 - proofs about the model of the QC steps (all tables, no size bound). *)
From HV Require Import Prelude GenoTable C13_Model.
Open Scope Z_scope.

(* ---- generic list facts -------------------------------------------------- *)

Lemma existsb_ext {A} (f g : A -> bool) l : (forall x, f x = g x) -> existsb f l = existsb g l.
Proof. intro H. induction l as [|x r IH]; cbn; [reflexivity|]. rewrite H, IH. reflexivity. Qed.

Lemma existsb_map {A B} (f : B -> bool) (g : A -> B) l : existsb f (map g l) = existsb (fun x => f (g x)) l.
Proof. induction l as [|x r IH]; cbn; [reflexivity|]. rewrite IH. reflexivity. Qed.

Lemma row_any_map {A} (f : A -> bool) r : row_any (map f r) = existsb f r.
Proof. unfold row_any. rewrite existsb_map. reflexivity. Qed.

Lemma any_maskof f t : existsb row_any (maskof f t) = existsb (existsb f) (g_rows t).
Proof.
  unfold maskof. rewrite existsb_map. apply existsb_ext. intro r. apply row_any_map.
Qed.

Lemma delete_from_nil {A} (l : list A) k : delete_from k [] l = l.
Proof. revert k. induction l as [|x r IH]; intro k; cbn; [reflexivity|]. rewrite IH. reflexivity. Qed.

Lemma np_delete_nil {A} (l : list A) : np_delete [] l = l.
Proof. apply delete_from_nil. Qed.

Lemma nth_map_true {A} (f : A -> bool) l j :
  nth j (map f l) false = true -> exists x, nth_error l j = Some x /\ f x = true.
Proof.
  revert j. induction l as [|y r IH]; intros [|j] H; cbn in *; try discriminate.
  - exists y. auto.
  - apply IH. exact H.
Qed.

Lemma nth_nth_error {A} (l : list A) j d x : nth_error l j = Some x -> nth j l d = x.
Proof. revert j. induction l as [|y r IH]; intros [|j] H; cbn in *; try discriminate; [congruence|auto]. Qed.

(* ---- offending cells ------------------------------------------------------ *)

(* cell (i, j) of the table exists and satisfies f *)
Definition cell_sat (f : cell -> bool) (t : gtab) (i j : nat) : Prop :=
  exists row x, nth_error (g_rows t) i = Some row /\ nth_error row j = Some x /\ f x = true.

Definition some_cell (f : cell -> bool) (t : gtab) : Prop := exists i j, cell_sat f t i j.

Lemma some_cell_iff f t : some_cell f t <-> existsb (existsb f) (g_rows t) = true.
Proof.
  split.
  - intros [i [j [row [x [H1 [H2 H3]]]]]]. apply existsb_exists. exists row. split.
    + eapply nth_error_In. exact H1.
    + apply existsb_exists. exists x. split; [eapply nth_error_In; exact H2|exact H3].
  - intro H. apply existsb_exists in H. destruct H as [row [H1 H2]].
    apply existsb_exists in H2. destruct H2 as [x [H2 H3]].
    apply In_nth_error in H1. destruct H1 as [i H1].
    apply In_nth_error in H2. destruct H2 as [j H2].
    exists i, j, row, x. auto.
Qed.

Lemma nonzero_mask_sound f t a b :
  In (a, b) (nonzero2 0 (maskof f t)) -> cell_sat f t a b.
Proof.
  intro H. apply nonzero2_sound in H. destruct H as [_ H]. rewrite Nat.sub_0_r in H.
  unfold maskof in H.
  destruct (nth_error (g_rows t) a) as [row|] eqn:E.
  - assert (E2 : nth a (map (map f) (g_rows t)) [] = map f row).
    { apply nth_nth_error. rewrite nth_error_map, E. reflexivity. }
    rewrite E2 in H. apply nth_map_true in H. destruct H as [x [Hx Hf]].
    exists row, x. auto.
  - apply nth_error_None in E.
    rewrite (nth_overflow (map (map f) (g_rows t)) []) in H by (rewrite map_length; exact E).
    destruct b; discriminate.
Qed.

Lemma nonzero_mask_nil f t : nonzero2 0 (maskof f t) = [] <-> ~ some_cell f t.
Proof.
  rewrite nonzero2_nil_iff, any_maskof, some_cell_iff.
  destruct (existsb (existsb f) (g_rows t)); split; intro H; try reflexivity; try discriminate.
  exfalso. apply H. reflexivity.
Qed.

(* what an error names: sample position i and variant position j of the table *)
Definition names (t : gtab) (i j : nat) (s v : option Z) : Prop :=
  s = Some (nth i (g_samples t) 0) /\ v = Some (vid (nth j (g_variants t) dv)).

(* ---- check_missing --------------------------------------------------------- *)

Lemma check_missing_raises_iff anc t :
  (exists s v, check_missing anc false t = QRaise s v) <-> some_cell (cell_missing anc) t.
Proof.
  unfold check_missing. destruct (nonzero2 0 (maskof (cell_missing anc) t)) as [|ij rest] eqn:E.
  - apply nonzero_mask_nil in E. split; [intros [s [v H]]; discriminate|intro H; contradiction].
  - split; intros _.
    + destruct ij as [a b]. exists a, b. apply nonzero_mask_sound. rewrite E. left. reflexivity.
    + eexists. eexists. reflexivity.
Qed.

Lemma check_missing_names anc t s v :
  check_missing anc false t = QRaise s v ->
  exists i j, names t i j s v /\ cell_sat (cell_missing anc) t i j.
Proof.
  unfold check_missing. destruct (nonzero2 0 (maskof (cell_missing anc) t)) as [|[a b] rest] eqn:E;
    [discriminate|].
  intro H. inversion H; subst. exists a, b. split; [split; reflexivity|].
  apply nonzero_mask_sound. rewrite E. left. reflexivity.
Qed.

Lemma check_missing_returns_iff anc t :
  check_missing anc false t = QOk t <-> ~ some_cell (cell_missing anc) t.
Proof.
  rewrite <- nonzero_mask_nil. unfold check_missing.
  destruct (nonzero2 0 (maskof (cell_missing anc) t)) as [|ij rest]; split; intro H;
    try reflexivity; try discriminate.
Qed.

Definition row_bad (f : cell -> bool) (r : list cell) : bool := existsb f r.
Definition keep_rows (f : cell -> bool) (t : gtab) : list bool :=
  map (fun r => negb (row_bad f r)) (g_rows t).

(* the table with exactly the rows having an f-cell removed *)
Definition rows_removed (f : cell -> bool) (t : gtab) : gtab :=
  mkg (filter_mask (keep_rows f t) (g_samples t)) (g_variants t)
      (filter (fun r => negb (row_bad f r)) (g_rows t)) (g_planes t)
      (option_map (filter_mask (keep_rows f t)) (g_anc t)).

Definition wf_rows (t : gtab) : Prop :=
  length (g_samples t) = length (g_rows t)
  /\ match g_anc t with Some a => length a = length (g_rows t) | None => True end.

Lemma keep_rows_mask f t :
  keep_rows f t = map (fun r => negb (row_any r)) (maskof f t).
Proof.
  unfold keep_rows, maskof. rewrite map_map. apply map_ext. intro r.
  rewrite row_any_map. reflexivity.
Qed.

Lemma del_rows_spec f t :
  wf_rows t -> del_rows (map fst (nonzero2 0 (maskof f t))) t = rows_removed f t.
Proof.
  intros [H1 H2]. unfold del_rows, rows_removed.
  assert (Lm : length (maskof f t) = length (g_rows t)) by (unfold maskof; apply map_length).
  rewrite !delete_rows_spec by (rewrite Lm; auto).
  rewrite <- keep_rows_mask. f_equal.
  - unfold keep_rows. apply filter_mask_filter.
  - destruct (g_anc t) as [a|]; cbn; [|reflexivity].
    rewrite delete_rows_spec by (rewrite Lm; exact H2). rewrite <- keep_rows_mask. reflexivity.
Qed.

Lemma check_missing_discard anc t :
  wf_rows t -> check_missing anc true t = QOk (rows_removed (cell_missing anc) t).
Proof.
  intro W. rewrite <- (del_rows_spec _ _ W). unfold check_missing.
  destruct (nonzero2 0 (maskof (cell_missing anc) t)) as [|ij rest]; [|reflexivity].
  cbn [map]. unfold del_rows. rewrite !np_delete_nil.
  destruct t as [s v r p a]; cbn. f_equal. f_equal.
  destruct a; cbn; [rewrite np_delete_nil|]; reflexivity.
Qed.

(* ---- check_biallelic ------------------------------------------------------- *)

Lemma check_biallelic_raises_iff t :
  (exists s v, check_biallelic false t = QRaise s v) <-> some_cell cell_multi t.
Proof.
  unfold check_biallelic. destruct (nonzero2 0 (maskof cell_multi t)) as [|ij rest] eqn:E.
  - apply nonzero_mask_nil in E. split; [intros [s [v H]]; discriminate|intro H; contradiction].
  - split; intros _.
    + destruct ij as [a b]. exists a, b. apply nonzero_mask_sound. rewrite E. left. reflexivity.
    + eexists. eexists. reflexivity.
Qed.

Lemma check_biallelic_names t s v :
  check_biallelic false t = QRaise s v ->
  exists i j, names t i j s v /\ cell_sat cell_multi t i j.
Proof.
  unfold check_biallelic. destruct (nonzero2 0 (maskof cell_multi t)) as [|[a b] rest] eqn:E;
    [discriminate|].
  intro H. inversion H; subst. exists a, b. split; [split; reflexivity|].
  apply nonzero_mask_sound. rewrite E. left. reflexivity.
Qed.

Lemma check_biallelic_returns_iff t :
  check_biallelic false t = QOk (cast_bool t) <-> ~ some_cell cell_multi t.
Proof.
  rewrite <- nonzero_mask_nil. unfold check_biallelic.
  destruct (nonzero2 0 (maskof cell_multi t)) as [|ij rest]; split; intro H;
    try reflexivity; try discriminate.
Qed.

(* column j holds an f-cell *)
Definition col_bad (f : cell -> bool) (t : gtab) (j : nat) : bool :=
  existsb (fun r => match nth_error r j with Some x => f x | None => false end) (g_rows t).
Definition keep_cols (f : cell -> bool) (t : gtab) : list bool :=
  map (fun j => negb (col_bad f t j)) (seq 0 (length (g_variants t))).

Definition cols_removed (with_anc : bool) (keep : list bool) (t : gtab) : gtab :=
  mkg (g_samples t) (filter_mask keep (g_variants t)) (map (filter_mask keep) (g_rows t)) (g_planes t)
      (if with_anc then option_map (map (filter_mask keep)) (g_anc t) else g_anc t).

Definition wf_cols (t : gtab) : Prop :=
  Forall (fun r => length r = length (g_variants t)) (g_rows t)
  /\ match g_anc t with
     | Some a => Forall (fun r => length r = length (g_variants t)) a
     | None => True end.

Lemma nth_map_default {A} (f : A -> bool) l j :
  nth j (map f l) false = match nth_error l j with Some x => f x | None => false end.
Proof. revert j. induction l as [|y r IH]; intros [|j]; cbn; auto. Qed.

Lemma col_any_maskof f t j : col_any (maskof f t) j = col_bad f t j.
Proof.
  unfold col_any, col_bad, maskof. rewrite existsb_map. apply existsb_ext. intro r.
  apply nth_map_default.
Qed.

Lemma col_bad_iff f t j : col_bad f t j = true <-> exists i, cell_sat f t i j.
Proof.
  unfold col_bad. rewrite existsb_exists. split.
  - intros [row [H1 H2]]. apply In_nth_error in H1. destruct H1 as [i H1].
    destruct (nth_error row j) as [x|] eqn:E; [|discriminate]. exists i, row, x. auto.
  - intros [i [row [x [H1 [H2 H3]]]]]. exists row. split; [eapply nth_error_In; exact H1|].
    rewrite H2. exact H3.
Qed.

Lemma del_cols_spec f b t :
  wf_cols t -> del_cols b (map snd (nonzero2 0 (maskof f t))) t = cols_removed b (keep_cols f t) t.
Proof.
  intros [H1 H2]. unfold del_cols, cols_removed.
  assert (K : forall {A} (l : list A), length l = length (g_variants t) ->
              np_delete (map snd (nonzero2 0 (maskof f t))) l = filter_mask (keep_cols f t) l).
  { intros A l Hl. rewrite delete_cols_spec, Hl. unfold keep_cols. f_equal.
    apply map_ext. intro j. rewrite col_any_maskof. reflexivity. }
  f_equal.
  - apply K. reflexivity.
  - apply map_ext_in. intros r Hr. apply K. rewrite Forall_forall in H1. auto.
  - destruct b; [|reflexivity]. destruct (g_anc t) as [a|]; cbn; [|reflexivity]. f_equal.
    apply map_ext_in. intros r Hr. apply K. rewrite Forall_forall in H2. auto.
Qed.

Lemma check_biallelic_discard t :
  wf_cols t ->
  check_biallelic true t = QOk (cast_bool (cols_removed true (keep_cols cell_multi t) t)).
Proof.
  intro W. rewrite <- (del_cols_spec _ _ _ W). unfold check_biallelic.
  destruct (nonzero2 0 (maskof cell_multi t)) as [|ij rest]; [|reflexivity].
  cbn [map]. unfold del_cols. rewrite np_delete_nil.
  destruct t as [s v r p a]; cbn. f_equal. unfold cast_bool; cbn. f_equal.
  - f_equal. rewrite <- (map_id r) at 1. apply map_ext. intro x. rewrite np_delete_nil. reflexivity.
  - destruct a as [a|]; cbn; [|reflexivity]. f_equal.
    rewrite <- (map_id a) at 1. apply map_ext. intro x. rewrite np_delete_nil. reflexivity.
Qed.

(* ---- check_phase ----------------------------------------------------------- *)

Lemma check_phase_no_plane legacy t : g_planes t < 3 -> check_phase legacy t = QOk t.
Proof. intro H. unfold check_phase. apply Z.ltb_lt in H. rewrite H. reflexivity. Qed.

Lemma check_phase_raises_iff t :
  3 <= g_planes t ->
  ((exists s v, check_phase false t = QRaise s v) <-> some_cell (cell_unphased false) t).
Proof.
  intro Hp. unfold check_phase. apply Z.ltb_ge in Hp. rewrite Hp.
  destruct (nonzero2 0 (maskof (cell_unphased false) t)) as [|ij rest] eqn:E.
  - apply nonzero_mask_nil in E. split; [intros [s [v H]]; discriminate|intro H; contradiction].
  - split; intros _.
    + destruct ij as [a b]. exists a, b. apply nonzero_mask_sound. rewrite E. left. reflexivity.
    + eexists. eexists. reflexivity.
Qed.

Lemma check_phase_names t s v :
  check_phase false t = QRaise s v ->
  exists i j, names t i j s v /\ cell_sat (cell_unphased false) t i j.
Proof.
  unfold check_phase. destruct (g_planes t <? 3); [discriminate|].
  destruct (nonzero2 0 (maskof (cell_unphased false) t)) as [|[a b] rest] eqn:E; [discriminate|].
  intro H. inversion H; subst. exists a, b. split; [split; reflexivity|].
  apply nonzero_mask_sound. rewrite E. left. reflexivity.
Qed.

Lemma check_phase_strips t :
  3 <= g_planes t -> ~ some_cell (cell_unphased false) t -> check_phase false t = QOk (strip_phase t).
Proof.
  intros Hp H. unfold check_phase. apply Z.ltb_ge in Hp. rewrite Hp.
  apply nonzero_mask_nil in H. rewrite H. reflexivity.
Qed.

(* a heterozygous unphased call, in the property's words *)
Lemma cell_unphased_spec x :
  cell_unphased false x = true <-> ca x <> cb x /\ ca x < 254 /\ cb x < 254 /\ cp x = 0.
Proof.
  unfold cell_unphased. rewrite !andb_true_iff, negb_true_iff, Z.eqb_neq, Z.eqb_eq, !Z.ltb_lt. tauto.
Qed.

(* ---- check_maf ------------------------------------------------------------- *)

Lemma addl_length a : forall b, length a = length b -> length (addl a b) = length b.
Proof.
  induction a as [|x a IH]; intros [|y b] H; cbn in *; try reflexivity; try discriminate.
  rewrite IH; [reflexivity|lia].
Qed.

Lemma col_counts_length t : wf_cols t -> length (col_counts t) = length (g_variants t).
Proof.
  intros [H _]. unfold col_counts. induction H as [|r rows Hr _ IH]; cbn.
  - apply repeat_length.
  - rewrite addl_length; [exact IH|]. rewrite map_length, Hr, IH. reflexivity.
Qed.

Section MafProofs.
  Variable rare : Z -> Z -> bool.

  Definition rare_mask (t : gtab) : list bool :=
    map (fun k => rare k (lenZ (g_rows t))) (col_counts t).

  Lemma check_maf_discard b w t :
    wf_cols t ->
    check_maf rare b true w t = QOk (cols_removed b (map negb (rare_mask t)) t).
  Proof.
    intros W. pose proof (col_counts_length t W) as Lc. destruct W as [H1 H2].
    assert (K : forall {A} (l : list A), length l = length (g_variants t) ->
                np_delete (rare_idx rare t) l = filter_mask (map negb (rare_mask t)) l).
    { intros A l Hl. unfold rare_idx. apply delete_idx1_spec.
      unfold rare_mask. rewrite map_length, Lc. exact Hl. }
    assert (E : check_maf rare b true w t = QOk (del_cols b (rare_idx rare t) t)).
    { unfold check_maf. destruct (rare_idx rare t) as [|j r] eqn:E; [|reflexivity].
      unfold del_cols. rewrite np_delete_nil. destruct t as [s v r p a]; cbn. f_equal. f_equal.
      - rewrite <- (map_id r) at 1. apply map_ext. intro x. rewrite np_delete_nil. reflexivity.
      - destruct b; [|reflexivity]. destruct a as [a|]; cbn; [|reflexivity]. f_equal.
        rewrite <- (map_id a) at 1. apply map_ext. intro x. rewrite np_delete_nil. reflexivity. }
    rewrite E. unfold del_cols, cols_removed. f_equal. f_equal.
    - apply K. reflexivity.
    - apply map_ext_in. intros r Hr. apply K. rewrite Forall_forall in H1. auto.
    - destruct b; [|reflexivity]. destruct (g_anc t) as [a|]; cbn; [|reflexivity]. f_equal.
      apply map_ext_in. intros r Hr. apply K. rewrite Forall_forall in H2. auto.
  Qed.

  Lemma maf_ret_discard t :
    wf_cols t -> maf_ret rare true t = filter_mask (map negb (rare_mask t)) (col_counts t).
  Proof.
    intro W. unfold maf_ret, rare_idx. apply delete_idx1_spec. unfold rare_mask.
    rewrite map_length. reflexivity.
  Qed.

  Lemma rare_idx_nil t : rare_idx rare t = [] <-> existsb (fun b => b) (rare_mask t) = false.
  Proof. unfold rare_idx. apply nonzero1_nil_iff. Qed.

  (* without discard / warn_only: raises iff some variant is rare, and names a rare one *)
  Lemma check_maf_raises_iff b t :
    (exists v, check_maf rare b false false t = QRaise None v)
    <-> existsb (fun k => rare k (lenZ (g_rows t))) (col_counts t) = true.
  Proof.
    assert (E : existsb (fun k => rare k (lenZ (g_rows t))) (col_counts t)
                = existsb (fun b => b) (rare_mask t)).
    { unfold rare_mask. rewrite existsb_map. reflexivity. }
    rewrite E. unfold check_maf. destruct (rare_idx rare t) as [|j r] eqn:E2.
    - apply rare_idx_nil in E2. rewrite E2. split; [intros [v H]; discriminate|discriminate].
    - split; intros _; [|eexists; reflexivity].
      destruct (existsb (fun b => b) (rare_mask t)) eqn:E3; [reflexivity|].
      apply rare_idx_nil in E3. congruence.
  Qed.

  Lemma check_maf_names b t v :
    check_maf rare b false false t = QRaise None v ->
    exists j k, v = Some (vid (nth j (g_variants t) dv))
                /\ nth_error (col_counts t) j = Some k /\ rare k (lenZ (g_rows t)) = true.
  Proof.
    unfold check_maf. destruct (rare_idx rare t) as [|j r] eqn:E; [discriminate|].
    intro H. inversion H; subst. exists j.
    assert (Hin : In j (rare_idx rare t)) by (rewrite E; left; reflexivity).
    unfold rare_idx in Hin. apply nonzero1_sound in Hin. destruct Hin as [_ Hn].
    rewrite Nat.sub_0_r in Hn. apply nth_map_true in Hn. destruct Hn as [k [Hk Hr]].
    exists k. auto.
  Qed.

  Lemma check_maf_warn_only b t : check_maf rare b false true t = QOk t.
  Proof. unfold check_maf. destruct (rare_idx rare t); reflexivity. Qed.
End MafProofs.

(* the count the frequency is computed from: non-reference alleles in column j *)
Fixpoint sumZ (l : list Z) : Z := match l with [] => 0 | x :: r => x + sumZ r end.

Lemma nth_addl a : forall b j, length a = length b -> nth j (addl a b) 0 = nth j a 0 + nth j b 0.
Proof.
  induction a as [|x a IH]; intros [|y b] j H; cbn in *; try discriminate.
  - destruct j; reflexivity.
  - destruct j; [reflexivity|]. apply IH. lia.
Qed.

Lemma col_counts_nth t j :
  wf_cols t -> (j < length (g_variants t))%nat ->
  nth j (col_counts t) 0 = sumZ (map (fun r => nonref (nth j r (gc 0 0 0))) (g_rows t)).
Proof.
  intros [H _] Hj. unfold col_counts.
  induction H as [|r rows Hr Hrows IH]; cbn [fold_right map sumZ].
  - apply nth_repeat.
  - rewrite nth_addl.
    + rewrite IH. f_equal. change 0 with (nonref (gc 0 0 0)). apply map_nth.
    + rewrite map_length, Hr. symmetry.
      apply (col_counts_length (mkg [] (g_variants t) rows 0 None)). split; [exact Hrows|exact I].
Qed.

(* ---- check_sorted ---------------------------------------------------------- *)

Lemma check_sorted_raises_iff t :
  check_sorted t = QRaise None None <-> sorted_ok (g_variants t) = false.
Proof.
  unfold check_sorted. destruct (sorted_ok (g_variants t)); split; intro H;
    try reflexivity; try discriminate.
Qed.

(* ---- the loader ------------------------------------------------------------ *)

(* uint8 data: allele values are never negative *)
Definition in_range (t : gtab) : Prop :=
  Forall (Forall (fun x => 0 <= ca x /\ 0 <= cb x)) (g_rows t).

Definition cast_cell (x : cell) : cell := gc (to_bool (ca x)) (to_bool (cb x)) (to_bool (cp x)).

Lemma unphased_cast x :
  cell_multi x = false -> 0 <= ca x -> 0 <= cb x ->
  cell_unphased false (cast_cell x) = cell_unphased false x.
Proof.
  intros Hm Ha Hb. unfold cell_multi in Hm. apply orb_false_iff in Hm. destruct Hm as [Ma Mb].
  apply Z.ltb_ge in Ma. apply Z.ltb_ge in Mb.
  assert (Ea : to_bool (ca x) = ca x).
  { unfold to_bool. destruct (ca x =? 0) eqn:E; [apply Z.eqb_eq in E|apply Z.eqb_neq in E]; lia. }
  assert (Eb : to_bool (cb x) = cb x).
  { unfold to_bool. destruct (cb x =? 0) eqn:E; [apply Z.eqb_eq in E|apply Z.eqb_neq in E]; lia. }
  unfold cell_unphased, cast_cell; cbn. rewrite Ea, Eb. f_equal.
  unfold to_bool. destruct (cp x =? 0); reflexivity.
Qed.

Lemma some_cell_cast t :
  in_range t -> ~ some_cell cell_multi t ->
  (some_cell (cell_unphased false) (cast_bool t) <-> some_cell (cell_unphased false) t).
Proof.
  intros R Hm. rewrite !some_cell_iff. unfold cast_bool; cbn [g_rows].
  rewrite some_cell_iff in Hm.
  assert (K : forall r x, In r (g_rows t) -> In x r ->
              cell_unphased false (cast_cell x) = cell_unphased false x).
  { intros r x Hr Hx. unfold in_range in R. rewrite Forall_forall in R. specialize (R r Hr).
    rewrite Forall_forall in R. destruct (R x Hx) as [Ha Hb]. apply unphased_cast; auto.
    destruct (cell_multi x) eqn:E; [|reflexivity]. exfalso. apply Hm.
    apply existsb_exists. exists r. split; [exact Hr|]. apply existsb_exists. exists x. auto. }
  rewrite existsb_map. split; intro H; apply existsb_exists in H; destruct H as [r [Hr H]];
    apply existsb_exists; exists r; (split; [exact Hr|]).
  - rewrite existsb_map in H. apply existsb_exists in H. destruct H as [x [Hx H]].
    apply existsb_exists. exists x. split; [exact Hx|]. rewrite <- (K r x Hr Hx). exact H.
  - rewrite existsb_map. apply existsb_exists in H. destruct H as [x [Hx H]].
    apply existsb_exists. exists x. split; [exact Hx|].
    change (cell_unphased false (cast_cell x) = true). rewrite (K r x Hr Hx). exact H.
Qed.

Lemma check_missing_ok_inv anc t t1 :
  check_missing anc false t = QOk t1 -> t1 = t /\ ~ some_cell (cell_missing anc) t.
Proof.
  intro H. assert (E : nonzero2 0 (maskof (cell_missing anc) t) = []).
  { unfold check_missing in H. destruct (nonzero2 0 (maskof (cell_missing anc) t)); [reflexivity|discriminate]. }
  unfold check_missing in H. rewrite E in H. injection H as <-. split; [reflexivity|].
  apply nonzero_mask_nil. exact E.
Qed.

Lemma check_biallelic_ok_inv t t1 :
  check_biallelic false t = QOk t1 -> t1 = cast_bool t /\ ~ some_cell cell_multi t.
Proof.
  intro H. assert (E : nonzero2 0 (maskof cell_multi t) = []).
  { unfold check_biallelic in H. destruct (nonzero2 0 (maskof cell_multi t)); [reflexivity|discriminate]. }
  unfold check_biallelic in H. rewrite E in H. injection H as <-. split; [reflexivity|].
  apply nonzero_mask_nil. exact E.
Qed.

Lemma check_phase_ok_inv t t1 :
  check_phase false t = QOk t1 ->
  (g_planes t < 3 /\ t1 = t) \/ (3 <= g_planes t /\ t1 = strip_phase t /\ ~ some_cell (cell_unphased false) t).
Proof.
  unfold check_phase. destruct (g_planes t <? 3) eqn:Ep.
  - intro H. injection H as <-. left. apply Z.ltb_lt in Ep. split; [exact Ep|reflexivity].
  - apply Z.ltb_ge in Ep. destruct (nonzero2 0 (maskof (cell_unphased false) t)) eqn:E; [|discriminate].
    intro H. injection H as <-. right. split; [exact Ep|]. split; [reflexivity|].
    apply nonzero_mask_nil. exact E.
Qed.

(* Genotypes.load: what comes back was free of missing, multiallelic and (if a phase plane
   was read) unphased heterozygous calls, and is that table cast to 0/1 with the phase
   plane stripped *)
Lemma load_postcondition anc t t' :
  in_range t ->
  load_checks false anc t = QOk t' ->
  ~ some_cell (cell_missing anc) t
  /\ ~ some_cell cell_multi t
  /\ (3 <= g_planes t -> ~ some_cell (cell_unphased false) t)
  /\ t' = (if g_planes t <? 3 then cast_bool t else strip_phase (cast_bool t)).
Proof.
  intros R H. unfold load_checks in H.
  destruct (check_missing anc false t) as [t1|] eqn:E1; [|discriminate].
  apply check_missing_ok_inv in E1. destruct E1 as [-> M1].
  destruct (check_biallelic false t) as [t2|] eqn:E2; [|discriminate].
  apply check_biallelic_ok_inv in E2. destruct E2 as [-> M2].
  apply check_phase_ok_inv in H. change (g_planes (cast_bool t)) with (g_planes t) in H.
  split; [exact M1|]. split; [exact M2|].
  destruct H as [[Hp ->]|[Hp [-> M3]]].
  - split; [lia|]. apply Z.ltb_lt in Hp. rewrite Hp. reflexivity.
  - split; [intros _; rewrite <- (some_cell_cast t R M2); exact M3|].
    apply Z.ltb_ge in Hp. rewrite Hp. reflexivity.
Qed.

(* and conversely a clean table loads *)
Lemma load_accepts anc t :
  in_range t ->
  ~ some_cell (cell_missing anc) t -> ~ some_cell cell_multi t ->
  ~ some_cell (cell_unphased false) t ->
  load_checks false anc t = QOk (if g_planes t <? 3 then cast_bool t else strip_phase (cast_bool t)).
Proof.
  intros R M1 M2 M3. unfold load_checks.
  apply check_missing_returns_iff in M1. rewrite M1.
  pose proof M2 as M2'. apply check_biallelic_returns_iff in M2'. rewrite M2'.
  unfold check_phase. change (g_planes (cast_bool t)) with (g_planes t).
  destruct (g_planes t <? 3); [reflexivity|].
  rewrite <- (some_cell_cast t R M2) in M3. apply nonzero_mask_nil in M3. rewrite M3. reflexivity.
Qed.

(* ---- the pinned tree's behaviour, refuted ---------------------------------- *)

Definition t_12 : gtab := mkg [3] [gv 1 1 13] [[gc 2 1 0]] 3 None.

(* an unphased heterozygote of two non-reference alleles passed the legacy phase check *)
Example legacy_phase_12_refuted :
  some_cell (cell_unphased false) t_12
  /\ check_phase true t_12 = QOk (strip_phase t_12)
  /\ check_phase false t_12 = QRaise (Some 3) (Some 1).
Proof.
  split; [|split; vm_compute; reflexivity].
  exists 0%nat, 0%nat, [gc 2 1 0], (gc 2 1 0). repeat split; reflexivity.
Qed.

(* a haploid call (second allele missing, phase flag unset) and a half-missing call pass *)
Example check_phase_missing_allele_passes :
  let t := mkg [0; 1] [gv 0 1 10] [[gc 5 255 0]; [gc 255 1 0]] 3 None in
  check_phase false t = QOk (strip_phase t).
Proof. vm_compute. reflexivity. Qed.

Definition t_anc : gtab :=
  mkg [0; 1] [gv 0 1 10; gv 1 1 12] [[gc 0 0 1; gc 0 1 1]; [gc 0 0 1; gc 1 0 1]] 3
      (Some [[(0, 0); (1, 1)]; [(0, 0); (1, 2)]]).

(* legacy GenotypesAncestry.check_maf(discard): one variant left, two ancestry columns *)
Example legacy_ancestry_maf_refuted :
  forall rare, rare 0 2 = true -> rare 2 2 = false ->
  exists t', check_maf rare false true false t_anc = QOk t'
             /\ g_variants t' = [gv 1 1 12]
             /\ g_anc t' = Some [[(0, 0); (1, 1)]; [(0, 0); (1, 2)]]
             /\ g_anc (match check_maf rare true true false t_anc with QOk u => u | _ => t_anc end)
                = Some [[(1, 1)]; [(1, 2)]].
Proof.
  intros rare H0 H2. eexists. unfold check_maf, rare_idx. cbn. unfold lenZ; cbn. rewrite H0, H2. cbn.
  repeat split; reflexivity.
Qed.
