(* C13 - histories of reads and checks on one object (soundness composed over any sequence),
   check_sorted as a statement about the variant list, and check_maf instantiated with the
   exact rational minor allele frequency min(f, 1-f). *)
From Coq Require Import QArith Qminmax PrimFloat.
From HV Require Import Prelude GenoTable C13_Model C13_Proofs C13_Check C13_Sound.
Open Scope Z_scope.

(* ---- well-formed tables: samples x variants, ancestry in step ---------------- *)

Definition wf (t : gtab) : Prop := wf_rows t /\ wf_cols t.

Lemma filter_mask_length2 {A B} (m : list bool) : forall (a : list A) (b : list B),
  length a = length b -> length (filter_mask m a) = length (filter_mask m b).
Proof.
  induction m as [|k m IH]; intros [|x a] [|y b] H; cbn in *; try reflexivity; try discriminate.
  destruct k; cbn; [f_equal|]; apply IH; lia.
Qed.

Lemma Forall_filter_mask {A} (P : A -> Prop) (m : list bool) : forall l,
  Forall P l -> Forall P (filter_mask m l).
Proof.
  induction m as [|k m IH]; intros [|x l] H; cbn; try constructor.
  inversion H as [|? ? H1 H2]; subst. destruct k; [constructor; [exact H1|]|]; apply IH; exact H2.
Qed.

Lemma Forall_filter' {A} (P : A -> Prop) (g : A -> bool) l : Forall P l -> Forall P (filter g l).
Proof.
  intro H. rewrite Forall_forall in *. intros x Hx. apply filter_In in Hx. apply H. tauto.
Qed.

Lemma wf_rows_removed f t : wf t -> wf (rows_removed f t).
Proof.
  intros [[R1 R2] [C1 C2]]. unfold rows_removed. split; split; cbn.
  - rewrite <- (filter_mask_filter (fun r => negb (row_bad f r)) (g_rows t)).
    apply filter_mask_length2. exact R1.
  - destruct (g_anc t) as [a|]; cbn; [|exact I].
    rewrite <- (filter_mask_filter (fun r => negb (row_bad f r)) (g_rows t)).
    apply filter_mask_length2. exact R2.
  - apply Forall_filter'. exact C1.
  - destruct (g_anc t) as [a|]; cbn; [|exact I]. apply Forall_filter_mask. exact C2.
Qed.

Lemma wf_cols_removed keep t : wf t -> wf (cols_removed true keep t).
Proof.
  intros [[R1 R2] [C1 C2]]. unfold cols_removed. split; split; cbn.
  - rewrite map_length. exact R1.
  - destruct (g_anc t) as [a|]; cbn; [|exact I]. rewrite !map_length. exact R2.
  - rewrite Forall_map. eapply Forall_impl; [|exact C1]. intros r Hr. cbn in Hr.
    apply filter_mask_length2. exact Hr.
  - destruct (g_anc t) as [a|]; cbn; [|exact I]. rewrite Forall_map.
    eapply Forall_impl; [|exact C2]. intros r Hr. cbn in Hr. apply filter_mask_length2. exact Hr.
Qed.

Lemma wf_map_cells (g : cell -> cell) pl t :
  wf t -> wf (mkg (g_samples t) (g_variants t) (map (map g) (g_rows t)) pl (g_anc t)).
Proof.
  intros [[R1 R2] [C1 C2]]. split; split; cbn.
  - rewrite map_length. exact R1.
  - destruct (g_anc t) as [a|]; [|exact I]. rewrite map_length. exact R2.
  - rewrite Forall_map. eapply Forall_impl; [|exact C1]. intros r Hr. cbn in Hr. rewrite map_length. exact Hr.
  - exact C2.
Qed.

Lemma wf_cast_bool t : wf t -> wf (cast_bool t).
Proof. apply wf_map_cells. Qed.
Lemma wf_strip_phase t : wf t -> wf (strip_phase t).
Proof. apply wf_map_cells. Qed.

(* what read() delivers from a well-formed file is well-formed *)
Lemma wf_read_sel ss vs f : wf f -> wf (read_sel ss vs f).
Proof.
  intros [[R1 R2] [C1 C2]]. unfold read_sel. split; split; cbn.
  - rewrite map_length. apply filter_mask_length2. exact R1.
  - destruct (g_anc f) as [a|]; cbn; [|exact I]. rewrite !map_length. apply filter_mask_length2. exact R2.
  - rewrite Forall_map. apply Forall_filter_mask. eapply Forall_impl; [|exact C1].
    intros r Hr. cbn in Hr. apply filter_mask_length2. exact Hr.
  - destruct (g_anc f) as [a|]; cbn; [|exact I]. rewrite Forall_map. apply Forall_filter_mask.
    eapply Forall_impl; [|exact C2]. intros r Hr. cbn in Hr. apply filter_mask_length2. exact Hr.
Qed.

(* ---- check_sorted, as a statement about the list of variants ------------------- *)

(* some variant is followed, anywhere later in the array, by a variant of the same
   chromosome at a smaller position *)
Definition inversion (vs : list variant) : Prop :=
  exists l1 a l2 b l3, vs = l1 ++ a :: l2 ++ b :: l3 /\ vchrom a = vchrom b /\ vpos b < vpos a.

Lemma nondecr_cons2 a b r : nondecr (a :: b :: r) = (a <=? b) && nondecr (b :: r).
Proof. reflexivity. Qed.

Lemma nondecr_false l :
  nondecr l = false -> exists p1 x y p3, l = p1 ++ x :: y :: p3 /\ y < x.
Proof.
  induction l as [|a r IH]; [discriminate|]. destruct r as [|b r'].
  - discriminate.
  - rewrite nondecr_cons2. intro H. apply andb_false_iff in H. destruct H as [H|H].
    + apply Z.leb_gt in H. exists [], a, b, r'. split; [reflexivity|lia].
    + destruct (IH H) as [p1 [x [y [p3 [E L]]]]]. exists (a :: p1), x, y, p3.
      rewrite E. split; [reflexivity|exact L].
Qed.

Lemma nondecr_head l : forall x, nondecr (x :: l) = true -> forall y, In y l -> x <= y.
Proof.
  induction l as [|z l IH]; intros x H y Hy; [contradiction|].
  rewrite nondecr_cons2 in H. apply andb_true_iff in H. destruct H as [H1 H2]. apply Z.leb_le in H1.
  destruct Hy as [<-|Hy]; [exact H1|]. specialize (IH z H2 y Hy). lia.
Qed.

Lemma nondecr_app_r p : forall q, nondecr (p ++ q) = true -> nondecr q = true.
Proof.
  induction p as [|a p IH]; intros q H; [exact H|].
  apply IH. cbn [app] in H. destruct (p ++ q) as [|b r] eqn:E; [reflexivity|].
  rewrite nondecr_cons2 in H. apply andb_true_iff in H. tauto.
Qed.

Lemma nondecr_mid p1 x p2 y p3 : nondecr (p1 ++ x :: p2 ++ y :: p3) = true -> x <= y.
Proof.
  intro H. apply nondecr_app_r in H. eapply nondecr_head; [exact H|].
  apply in_or_app. right. left. reflexivity.
Qed.

Lemma map_filter_split (P : variant -> bool) vs : forall p1 x q,
  map vpos (filter P vs) = p1 ++ x :: q ->
  exists l1 a l2, vs = l1 ++ a :: l2 /\ P a = true /\ vpos a = x /\ map vpos (filter P l2) = q.
Proof.
  induction vs as [|v vs IH]; intros p1 x q H; cbn in H.
  - destruct p1; discriminate.
  - destruct (P v) eqn:E.
    + cbn in H. destruct p1 as [|y p1]; cbn in H.
      * injection H as H1 H2. exists [], v, vs. auto.
      * injection H as H1 H2. destruct (IH p1 x q H2) as [l1 [a [l2 [K1 [K2 [K3 K4]]]]]].
        exists (v :: l1), a, l2. rewrite K1. auto.
    + destruct (IH p1 x q H) as [l1 [a [l2 [K1 [K2 [K3 K4]]]]]].
      exists (v :: l1), a, l2. rewrite K1. auto.
Qed.

Lemma forallb_false {A} (f : A -> bool) l : forallb f l = false -> exists x, In x l /\ f x = false.
Proof.
  induction l as [|a l IH]; cbn; [discriminate|]. intro H. apply andb_false_iff in H.
  destruct H as [H|H]; [exists a; auto|]. destruct (IH H) as [x [H1 H2]]. exists x. auto.
Qed.

Lemma sorted_ok_false_iff vs : sorted_ok vs = false <-> inversion vs.
Proof.
  split.
  - intro H. apply forallb_false in H. destruct H as [x [_ H]]. unfold positions_on in H.
    apply nondecr_false in H. destruct H as [p1 [px [py [p3 [E L]]]]].
    apply map_filter_split in E. destruct E as [l1 [a [l2 [K1 [K2 [K3 K4]]]]]].
    apply (map_filter_split _ l2 []) in K4. destruct K4 as [m1 [b [m2 [J1 [J2 [J3 _]]]]]].
    exists l1, a, m1, b, m2. subst l2. split; [exact K1|].
    apply Z.eqb_eq in K2. apply Z.eqb_eq in J2. split; [congruence|lia].
  - intros [l1 [a [l2 [b [l3 [E [Hc Hp]]]]]]].
    destruct (sorted_ok vs) eqn:S; [|reflexivity]. exfalso.
    unfold sorted_ok in S. rewrite forallb_forall in S.
    assert (Ha : In a vs) by (rewrite E; apply in_or_app; right; left; reflexivity).
    specialize (S a Ha). unfold positions_on in S. rewrite E in S.
    rewrite filter_app in S. cbn [filter] in S. rewrite Z.eqb_refl in S.
    rewrite filter_app in S. cbn [filter] in S.
    replace (vchrom b =? vchrom a) with true in S by (symmetry; apply Z.eqb_eq; congruence).
    rewrite map_app in S. cbn [map] in S. rewrite map_app in S. cbn [map] in S.
    apply nondecr_mid in S. lia.
Qed.

Lemma check_sorted_raises_inversion t :
  check_sorted t = QRaise None None <-> inversion (g_variants t).
Proof. rewrite check_sorted_raises_iff. apply sorted_ok_false_iff. Qed.

Lemma check_sorted_returns_iff t :
  check_sorted t = QOk t <-> ~ inversion (g_variants t).
Proof.
  rewrite <- sorted_ok_false_iff. unfold check_sorted.
  destruct (sorted_ok (g_variants t)); split; intro H; try reflexivity; try discriminate.
  exfalso. apply H. reflexivity.
Qed.

(* ---- one call: the clause it satisfies ----------------------------------------- *)

Section Hist.
  Variable T : Type.
  Variable rare_of : T -> Z -> Z -> bool.

  Definition raises_naming (f : cell -> bool) (t : gtab) (o : qout) : Prop :=
    exists i j s v, o = QRaise s v /\ names t i j s v /\ cell_sat f t i j.

  (* the property's clause for one call on an object holding t *)
  Definition step_clause (anc : bool) (t : gtab) (op : hop T) (o : qout) : Prop :=
    match op with
    | HRead f => o = QOk f
    | HMissing false =>
        (~ some_cell (cell_missing anc) t /\ o = QOk t) \/ raises_naming (cell_missing anc) t o
    | HMissing true => o = QOk (rows_removed (cell_missing anc) t)
    | HBiallelic false =>
        (~ some_cell cell_multi t /\ o = QOk (cast_bool t)) \/ raises_naming cell_multi t o
    | HBiallelic true => o = QOk (cast_bool (cols_removed true (keep_cols cell_multi t) t))
    | HPhase =>
        (g_planes t < 3 /\ o = QOk t)
        \/ (3 <= g_planes t
            /\ ((~ some_cell (cell_unphased false) t /\ o = QOk (strip_phase t))
                \/ raises_naming (cell_unphased false) t o))
    | HMaf None _ _ => o = QOk t
    | HMaf (Some th) true _ =>
        o = QOk (cols_removed true (map negb (rare_mask (rare_of th) t)) t)
    | HMaf (Some th) false true => o = QOk t
    | HMaf (Some th) false false =>
        (existsb (fun k => rare_of th k (lenZ (g_rows t))) (col_counts t) = false /\ o = QOk t)
        \/ (exists j k, o = QRaise None (Some (vid (nth j (g_variants t) dv)))
                        /\ nth_error (col_counts t) j = Some k
                        /\ rare_of th k (lenZ (g_rows t)) = true)
    | HSorted =>
        (~ inversion (g_variants t) /\ o = QOk t)
        \/ (inversion (g_variants t) /\ o = QRaise None None)
    end.

  Lemma hstep_clause anc t op : wf t -> step_clause anc t op (hstep T rare_of anc t op).
  Proof.
    intros [WR WC]. destruct op as [f|d|d| |thr d w| ]; cbn [hstep step_clause].
    - reflexivity.
    - destruct d.
      + apply check_missing_discard. exact WR.
      + destruct (check_missing anc false t) as [t1|s v] eqn:E.
        * apply check_missing_ok_inv in E. destruct E as [-> M]. left. split; [exact M|reflexivity].
        * right. destruct (check_missing_names _ _ _ _ E) as [i [j [N C]]].
          exists i, j, s, v. auto.
    - destruct d.
      + apply check_biallelic_discard. exact WC.
      + destruct (check_biallelic false t) as [t1|s v] eqn:E.
        * apply check_biallelic_ok_inv in E. destruct E as [-> M]. left. split; [exact M|reflexivity].
        * right. destruct (check_biallelic_names _ _ _ E) as [i [j [N C]]].
          exists i, j, s, v. auto.
    - destruct (check_phase false t) as [t1|s v] eqn:E.
      + apply check_phase_ok_inv in E. destruct E as [[Hp ->]|[Hp [-> M]]].
        * left. split; [exact Hp|reflexivity].
        * right. split; [exact Hp|]. left. split; [exact M|reflexivity].
      + right. assert (Hp : 3 <= g_planes t).
        { unfold check_phase in E. destruct (g_planes t <? 3) eqn:Ep; [discriminate|].
          apply Z.ltb_ge in Ep. exact Ep. }
        split; [exact Hp|]. right. destruct (check_phase_names _ _ _ E) as [i [j [N C]]].
        exists i, j, s, v. auto.
    - destruct thr as [th|]; [|reflexivity]. destruct d.
      + apply check_maf_discard. exact WC.
      + destruct w; [apply check_maf_warn_only|].
        destruct (check_maf (rare_of th) true false false t) as [t1|s v] eqn:E.
        * left.
          destruct (existsb (fun k => rare_of th k (lenZ (g_rows t))) (col_counts t)) eqn:X.
          -- apply (check_maf_raises_iff (rare_of th) true t) in X. destruct X as [v X]. congruence.
          -- split; [reflexivity|]. unfold check_maf in E.
             destruct (rare_idx (rare_of th) t); [symmetry; exact E|discriminate].
        * right. assert (s = None).
          { unfold check_maf in E. destruct (rare_idx (rare_of th) t); [discriminate|].
            injection E as <- _. reflexivity. }
          subst s. destruct (check_maf_names _ _ _ _ E) as [j [k [E1 [E2 E3]]]].
          exists j, k. subst v. auto.
    - unfold check_sorted. destruct (sorted_ok (g_variants t)) eqn:S.
      + left. split; [|reflexivity]. rewrite <- sorted_ok_false_iff. congruence.
      + right. split; [apply sorted_ok_false_iff; exact S|reflexivity].
  Qed.

  (* every call leaves a well-formed object (ancestry still in step with data) *)
  Lemma hstep_wf anc t op :
    wf t -> (forall f, op = HRead f -> wf f) -> wf (after t (hstep T rare_of anc t op)).
  Proof.
    intros W Hf. pose proof (hstep_clause anc t op W) as C. destruct W as [WR WC].
    destruct op as [f|d|d| |thr d w| ]; cbn [step_clause] in C.
    - rewrite C. cbn. apply Hf. reflexivity.
    - destruct d.
      + rewrite C. cbn. apply wf_rows_removed. split; assumption.
      + destruct C as [[_ ->]|[i [j [s [v [-> _]]]]]]; cbn; split; assumption.
    - destruct d.
      + rewrite C. cbn. apply wf_cast_bool, wf_cols_removed. split; assumption.
      + destruct C as [[_ ->]|[i [j [s [v [-> _]]]]]]; cbn; [apply wf_cast_bool|]; split; assumption.
    - destruct C as [[_ ->]|[_ [[_ ->]|[i [j [s [v [-> _]]]]]]]]; cbn;
        [|apply wf_strip_phase|]; split; assumption.
    - destruct thr as [th|]; [|rewrite C; cbn; split; assumption]. destruct d.
      + rewrite C. cbn. apply wf_cols_removed. split; assumption.
      + destruct w; [rewrite C; cbn; split; assumption|].
        destruct C as [[_ ->]|[j [k [-> _]]]]; cbn; split; assumption.
    - destruct C as [[_ ->]|[_ ->]]; cbn; split; assumption.
  Qed.

  Definition reads_wf (ops : list (hop T)) : Prop := forall f, In (HRead f) ops -> wf f.

  Lemma state_after_wf anc : forall ops t, wf t -> reads_wf ops -> wf (state_after T rare_of anc t ops).
  Proof.
    induction ops as [|op r IH]; intros t W R; [exact W|]. cbn [state_after]. apply IH.
    - apply hstep_wf; [exact W|]. intros f ->. apply R. left. reflexivity.
    - intros f Hf. apply R. right. exact Hf.
  Qed.

  (* soundness composed over any history: at every call the object is well-formed and the call's
     outcome satisfies the property's clause for the contents the object has at that moment *)
  Theorem history_sound anc : forall ops t, wf t -> reads_wf ops ->
    Forall (fun x => wf (fst (fst x)) /\ step_clause anc (fst (fst x)) (snd (fst x)) (snd x))
           (hrun T rare_of anc t ops).
  Proof.
    induction ops as [|op r IH]; intros t W R; cbn [hrun]; constructor.
    - cbn. split; [exact W|]. apply hstep_clause. exact W.
    - apply IH.
      + apply hstep_wf; [exact W|]. intros f ->. apply R. left. reflexivity.
      + intros f Hf. apply R. right. exact Hf.
  Qed.

  (* the contents a call sees are those left by the calls before it *)
  Lemma hrun_app anc : forall pre t post,
    hrun T rare_of anc t (pre ++ post)
    = hrun T rare_of anc t pre ++ hrun T rare_of anc (state_after T rare_of anc t pre) post.
  Proof.
    induction pre as [|op r IH]; intros t post; [reflexivity|].
    cbn [app hrun state_after]. rewrite IH. reflexivity.
  Qed.

  Lemma state_after_app anc : forall pre t post,
    state_after T rare_of anc t (pre ++ post)
    = state_after T rare_of anc (state_after T rare_of anc t pre) post.
  Proof. induction pre as [|op r IH]; intros t post; [reflexivity|]. cbn [app state_after]. apply IH. Qed.

  Theorem history_step anc t pre op post :
    let cur := state_after T rare_of anc t pre in
    hrun T rare_of anc t (pre ++ op :: post)
    = hrun T rare_of anc t pre
      ++ (cur, op, hstep T rare_of anc cur op)
         :: hrun T rare_of anc (after cur (hstep T rare_of anc cur op)) post.
  Proof. cbn zeta. rewrite hrun_app. reflexivity. Qed.

  (* a read() makes everything before it irrelevant: the verdicts after it are those of a fresh
     object that read the same file *)
  Theorem history_forgets anc t pre f post :
    state_after T rare_of anc t (pre ++ HRead f :: post) = state_after T rare_of anc f post
    /\ hrun T rare_of anc t (pre ++ HRead f :: post)
       = hrun T rare_of anc t pre
         ++ (state_after T rare_of anc t pre, HRead f, QOk f) :: hrun T rare_of anc f post.
  Proof.
    split.
    - rewrite state_after_app. reflexivity.
    - rewrite hrun_app. reflexivity.
  Qed.

  (* the clause at position k of any history, spelled out *)
  Theorem history_call_sound anc t pre op :
    wf t -> reads_wf pre -> (forall f, op = HRead f -> wf f) ->
    let cur := state_after T rare_of anc t pre in
    wf cur /\ step_clause anc cur op (hstep T rare_of anc cur op)
    /\ wf (after cur (hstep T rare_of anc cur op)).
  Proof.
    intros W R Hf. cbn zeta. pose proof (state_after_wf anc pre t W R) as Wc.
    split; [exact Wc|]. split; [apply hstep_clause; exact Wc|apply hstep_wf; assumption].
  Qed.
End Hist.

(* ---- the executable model of the files relation is such a history -------------- *)

Definition hop_of_qop (q : qop) : hop float :=
  match q with
  | OpMissing d => HMissing d
  | OpBiallelic d => HBiallelic d
  | OpPhase => HPhase
  | OpMaf thr d w => HMaf thr d w
  | OpSorted => HSorted
  end.
Definition hop_of (files : list gtab) (op : fop) : hop float :=
  match op with
  | FRead k ss vs => HRead (file_read files k ss vs)
  | FCheck q => hop_of_qop q
  end.

Lemma model_step_hstep anc t q :
  fst (model_step false anc t q) = hstep float rareF anc t (hop_of_qop q).
Proof. destruct q as [d|d| |[th|] d w| ]; reflexivity. Qed.

Lemma model_fstep_hstep anc files t op :
  fst (model_fstep anc files t op) = hstep float rareF anc t (hop_of files op).
Proof. destruct op as [k ss vs|q]; [reflexivity|apply model_step_hstep]. Qed.

Lemma model_frun_hrun anc files : forall ops t,
  map fst (model_frun anc files t ops)
  = map snd (hrun float rareF anc t (map (hop_of files) ops)).
Proof.
  induction ops as [|op r IH]; intro t; [reflexivity|].
  cbn [model_frun map hrun snd]. rewrite model_fstep_hstep. f_equal.
  rewrite <- model_fstep_hstep. apply IH.
Qed.

Lemma model_run_hrun anc : forall ops t,
  map fst (model_run false anc t ops)
  = map snd (hrun float rareF anc t (map hop_of_qop ops)).
Proof.
  induction ops as [|op r IH]; intro t; [reflexivity|].
  cbn [model_run map hrun snd]. rewrite model_step_hstep. f_equal.
  rewrite <- model_step_hstep. apply IH.
Qed.

Lemma files_reads_wf files ops :
  Forall wf files -> reads_wf float (map (hop_of files) ops).
Proof.
  intros Hf f Hin. apply in_map_iff in Hin. destruct Hin as [op [E _]].
  destruct op as [k ss vs|q]; [|destruct q; discriminate]. cbn in E. injection E as <-.
  unfold file_read. apply wf_read_sel.
  destruct (nth_in_or_default k files no_table) as [Hin | ->].
  - rewrite Forall_forall in Hf. apply Hf. exact Hin.
  - repeat split; cbn; constructor.
Qed.

Example history_reread_phase :
  let f0 := mkg [1] [gv 5 1 10] [[gc 0 1 1]] 3 None in
  let f1 := mkg [2] [gv 7 1 12] [[gc 0 1 0]] 3 None in
  wf f0 /\ wf f1
  /\ map snd (hrun unit (fun _ _ _ => false) false no_table [HRead f0; HPhase; HRead f1; HPhase])
     = [QOk f0; QOk (strip_phase f0); QOk f1; QRaise (Some 2) (Some 7)].
Proof.
  cbn zeta. split; [repeat split; cbn; repeat constructor|].
  split; [repeat split; cbn; repeat constructor|]. vm_compute. reflexivity.
Qed.

(* ---- check_maf with the exact minor allele frequency --------------------------- *)

(* frequency of the non-reference alleles: k of the 2n alleles of n samples *)
Definition freqQ (k n : Z) : Q := k # Z.to_pos (2 * n).
(* "MAF below the threshold", exactly *)
Definition rareQ (thr : Q) (k n : Z) : bool := negb (Qle_bool thr (mafQ k n)).

Lemma mafQ_min k n : (mafQ k n == Qmin (freqQ k n) (1 - freqQ k n))%Q.
Proof.
  unfold mafQ, freqQ. set (f := k # Z.to_pos (2 * n)).
  destruct (Qle_bool f (1 - f)) eqn:E.
  - apply Qle_bool_iff in E. symmetry. apply Q.min_l. exact E.
  - assert (L : (1 - f < f)%Q).
    { apply Qnot_le_lt. intro H. apply Qle_bool_iff in H. congruence. }
    symmetry. apply Q.min_r. apply Qlt_le_weak. exact L.
Qed.

Lemma rareQ_spec thr k n :
  rareQ thr k n = true <-> (Qmin (freqQ k n) (1 - freqQ k n) < thr)%Q.
Proof.
  unfold rareQ. rewrite negb_true_iff, <- mafQ_min. split.
  - intro H. apply Qnot_le_lt. intro L. apply Qle_bool_iff in L. congruence.
  - intro H. destruct (Qle_bool thr (mafQ k n)) eqn:E; [|reflexivity].
    apply Qle_bool_iff in E. exfalso. exact (Qlt_not_le _ _ H E).
Qed.

Lemma mafQ_range k n : 0 < n -> 0 <= k <= 2 * n -> (0 <= mafQ k n /\ mafQ k n <= 1 # 2)%Q.
Proof.
  intros Hn Hk. unfold mafQ.
  assert (Hp : Z.pos (Z.to_pos (2 * n)) = 2 * n) by (apply Z2Pos.id; lia).
  generalize dependent (Z.to_pos (2 * n)). intros p Hp.
  destruct (Qle_bool (k # p) (1 - (k # p))) eqn:E.
  - apply Qle_bool_iff in E. unfold Qle, Qminus, Qplus, Qopp in *. cbn [Qnum Qden Pos.mul] in *. split; nia.
  - assert (L : (1 - (k # p) < (k # p))%Q).
    { apply Qnot_le_lt. intro H. apply Qle_bool_iff in H. congruence. }
    clear E. unfold Qle, Qlt, Qminus, Qplus, Qopp in *. cbn [Qnum Qden Pos.mul] in *. split; nia.
Qed.

(* discard mode keeps exactly the variants whose exact MAF is not below the threshold *)
Lemma check_maf_exact_discard thr w t :
  wf_cols t ->
  check_maf (rareQ thr) true true w t
  = QOk (cols_removed true
           (map (fun k => Qle_bool thr (mafQ k (lenZ (g_rows t)))) (col_counts t)) t).
Proof.
  intro W. rewrite check_maf_discard by exact W. unfold rare_mask, rareQ. rewrite map_map.
  f_equal. f_equal. apply map_ext. intro k. apply negb_involutive.
Qed.

(* raise mode raises iff some variant's exact MAF min(f, 1-f), f = count/(2n), is below the threshold *)
Lemma check_maf_exact_raises_iff thr t :
  (exists v, check_maf (rareQ thr) true false false t = QRaise None v)
  <-> exists j k, nth_error (col_counts t) j = Some k
                  /\ (Qmin (freqQ k (lenZ (g_rows t))) (1 - freqQ k (lenZ (g_rows t))) < thr)%Q.
Proof.
  rewrite check_maf_raises_iff, existsb_exists. split.
  - intros [k [Hin H]]. apply In_nth_error in Hin. destruct Hin as [j Hj].
    exists j, k. split; [exact Hj|]. apply rareQ_spec. exact H.
  - intros [j [k [Hj H]]]. exists k. split; [eapply nth_error_In; exact Hj|].
    apply rareQ_spec. exact H.
Qed.

(* ---- the MAF clause checker, discard mode -------------------------------------- *)

Lemma holds_maf_discard_sound p tq w t mf :
  lenZ (g_rows p) <> 0 ->
  holds_maf p (Some (Some tq)) true w (ORet t mf) = true ->
  let mq := map (fun k => mafQ k (lenZ (g_rows p))) (col_counts p) in
  exists keep,
    cols_selected keep p t
    /\ length keep = length (g_variants p)
    /\ forall j k, nth_error keep j = Some k -> (j < length (g_variants p))%nat ->
         (Qle_bool (nth j mq 0%Q + eps) tq && negb (Qeq_bool (nth j mq 0%Q + eps) tq) = true -> k = false)
         /\ (Qle_bool (nth j mq 0%Q) (tq + eps) && negb (Qeq_bool (nth j mq 0%Q) tq) = false -> k = true).
Proof.
  intros Hn H. unfold holds_maf in H. apply Z.eqb_neq in Hn. rewrite Hn in H.
  apply andb_true_iff in H. destruct H as [H _].
  apply cols_discard_ok_sound in H. exact H.
Qed.
