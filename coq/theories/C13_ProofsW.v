(* C13 - proofs about the additions of C13_ModelW.v / C13_CheckW.v:
   data of dtype bool (the typed history refines the untyped one), the loaders of all classes,
   the warning of check_maf(warn_only), soundness of the new clause checkers. *)
From Coq Require Import QArith PrimFloat.
From HV Require Import Prelude GenoTable C13_Model C13_Proofs C13_Check C13_Sound C13_ProofsHist
                       C13_Wide C13_ModelW C13_CheckW.
Open Scope Z_scope.

(* ---- tables an array of dtype bool can hold ------------------------------------------ *)

Lemma b01_spec x : b01 x = true <-> x = 0 \/ x = 1.
Proof. unfold b01. rewrite orb_true_iff, !Z.eqb_eq. tauto. Qed.

Lemma bool_cell_spec x :
  bool_cell x = true <-> (ca x = 0 \/ ca x = 1) /\ (cb x = 0 \/ cb x = 1) /\ (cp x = 0 \/ cp x = 1).
Proof. unfold bool_cell. rewrite !andb_true_iff, !b01_spec. tauto. Qed.

Lemma bool_tab_spec t :
  bool_tab t = true <-> forall row x, In row (g_rows t) -> In x row -> bool_cell x = true.
Proof.
  unfold bool_tab. rewrite forallb_forall. split.
  - intros H row x Hr Hx. specialize (H row Hr). rewrite forallb_forall in H. auto.
  - intros H row Hr. apply forallb_forall. intros x Hx. eauto.
Qed.

Lemma to_bool_b01 x : b01 x = true -> to_bool x = x.
Proof. intro H. apply b01_spec in H. destruct H as [-> | ->]; reflexivity. Qed.

Lemma to_bool_is_b01 x : b01 (to_bool x) = true.
Proof. unfold to_bool. destruct (x =? 0); reflexivity. Qed.

Lemma bool_cell_cast x : bool_cell x = true -> cast_cell x = x.
Proof.
  unfold bool_cell. rewrite !andb_true_iff. intros [[Ha Hb] Hp]. destruct x as [a b p]. unfold cast_cell; cbn in *.
  rewrite !to_bool_b01 by assumption. reflexivity.
Qed.

Lemma cast_cell_bool x : bool_cell (cast_cell x) = true.
Proof. unfold bool_cell, cast_cell; cbn. rewrite !to_bool_is_b01. reflexivity. Qed.

Lemma bool_cell_not_missing anc x : bool_cell x = true -> cell_missing anc x = false.
Proof.
  intro H. apply bool_cell_spec in H. destruct H as [Ha [Hb _]].
  unfold cell_missing, is_missing. destruct anc; apply orb_false_iff; split;
    try apply Z.eqb_neq; try apply Z.leb_gt; lia.
Qed.

Lemma bool_cell_not_multi x : bool_cell x = true -> cell_multi x = false.
Proof.
  intro H. apply bool_cell_spec in H. destruct H as [Ha [Hb _]].
  unfold cell_multi. apply orb_false_iff. split; apply Z.ltb_ge; lia.
Qed.

Lemma bool_tab_none f t :
  (forall x, bool_cell x = true -> f x = false) -> bool_tab t = true -> ~ some_cell f t.
Proof.
  intros Hf B [i [j [row [x [H1 [H2 H3]]]]]]. rewrite bool_tab_spec in B.
  rewrite Hf in H3; [discriminate|]. apply (B row x); eapply nth_error_In; eassumption.
Qed.

Lemma map_id_in {A} (f : A -> A) l : (forall x, In x l -> f x = x) -> map f l = l.
Proof.
  intro H. induction l as [|x r IH]; cbn; [reflexivity|].
  rewrite H by (left; reflexivity). rewrite IH; [reflexivity|]. intros y Hy. apply H. right. exact Hy.
Qed.

(* the cast of check_biallelic changes nothing in data that already holds only 0 and 1 *)
Theorem cast_bool_id t : bool_tab t = true -> cast_bool t = t.
Proof.
  intro B. rewrite bool_tab_spec in B. destruct t as [s v r p a]. unfold cast_bool; cbn in *. f_equal.
  apply map_id_in. intros row Hr. apply map_id_in. intros x Hx.
  apply (bool_cell_cast x). eapply B; eassumption.
Qed.

Lemma bool_tab_cast t : bool_tab (cast_bool t) = true.
Proof.
  apply bool_tab_spec. unfold cast_bool; cbn. intros row x Hr Hx.
  apply in_map_iff in Hr. destruct Hr as [row0 [<- _]].
  apply in_map_iff in Hx. destruct Hx as [x0 [<- _]]. apply (cast_cell_bool x0).
Qed.

Lemma bool_tab_strip t : bool_tab t = true -> bool_tab (strip_phase t) = true.
Proof.
  intro B. rewrite bool_tab_spec in *. unfold strip_phase; cbn. intros row x Hr Hx.
  apply in_map_iff in Hr. destruct Hr as [row0 [<- Hr]].
  apply in_map_iff in Hx. destruct Hx as [x0 [<- Hx]].
  specialize (B row0 x0 Hr Hx). apply bool_cell_spec in B. apply bool_cell_spec; cbn. tauto.
Qed.

Lemma In_delete_from {A} (idx : list nat) (l : list A) : forall k x, In x (delete_from k idx l) -> In x l.
Proof.
  induction l as [|y r IH]; intros k x H; cbn in H; [contradiction|].
  destruct (memn k idx); [right; eapply IH; exact H|].
  destruct H as [->|H]; [left; reflexivity|right; eapply IH; exact H].
Qed.

Lemma bool_tab_del_cols b idx t : bool_tab t = true -> bool_tab (del_cols b idx t) = true.
Proof.
  intro B. rewrite bool_tab_spec in *. unfold del_cols; cbn. intros row x Hr Hx.
  apply in_map_iff in Hr. destruct Hr as [row0 [<- Hr]].
  apply In_delete_from in Hx. eauto.
Qed.

Lemma check_missing_clean anc d t : ~ some_cell (cell_missing anc) t -> check_missing anc d t = QOk t.
Proof. intro H. apply nonzero_mask_nil in H. unfold check_missing. rewrite H. reflexivity. Qed.

Lemma check_biallelic_clean d t : ~ some_cell cell_multi t -> check_biallelic d t = QOk (cast_bool t).
Proof. intro H. apply nonzero_mask_nil in H. unfold check_biallelic. rewrite H. reflexivity. Qed.

Lemma check_biallelic_ok_bool d t t' : check_biallelic d t = QOk t' -> bool_tab t' = true.
Proof.
  unfold check_biallelic. destruct (nonzero2 0 (maskof cell_multi t)) as [|ij rest].
  - intro H. injection H as <-. apply bool_tab_cast.
  - destruct d; [|discriminate]. intro H. injection H as <-. apply bool_tab_cast.
Qed.

(* ---- the dtype-following history refines the untyped one ------------------------------- *)

Section HistDProofs.
  Variable T : Type.
  Variable rare_of : T -> Z -> Z -> bool.

  Lemma hstep_keeps_bool anc t op :
    (forall f, op <> HRead f) ->
    bool_tab t = true -> bool_tab (after t (hstep T rare_of anc t op)) = true.
  Proof.
    intros NR B. destruct op as [f|d|d| |thr d w| ]; cbn [hstep].
    - exfalso. apply (NR f). reflexivity.
    - rewrite check_missing_clean by (apply bool_tab_none; [apply bool_cell_not_missing|exact B]). exact B.
    - rewrite check_biallelic_clean by (apply bool_tab_none; [apply bool_cell_not_multi|exact B]).
      cbn. apply bool_tab_cast.
    - unfold check_phase. destruct (g_planes t <? 3); [exact B|].
      destruct (nonzero2 0 (maskof (cell_unphased false) t)); cbn; [apply bool_tab_strip|]; exact B.
    - destruct thr as [th|]; [|exact B]. unfold check_maf.
      destruct (rare_idx (rare_of th) t) as [|j r]; [exact B|].
      destruct d; [cbn [after]; apply bool_tab_del_cols; exact B|]. destruct w; exact B.
    - unfold check_sorted. destruct (sorted_ok (g_variants t)); exact B.
  Qed.

  (* one call: same outcome as the untyped model; and whenever the model says "dtype bool" afterwards,
     the contents are such that an array of dtype bool can hold them *)
  Lemma hstep_d_refines anc t isb op :
    (isb = true -> bool_tab t = true) ->
    fst (hstep_d T rare_of anc t isb op) = hstep T rare_of anc t op
    /\ (snd (hstep_d T rare_of anc t isb op) = true
        -> bool_tab (after t (hstep T rare_of anc t op)) = true).
  Proof.
    intro I. destruct op as [f|d|d| |thr d w| ].
    - cbn. split; [reflexivity|discriminate].
    - cbn [hstep_d hstep]. destruct isb.
      + specialize (I eq_refl).
        rewrite check_missing_clean by (apply bool_tab_none; [apply bool_cell_not_missing|exact I]).
        cbn. split; [reflexivity|intros _; exact I].
      + cbn. split; [reflexivity|discriminate].
    - cbn [hstep_d hstep]. destruct isb.
      + specialize (I eq_refl).
        rewrite check_biallelic_clean by (apply bool_tab_none; [apply bool_cell_not_multi|exact I]).
        rewrite cast_bool_id by exact I. cbn. split; [reflexivity|intros _; exact I].
      + destruct (check_biallelic d t) as [t'|s v] eqn:E; cbn.
        * split; [reflexivity|]. intros _. eapply check_biallelic_ok_bool. exact E.
        * split; [reflexivity|discriminate].
    - cbn [hstep_d fst snd]. split; [reflexivity|]. intro H.
      apply hstep_keeps_bool; [intros f; discriminate|auto].
    - cbn [hstep_d fst snd]. split; [reflexivity|]. intro H.
      apply hstep_keeps_bool; [intros f; discriminate|auto].
    - cbn [hstep_d fst snd]. split; [reflexivity|]. intro H.
      apply hstep_keeps_bool; [intros f; discriminate|auto].
  Qed.

  Definition untyped (x : gtab * bool * hop T * qout) : gtab * hop T * qout :=
    (fst (fst (fst x)), snd (fst x), snd x).

  (* every history, any order of the checks, re-reads included: following the dtype branches of the
     code (hrun_d) gives, call by call, the contents and outcomes of the untyped history hrun - so
     the history theorems (C13_history_sound etc.) speak about the code's dtype-dependent paths, too *)
  Theorem typed_history_refines anc : forall ops t isb,
    (isb = true -> bool_tab t = true) ->
    map untyped (hrun_d T rare_of anc t isb ops) = hrun T rare_of anc t ops.
  Proof.
    induction ops as [|op r IH]; intros t isb I; [reflexivity|].
    cbn [hrun_d hrun map]. destruct (hstep_d_refines anc t isb op I) as [E K].
    unfold untyped at 1. cbn [fst snd]. rewrite E. f_equal.
    apply IH. exact K.
  Qed.

  (* the dtype the model tracks is backed by the contents at every call *)
  Theorem typed_history_bool anc : forall ops t isb,
    (isb = true -> bool_tab t = true) ->
    Forall (fun x => snd (fst (fst x)) = true -> bool_tab (fst (fst (fst x))) = true)
           (hrun_d T rare_of anc t isb ops).
  Proof.
    induction ops as [|op r IH]; intros t isb I; cbn [hrun_d]; constructor.
    - cbn. exact I.
    - destruct (hstep_d_refines anc t isb op I) as [E K]. rewrite E. apply IH. exact K.
  Qed.

  (* on data of dtype bool every check passes the missing and biallelic tests unchanged *)
  Lemma bool_data_checks_pass anc t d :
    bool_tab t = true ->
    check_missing anc d t = QOk t /\ check_biallelic d t = QOk t.
  Proof.
    intro B. split.
    - apply check_missing_clean, bool_tab_none; [apply bool_cell_not_missing|exact B].
    - rewrite check_biallelic_clean by (apply bool_tab_none; [apply bool_cell_not_multi|exact B]).
      rewrite cast_bool_id by exact B. reflexivity.
  Qed.
End HistDProofs.

(* the executable model evaluated by the correspondence (C13_CheckW.model_step_w) is hstep_d with
   thresholds = IEEE doubles *)
Lemma model_step_w_hstep_d anc t isb q :
  fst (fst (fst (model_step_w anc t isb q))) = fst (hstep_d float rareF anc t isb (hop_of_qop q))
  /\ snd (fst (model_step_w anc t isb q)) = snd (hstep_d float rareF anc t isb (hop_of_qop q)).
Proof.
  destruct q as [d|d| |[th|] d w| ]; cbn [model_step_w hop_of_qop hstep_d]; try (split; reflexivity).
  - destruct isb; split; reflexivity.
  - destruct isb; [split; reflexivity|]. cbn [model_step fst snd].
    destruct (check_biallelic d t); split; reflexivity.
Qed.

Lemma model_wrun_hrun_d anc : forall ops t isb,
  map (fun m => fst (fst (fst m))) (model_wrun anc t isb ops)
  = map snd (hrun_d float rareF anc t isb (map hop_of_qop ops)).
Proof.
  induction ops as [|q r IH]; intros t isb; [reflexivity|].
  cbn [model_wrun map hrun_d snd]. destruct (model_step_w_hstep_d anc t isb q) as [E1 E2].
  rewrite <- E1, <- E2. f_equal. apply (IH (next_tab t (fst (fst (fst (model_step_w anc t isb q)))))).
Qed.

(* ---- the loaders ------------------------------------------------------------------------- *)

Theorem loader_postcondition ld t t' :
  in_range t ->
  load_model ld t = QOk t' ->
  match ld with
  | LdTR =>
      (3 <= g_planes t -> ~ some_cell (cell_unphased false) t)
      /\ t' = (if g_planes t <? 3 then t else strip_phase t)
  | _ =>
      ~ some_cell (cell_missing (loader_anc ld)) t
      /\ ~ some_cell cell_multi t
      /\ (3 <= g_planes t -> ~ some_cell (cell_unphased false) t)
      /\ t' = (if g_planes t <? 3 then cast_bool t else strip_phase (cast_bool t))
  end.
Proof.
  intros R H. destruct ld; cbn [load_model] in H.
  - apply (load_postcondition false t t' R H).
  - apply (load_postcondition true t t' R H).
  - apply check_phase_ok_inv in H. destruct H as [[Hp ->]|[Hp [-> M]]].
    + split; [lia|]. apply Z.ltb_lt in Hp. rewrite Hp. reflexivity.
    + split; [intros _; exact M|]. apply Z.ltb_ge in Hp. rewrite Hp. reflexivity.
Qed.

Theorem loader_accepts ld t :
  in_range t ->
  (ld <> LdTR -> ~ some_cell (cell_missing (loader_anc ld)) t /\ ~ some_cell cell_multi t) ->
  ~ some_cell (cell_unphased false) t ->
  exists t', load_model ld t = QOk t'.
Proof.
  intros R H M3. destruct ld; cbn [load_model].
  - destruct H as [M1 M2]; [discriminate|]. eexists. apply (load_accepts false t R M1 M2 M3).
  - destruct H as [M1 M2]; [discriminate|]. eexists. apply (load_accepts true t R M1 M2 M3).
  - unfold check_phase. destruct (g_planes t <? 3); [eexists; reflexivity|].
    apply nonzero_mask_nil in M3. rewrite M3. eexists. reflexivity.
Qed.

(* "the default loaders return only data that passed the checks": what comes back passes, as it
   is, every check its loader runs (all three for the SNP classes, the phase check for repeats) *)
Theorem loaded_passes_checks ld t t' :
  load_model ld t = QOk t' ->
  match ld with
  | LdTR => check_phase false t' = QOk t'
  | _ => check_missing (loader_anc ld) false t' = QOk t'
         /\ check_biallelic false t' = QOk t'
         /\ check_phase false t' = QOk t'
  end.
Proof.
  assert (P : forall anc, load_checks false anc t = QOk t' ->
              bool_tab t' = true /\ check_phase false t' = QOk t').
  { intros anc H. unfold load_checks in H.
    destruct (check_missing anc false t) as [t1|] eqn:E1; [|discriminate].
    destruct (check_biallelic false t1) as [t2|] eqn:E2; [|discriminate].
    apply check_biallelic_ok_bool in E2.
    apply check_phase_ok_inv in H. destruct H as [[Hp ->]|[Hp [-> M]]].
    - split; [exact E2|]. apply check_phase_no_plane. exact Hp.
    - split; [apply bool_tab_strip; exact E2|]. apply check_phase_no_plane. cbn. lia. }
  intro H. destruct ld; cbn [load_model] in H.
  - destruct (P false H) as [B C]. destruct (bool_data_checks_pass false t' false B) as [C1 C2]. cbn. auto.
  - destruct (P true H) as [B C]. destruct (bool_data_checks_pass true t' false B) as [C1 C2]. cbn. auto.
  - apply check_phase_ok_inv in H. destruct H as [[Hp ->]|[Hp [-> M]]].
    + apply check_phase_no_plane. exact Hp.
    + apply check_phase_no_plane. cbn. lia.
Qed.

(* cells of the cast table, by position *)
Lemma cell_sat_cast f t i j :
  cell_sat f (cast_bool t) i j <-> cell_sat (fun x => f (cast_cell x)) t i j.
Proof.
  unfold cell_sat, cast_bool; cbn [g_rows]. split.
  - intros [row [x [H1 [H2 H3]]]]. rewrite nth_error_map in H1.
    destruct (nth_error (g_rows t) i) as [row0|] eqn:E; [|discriminate]. injection H1 as <-.
    rewrite nth_error_map in H2. destruct (nth_error row0 j) as [x0|] eqn:E2; [|discriminate].
    injection H2 as <-. exists row0, x0. auto.
  - intros [row [x [H1 [H2 H3]]]]. eexists. eexists. rewrite nth_error_map, H1. cbn.
    split; [reflexivity|]. rewrite nth_error_map, H2. cbn. split; [reflexivity|exact H3].
Qed.

(* a loader that raises names a call that offends against one of the checks it runs *)
Theorem loader_raise_names ld t s v :
  in_range t ->
  load_model ld t = QRaise s v ->
  exists i j, names t i j s v
    /\ match ld with
       | LdTR => cell_sat (cell_unphased false) t i j
       | _ => cell_sat (cell_missing (loader_anc ld)) t i j \/ cell_sat cell_multi t i j
              \/ cell_sat (cell_unphased false) t i j
       end.
Proof.
  intros R H.
  assert (P : forall anc, load_checks false anc t = QRaise s v ->
              exists i j, names t i j s v
                /\ (cell_sat (cell_missing anc) t i j \/ cell_sat cell_multi t i j
                    \/ cell_sat (cell_unphased false) t i j)).
  { intros anc L. unfold load_checks in L.
    destruct (check_missing anc false t) as [t1|s1 v1] eqn:E1.
    - apply check_missing_ok_inv in E1. destruct E1 as [-> M1].
      destruct (check_biallelic false t) as [t2|s2 v2] eqn:E2.
      + apply check_biallelic_ok_inv in E2. destruct E2 as [-> M2].
        destruct (check_phase_names _ _ _ L) as [i [j [N C]]]. exists i, j. split; [exact N|].
        right. right. apply cell_sat_cast in C. destruct C as [row [x [H1 [H2 H3]]]].
        exists row, x. split; [exact H1|]. split; [exact H2|].
        rewrite <- H3. symmetry.
        assert (Hm : cell_multi x = false).
        { destruct (cell_multi x) eqn:Em; [|reflexivity]. exfalso. apply M2.
          exists i, j, row, x. auto. }
        unfold in_range in R. rewrite Forall_forall in R.
        assert (Hr : In row (g_rows t)) by (eapply nth_error_In; exact H1).
        specialize (R row Hr). rewrite Forall_forall in R.
        assert (Hx : In x row) by (eapply nth_error_In; exact H2).
        destruct (R x Hx) as [Ha Hb]. apply unphased_cast; assumption.
      + injection L as -> ->. destruct (check_biallelic_names _ _ _ E2) as [i [j [N C]]].
        exists i, j. auto.
    - injection L as -> ->. destruct (check_missing_names _ _ _ _ E1) as [i [j [N C]]].
      exists i, j. auto. }
  destruct ld; cbn [load_model] in H.
  - apply (P false H).
  - apply (P true H).
  - destruct (check_phase_names _ _ _ H) as [i [j [N C]]]. exists i, j. auto.
Qed.

(* ---- the warning of check_maf(warn_only) -------------------------------------------------- *)

Section WarnProofs.
  Variable rare : Z -> Z -> bool.

  (* warn mode (no discard): a record is logged iff some variant is rare *)
  Theorem maf_log_iff t :
    (exists v, maf_log rare false true t = [v])
    <-> existsb (fun k => rare k (lenZ (g_rows t))) (col_counts t) = true.
  Proof.
    rewrite <- (check_maf_raises_iff rare true t). unfold maf_log, check_maf.
    destruct (rare_idx rare t) as [|j r]; split; intros [v H]; try discriminate; eexists; reflexivity.
  Qed.

  (* it names the variant the error of raise mode would name *)
  Theorem maf_log_is_raise b t v :
    maf_log rare false true t = [v] <-> check_maf rare b false false t = QRaise None (Some v).
  Proof.
    unfold maf_log, check_maf. destruct (rare_idx rare t) as [|j r]; split; intro H; try discriminate.
    - injection H as <-. reflexivity.
    - injection H as <-. reflexivity.
  Qed.

  Theorem maf_log_names t v :
    maf_log rare false true t = [v] ->
    exists j k, v = vid (nth j (g_variants t) dv)
                /\ nth_error (col_counts t) j = Some k /\ rare k (lenZ (g_rows t)) = true.
  Proof.
    intro H. apply (maf_log_is_raise true) in H.
    destruct (check_maf_names rare true t (Some v) H) as [j [k [E [E2 E3]]]].
    exists j, k. injection E as ->. auto.
  Qed.

  (* nothing is logged at WARNING level in the other modes, nor when no variant is rare *)
  Theorem maf_log_silent d w t :
    d = true \/ w = false \/ existsb (fun k => rare k (lenZ (g_rows t))) (col_counts t) = false ->
    maf_log rare d w t = [].
  Proof.
    intro H. unfold maf_log. destruct (rare_idx rare t) as [|j r] eqn:E; [reflexivity|].
    destruct H as [->|[->|H]]; [reflexivity|destruct d; reflexivity|].
    exfalso. assert (X : exists v, maf_log rare false true t = [v]).
    { unfold maf_log. rewrite E. eexists. reflexivity. }
    apply maf_log_iff in X. congruence.
  Qed.
End WarnProofs.

Lemma maf_must_spec tq mq j : maf_must tq mq j = true <-> (nth j mq 0%Q + eps < tq)%Q.
Proof.
  unfold maf_must. rewrite andb_true_iff, negb_true_iff, Qle_bool_iff. split.
  - intros [H1 H2]. apply Qle_lteq in H1. destruct H1 as [H1|H1]; [exact H1|].
    apply Qeq_bool_iff in H1. congruence.
  - intro H. split; [apply Qlt_le_weak; exact H|].
    destruct (Qeq_bool (nth j mq 0%Q + eps) tq) eqn:E; [|reflexivity].
    apply Qeq_bool_iff in E. rewrite E in H. exfalso. apply (Qlt_irrefl _ H).
Qed.

Lemma maf_may_spec tq mq j :
  maf_may tq mq j = true <-> (nth j mq 0%Q <= tq + eps)%Q /\ ~ (nth j mq 0%Q == tq)%Q.
Proof.
  unfold maf_may. rewrite andb_true_iff, negb_true_iff, Qle_bool_iff. split.
  - intros [H1 H2]. split; [exact H1|]. intro E. apply Qeq_bool_iff in E. congruence.
  - intros [H1 H2]. split; [exact H1|].
    destruct (Qeq_bool (nth j mq 0%Q) tq) eqn:E; [|reflexivity]. apply Qeq_bool_iff in E. contradiction.
Qed.

(* what [holds] accepts in warn mode: a warning was logged if some variant is certainly below the
   threshold; none was logged if no variant can be read as below it; a variant that a warning
   names can be read as below it *)
Theorem warn_clause_sound tq p warn :
  warn_clause tq p warn = true ->
  ((exists j, (j < length (mafs p))%nat /\ maf_must tq (mafs p) j = true) -> warn <> [])
  /\ (warn <> [] -> exists j, (j < length (mafs p))%nat /\ maf_may tq (mafs p) j = true)
  /\ (forall v, In (Some v) warn ->
        exists j, (j < length (g_variants p))%nat /\ vid (nth j (g_variants p) dv) = v
                  /\ maf_may tq (mafs p) j = true).
Proof.
  unfold warn_clause. rewrite !andb_true_iff. intros [[H1 H2] H3]. split; [|split].
  - intros [j [Hj Hm]] E. subst warn. cbn in H1. rewrite orb_false_r, negb_true_iff in H1.
    assert (X : existsb (maf_must tq (mafs p)) (seq 0 (length (mafs p))) = true).
    { apply existsb_exists. exists j. split; [apply in_seq; lia|exact Hm]. }
    congruence.
  - intro NE. destruct warn as [|w r]; [contradiction|]. rewrite orb_false_r in H2.
    apply existsb_exists in H2. destruct H2 as [j [Hj Hm]]. apply in_seq in Hj. exists j. split; [lia|exact Hm].
  - intros v Hv. rewrite forallb_forall in H3. specialize (H3 _ Hv). cbn in H3.
    unfold named_may in H3. apply existsb_exists in H3. destruct H3 as [j [Hj Hm]].
    apply in_seq in Hj. apply andb_true_iff in Hm. destruct Hm as [Hm1 Hm2]. apply Z.eqb_eq in Hm1.
    exists j. split; [lia|]. split; assumption.
Qed.

(* ---- the loader clause checker ------------------------------------------------------------- *)

Theorem holds_loadw_sound k :
  holds_loadw k = true ->
  match lw_ld k with
  | LdTR =>
      match lw_out k with
      | ORet t _ =>
          (g_planes (lw_raw k) < 3 /\ t = lw_raw k)
          \/ (3 <= g_planes (lw_raw k) /\ ~ some_cell unph_must (lw_raw k) /\ t = strip_phase (lw_raw k))
      | ORaise s v _ =>
          exists s' v', s = Some s' /\ v = Some v' /\ named_offender unph_may (lw_raw k) s' v'
      | OOther e => e = E_Unobserved
      end
  | ld =>
      match lw_out k with
      | ORet t _ =>
          ~ some_cell (miss_must (loader_anc ld)) (lw_raw k) /\ ~ some_cell multi_must (lw_raw k)
          /\ ~ some_cell unph_must (lw_raw k) /\ t = strip_phase (cast_bool (lw_raw k))
      | ORaise s v _ =>
          exists s' v', s = Some s' /\ v = Some v'
            /\ named_offender (fun x => miss_may x || multi_may x || unph_may x) (lw_raw k) s' v'
      | OOther e => e = E_Unobserved
      end
  end.
Proof.
  unfold holds_loadw. destruct (lw_ld k) eqn:L.
  - intro H. apply holds_load_sound in H. exact H.
  - intro H. apply holds_load_sound in H. exact H.
  - destruct (lw_out k) as [t mf|s v t|e] eqn:O.
    + intro H. apply holds_phase_sound in H. exact H.
    + intro H. apply holds_phase_sound in H. destruct H as [_ [_ H]]. exact H.
    + intro H. apply Z.eqb_eq in H. exact H.
Qed.

(* ---- the hypotheses are satisfiable; boundary examples -------------------------------------- *)

(* a repeat table with a missing call and a phased heterozygote of two non-reference copy numbers:
   the repeat loaders return it (phase plane stripped, the missing call still there), the SNP
   loaders refuse it naming the missing call *)
Example loader_tr_example :
  let t := mkg [0; 1] [gv 7 1 10] [[gc 255 255 0]; [gc 5 3 1]] 3 None in
  in_range t
  /\ load_model LdTR t = QOk (strip_phase t)
  /\ load_model LdPlain t = QRaise (Some 0) (Some 7)
  /\ load_model LdTR (mkg [0; 1] [gv 7 1 10] [[gc 255 255 0]; [gc 5 3 0]] 3 None) = QRaise (Some 1) (Some 7).
Proof.
  cbn zeta. split; [repeat constructor; cbn; lia|]. split; [|split]; vm_compute; reflexivity.
Qed.

(* a history that crosses the dtype change: check_biallelic (uint8 -> bool), check_missing and
   check_biallelic on bool data, read() (back to uint8: the missing call is seen again) *)
Example typed_history_example :
  let f := mkg [0; 1] [gv 1 1 10; gv 2 1 12] [[gc 0 1 1; gc 1 1 1]; [gc 255 255 0; gc 0 0 1]] 3 None in
  let t := mkg [0; 1] [gv 1 1 10; gv 2 1 12] [[gc 0 1 1; gc 1 1 1]; [gc 1 0 1; gc 0 0 1]] 3 None in
  map (fun x => (snd (fst (fst x)), snd x))
      (hrun_d unit (fun _ _ _ => false) false t false
              [HBiallelic false; HMissing true; HBiallelic true; HPhase; HRead f; HMissing false])
  = [(false, QOk t); (true, QOk t); (true, QOk t); (true, QOk (strip_phase t)); (true, QOk f);
     (false, QRaise (Some 1) (Some 1))].
Proof. vm_compute. reflexivity. Qed.

(* warn mode: variant 2 (no non-reference allele among 2 samples) is rare under "count 0", variant 1
   is not: one record naming variant 2, the object unchanged; nothing is logged in the other modes *)
Example maf_log_example :
  let t := mkg [0; 1] [gv 1 1 10; gv 2 1 12] [[gc 0 1 1; gc 0 0 1]; [gc 1 0 1; gc 0 0 1]] 3 None in
  let rare := fun k n : Z => k =? 0 in
  maf_log rare false true t = [2] /\ check_maf rare true false true t = QOk t
  /\ maf_log rare true true t = [] /\ maf_log rare false false t = []
  /\ check_maf rare true false false t = QRaise None (Some 2).
Proof. vm_compute. repeat split; reflexivity. Qed.
