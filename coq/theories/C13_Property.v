(* C13 - property theorems only.  Model: C13_Model.v (QC steps of genotypes.py / transform.py);
   offender predicates and table shapes: C13_Proofs.v; clause checkers: C13_Check.v. *)
From Coq Require Import QArith Qminmax PrimFloat.
From HV Require Import Prelude GenoTable C13_Model C13_Proofs C13_Check C13_Sound C13_ProofsHist
                       C13_Wide C13_ModelW C13_CheckW C13_ProofsW.
Open Scope Z_scope.

(* ---- check_missing: raises iff some allele is missing, names such a call; discard mode
        removes exactly the samples with a missing allele (rows, sample IDs, ancestry rows) *)

Theorem C13_check_missing_raises_iff :
  forall anc t,
  (exists s v, check_missing anc false t = QRaise s v) <-> some_cell (cell_missing anc) t.
Proof. exact check_missing_raises_iff. Qed.
Print Assumptions C13_check_missing_raises_iff.

Theorem C13_check_missing_names_offender :
  forall anc t s v,
  check_missing anc false t = QRaise s v ->
  exists i j, names t i j s v /\ cell_sat (cell_missing anc) t i j.
Proof. exact check_missing_names. Qed.
Print Assumptions C13_check_missing_names_offender.

Theorem C13_check_missing_returns_unchanged :
  forall anc t, check_missing anc false t = QOk t <-> ~ some_cell (cell_missing anc) t.
Proof. exact check_missing_returns_iff. Qed.
Print Assumptions C13_check_missing_returns_unchanged.

Theorem C13_check_missing_discard_exact :
  forall anc t, wf_rows t ->
  check_missing anc true t = QOk (rows_removed (cell_missing anc) t).
Proof. exact check_missing_discard. Qed.
Print Assumptions C13_check_missing_discard_exact.

(* ---- check_biallelic ---- *)

Theorem C13_check_biallelic_raises_iff :
  forall t, (exists s v, check_biallelic false t = QRaise s v) <-> some_cell cell_multi t.
Proof. exact check_biallelic_raises_iff. Qed.
Print Assumptions C13_check_biallelic_raises_iff.

Theorem C13_check_biallelic_names_offender :
  forall t s v,
  check_biallelic false t = QRaise s v ->
  exists i j, names t i j s v /\ cell_sat cell_multi t i j.
Proof. exact check_biallelic_names. Qed.
Print Assumptions C13_check_biallelic_names_offender.

(* exactly the variants with a multiallelic call are removed - from variants, from every
   row of data and from every row of the ancestry array; the survivors are cast to 0/1 *)
Theorem C13_check_biallelic_discard_exact :
  forall t, wf_cols t ->
  check_biallelic true t = QOk (cast_bool (cols_removed true (keep_cols cell_multi t) t)).
Proof. exact check_biallelic_discard. Qed.
Print Assumptions C13_check_biallelic_discard_exact.

Theorem C13_keep_cols_meaning :
  forall f t j, col_bad f t j = true <-> exists i, cell_sat f t i j.
Proof. exact col_bad_iff. Qed.
Print Assumptions C13_keep_cols_meaning.

(* ---- check_phase: raises iff some heterozygous call (alleles differ) is unphased,
        otherwise strips the phase flags ---- *)

Theorem C13_check_phase_raises_iff :
  forall t, 3 <= g_planes t ->
  ((exists s v, check_phase false t = QRaise s v) <-> some_cell (cell_unphased false) t).
Proof. exact check_phase_raises_iff. Qed.
Print Assumptions C13_check_phase_raises_iff.

Theorem C13_cell_unphased_meaning :
  forall x, cell_unphased false x = true <-> ca x <> cb x /\ ca x < 254 /\ cb x < 254 /\ cp x = 0.
Proof. exact cell_unphased_spec. Qed.
Print Assumptions C13_cell_unphased_meaning.

Theorem C13_check_phase_names_offender :
  forall t s v,
  check_phase false t = QRaise s v ->
  exists i j, names t i j s v /\ cell_sat (cell_unphased false) t i j.
Proof. exact check_phase_names. Qed.
Print Assumptions C13_check_phase_names_offender.

Theorem C13_check_phase_strips :
  forall t, 3 <= g_planes t -> ~ some_cell (cell_unphased false) t ->
  check_phase false t = QOk (strip_phase t).
Proof. exact check_phase_strips. Qed.
Print Assumptions C13_check_phase_strips.

Theorem C13_check_phase_missing_allele_passes :
  let t := mkg [0; 1] [gv 0 1 10] [[gc 5 255 0]; [gc 255 1 0]] 3 None in
  check_phase false t = QOk (strip_phase t).
Proof. exact check_phase_missing_allele_passes. Qed.
Print Assumptions C13_check_phase_missing_allele_passes.

(* the pinned tree let an unphased 2/1 through *)
Theorem C13_legacy_phase_12_refuted :
  some_cell (cell_unphased false) t_12
  /\ check_phase true t_12 = QOk (strip_phase t_12)
  /\ check_phase false t_12 = QRaise (Some 3) (Some 1).
Proof. exact legacy_phase_12_refuted. Qed.
Print Assumptions C13_legacy_phase_12_refuted.

(* ---- check_maf, for every "below the threshold" predicate ---- *)

Theorem C13_check_maf_discard_exact :
  forall rare with_anc warn t, wf_cols t ->
  check_maf rare with_anc true warn t
  = QOk (cols_removed with_anc (map negb (rare_mask rare t)) t).
Proof. exact check_maf_discard. Qed.
Print Assumptions C13_check_maf_discard_exact.

Theorem C13_check_maf_returned_values :
  forall rare t, wf_cols t ->
  maf_ret rare true t = filter_mask (map negb (rare_mask rare t)) (col_counts t).
Proof. exact maf_ret_discard. Qed.
Print Assumptions C13_check_maf_returned_values.

Theorem C13_check_maf_raises_iff :
  forall rare with_anc t,
  (exists v, check_maf rare with_anc false false t = QRaise None v)
  <-> existsb (fun k => rare k (lenZ (g_rows t))) (col_counts t) = true.
Proof. exact check_maf_raises_iff. Qed.
Print Assumptions C13_check_maf_raises_iff.

Theorem C13_check_maf_names_rare_variant :
  forall rare with_anc t v,
  check_maf rare with_anc false false t = QRaise None v ->
  exists j k, v = Some (vid (nth j (g_variants t) dv))
              /\ nth_error (col_counts t) j = Some k /\ rare k (lenZ (g_rows t)) = true.
Proof. exact check_maf_names. Qed.
Print Assumptions C13_check_maf_names_rare_variant.

Theorem C13_check_maf_warn_only_unchanged :
  forall rare with_anc t, check_maf rare with_anc false true t = QOk t.
Proof. exact check_maf_warn_only. Qed.
Print Assumptions C13_check_maf_warn_only_unchanged.

(* the frequency is computed from the number of non-reference alleles of the variant *)
Theorem C13_maf_counts_nonreference_alleles :
  forall t j, wf_cols t -> (j < length (g_variants t))%nat ->
  nth j (col_counts t) 0 = sumZ (map (fun r => nonref (nth j r (gc 0 0 0))) (g_rows t)).
Proof. exact col_counts_nth. Qed.
Print Assumptions C13_maf_counts_nonreference_alleles.

(* legacy GenotypesAncestry.check_maf(discard) left the ancestry array unshrunk *)
Theorem C13_legacy_ancestry_maf_refuted :
  forall rare, rare 0 2 = true -> rare 2 2 = false ->
  exists t', check_maf rare false true false t_anc = QOk t'
             /\ g_variants t' = [gv 1 1 12]
             /\ g_anc t' = Some [[(0, 0); (1, 1)]; [(0, 0); (1, 2)]]
             /\ g_anc (match check_maf rare true true false t_anc with QOk u => u | _ => t_anc end)
                = Some [[(1, 1)]; [(1, 2)]].
Proof. exact legacy_ancestry_maf_refuted. Qed.
Print Assumptions C13_legacy_ancestry_maf_refuted.

(* ---- np.nonzero + np.delete = filtering by the predicate (what "exactly" rests on) ---- *)

Theorem C13_delete_rows_is_filter :
  forall (A : Type) (m : list (list bool)) (l : list A),
  length l = length m ->
  np_delete (map fst (nonzero2 0 m)) l = filter_mask (map (fun r => negb (row_any r)) m) l.
Proof. exact @delete_rows_spec. Qed.
Print Assumptions C13_delete_rows_is_filter.

Theorem C13_delete_cols_is_filter :
  forall (A : Type) (m : list (list bool)) (l : list A),
  np_delete (map snd (nonzero2 0 m)) l
  = filter_mask (map (fun j => negb (col_any m j)) (seq 0 (length l))) l.
Proof. exact @delete_cols_spec. Qed.
Print Assumptions C13_delete_cols_is_filter.

(* ---- the default loader ---- *)

Theorem C13_load_postcondition :
  forall anc t t',
  in_range t ->
  load_checks false anc t = QOk t' ->
  ~ some_cell (cell_missing anc) t
  /\ ~ some_cell cell_multi t
  /\ (3 <= g_planes t -> ~ some_cell (cell_unphased false) t)
  /\ t' = (if g_planes t <? 3 then cast_bool t else strip_phase (cast_bool t)).
Proof. exact load_postcondition. Qed.
Print Assumptions C13_load_postcondition.

Theorem C13_load_accepts_clean_data :
  forall anc t,
  in_range t ->
  ~ some_cell (cell_missing anc) t -> ~ some_cell cell_multi t ->
  ~ some_cell (cell_unphased false) t ->
  load_checks false anc t = QOk (if g_planes t <? 3 then cast_bool t else strip_phase (cast_bool t)).
Proof. exact load_accepts. Qed.
Print Assumptions C13_load_accepts_clean_data.

(* ---- soundness of the boolean clause checkers evaluated on the implementation ---- *)

Theorem C13_holds_missing_sound :
  forall anc p o,
  holds_missing anc p false o = true ->
  match o with
  | ORet t _ => ~ some_cell (miss_must anc) p /\ t = p
  | ORaise s v t =>
      t = p /\ exists s' v', s = Some s' /\ v = Some v' /\ named_offender miss_may p s' v'
  | OOther k => False
  end.
Proof. exact holds_missing_sound. Qed.
Print Assumptions C13_holds_missing_sound.

Theorem C13_holds_missing_discard_sound :
  forall anc p t mf,
  holds_missing anc p true (ORet t mf) = true ->
  exists keep,
    rows_selected keep p t
    /\ length keep = length (g_rows p)
    /\ forall i k row, nth_error keep i = Some k -> nth_error (g_rows p) i = Some row ->
         (existsb (miss_must anc) row = true -> k = false) /\ (existsb miss_may row = false -> k = true).
Proof. exact holds_missing_discard_sound. Qed.
Print Assumptions C13_holds_missing_discard_sound.

Theorem C13_holds_biallelic_discard_sound :
  forall p t mf,
  holds_biallelic p true (ORet t mf) = true ->
  exists keep,
    cols_selected keep (cast_bool p) t
    /\ length keep = length (g_variants p)
    /\ forall j k, nth_error keep j = Some k -> (j < length (g_variants p))%nat ->
         (col_exists multi_must (g_rows p) j = true -> k = false)
         /\ (col_exists multi_may (g_rows p) j = false -> k = true).
Proof. exact holds_biallelic_discard_sound. Qed.
Print Assumptions C13_holds_biallelic_discard_sound.

Theorem C13_holds_phase_sound :
  forall p o,
  holds_phase p o = true ->
  match o with
  | ORet t _ =>
      (g_planes p < 3 /\ t = p)
      \/ (3 <= g_planes p /\ ~ some_cell unph_must p /\ t = strip_phase p)
  | ORaise s v t =>
      3 <= g_planes p /\ t = p
      /\ exists s' v', s = Some s' /\ v = Some v' /\ named_offender unph_may p s' v'
  | OOther k => False
  end.
Proof. exact holds_phase_sound. Qed.
Print Assumptions C13_holds_phase_sound.

Theorem C13_holds_load_sound :
  forall k,
  holds_load k = true ->
  match l_out k with
  | ORet t _ =>
      ~ some_cell (miss_must (l_anc k)) (l_raw k) /\ ~ some_cell multi_must (l_raw k)
      /\ ~ some_cell unph_must (l_raw k) /\ t = strip_phase (cast_bool (l_raw k))
  | ORaise s v _ =>
      exists s' v', s = Some s' /\ v = Some v'
        /\ named_offender (fun x => miss_may x || multi_may x || unph_may x) (l_raw k) s' v'
  | OOther e => e = E_Unobserved
  end.
Proof. exact holds_load_sound. Qed.
Print Assumptions C13_holds_load_sound.

Theorem C13_unph_must_meaning :
  forall x, unph_must x = true <-> (0 <= ca x <= 253) /\ (0 <= cb x <= 253) /\ ca x <> cb x /\ cp x = 0.
Proof. exact unph_must_spec. Qed.
Print Assumptions C13_unph_must_meaning.

(* ---- check_sorted: raises iff some variant is followed, anywhere later in the array, by a
        variant of the same chromosome at a smaller position; otherwise nothing changes ---- *)

Theorem C13_check_sorted_raises_iff :
  forall t,
  check_sorted t = QRaise None None
  <-> exists l1 a l2 b l3,
        g_variants t = l1 ++ a :: l2 ++ b :: l3 /\ vchrom a = vchrom b /\ vpos b < vpos a.
Proof. exact check_sorted_raises_inversion. Qed.
Print Assumptions C13_check_sorted_raises_iff.

Theorem C13_check_sorted_returns_iff :
  forall t, check_sorted t = QOk t <-> ~ inversion (g_variants t).
Proof. exact check_sorted_returns_iff. Qed.
Print Assumptions C13_check_sorted_returns_iff.

(* ---- check_maf with the exact rational minor allele frequency: the abstract predicate
        [rare] instantiated with  min(f, 1-f) < threshold,  f = k / (2n) ---- *)

Theorem C13_maf_is_min_f_1_minus_f :
  forall k n, (mafQ k n == Qmin (freqQ k n) (1 - freqQ k n))%Q.
Proof. exact mafQ_min. Qed.
Print Assumptions C13_maf_is_min_f_1_minus_f.

Theorem C13_rare_exact_meaning :
  forall thr k n, rareQ thr k n = true <-> (Qmin (freqQ k n) (1 - freqQ k n) < thr)%Q.
Proof. exact rareQ_spec. Qed.
Print Assumptions C13_rare_exact_meaning.

Theorem C13_maf_range :
  forall k n, 0 < n -> 0 <= k <= 2 * n -> (0 <= mafQ k n /\ mafQ k n <= 1 # 2)%Q.
Proof. exact mafQ_range. Qed.
Print Assumptions C13_maf_range.

Theorem C13_check_maf_exact_discard :
  forall thr warn t, wf_cols t ->
  check_maf (rareQ thr) true true warn t
  = QOk (cols_removed true
           (map (fun k => Qle_bool thr (mafQ k (lenZ (g_rows t)))) (col_counts t)) t).
Proof. exact check_maf_exact_discard. Qed.
Print Assumptions C13_check_maf_exact_discard.

Theorem C13_check_maf_exact_raises_iff :
  forall thr t,
  (exists v, check_maf (rareQ thr) true false false t = QRaise None v)
  <-> exists j k, nth_error (col_counts t) j = Some k
                  /\ (Qmin (freqQ k (lenZ (g_rows t))) (1 - freqQ k (lenZ (g_rows t))) < thr)%Q.
Proof. exact check_maf_exact_raises_iff. Qed.
Print Assumptions C13_check_maf_exact_raises_iff.

(* ---- histories: any sequence of read() and checks on one object.  At every call the object
        is well-formed (ancestry in step) and the outcome satisfies the property's clause for
        the contents the object has at that moment; a read() makes the earlier history
        irrelevant.  T / rare_of: any type of thresholds with any "rarer than" predicate. ---- *)

Theorem C13_history_sound :
  forall (T : Type) (rare_of : T -> Z -> Z -> bool) anc ops t,
  wf t -> reads_wf T ops ->
  Forall (fun x => wf (fst (fst x))
                   /\ step_clause T rare_of anc (fst (fst x)) (snd (fst x)) (snd x))
         (hrun T rare_of anc t ops).
Proof. exact history_sound. Qed.
Print Assumptions C13_history_sound.

Theorem C13_history_call_sound :
  forall (T : Type) (rare_of : T -> Z -> Z -> bool) anc t pre op,
  wf t -> reads_wf T pre -> (forall f, op = HRead f -> wf f) ->
  let cur := state_after T rare_of anc t pre in
  wf cur /\ step_clause T rare_of anc cur op (hstep T rare_of anc cur op)
  /\ wf (after cur (hstep T rare_of anc cur op)).
Proof. exact history_call_sound. Qed.
Print Assumptions C13_history_call_sound.

Theorem C13_history_step :
  forall (T : Type) (rare_of : T -> Z -> Z -> bool) anc t pre op post,
  let cur := state_after T rare_of anc t pre in
  hrun T rare_of anc t (pre ++ op :: post)
  = hrun T rare_of anc t pre
    ++ (cur, op, hstep T rare_of anc cur op)
       :: hrun T rare_of anc (after cur (hstep T rare_of anc cur op)) post.
Proof. exact history_step. Qed.
Print Assumptions C13_history_step.

Theorem C13_history_forgets_before_read :
  forall (T : Type) (rare_of : T -> Z -> Z -> bool) anc t pre f post,
  state_after T rare_of anc t (pre ++ HRead f :: post) = state_after T rare_of anc f post
  /\ hrun T rare_of anc t (pre ++ HRead f :: post)
     = hrun T rare_of anc t pre
       ++ (state_after T rare_of anc t pre, HRead f, QOk f) :: hrun T rare_of anc f post.
Proof. exact history_forgets. Qed.
Print Assumptions C13_history_forgets_before_read.

Theorem C13_read_delivers_wellformed :
  forall ss vs f, wf f -> wf (read_sel ss vs f).
Proof. exact wf_read_sel. Qed.
Print Assumptions C13_read_delivers_wellformed.

(* (that the executable models evaluated by the correspondence - C13_Check.model_frun of the
   files relation, model_run of qc - are such histories, with thresholds = IEEE doubles, is
   proved in C13_ProofsHist.v: model_frun_hrun, model_run_hrun, files_reads_wf; those statements
   mention Coq's primitive floats and are therefore not restated in this file) *)

(* the hypotheses are satisfiable, and the boundary history: read, check_phase (passes and
   strips), read a file holding an unphased heterozygote, check_phase - which raises, naming
   sample 2 and variant 7 of the second file *)
Example C13_history_reread_phase :
  let f0 := mkg [1] [gv 5 1 10] [[gc 0 1 1]] 3 None in
  let f1 := mkg [2] [gv 7 1 12] [[gc 0 1 0]] 3 None in
  wf f0 /\ wf f1
  /\ map snd (hrun unit (fun _ _ _ => false) false no_table [HRead f0; HPhase; HRead f1; HPhase])
     = [QOk f0; QOk (strip_phase f0); QOk f1; QRaise (Some 2) (Some 7)].
Proof. exact history_reread_phase. Qed.
Print Assumptions C13_history_reread_phase.

Theorem C13_holds_maf_discard_sound :
  forall p tq w t mf,
  lenZ (g_rows p) <> 0 ->
  holds_maf p (Some (Some tq)) true w (ORet t mf) = true ->
  let mq := map (fun k => mafQ k (lenZ (g_rows p))) (col_counts p) in
  exists keep,
    cols_selected keep p t
    /\ length keep = length (g_variants p)
    /\ forall j k, nth_error keep j = Some k -> (j < length (g_variants p))%nat ->
         (Qle_bool (nth j mq 0%Q + eps) tq && negb (Qeq_bool (nth j mq 0%Q + eps) tq) = true -> k = false)
         /\ (Qle_bool (nth j mq 0%Q) (tq + eps) && negb (Qeq_bool (nth j mq 0%Q) tq) = false -> k = true).
Proof. exact holds_maf_discard_sound. Qed.
Print Assumptions C13_holds_maf_discard_sound.

(* an error names an offender: some call of a sample with the named ID at a variant with the
   named ID (IDs may repeat) satisfies the predicate *)
Theorem C13_named_offender_sound :
  forall f t s v, named_sat f t s v = true -> named_offender f t s v.
Proof. exact named_sat_true. Qed.
Print Assumptions C13_named_offender_sound.

(* ==== the default loaders of all classes (C13_ModelW.load_model) =============================
   LdPlain = Genotypes.load, inherited unchanged by GenotypesVCF and GenotypesPLINK (read; check_missing;
   check_biallelic; check_phase); LdAnc = the same through GenotypesAncestry's overrides; LdTR =
   GenotypesTR.load / GenotypesPLINKTR.load (read; check_phase): repeats are multiallelic by nature,
   check_biallelic / check_maf are not implemented for them and their loaders do not call check_missing,
   so only the phase check applies to what they return. *)

Theorem C13_loader_postcondition :
  forall ld t t',
  in_range t ->
  load_model ld t = QOk t' ->
  match ld with
  | LdTR =>
      (3 <= g_planes t -> ~ some_cell (cell_unphased false) t)
      /\ t' = (if g_planes t <? 3 then t else strip_phase t)
  | _ =>
      ~ some_cell (cell_missing (loader_anc ld)) t
      /\ ~ some_cell cell_multi t
      /\ (3 <= g_planes t -> ~ some_cell (cell_unphased false) t)
      /\ t' = (if g_planes t <? 3 then cast_bool t else strip_phase (cast_bool t))
  end.
Proof. exact loader_postcondition. Qed.
Print Assumptions C13_loader_postcondition.

Theorem C13_loader_accepts_clean_data :
  forall ld t,
  in_range t ->
  (ld <> LdTR -> ~ some_cell (cell_missing (loader_anc ld)) t /\ ~ some_cell cell_multi t) ->
  ~ some_cell (cell_unphased false) t ->
  exists t', load_model ld t = QOk t'.
Proof. exact loader_accepts. Qed.
Print Assumptions C13_loader_accepts_clean_data.

(* what a loader returns passes, as it is, every check that loader runs *)
Theorem C13_loaded_data_passes_its_checks :
  forall ld t t',
  load_model ld t = QOk t' ->
  match ld with
  | LdTR => check_phase false t' = QOk t'
  | _ => check_missing (loader_anc ld) false t' = QOk t'
         /\ check_biallelic false t' = QOk t'
         /\ check_phase false t' = QOk t'
  end.
Proof. exact loaded_passes_checks. Qed.
Print Assumptions C13_loaded_data_passes_its_checks.

Theorem C13_loader_raise_names_offender :
  forall ld t s v,
  in_range t ->
  load_model ld t = QRaise s v ->
  exists i j, names t i j s v
    /\ match ld with
       | LdTR => cell_sat (cell_unphased false) t i j
       | _ => cell_sat (cell_missing (loader_anc ld)) t i j \/ cell_sat cell_multi t i j
              \/ cell_sat (cell_unphased false) t i j
       end.
Proof. exact loader_raise_names. Qed.
Print Assumptions C13_loader_raise_names_offender.

Theorem C13_loader_repeat_example :
  let t := mkg [0; 1] [gv 7 1 10] [[gc 255 255 0]; [gc 5 3 1]] 3 None in
  in_range t
  /\ load_model LdTR t = QOk (strip_phase t)
  /\ load_model LdPlain t = QRaise (Some 0) (Some 7)
  /\ load_model LdTR (mkg [0; 1] [gv 7 1 10] [[gc 255 255 0]; [gc 5 3 0]] 3 None) = QRaise (Some 1) (Some 7).
Proof. exact loader_tr_example. Qed.
Print Assumptions C13_loader_repeat_example.

Theorem C13_holds_loadw_sound :
  forall k,
  holds_loadw k = true ->
  match lw_ld k with
  | LdTR =>
      match lw_out k with
      | ORet t _ =>
          (g_planes (lw_raw k) < 3 /\ t = lw_raw k)
          \/ (3 <= g_planes (lw_raw k) /\ ~ some_cell unph_must (lw_raw k) /\ t = strip_phase (lw_raw k))
      | ORaise s v _ =>
          exists s' v', s = Some s' /\ v = Some v' /\ named_offender unph_may (lw_raw k) s' v'
      | OOther e => e = E_Unobserved
      end
  | ld =>
      match lw_out k with
      | ORet t _ =>
          ~ some_cell (miss_must (loader_anc ld)) (lw_raw k) /\ ~ some_cell multi_must (lw_raw k)
          /\ ~ some_cell unph_must (lw_raw k) /\ t = strip_phase (cast_bool (lw_raw k))
      | ORaise s v _ =>
          exists s' v', s = Some s' /\ v = Some v'
            /\ named_offender (fun x => miss_may x || multi_may x || unph_may x) (lw_raw k) s' v'
      | OOther e => e = E_Unobserved
      end
  end.
Proof. exact holds_loadw_sound. Qed.
Print Assumptions C13_holds_loadw_sound.

(* ==== dtype of data: uint8 as read, bool after check_biallelic ================================
   hrun_d follows the branches the code takes on bool data (check_biallelic returns at once; the
   comparisons of check_missing are False everywhere).  For every history it yields the contents
   and outcomes of the untyped history hrun, so C13_history_sound etc. cover those branches. *)

Theorem C13_bool_cell_meaning :
  forall x, bool_cell x = true
  <-> (ca x = 0 \/ ca x = 1) /\ (cb x = 0 \/ cb x = 1) /\ (cp x = 0 \/ cp x = 1).
Proof. exact bool_cell_spec. Qed.
Print Assumptions C13_bool_cell_meaning.

Theorem C13_bool_tab_meaning :
  forall t, bool_tab t = true <-> forall row x, In row (g_rows t) -> In x row -> bool_cell x = true.
Proof. exact bool_tab_spec. Qed.
Print Assumptions C13_bool_tab_meaning.

Theorem C13_cast_bool_identity :
  forall t, bool_tab t = true -> cast_bool t = t.
Proof. exact cast_bool_id. Qed.
Print Assumptions C13_cast_bool_identity.

Theorem C13_bool_data_passes_missing_and_biallelic :
  forall anc t d, bool_tab t = true -> check_missing anc d t = QOk t /\ check_biallelic d t = QOk t.
Proof. exact bool_data_checks_pass. Qed.
Print Assumptions C13_bool_data_passes_missing_and_biallelic.

Theorem C13_typed_history_refines :
  forall (T : Type) (rare_of : T -> Z -> Z -> bool) anc ops t isb,
  (isb = true -> bool_tab t = true) ->
  map (untyped T) (hrun_d T rare_of anc t isb ops) = hrun T rare_of anc t ops.
Proof. exact typed_history_refines. Qed.
Print Assumptions C13_typed_history_refines.

Theorem C13_typed_history_dtype_backed :
  forall (T : Type) (rare_of : T -> Z -> Z -> bool) anc ops t isb,
  (isb = true -> bool_tab t = true) ->
  Forall (fun x => snd (fst (fst x)) = true -> bool_tab (fst (fst (fst x))) = true)
         (hrun_d T rare_of anc t isb ops).
Proof. exact typed_history_bool. Qed.
Print Assumptions C13_typed_history_dtype_backed.

Theorem C13_typed_history_example :
  let f := mkg [0; 1] [gv 1 1 10; gv 2 1 12] [[gc 0 1 1; gc 1 1 1]; [gc 255 255 0; gc 0 0 1]] 3 None in
  let t := mkg [0; 1] [gv 1 1 10; gv 2 1 12] [[gc 0 1 1; gc 1 1 1]; [gc 1 0 1; gc 0 0 1]] 3 None in
  map (fun x => (snd (fst (fst x)), snd x))
      (hrun_d unit (fun _ _ _ => false) false t false
              [HBiallelic false; HMissing true; HBiallelic true; HPhase; HRead f; HMissing false])
  = [(false, QOk t); (true, QOk t); (true, QOk t); (true, QOk (strip_phase t)); (true, QOk f);
     (false, QRaise (Some 1) (Some 1))].
Proof. exact typed_history_example. Qed.
Print Assumptions C13_typed_history_example.

(* ==== check_maf(threshold, warn_only=True): the warning ===================================== *)

Theorem C13_maf_warning_iff :
  forall rare t,
  (exists v, maf_log rare false true t = [v])
  <-> existsb (fun k => rare k (lenZ (g_rows t))) (col_counts t) = true.
Proof. exact maf_log_iff. Qed.
Print Assumptions C13_maf_warning_iff.

Theorem C13_maf_warning_names_rare_variant :
  forall rare t v,
  maf_log rare false true t = [v] ->
  exists j k, v = vid (nth j (g_variants t) dv)
              /\ nth_error (col_counts t) j = Some k /\ rare k (lenZ (g_rows t)) = true.
Proof. exact maf_log_names. Qed.
Print Assumptions C13_maf_warning_names_rare_variant.

Theorem C13_maf_warning_is_the_raise_mode_variant :
  forall rare b t v,
  maf_log rare false true t = [v] <-> check_maf rare b false false t = QRaise None (Some v).
Proof. exact maf_log_is_raise. Qed.
Print Assumptions C13_maf_warning_is_the_raise_mode_variant.

Theorem C13_maf_warning_silent_otherwise :
  forall rare d w t,
  d = true \/ w = false \/ existsb (fun k => rare k (lenZ (g_rows t))) (col_counts t) = false ->
  maf_log rare d w t = [].
Proof. exact maf_log_silent. Qed.
Print Assumptions C13_maf_warning_silent_otherwise.

Theorem C13_maf_warning_example :
  let t := mkg [0; 1] [gv 1 1 10; gv 2 1 12] [[gc 0 1 1; gc 0 0 1]; [gc 1 0 1; gc 0 0 1]] 3 None in
  let rare := fun k n : Z => k =? 0 in
  maf_log rare false true t = [2] /\ check_maf rare true false true t = QOk t
  /\ maf_log rare true true t = [] /\ maf_log rare false false t = []
  /\ check_maf rare true false false t = QRaise None (Some 2).
Proof. exact maf_log_example. Qed.
Print Assumptions C13_maf_warning_example.

Theorem C13_warn_clause_sound :
  forall tq p warn,
  warn_clause tq p warn = true ->
  ((exists j, (j < length (mafs p))%nat /\ maf_must tq (mafs p) j = true) -> warn <> [])
  /\ (warn <> [] -> exists j, (j < length (mafs p))%nat /\ maf_may tq (mafs p) j = true)
  /\ (forall v, In (Some v) warn ->
        exists j, (j < length (g_variants p))%nat /\ vid (nth j (g_variants p) dv) = v
                  /\ maf_may tq (mafs p) j = true).
Proof. exact warn_clause_sound. Qed.
Print Assumptions C13_warn_clause_sound.

Theorem C13_maf_must_meaning :
  forall tq mq j, maf_must tq mq j = true <-> (nth j mq 0%Q + eps < tq)%Q.
Proof. exact maf_must_spec. Qed.
Print Assumptions C13_maf_must_meaning.

Theorem C13_maf_may_meaning :
  forall tq mq j, maf_may tq mq j = true <-> (nth j mq 0%Q <= tq + eps)%Q /\ ~ (nth j mq 0%Q == tq)%Q.
Proof. exact maf_may_spec. Qed.
Print Assumptions C13_maf_may_meaning.

(* ==== decoders of the compact literals the harness writes for wide tables ===================== *)

Theorem C13_repz_spec :
  forall (A : Type) (x : A) n, repz x n = repeat x (Z.to_nat n).
Proof. exact @repz_spec. Qed.
Print Assumptions C13_repz_spec.

Theorem C13_zrun_spec :
  forall a n, zrun a n = map (fun i => a + Z.of_nat i) (seq 0 (Z.to_nat n)).
Proof. exact zrun_spec. Qed.
Print Assumptions C13_zrun_spec.

Theorem C13_vrun_nth :
  forall id0 chrom pos0 step n i,
  (i < Z.to_nat n)%nat ->
  nth_error (vrun id0 chrom pos0 step n) i
  = Some (gv (id0 + Z.of_nat i) chrom (pos0 + step * Z.of_nat i)).
Proof. exact vrun_nth. Qed.
Print Assumptions C13_vrun_nth.
