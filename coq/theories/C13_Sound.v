(* C13 - soundness of the boolean clause checkers of C13_Check: when [holds_step] evaluates
   to true on what the implementation did, the property's clause holds of it, as a Prop. *)
From Coq Require Import QArith.
From HV Require Import Prelude GenoTable C13_Model C13_Proofs C13_Check.
Open Scope Z_scope.

Lemma cell_eqb_true x y : cell_eqb x y = true <-> x = y.
Proof.
  destruct x as [a b p], y as [a' b' p']. unfold cell_eqb; cbn.
  rewrite !andb_true_iff, !Z.eqb_eq. split; [intros [[-> ->] ->]; reflexivity|].
  intro H. inversion H. auto.
Qed.

Lemma variant_eqb_true x y : variant_eqb x y = true <-> x = y.
Proof.
  destruct x as [a b p], y as [a' b' p']. unfold variant_eqb; cbn.
  rewrite !andb_true_iff, !Z.eqb_eq. split; [intros [[-> ->] ->]; reflexivity|].
  intro H. inversion H. auto.
Qed.

Lemma zz_eqb_true x y : zz_eqb x y = true <-> x = y.
Proof.
  destruct x as [a b], y as [a' b']. unfold zz_eqb; cbn.
  rewrite !andb_true_iff, !Z.eqb_eq. split; [intros [-> ->]; reflexivity|].
  intro H. inversion H. auto.
Qed.

Lemma gtab_eqb_true s t : gtab_eqb s t = true <-> s = t.
Proof.
  destruct s as [s1 v1 r1 p1 a1], t as [s2 v2 r2 p2 a2]. unfold gtab_eqb; cbn.
  rewrite !andb_true_iff.
  rewrite (list_eqb_spec Z.eqb Z.eqb_eq).
  rewrite (list_eqb_spec variant_eqb variant_eqb_true).
  rewrite (list_eqb_spec _ (list_eqb_spec cell_eqb cell_eqb_true)).
  rewrite Z.eqb_eq.
  rewrite (opt_eqb_spec _ (list_eqb_spec _ (list_eqb_spec zz_eqb zz_eqb_true))).
  split.
  - intros [[[[-> ->] ->] ->] ->]. reflexivity.
  - intro H. inversion H. auto.
Qed.

Lemma no_cell_iff f t : no_cell f t = true <-> ~ some_cell f t.
Proof.
  unfold no_cell. rewrite negb_true_iff, some_cell_iff.
  destruct (existsb (existsb f) (g_rows t)); split; intro H; try reflexivity; try discriminate.
  exfalso. apply H. reflexivity.
Qed.

Lemma forallb2_nth {A B} (f : A -> B -> bool) a b :
  forallb2 f a b = true ->
  length a = length b /\ forall i x y, nth_error a i = Some x -> nth_error b i = Some y -> f x y = true.
Proof.
  revert b. induction a as [|x a IH]; intros [|y b] H; cbn in H; try discriminate.
  - split; [reflexivity|]. intros [|i] ? ? H1; discriminate.
  - apply andb_true_iff in H. destruct H as [H1 H2]. destruct (IH b H2) as [L K]. split; [cbn; lia|].
    intros [|i] x' y' Hx Hy; cbn in *.
    + inversion Hx; inversion Hy; subst. exact H1.
    + eapply K; eauto.
Qed.

(* the error's words: some call of a sample carrying the ID s at a variant carrying the ID v
   satisfies f *)
Definition named_offender (f : cell -> bool) (t : gtab) (s v : Z) : Prop :=
  exists i j row vr x,
    nth_error (g_samples t) i = Some s /\ nth_error (g_rows t) i = Some row
    /\ nth_error (g_variants t) j = Some vr /\ vid vr = v
    /\ nth_error row j = Some x /\ f x = true.

Lemma named_in_row_true f v vs row :
  named_in_row f v vs row = true ->
  exists j vr x, nth_error vs j = Some vr /\ vid vr = v /\ nth_error row j = Some x /\ f x = true.
Proof.
  revert row. induction vs as [|y vs IH]; intros [|c row] H; cbn in H; try discriminate.
  apply orb_true_iff in H. destruct H as [H|H].
  - apply andb_true_iff in H. destruct H as [H1 H2]. apply Z.eqb_eq in H1.
    exists 0%nat, y, c. cbn. repeat split; auto.
  - destruct (IH row H) as [j [vr [x K]]]. exists (S j), vr, x. exact K.
Qed.

Lemma named_sat_true f t s v : named_sat f t s v = true -> named_offender f t s v.
Proof.
  unfold named_sat, named_offender. generalize (g_variants t) as vs.
  generalize (g_rows t) as rows. generalize (g_samples t) as ss.
  induction ss as [|s' ss IH]; intros [|r rows] vs H; cbn in H; try discriminate.
  apply orb_true_iff in H. destruct H as [H|H].
  - apply andb_true_iff in H. destruct H as [H1 H2]. apply Z.eqb_eq in H1. subst s'.
    apply named_in_row_true in H2. destruct H2 as [j [vr [x [K1 [K2 [K3 K4]]]]]].
    exists 0%nat, j, r, vr, x. cbn. repeat split; auto.
  - destruct (IH rows vs H) as [i [j [row [vr [x K]]]]]. exists (S i), j, row, vr, x. exact K.
Qed.

(* ---- the clauses as propositions ------------------------------------------- *)

(* t is p with some rows dropped according to keep; the other fields untouched *)
Definition rows_selected (keep : list bool) (p t : gtab) : Prop :=
  g_samples t = filter_mask keep (g_samples p)
  /\ g_variants t = g_variants p
  /\ g_rows t = filter_mask keep (g_rows p)
  /\ g_planes t = g_planes p
  /\ g_anc t = option_map (filter_mask keep) (g_anc p).

Definition cols_selected (keep : list bool) (p t : gtab) : Prop :=
  g_samples t = g_samples p
  /\ g_variants t = filter_mask keep (g_variants p)
  /\ g_rows t = map (filter_mask keep) (g_rows p)
  /\ g_planes t = g_planes p
  /\ g_anc t = option_map (map (filter_mask keep)) (g_anc p).

Lemma same_but_rows_true keep p t : same_but_rows keep p t = true -> rows_selected keep p t.
Proof.
  unfold same_but_rows, rows_selected. rewrite !andb_true_iff.
  rewrite (list_eqb_spec Z.eqb Z.eqb_eq).
  rewrite (list_eqb_spec variant_eqb variant_eqb_true).
  rewrite (list_eqb_spec _ (list_eqb_spec cell_eqb cell_eqb_true)).
  rewrite Z.eqb_eq.
  rewrite (opt_eqb_spec _ (list_eqb_spec _ (list_eqb_spec zz_eqb zz_eqb_true))).
  tauto.
Qed.

Lemma same_but_cols_true keep p t : same_but_cols keep p t = true -> cols_selected keep p t.
Proof.
  unfold same_but_cols, cols_selected. rewrite !andb_true_iff.
  rewrite (list_eqb_spec Z.eqb Z.eqb_eq).
  rewrite (list_eqb_spec variant_eqb variant_eqb_true).
  rewrite (list_eqb_spec _ (list_eqb_spec cell_eqb cell_eqb_true)).
  rewrite Z.eqb_eq.
  rewrite (opt_eqb_spec _ (list_eqb_spec _ (list_eqb_spec zz_eqb zz_eqb_true))).
  tauto.
Qed.

(* exactly the offending rows are gone: a certain offender (must) is dropped, a row that
   cannot be read as offending (not may) is kept, the survivors are p's rows in p's order
   with their samples and ancestry *)
Theorem rows_discard_ok_sound must may p t :
  rows_discard_ok must may p t = true ->
  exists keep,
    rows_selected keep p t
    /\ length keep = length (g_rows p)
    /\ forall i k row, nth_error keep i = Some k -> nth_error (g_rows p) i = Some row ->
         (existsb must row = true -> k = false) /\ (existsb may row = false -> k = true).
Proof.
  unfold rows_discard_ok. intro H. destruct (rows_keep must may p t) as [keep|]; [|discriminate].
  apply andb_true_iff in H. destruct H as [H1 H2].
  exists keep. split; [apply same_but_rows_true; exact H1|].
  apply forallb2_nth in H2. destruct H2 as [L K]. split; [exact L|].
  intros i k row Hk Hr. specialize (K i k row Hk Hr). apply andb_true_iff in K. destruct K as [K1 K2].
  split; intro E; rewrite E in *; cbn in *.
  - apply negb_true_iff in K1. exact K1.
  - exact K2.
Qed.

Theorem cols_discard_ok_sound must may p t :
  cols_discard_ok must may p t = true ->
  exists keep,
    cols_selected keep p t
    /\ length keep = length (g_variants p)
    /\ forall j k, nth_error keep j = Some k -> (j < length (g_variants p))%nat ->
         (must j = true -> k = false) /\ (may j = false -> k = true).
Proof.
  unfold cols_discard_ok. intro H. destruct (cols_keep must may p t) as [keep|]; [|discriminate].
  apply andb_true_iff in H. destruct H as [H1 H2].
  exists keep. split; [apply same_but_cols_true; exact H1|].
  apply forallb2_nth in H2. destruct H2 as [L K]. rewrite seq_length in L. split; [exact L|].
  intros j k Hk Hj.
  assert (Hs : nth_error (seq 0 (length (g_variants p))) j = Some j).
  { rewrite (nth_error_nth' _ 0%nat) by (rewrite seq_length; exact Hj). rewrite seq_nth by exact Hj. reflexivity. }
  specialize (K j k j Hk Hs). apply andb_true_iff in K. destruct K as [K1 K2].
  split; intro E; rewrite E in *; cbn in *.
  - apply negb_true_iff in K1. exact K1.
  - exact K2.
Qed.

(* ---- per call --------------------------------------------------------------- *)

(* check_missing without discard *)
Theorem holds_missing_sound anc p o :
  holds_missing anc p false o = true ->
  match o with
  | ORet t _ => ~ some_cell (miss_must anc) p /\ t = p
  | ORaise s v t =>
      t = p /\ exists s' v', s = Some s' /\ v = Some v' /\ named_offender miss_may p s' v'
  | OOther k => False
  end.
Proof.
  intros H. unfold holds_missing in H. destruct o as [t mf|s v t|k].
  - cbn in H. apply andb_true_iff in H. destruct H as [H1 H2].
    split; [apply no_cell_iff; exact H1|apply gtab_eqb_true; exact H2].
  - cbn in H. destruct s as [s'|]; [|discriminate]. destruct v as [v'|]; [|discriminate].
    apply andb_true_iff in H. destruct H as [H1 H2].
    split; [apply gtab_eqb_true; exact H1|].
    exists s', v'. split; [reflexivity|]. split; [reflexivity|]. apply named_sat_true. exact H2.
  - discriminate.
Qed.

(* check_missing(discard_also=True) *)
Theorem holds_missing_discard_sound anc p t mf :
  holds_missing anc p true (ORet t mf) = true ->
  exists keep,
    rows_selected keep p t
    /\ length keep = length (g_rows p)
    /\ forall i k row, nth_error keep i = Some k -> nth_error (g_rows p) i = Some row ->
         (existsb (miss_must anc) row = true -> k = false) /\ (existsb miss_may row = false -> k = true).
Proof.
  intros H. cbn in H. apply rows_discard_ok_sound. exact H.
Qed.

(* check_biallelic(discard_also=True): exactly the multiallelic variants are gone, the rest
   is the 0/1 cast of what was there *)
Theorem holds_biallelic_discard_sound p t mf :
  holds_biallelic p true (ORet t mf) = true ->
  exists keep,
    cols_selected keep (cast_bool p) t
    /\ length keep = length (g_variants p)
    /\ forall j k, nth_error keep j = Some k -> (j < length (g_variants p))%nat ->
         (col_exists multi_must (g_rows p) j = true -> k = false)
         /\ (col_exists multi_may (g_rows p) j = false -> k = true).
Proof.
  intros H. cbn in H. apply cols_discard_ok_sound in H. exact H.
Qed.

(* check_phase *)
Theorem holds_phase_sound p o :
  holds_phase p o = true ->
  match o with
  | ORet t _ =>
      (g_planes p < 3 /\ t = p)
      \/ (3 <= g_planes p /\ ~ some_cell unph_must p /\ t = strip_phase p)
  | ORaise s v t =>
      3 <= g_planes p /\ t = p
      /\ exists s' v', s = Some s' /\ v = Some v' /\ named_offender unph_may p s' v'
  | OOther k => False
  end.
Proof.
  intros H. unfold holds_phase in H. destruct o as [t mf|s v t|k].
  - cbn in H. destruct (g_planes p <? 3) eqn:Ep.
    + left. apply Z.ltb_lt in Ep. split; [exact Ep|apply gtab_eqb_true; exact H].
    + right. apply Z.ltb_ge in Ep. apply andb_true_iff in H. destruct H as [H1 H2].
      split; [exact Ep|]. split; [apply no_cell_iff; exact H1|apply gtab_eqb_true; exact H2].
  - cbn in H. destruct s as [s'|]; [|discriminate]. destruct v as [v'|]; [|discriminate].
    apply andb_true_iff in H. destruct H as [H1 H3]. apply andb_true_iff in H1. destruct H1 as [H1 H2].
    split; [apply Z.leb_le; exact H1|]. split; [apply gtab_eqb_true; exact H2|].
    exists s', v'. split; [reflexivity|]. split; [reflexivity|]. apply named_sat_true. exact H3.
  - discriminate.
Qed.

(* how the per-check clauses make up the step checker *)
Theorem holds_step_dispatch anc p op o :
  holds_step anc p op o = true ->
  match o with
  | OOther k => k = E_Unobserved
  | _ =>
      match op with
      | OpMissing d => holds_missing anc p d o = true
      | OpBiallelic d => holds_biallelic p d o = true
      | OpPhase => holds_phase p o = true
      | OpSorted => holds_sorted p o = true
      | OpMaf thr d w => holds_maf p (option_map float_to_Q thr) d w o = true
      end
  end.
Proof.
  unfold holds_step. destruct o as [t mf|s v t|k]; intro H.
  - destruct op; exact H.
  - destruct op; exact H.
  - apply Z.eqb_eq. exact H.
Qed.

(* the loader *)
Theorem holds_load_sound k :
  holds_load k = true ->
  match l_out k with
  | ORet t _ =>
      ~ some_cell (miss_must (l_anc k)) (l_raw k) /\ ~ some_cell multi_must (l_raw k)
      /\ ~ some_cell unph_must (l_raw k) /\ t = strip_phase (cast_bool (l_raw k))
  | ORaise s v _ =>
      exists s' v', s = Some s' /\ v = Some v'
        /\ named_offender (fun x => miss_may x || multi_may x || unph_may x) (l_raw k) s' v'
  | OOther e => e = E_Unobserved
  end.
Proof.
  unfold holds_load. destruct (l_out k) as [t mf|s v t|e]; intro H.
  - rewrite !andb_true_iff in H. destruct H as [[[H1 H2] H3] H4].
    rewrite !no_cell_iff in *. rewrite gtab_eqb_true in H4. auto.
  - destruct s as [s'|]; [|discriminate]. destruct v as [v'|]; [|discriminate].
    exists s', v'. split; [reflexivity|]. split; [reflexivity|]. apply named_sat_true. exact H.
  - apply Z.eqb_eq. exact H.
Qed.

(* the "must" readings are the property's words *)
Lemma unph_must_spec x :
  unph_must x = true <-> (0 <= ca x <= 253) /\ (0 <= cb x <= 253) /\ ca x <> cb x /\ cp x = 0.
Proof.
  unfold unph_must, allele. rewrite !andb_true_iff, negb_true_iff, Z.eqb_neq, Z.eqb_eq, !Z.leb_le. tauto.
Qed.

Lemma multi_must_spec x :
  multi_must x = true <-> (1 < ca x <= 253) \/ (1 < cb x <= 253).
Proof.
  unfold multi_must, allele. rewrite orb_true_iff, !andb_true_iff, !Z.leb_le, !Z.ltb_lt. lia.
Qed.

Lemma miss_may_spec x : miss_may x = true <-> 254 <= ca x \/ 254 <= cb x.
Proof. unfold miss_may. rewrite orb_true_iff, !Z.leb_le. tauto. Qed.
