(* C13 - compact literals for wide tables (hundreds to tens of thousands of samples or variants).
   The harness writes a long regular list as  repz x n  (n copies of x),  zrun a n  (a, a+1, ..,
   a+n-1)  or  vrun id chrom pos step n  (n variant records at regular distances); an irregular list
   is written in full, so nothing depends on the regularity.  The decoders recurse on the binary
   representation of n (no unary numbers); their specifications are proved below. *)
From HV Require Import Prelude GenoTable.
Open Scope Z_scope.

Fixpoint rep_pos {A} (x : A) (p : positive) : list A :=
  match p with
  | xH => [x]
  | xO q => let l := rep_pos x q in l ++ l
  | xI q => let l := rep_pos x q in x :: l ++ l
  end.
Definition repz {A} (x : A) (n : Z) : list A :=
  match n with Zpos p => rep_pos x p | _ => [] end.

Fixpoint zrun_pos (a : Z) (p : positive) : list Z :=
  match p with
  | xH => [a]
  | xO q => zrun_pos a q ++ zrun_pos (a + Zpos q) q
  | xI q => a :: zrun_pos (a + 1) q ++ zrun_pos (a + 1 + Zpos q) q
  end.
Definition zrun (a n : Z) : list Z :=
  match n with Zpos p => zrun_pos a p | _ => [] end.

(* n variant records: IDs id0, id0+1, ..; one chromosome; positions pos0, pos0+step, .. *)
Definition vrun (id0 chrom pos0 step n : Z) : list variant :=
  map (fun k => gv (id0 + k) chrom (pos0 + step * k)) (zrun 0 n).

(* ---- specifications ---------------------------------------------------------- *)

Lemma rep_pos_spec {A} (x : A) p : rep_pos x p = repeat x (Pos.to_nat p).
Proof.
  induction p as [q IH|q IH|]; cbn [rep_pos].
  - rewrite IH, Pos2Nat.inj_xI. cbn [repeat]. f_equal.
    rewrite <- repeat_app. f_equal. lia.
  - rewrite IH, Pos2Nat.inj_xO. rewrite <- repeat_app. f_equal. lia.
  - reflexivity.
Qed.

Theorem repz_spec {A} (x : A) n : repz x n = repeat x (Z.to_nat n).
Proof. destruct n as [|p|p]; cbn; [reflexivity|apply rep_pos_spec|reflexivity]. Qed.

Definition upfrom (a : Z) (k n : nat) : list Z := map (fun i => a + Z.of_nat i) (seq k n).

Lemma upfrom_shift : forall n a k, upfrom a k n = upfrom (a + Z.of_nat k) 0 n.
Proof.
  unfold upfrom. induction n as [|n IH]; intros a k; [reflexivity|].
  cbn [seq map]. f_equal; [lia|].
  rewrite (IH a (S k)), (IH (a + Z.of_nat k) 1%nat). apply map_ext. intro i. lia.
Qed.

Lemma upfrom_app a n m : upfrom a 0 (n + m) = upfrom a 0 n ++ upfrom (a + Z.of_nat n) 0 m.
Proof.
  unfold upfrom at 1. rewrite seq_app, map_app. cbn [plus]. f_equal.
  apply (upfrom_shift m a n).
Qed.

Lemma zrun_pos_spec p : forall a, zrun_pos a p = upfrom a 0 (Pos.to_nat p).
Proof.
  induction p as [q IH|q IH|]; intro a; cbn [zrun_pos].
  - rewrite !IH, Pos2Nat.inj_xI.
    replace (S (2 * Pos.to_nat q)) with (1 + (Pos.to_nat q + Pos.to_nat q))%nat by lia.
    rewrite (upfrom_app a 1), upfrom_app. cbn [upfrom seq map app].
    rewrite positive_nat_Z. change (Z.of_nat 1) with 1. change (Z.of_nat 0) with 0.
    rewrite Z.add_0_r. reflexivity.
  - rewrite !IH, Pos2Nat.inj_xO.
    replace (2 * Pos.to_nat q)%nat with (Pos.to_nat q + Pos.to_nat q)%nat by lia.
    rewrite upfrom_app, positive_nat_Z. reflexivity.
  - rewrite Pos2Nat.inj_1. unfold upfrom. cbn [seq map]. change (Z.of_nat 0) with 0. rewrite Z.add_0_r. reflexivity.
Qed.

(* zrun a n = [a; a+1; ..; a+n-1] *)
Theorem zrun_spec a n : zrun a n = map (fun i => a + Z.of_nat i) (seq 0 (Z.to_nat n)).
Proof. destruct n as [|p|p]; cbn [zrun Z.to_nat]; [reflexivity|apply zrun_pos_spec|reflexivity]. Qed.

Theorem zrun_length a n : 0 <= n -> lenZ (zrun a n) = n.
Proof. intro H. rewrite zrun_spec. unfold lenZ. rewrite map_length, seq_length. lia. Qed.

Theorem zrun_nth a n i : (i < Z.to_nat n)%nat -> nth_error (zrun a n) i = Some (a + Z.of_nat i).
Proof.
  intro H. rewrite zrun_spec, nth_error_map.
  rewrite (nth_error_nth' _ 0%nat) by (rewrite seq_length; exact H).
  rewrite seq_nth by exact H. reflexivity.
Qed.

Theorem vrun_nth id0 chrom pos0 step n i :
  (i < Z.to_nat n)%nat ->
  nth_error (vrun id0 chrom pos0 step n) i
  = Some (gv (id0 + Z.of_nat i) chrom (pos0 + step * Z.of_nat i)).
Proof.
  intro H. unfold vrun. rewrite nth_error_map, (zrun_nth 0 n i H). cbn. reflexivity.
Qed.
