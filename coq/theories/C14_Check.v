(* C14 - boolean checkers evaluated on what the implementation returned.
   kernel relation: a history of direct calls of _find_coord /
   _find_random_sample on one shared haps_used table. *)
From HV Require Import Prelude Tracts C01_Model C14_Model.

Inductive op :=
| OpCoord (hap : Z) (c a b : Z) (obs : res bool)                (* _find_coord(haps_used[hap], c, a, b) *)
| OpSample (samples : list Z) (c a b : Z) (obs : res (Z * Z)).  (* _find_random_sample(samples, .., c, a, b) *)

Record kcase := mkk {
  k_nhaps : Z;                 (* haps_used starts as k_nhaps empty lists *)
  k_ops : list op;
  k_final : list used          (* haps_used after the last call, as observed *)
}.

Definition zz_eqb (x y : Z * Z) : bool := (fst x =? fst y) && (snd x =? snd y).
Definition used_eqb := list_eqb ival_eqb.

(* ---- model of the history ------------------------------------------------ *)

Definition run_op (legacy : bool) (hu : list used) (o : op) : bool * list used :=
  match o with
  | OpCoord hap c a b obs =>
      match nthZ hu hap with
      | None => (res_eqb Bool.eqb (Err E_Index) obs, hu)
      | Some cur =>
          let '(found, cur') := find_coord_with legacy cur c a b in
          (res_eqb Bool.eqb (Ok found) obs, set_nth hu (Z.to_nat hap) cur')
      end
  | OpSample samples c a b obs =>
      let '(r, hu') := find_random_sample_with legacy samples hu c a b in
      (res_eqb zz_eqb r obs, hu')
  end.

Fixpoint run_ops (legacy : bool) (hu : list used) (ops : list op) : bool * list used :=
  match ops with
  | [] => (true, hu)
  | o :: r => let '(ok, hu') := run_op legacy hu o in
              let '(ok', hu'') := run_ops legacy hu' r in (ok && ok', hu'')
  end.

Definition init_used (n : Z) : list used := repeat [] (Z.to_nat n).

Definition model_kernel (k : kcase) : bool * list used := run_ops false (init_used (k_nhaps k)) (k_ops k).
Definition model_kernel_legacy (k : kcase) : bool * list used := run_ops true (init_used (k_nhaps k)) (k_ops k).

(* ---- the property on the observed history -------------------------------- *)

(* the registrations the implementation reported as accepted:
   (reference haplotype, chrom, start, end) *)
Definition accepted (o : op) : list (Z * ival) :=
  match o with
  | OpCoord hap c a b (Ok false) => [(hap, (c, a, b))]
  | OpSample _ c a b (Ok (s, h)) => [(2 * s + h, (c, a, b))]
  | _ => []
  end.

(* two closed intervals on one chromosome of one reference haplotype share a position *)
Definition share (x y : Z * ival) : bool :=
  let '(h, (c, a, b)) := x in let '(h', (c', a', b')) := y in
  (h =? h') && (c =? c') && (Z.max a a' <=? Z.min b b').

Fixpoint pairwise_ok {A} (bad : A -> A -> bool) (l : list A) : bool :=
  match l with
  | [] => true
  | x :: r => forallb (fun y => negb (bad x y)) r && pairwise_ok bad r
  end.

Definition holds_kernel (k : kcase) : bool :=
  pairwise_ok share (flat_map accepted (k_ops k)).

Definition check_kernel (k : kcase) : bool * bool :=
  let '(ok, hu) := model_kernel k in
  (ok && list_eqb used_eqb hu (k_final k), holds_kernel k).
