(* C14 - direct calls of sim_genotype._convert_haplotype (both the --no_replacement and the
   replacement branch) with the numpy shuffles / choices recorded: agreement with the
   hand-written model (C14_Model.conv_norep, C03_Model.conv_rep) and, for --no_replacement,
   preservation of the disjointness invariant of the haps_used table as observed on the
   implementation. *)
From HV Require Import Prelude Tracts C01_Model C14_Model C14_Check C03_Model.

Record vcase := mkv {
  v_norep : bool;
  v_npop : Z;                  (* number of labels in the model header (keys 0..npop-1 of pop_dict) *)
  v_hap : list seg;            (* the simulated haplotype (all chromosomes) *)
  v_c : Z;                     (* the chromosome converted, 1..23 *)
  v_tab : poptab;              (* population label -> reference samples (panel indices), file order *)
  v_hu : list used;            (* haps_used before the call *)
  v_shuf : list (list Z);      (* recorded np.random.shuffle results (non-empty lists only) *)
  v_choice : list Z;           (* recorded np.random.choice indices *)
  v_obs : res (list block);    (* per ancestry block: end, population, sample, strand (-1 with replacement) *)
  v_hu_after : list used;      (* haps_used after the call (as observed, also after an exception) *)
  v_tab_after : poptab
}.

Definition block_list_eqb := list_eqb block_eqb.
Definition hu_eqb := list_eqb used_eqb.
Definition zlist_eqb := list_eqb Z.eqb.
Definition poptab_eqb := list_eqb (pair_eqb Z.eqb zlist_eqb).

(* model: result, and the final table / population table when the call succeeds *)
Definition model_conv (k : vcase) : res (list block * list used * poptab) :=
  let segs := segs_of (v_c k) (v_hap k) in
  if v_norep k then
    bind (conv_norep false (v_npop k) segs (v_c k) 0 (v_tab k) (v_hu k) (v_shuf k))
         (fun x => let '(bl, t, hu, _) := x in Ok (bl, hu, t))
  else
    bind (conv_rep (v_npop k) segs (v_tab k) (v_choice k))
         (fun x => let '(bl, _) := x in Ok (bl, v_hu k, v_tab k)).

(* one reference haplotype's registrations are pairwise disjoint *)
Definition overlapb (x y : ival) : bool :=
  let '(c, a, b) := x in let '(c', a', b') := y in (c =? c') && (Z.max a a' <=? Z.min b b').
Definition invb (u : used) : bool := pairwise_ok overlapb u.
Definition inv_allb (hu : list used) : bool := forallb invb hu.

Definition holds_conv (k : vcase) : bool :=
  negb (v_norep k) || negb (inv_allb (v_hu k)) || inv_allb (v_hu_after k).

Definition check_conv (k : vcase) : bool * bool :=
  (match model_conv k, v_obs k with
   | Ok (bl, hu, t), Ok obl =>
       block_list_eqb bl obl && hu_eqb hu (v_hu_after k) && poptab_eqb t (v_tab_after k)
   | Err e, Err e' => e =? e'
   | _, _ => false
   end, holds_conv k).
