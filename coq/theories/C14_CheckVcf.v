(* C14 - checker for output_vcf(no_replacement=True) end to end (relation norep).
   The case type and the model are C03's; the property here is read off the
   output alone: over a panel in which every reference haplotype carries its
   own allele at a variant, no two simulated haplotypes may show the same
   allele at that variant (it would have been copied twice from one reference
   haplotype). *)
From HV Require Import Prelude Tracts C01_Model C14_Model C03_Model C03_Check.

Fixpoint nodupb (l : list Z) : bool :=
  match l with
  | [] => true
  | x :: r => negb (existsb (Z.eqb x) r) && nodupb r
  end.

(* alleles of all reference haplotypes at panel variant v *)
Definition ref_alleles (d : gdata) (v : Z) : list Z :=
  flat_map (fun row : list (Z * Z) =>
              match nthZ row v with Some (a0, a1) => [a0; a1] | None => [] end) d.

Definition identifiable (d : gdata) (v : Z) : bool := nodupb (ref_alleles d v).

(* alleles written for record j, over all simulated haplotypes; a missing call is -1 *)
Definition column (out : output) (j : nat) : list Z :=
  map (fun row : list (option Z) => match nth j row None with Some a => a | None => -1 end) (o_gt out).

Definition holds_norep (k : ocase) : bool :=
  match o_obs k with
  | Err _ => true          (* an error instead of reusing material is what the property asks for *)
  | Ok out =>
      negb (g_norep (o_cfg k))
      || forallb (fun jo : nat * Z =>
                    negb (identifiable (g_data (o_cfg k)) (snd jo)) || nodupb (column out (fst jo)))
                 (number_nat 0 (o_vars out))
  end.

Definition check_norep (k : ocase) : bool * bool := (fst (check_vcf k), holds_norep k).
Definition model_norep := model_vcf.

(* ---- validate_params' per-population count check (relation params) --------- *)

(* counts = number of sample-info lines per model population (header order) *)
Record pcase := mkp { p_nsamples : Z; p_norep : bool; p_counts : list Z; p_raised : bool }.

Definition must_reject (k : pcase) : bool :=
  p_norep k && existsb (fun n => n <? p_nsamples k) (p_counts k).

(* a population without any sample-info line is rejected in either mode *)
Definition model_params (k : pcase) : bool :=
  existsb (fun n => n =? 0) (p_counts k) || must_reject k.

Definition check_params (k : pcase) : bool * bool :=
  (Bool.eqb (model_params k) (p_raised k), negb (must_reject k) || p_raised k).

(* the norep relation's case type is C03's *)
Definition ocase := C03_Check.ocase.
