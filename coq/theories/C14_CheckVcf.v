(* C14 - checker for output_vcf(no_replacement=True) end to end (relation norep).
   The case type and the model are C03's; the property here is read off the
   output alone: over a panel in which every reference haplotype carries its
   own allele at a variant, no two simulated haplotypes may show the same
   allele at that variant (it would have been copied twice from one reference
   haplotype). *)
From HV Require Import Prelude Tracts C01_Model C14_Model C03_Model C03_Check.

(* (an [if], not [&&]: under vm_compute's call-by-value the rest of the list is only visited while no
   duplicate has been found - a 65537-sample panel with < 256 alleles is decided at its first entry) *)
Fixpoint nodupb (l : list Z) : bool :=
  match l with
  | [] => true
  | x :: r => if existsb (Z.eqb x) r then false else nodupb r
  end.

(* alleles of all reference haplotypes at panel variant v *)
Definition ref_alleles (d : gdata) (v : Z) : list Z :=
  flat_map (fun row : list (Z * Z) =>
              match nthZ row v with Some (a0, a1) => [a0; a1] | None => [] end) d.

Definition identifiable (d : gdata) (v : Z) : bool := nodupb (ref_alleles d v).

(* alleles written for record j, over all simulated haplotypes; a missing call is -1 *)
Definition column (out : output) (j : nat) : list Z :=
  map (fun row : list (option Z) => match nth j row None with Some a => a | None => -1 end) (o_gt out).

Definition holds_norep (k : ocase) : bool :=
  match o_obs k with
  | Err _ => true          (* an error instead of reusing material is what the property asks for *)
  | Ok out =>
      negb (g_norep (o_cfg k))
      || forallb (fun jo : nat * Z =>
                    negb (identifiable (g_data (o_cfg k)) (snd jo)) || nodupb (column out (fst jo)))
                 (number_nat 0 (o_vars out))
  end.

(* ---- provenance named by the SAMPLE field ---------------------------------------------
   When SAMPLE is written, a cell names the reference sample it was copied from; its allele then
   names the strand whenever that sample's two haplotypes carry different alleles at the variant.
   Two simulated haplotypes with the same (sample, allele) key at one record took the variant from
   the same reference haplotype.  Unlike [identifiable] this needs no panel-wide uniqueness of
   alleles, so it decides wide panels (hundreds of reference samples, < 256 alleles). *)
Definition cellz (m : list (list (option Z))) (h j : nat) : option Z := nth j (nth h m []) None.

Definition src_key (d : gdata) (v : Z) (g s : option Z) : option (Z * Z) :=
  match g, s with
  | Some a, Some r =>
      match nthZ d r with
      | Some row =>
          match nthZ row v with
          | Some (a0, a1) => if negb (a0 =? a1) && ((a =? a0) || (a =? a1)) then Some (r, a) else None
          | None => None
          end
      | None => None
      end
  | _, _ => None
  end.

Definition key_is (x : Z * Z) (y : option (Z * Z)) : bool :=
  match y with Some z => pair_eqb Z.eqb Z.eqb x z | None => false end.

Fixpoint nodup_keys (l : list (option (Z * Z))) : bool :=
  match l with
  | [] => true
  | None :: r => nodup_keys r
  | Some x :: r => negb (existsb (key_is x) r) && nodup_keys r
  end.

Definition keys_at (d : gdata) (out : output) (sm : list (list (option Z))) (j : nat) (v : Z) : list (option (Z * Z)) :=
  map (fun h => src_key d v (cellz (o_gt out) h j) (cellz sm h j)) (seq 0 (length (o_gt out))).

Definition holds_norep_smp (k : ocase) : bool :=
  match o_obs k with
  | Err _ => true
  | Ok out =>
      negb (g_norep (o_cfg k))
      || match o_smp out with
         | None => true
         | Some sm => forallb (fun jo : nat * Z => nodup_keys (keys_at (g_data (o_cfg k)) out sm (fst jo) (snd jo)))
                              (number_nat 0 (o_vars out))
         end
  end.

(* the property on the output of one output_vcf(no_replacement=True) call: both readings *)
Definition holds_norep_all (k : ocase) : bool := holds_norep k && holds_norep_smp k.

(* ---- population labels beyond 255 ------------------------------------------------------
   _convert_haplotype returns np.asarray(hap_pops, dtype=np.uint8): with numpy >= 2 a label > 255 on
   the chromosome raises OverflowError - after the chromosome's blocks were drawn (errors of the
   drawing come first), before anything of that chromosome is written.  C03's model (labels < 256
   there) is wrapped, not changed; [output_vcf_w_eq] (C14_ProofsVcf) shows that the wrapper is C03's
   model whenever no tract carries a label > 255. *)
Definition E_Overflow : Z := 7.
Definition wide_label (s : seg) : bool := 255 <? pop s.

Definition hap_chrom_w (norep : bool) (npop : Z) (d : gdata) (hap : list seg) (c : Z)
    (cv : list cvar) (st : dstate) : res (list (nat * cell) * dstate) :=
  let segs := segs_of c hap in
  if existsb wide_label segs then
    match (if norep
           then bind (conv_norep false npop segs c 0 (d_tab st) (d_hu st) (d_shuf st)) (fun _ => Ok tt)
           else bind (conv_rep npop segs (d_tab st) (d_choice st)) (fun _ => Ok tt)) with
    | Err e => Err e
    | Ok _ => Err E_Overflow
    end
  else hap_chrom false norep npop d hap c cv st.

Fixpoint hap_loop_w (norep : bool) (npop : Z) (d : gdata) (cur_chr : bool) (ov : list (Z * rvar))
    (hap : list seg) (chroms : list Z) (arr : list (option cell)) (st : dstate)
  : res (list (option cell) * dstate) :=
  match chroms with
  | [] => Ok (arr, st)
  | c :: cs =>
      bind (hap_chrom_w norep npop d hap c (cvars_of cur_chr c ov) st)
           (fun x => let '(ws, st') := x in
                     hap_loop_w norep npop d cur_chr ov hap cs (write ws arr) st')
  end.

Fixpoint haps_loop_w (norep : bool) (npop : Z) (d : gdata) (cur_chr : bool) (ov : list (Z * rvar))
    (chroms : list Z) (bps : list (list seg)) (st : dstate)
  : res (list (list (option cell)) * dstate) :=
  match bps with
  | [] => Ok ([], st)
  | hap :: r =>
      bind (hap_loop_w norep npop d cur_chr ov hap chroms (repeat None (length ov)) st)
           (fun x => let '(arr, st') := x in
           bind (haps_loop_w norep npop d cur_chr ov chroms r st')
                (fun y => let '(rest, st'') := y in Ok (arr :: rest, st'')))
  end.

Definition output_vcf_w (c : config) : res output :=
  if negb (lenZ (g_tab c) =? g_npop c - 1) then Err E_Assert else
  let rd := read_vars (g_region c) (g_vars c) in
  match rd with
  | [] => Err E_Index
  | (_, v0) :: _ =>
    let cur_chr := rv_chr v0 in
    let ov := out_vars cur_chr (g_chroms c) rd in
    let st := mkds (g_tab c) (repeat [] (Z.to_nat (2 * g_nref c))) (g_choice c) (g_strand c) (g_shuf c) in
    bind (haps_loop_w (g_norep c) (g_npop c) (g_data c) cur_chr ov (g_chroms c) (g_bps c) st)
         (fun x => let '(arrs, _) := x in
            let proj (f : cell -> Z) := map (map (option_map f)) arrs in
            Ok (mkout (map fst ov)
                      (proj (fun x => fst (fst x)))
                      (if emits_pop (g_pgen c) (g_pop_field c) (g_sample_field c)
                       then Some (proj (fun x => snd (fst x))) else None)
                      (if emits_sample false (g_pgen c) (g_pop_field c) (g_sample_field c)
                       then Some (proj (fun x => snd x)) else None)))
  end.

Definition model_norep (k : ocase) : res output := output_vcf_w (o_cfg k).

Definition agree_norep (k : ocase) : bool :=
  match model_norep k, o_obs k with
  | Ok m, Ok o => out_agree m o
  | Err a, Err b => a =? b
  | _, _ => false
  end.

Definition check_norep (k : ocase) : bool * bool := (agree_norep k, holds_norep_all k).

(* ---- validate_params' sample-info checks (relations params, cli) ------------ *)

(* The harness interns strings by string EQUALITY (a python dict):
     labels : the model header's labels in header order, "Admixed" (the first) = 0; labels that
              occur only in the sample-info file get further numbers;
     samples: >= 0 index of the sample in the reference panel, < 0 a name the panel lacks.
   Two labels get the same number iff they are the same string - a label that merely contains,
   starts with, ends with or case-folds to another one is a different label. *)
Definition info_table := list (Z * Z).       (* (sample, label) per sample-info line, file order *)

(* number of sample-info lines whose label matches p; [m] is the matching relation
   (validate_params: equality of the strings = equality of the interned numbers) *)
Definition count_by (m : Z -> Z -> bool) (p : Z) (info : info_table) : Z :=
  lenZ (filter (fun r => m p (snd r)) info).
Definition count_label := count_by Z.eqb.

Definition memZ (x : Z) (l : list Z) : bool := existsb (Z.eqb x) l.

(* verdict classes of validate_params on otherwise valid arguments *)
Definition V_accept : Z := 0.
Definition V_sample_absent : Z := 1.   (* Sample s from population p in sampleinfo file is not present in the vcf file *)
Definition V_pop_absent : Z := 2.      (* Population p in model file is not present in the sample info file *)
Definition V_insufficient : Z := 3.    (* Population p does not have enough samples to sample without replacement *)

(* a verdict = (class, the population the message names; 0 when it names none) *)
Definition verdict := (Z * Z)%type.

(* first loop: a listed sample of a header population (Admixed included) that the panel lacks *)
Definition offending (pops : list Z) (r : Z * Z) : bool := (fst r <? 0) && memZ (snd r) pops.

(* second loop, over the header's source populations in header order *)
Fixpoint check_model_pops (m : Z -> Z -> bool) (norep : bool) (n : Z) (info : info_table) (src : list Z) : verdict :=
  match src with
  | [] => (V_accept, 0)
  | p :: r =>
      if count_by m p info =? 0 then (V_pop_absent, p)
      else if norep && (count_by m p info <? n) then (V_insufficient, p)
      else check_model_pops m norep n info r
  end.

Definition validate_info_by (m : Z -> Z -> bool) (norep : bool) (n : Z) (pops : list Z) (info : info_table) : verdict :=
  match find (offending pops) info with
  | Some r => (V_sample_absent, snd r)
  | None => check_model_pops m norep n info (tl pops)
  end.

Definition validate_info := validate_info_by Z.eqb.

Record pcase := mkp {
  p_nsamples : Z;            (* number of simulated samples (model header) *)
  p_norep : bool;
  p_pops : list Z;           (* header labels, Admixed first *)
  p_info : info_table;
  p_verdict : verdict        (* observed: class (9 = any other exception) and the population named *)
}.

Definition model_params (k : pcase) : verdict :=
  validate_info (p_norep k) (p_nsamples k) (p_pops k) (p_info k).

(* the clause: with --no_replacement some source population of the model has fewer
   sample-info lines carrying exactly its label than there are simulated samples *)
Definition insufficient (k : pcase) : bool :=
  p_norep k && existsb (fun p => count_label p (p_info k) <? p_nsamples k) (tl (p_pops k)).

(* rejected when insufficient; the not-enough-samples error only when insufficient *)
Definition holds_params (k : pcase) : bool :=
  (negb (insufficient k) || negb (fst (p_verdict k) =? V_accept))
  && (negb (fst (p_verdict k) =? V_insufficient) || insufficient k).

Definition check_params (k : pcase) : bool * bool :=
  (pair_eqb Z.eqb Z.eqb (model_params k) (p_verdict k), holds_params k).

(* ---- the simgenotype command with --no_replacement, end to end (relation cli) -- *)

(* c_sim   : simulate_gt was entered
   c_wrote : a breakpoint or genotype file exists afterwards
   c_o     : the output_vcf call the command made (breakpoints as handed over, draws recorded,
             output read back), when it made one *)
Record ccase := mkc { c_p : pcase; c_sim : bool; c_wrote : bool; c_o : option C03_Check.ocase }.

Definition accepted (v : verdict) : bool := fst v =? V_accept.

Definition holds_cli (k : ccase) : bool :=
  holds_params (c_p k)
  && (negb (insufficient (c_p k)) || (negb (c_sim k) && negb (c_wrote k)))
  && match c_o k with Some o => holds_norep_all o | None => true end.

Definition check_cli (k : ccase) : bool * bool :=
  (fst (check_params (c_p k))
   && Bool.eqb (accepted (model_params (c_p k))) (c_sim k)
   && match c_o k with
      | Some o => accepted (model_params (c_p k)) && fst (check_vcf o)
      | None => negb (accepted (model_params (c_p k)))
      end,
   holds_cli k).

Definition model_cli (k : ccase) := (model_params (c_p k), option_map model_vcf (c_o k)).

(* the norep relation's case type is C03's *)
Definition ocase := C03_Check.ocase.
