(* C14 - executable model of the --no_replacement bookkeeping of
   haptools/sim_genotype.py: _find_coord, _find_random_sample and the
   no-replacement branch of _convert_haplotype.  No proofs here.

   A reference haplotype is addressed by  2 * (index of the reference sample in
   the panel) + strand.  [haps_used] holds, per reference haplotype, the list of
   (chromosome, start, end) closed intervals already handed out. *)
From HV Require Import Prelude Tracts C01_Model.

Definition ival := (Z * Z * Z)%type.            (* (chrom, start, end) *)
Definition used := list ival.

Definition ival_eqb (x y : ival) : bool :=
  let '(c, a, b) := x in let '(c', a', b') := y in (c =? c') && (a =? a') && (b =? b').

(* the overlap test of _find_coord.
   fixed  : the closed intervals [a,b] and [s',e'] share a position
   legacy : the pinned test  a <= s' < b  or  a < e' <= b  (misses an interval
            nested in a registered one and a shared end point) *)
Definition overlaps (legacy : bool) (c a b : Z) (u : ival) : bool :=
  let '(c', s', e') := u in
  (c =? c') &&
  (if legacy then ((a <=? s') && (s' <? b)) || ((a <? e') && (e' <=? b))
   else (s' <=? b) && (a <=? e')).

(* _find_coord: True (nothing registered) when some registered interval
   overlaps, else registers (append) and returns False *)
Definition find_coord_with (legacy : bool) (cur : used) (c a b : Z) : bool * used :=
  if existsb (overlaps legacy c a b) cur then (true, cur) else (false, cur ++ [(c, a, b)]).

Definition find_coord := find_coord_with false.
Definition find_coord_legacy := find_coord_with true.

Fixpoint set_nth {A} (l : list A) (n : nat) (x : A) : list A :=
  match l, n with
  | [], _ => []
  | _ :: r, O => x :: r
  | y :: r, S n' => y :: set_nth r n' x
  end.

Definition E_Exception : Z := 9.
Definition E_Key : Z := 3.

(* one probe of _find_random_sample's inner loop on reference haplotype i:
   None = IndexError, Some None = occupied, Some (Some hu') = taken *)
Definition try_hap (legacy : bool) (hu : list used) (i : Z) (c a b : Z) : option (option (list used)) :=
  match nthZ hu i with
  | None => None
  | Some cur =>
      let '(found, cur') := find_coord_with legacy cur c a b in
      if found then Some None else Some (Some (set_nth hu (Z.to_nat i) cur'))
  end.

(* _find_random_sample: first fit over the (shuffled) sample list x strands 0,1.
   A sample is the index of the reference sample in the panel; a negative value
   stands for a name the panel lacks (KeyError). *)
Fixpoint find_random_sample_with (legacy : bool) (samples : list Z) (hu : list used) (c a b : Z)
  : res (Z * Z) * list used :=
  match samples with
  | [] => (Err E_Exception, hu)
  | s :: r =>
    if s <? 0 then (Err E_Key, hu) else
    match try_hap legacy hu (2 * s) c a b with
    | None => (Err E_Index, hu)
    | Some (Some hu') => (Ok (s, 0), hu')
    | Some None =>
      match try_hap legacy hu (2 * s + 1) c a b with
      | None => (Err E_Index, hu)
      | Some (Some hu') => (Ok (s, 1), hu')
      | Some None => find_random_sample_with legacy r hu c a b
      end
    end
  end.

Definition find_random_sample := find_random_sample_with false.

(* ---- the no-replacement branch of _convert_haplotype -------------------- *)

(* sample-info: population label -> reference samples (panel indices), in file
   order; np.random.shuffle permutes the list in place, so the table is state *)
Definition poptab := list (Z * list Z).

Fixpoint pt_get (t : poptab) (l : Z) : option (list Z) :=
  match t with
  | [] => None
  | (k, v) :: r => if k =? l then Some v else pt_get r l
  end.

Fixpoint pt_set (t : poptab) (l : Z) (v : list Z) : poptab :=
  match t with
  | [] => []
  | (k, w) :: r => if k =? l then (k, v) :: r else (k, w) :: pt_set r l v
  end.

(* what is recorded for one ancestry block of the simulated haplotype *)
Record block := mkb { b_end : Z; b_pop : Z; b_samp : Z; b_strand : Z }.

Definition block_eqb (x y : block) : bool :=
  (b_end x =? b_end y) && (b_pop x =? b_pop y) && (b_samp x =? b_samp y) && (b_strand x =? b_strand y).

(* the tracts of chromosome c that _convert_haplotype walks over: from
   start_segment(0, c) while the chromosome stays c *)
Fixpoint take_chrom (c : Z) (l : list seg) : list seg :=
  match l with
  | [] => []
  | s :: r => if chrom s =? c then s :: take_chrom c r else []
  end.

Definition segs_of (c : Z) (hap : list seg) : list seg :=
  take_chrom c (skipn (Z.to_nat (start_segment 0 c hap)) hap).

Definition E_Draws : Z := 98.   (* recorded draw stream shorter than the code needs *)

(* state threaded through: population table, haps_used, remaining shuffles.
   [shuf] = for each np.random.shuffle call the list as it was left by it.
   Labels without an entry: label 0 ('Admixed') and labels named in the model
   header but absent from the sample-info file give an empty defaultdict list
   (no sample -> Exception); labels beyond the header are a KeyError of
   pop_dict -- [npop] is the number of header labels incl. Admixed. *)
Fixpoint conv_norep (legacy : bool) (npop : Z) (segs : list seg) (c : Z) (start : Z)
    (t : poptab) (hu : list used) (shuf : list (list Z))
  : res (list block * poptab * list used * list (list Z)) :=
  match segs with
  | [] => Ok ([], t, hu, shuf)
  | s :: r =>
    if (pop s <? 0) || (npop <=? pop s) then Err E_Key else
    match pt_get t (pop s) with
    | None      (* defaultdict: empty list, shuffle of [] draws nothing we record *)
    | Some [] => (* a label whose sample list is present but empty: the same *)
        Err E_Exception
    | Some _ =>
      match shuf with
      | [] => Err E_Draws
      | perm :: shuf' =>
        let t' := pt_set t (pop s) perm in
        match find_random_sample_with legacy perm hu c start (endc s) with
        | (Err k, _) => Err k
        | (Ok (smp, h), hu') =>
            bind (conv_norep legacy npop r c (endc s + 1) t' hu' shuf')
                 (fun x => let '(bl, t2, hu2, sh2) := x in
                           Ok (mkb (endc s) (pop s) smp h :: bl, t2, hu2, sh2))
        end
      end
    end
  end.
