(* C14 - proofs about the model of _find_coord / _find_random_sample /
   the no-replacement branch of _convert_haplotype. *)
From HV Require Import Prelude Tracts C01_Model C14_Model C14_Check.

Definition chrom_of (u : ival) : Z := let '(c, _, _) := u in c.
Definition in_ival (p : Z) (u : ival) : Prop := let '(_, s, e) := u in s <= p <= e.

(* two registrations never hand out the same position of one chromosome *)
Definition disjoint (x y : ival) : Prop :=
  chrom_of x = chrom_of y -> forall p, ~ (in_ival p x /\ in_ival p y).

Lemma disjoint_sym x y : disjoint x y -> disjoint y x.
Proof. unfold disjoint. intros H E p [A B]. apply (H (eq_sym E) p). split; assumption. Qed.

(* the invariant of one reference haplotype's list *)
Definition Inv (u : used) : Prop := ForallOrdPairs disjoint u.
Definition InvAll (hu : list used) : Prop := Forall Inv hu.

Lemma FOP_snoc {A} (R : A -> A -> Prop) l y :
  ForallOrdPairs R l -> Forall (fun x => R x y) l -> ForallOrdPairs R (l ++ [y]).
Proof.
  induction 1 as [|a l Ha Hl IH]; intros Hy; cbn.
  - constructor; constructor.
  - inversion Hy as [|? ? Hay Hly]; subst. constructor.
    + apply Forall_app. split; [exact Ha|]. constructor; [exact Hay|constructor].
    + apply IH. exact Hly.
Qed.

(* ---- the overlap test ---------------------------------------------------- *)

Lemma overlaps_false_disjoint c a b u :
  overlaps false c a b u = false -> disjoint u (c, a, b).
Proof.
  destruct u as [[c' s'] e']. unfold overlaps, disjoint, chrom_of, in_ival.
  intros H E p [[A1 A2] [B1 B2]]. subst c'. rewrite Z.eqb_refl in H. cbn [andb] in H.
  apply andb_false_iff in H. destruct H as [H|H].
  - apply Z.leb_gt in H. lia.
  - apply Z.leb_gt in H. lia.
Qed.

(* the fixed test is exact: for non-empty intervals it answers true iff a
   position would be handed out twice (so nothing is refused needlessly) *)
Lemma overlap_test_exact c a b c' s' e' :
  s' <= e' -> a <= b ->
  (overlaps false c a b (c', s', e') = true <->
   c = c' /\ exists p, s' <= p <= e' /\ a <= p <= b).
Proof.
  intros H1 H2. unfold overlaps. rewrite !andb_true_iff, Z.eqb_eq, !Z.leb_le. split.
  - intros [E [A B]]. split; [exact E|]. exists (Z.max a s'). lia.
  - intros [E [p [A B]]]. split; [exact E|]. lia.
Qed.

Lemma existsb_false_forall {A} (f : A -> bool) l :
  existsb f l = false -> forall x, In x l -> f x = false.
Proof.
  induction l as [|y l IH]; cbn; [intros _ x []|].
  intros H x [->|Hx]; apply orb_false_iff in H; destruct H as [H1 H2]; auto.
Qed.

Lemma find_coord_spec cur c a b :
  (find_coord cur c a b = (true, cur) /\ existsb (overlaps false c a b) cur = true) \/
  (find_coord cur c a b = (false, cur ++ [(c, a, b)]) /\
   forall x, In x cur -> disjoint x (c, a, b)).
Proof.
  unfold find_coord, find_coord_with. destruct (existsb (overlaps false c a b) cur) eqn:E.
  - left. auto.
  - right. split; [reflexivity|]. intros x Hx. apply overlaps_false_disjoint.
    eapply existsb_false_forall; eauto.
Qed.

(* used_disjoint, step for _find_coord *)
Lemma find_coord_inv cur c a b : Inv cur -> Inv (snd (find_coord cur c a b)).
Proof.
  intros HI. destruct (find_coord_spec cur c a b) as [[-> _]|[-> H]]; cbn [snd]; [exact HI|].
  apply FOP_snoc; [exact HI|]. apply Forall_forall. exact H.
Qed.

(* ---- _find_random_sample ------------------------------------------------- *)

Lemma set_nth_Forall {A} (P : A -> Prop) l n x :
  Forall P l -> P x -> Forall P (set_nth l n x).
Proof.
  revert n. induction l as [|y l IH]; intros n Hl Hx; destruct n; cbn; auto;
    inversion Hl; subst; constructor; auto.
Qed.

Lemma nthZ_In {A} (l : list A) i x : nthZ l i = Some x -> In x l.
Proof.
  unfold nthZ. destruct (i <? 0); [discriminate|]. apply nth_error_In.
Qed.

Lemma try_hap_taken hu i c a b hu' :
  try_hap false hu i c a b = Some (Some hu') ->
  exists cur, nthZ hu i = Some cur /\ (forall x, In x cur -> disjoint x (c, a, b)) /\
              hu' = set_nth hu (Z.to_nat i) (cur ++ [(c, a, b)]).
Proof.
  unfold try_hap. destruct (nthZ hu i) as [cur|] eqn:E; [|discriminate].
  fold (find_coord cur c a b).
  destruct (find_coord_spec cur c a b) as [[-> _]|[-> H]]; [discriminate|].
  intros H1. inversion H1; subst. exists cur. auto.
Qed.

Lemma try_hap_occupied hu i c a b :
  try_hap false hu i c a b = Some None ->
  exists cur, nthZ hu i = Some cur /\ existsb (overlaps false c a b) cur = true.
Proof.
  unfold try_hap. destruct (nthZ hu i) as [cur|] eqn:E; [|discriminate].
  fold (find_coord cur c a b).
  destruct (find_coord_spec cur c a b) as [[-> H]|[-> _]]; [|discriminate].
  intros _. exists cur. auto.
Qed.

Lemma try_hap_inv hu i c a b hu' :
  InvAll hu -> try_hap false hu i c a b = Some (Some hu') -> InvAll hu'.
Proof.
  intros HI H. apply try_hap_taken in H. destruct H as [cur [E [D ->]]].
  apply set_nth_Forall; [exact HI|]. apply FOP_snoc.
  - unfold InvAll in HI. rewrite Forall_forall in HI. apply HI. eapply nthZ_In; eauto.
  - apply Forall_forall. exact D.
Qed.

(* what a successful call means: the sample comes from the list it was given,
   the chosen reference haplotype had nothing registered that shares a position
   with [a,b] on c, and exactly (c,a,b) was registered on it *)
Lemma frs_ok_spec samples : forall hu c a b s h hu',
  find_random_sample samples hu c a b = (Ok (s, h), hu') ->
  In s samples /\ (h = 0 \/ h = 1) /\
  exists cur, nthZ hu (2 * s + h) = Some cur /\
    (forall x, In x cur -> disjoint x (c, a, b)) /\
    hu' = set_nth hu (Z.to_nat (2 * s + h)) (cur ++ [(c, a, b)]).
Proof.
  unfold find_random_sample.
  induction samples as [|s0 r IH]; intros hu c a b s h hu'; cbn [find_random_sample_with].
  - discriminate.
  - destruct (s0 <? 0); [discriminate|].
    destruct (try_hap false hu (2 * s0) c a b) as [[hu1|]|] eqn:E1; [| |discriminate].
    + intros H. inversion H; subst. split; [left; reflexivity|]. split; [left; reflexivity|].
      apply try_hap_taken in E1. rewrite Z.add_0_r. exact E1.
    + destruct (try_hap false hu (2 * s0 + 1) c a b) as [[hu2|]|] eqn:E2; [| |discriminate].
      * intros H. inversion H; subst. split; [left; reflexivity|]. split; [right; reflexivity|].
        apply try_hap_taken in E2. exact E2.
      * intros H. apply IH in H. destruct H as [H1 H2]. split; [right; exact H1|exact H2].
Qed.

(* a failing call leaves the table as it was *)
Lemma frs_err_unchanged samples : forall hu c a b k hu',
  find_random_sample samples hu c a b = (Err k, hu') -> hu' = hu.
Proof.
  unfold find_random_sample.
  induction samples as [|s0 r IH]; intros hu c a b k hu'; cbn [find_random_sample_with].
  - intros H; inversion H; reflexivity.
  - destruct (s0 <? 0); [intros H; inversion H; reflexivity|].
    destruct (try_hap false hu (2 * s0) c a b) as [[hu1|]|]; [discriminate| |intros H; inversion H; reflexivity].
    destruct (try_hap false hu (2 * s0 + 1) c a b) as [[hu2|]|]; [discriminate| |intros H; inversion H; reflexivity].
    apply IH.
Qed.

(* used_disjoint, step for _find_random_sample *)
Lemma frs_inv samples hu c a b :
  InvAll hu -> InvAll (snd (find_random_sample samples hu c a b)).
Proof.
  intros HI. destruct (find_random_sample samples hu c a b) as [[[s h]|k] hu'] eqn:E; cbn [snd].
  - apply frs_ok_spec in E. destruct E as [_ [_ [cur [E [D ->]]]]].
    apply set_nth_Forall; [exact HI|]. apply FOP_snoc.
    + unfold InvAll in HI. rewrite Forall_forall in HI. apply HI. eapply nthZ_In; eauto.
    + apply Forall_forall. exact D.
  - apply frs_err_unchanged in E. subst. exact HI.
Qed.

Lemma try_hap_occ (hu : list used) i c a b (cur : used) :
  nthZ hu i = Some cur -> existsb (overlaps false c a b) cur = true ->
  try_hap false hu i c a b = Some None.
Proof. intros N O. unfold try_hap, find_coord_with. rewrite N, O. reflexivity. Qed.

(* exhaustion_errors: when every haplotype of every listed sample already holds
   an interval sharing a position with [a,b], the call raises (kind Exception)
   and registers nothing - never a reuse *)
Lemma exhaustion_errors samples : forall (hu : list used) c a b,
  (forall s, In s samples -> 0 <= s /\ forall h, h = 0 \/ h = 1 ->
     exists cur : used, nthZ hu (2 * s + h) = Some cur /\ existsb (overlaps false c a b) cur = true) ->
  find_random_sample samples hu c a b = (Err E_Exception, hu).
Proof.
  unfold find_random_sample.
  induction samples as [|s0 r IH]; intros hu c a b H; cbn [find_random_sample_with]; [reflexivity|].
  destruct (H s0 (or_introl eq_refl)) as [Hs Hh].
  destruct (s0 <? 0) eqn:E0; [apply Z.ltb_lt in E0; lia|].
  destruct (Hh 0 (or_introl eq_refl)) as [c0 [N0 O0]]. rewrite Z.add_0_r in N0.
  destruct (Hh 1 (or_intror eq_refl)) as [c1 [N1 O1]].
  rewrite (try_hap_occ hu (2 * s0) c a b c0 N0 O0).
  rewrite (try_hap_occ hu (2 * s0 + 1) c a b c1 N1 O1).
  apply IH. intros s Hs'. apply H. right. exact Hs'.
Qed.

(* conversely an error of kind Exception with valid samples means exhaustion *)
Lemma frs_exception_means_exhausted samples : forall (hu : list used) c a b hu',
  find_random_sample samples hu c a b = (Err E_Exception, hu') ->
  forall s, In s samples -> forall h, h = 0 \/ h = 1 ->
     exists cur : used, nthZ hu (2 * s + h) = Some cur /\ existsb (overlaps false c a b) cur = true.
Proof.
  unfold find_random_sample.
  induction samples as [|s0 r IH]; intros hu c a b hu'; cbn [find_random_sample_with]; [intros _ s []|].
  destruct (s0 <? 0); [discriminate|].
  destruct (try_hap false hu (2 * s0) c a b) as [[hu1|]|] eqn:E1; [discriminate| |discriminate].
  destruct (try_hap false hu (2 * s0 + 1) c a b) as [[hu2|]|] eqn:E2; [discriminate| |discriminate].
  intros H s [->|Hs] h Hh.
  - destruct Hh as [->| ->].
    + rewrite Z.add_0_r. apply try_hap_occupied. exact E1.
    + apply try_hap_occupied. exact E2.
  - eapply IH; eauto.
Qed.

(* ---- lifted over any history of calls ------------------------------------ *)

Record call := mkcall { cl_samples : list Z; cl_c : Z; cl_a : Z; cl_b : Z }.

Definition run_calls (hu : list used) (calls : list call) : list used :=
  fold_left (fun hu cl => snd (find_random_sample (cl_samples cl) hu (cl_c cl) (cl_a cl) (cl_b cl)))
            calls hu.

Lemma init_used_inv n : InvAll (init_used n).
Proof.
  unfold init_used, InvAll. apply Forall_forall. intros x Hx. apply repeat_spec in Hx. subst. constructor.
Qed.

Lemma run_calls_inv calls : forall hu, InvAll hu -> InvAll (run_calls hu calls).
Proof.
  induction calls as [|cl r IH]; intros hu HI; cbn; [exact HI|].
  apply IH. apply frs_inv. exact HI.
Qed.

(* used_disjoint: after any history starting from the empty table, every
   reference haplotype's registered intervals are pairwise disjoint *)
Lemma used_disjoint n calls : InvAll (run_calls (init_used n) calls).
Proof. apply run_calls_inv. apply init_used_inv. Qed.

Lemma FOP_nth {A} (R : A -> A -> Prop) l :
  ForallOrdPairs R l -> forall i j x y, (i < j)%nat ->
  nth_error l i = Some x -> nth_error l j = Some y -> R x y.
Proof.
  induction 1 as [|a l Ha Hl IH]; intros i j x y Hij Hi Hj.
  - destruct i; discriminate.
  - destruct j as [|j]; [lia|]. destruct i as [|i]; cbn in Hi, Hj.
    + inversion Hi; subst. rewrite Forall_forall in Ha. apply Ha. eapply nth_error_In; eauto.
    + apply (IH i j x y); [lia|exact Hi|exact Hj].
Qed.

(* no_position_twice (table level): two different registrations of one
   reference haplotype on one chromosome never contain the same position *)
Lemma no_position_twice hu : InvAll hu ->
  forall cur, In cur hu -> forall i j x y, i <> j ->
  nth_error cur i = Some x -> nth_error cur j = Some y ->
  chrom_of x = chrom_of y -> forall p, ~ (in_ival p x /\ in_ival p y).
Proof.
  intros HI cur Hc i j x y Hij Hi Hj. unfold InvAll in HI. rewrite Forall_forall in HI.
  specialize (HI cur Hc). destruct (Nat.lt_ge_cases i j) as [L|L].
  - exact (FOP_nth _ _ HI i j x y L Hi Hj).
  - assert (L' : (j < i)%nat) by lia. apply disjoint_sym. exact (FOP_nth _ _ HI j i y x L' Hj Hi).
Qed.

(* ---- the no-replacement branch of _convert_haplotype --------------------- *)

Lemma conv_norep_inv npop segs : forall c start t hu shuf bl t' hu' shuf',
  InvAll hu ->
  conv_norep false npop segs c start t hu shuf = Ok (bl, t', hu', shuf') -> InvAll hu'.
Proof.
  induction segs as [|s r IH]; intros c start t hu shuf bl t' hu' shuf' HI; cbn [conv_norep].
  - intros H; inversion H; subst. exact HI.
  - destruct ((pop s <? 0) || (npop <=? pop s)); [discriminate|].
    destruct (pt_get t (pop s)) as [[|p0 pl]|]; [discriminate| |discriminate].
    destruct shuf as [|perm shuf1]; [discriminate|].
    destruct (find_random_sample_with false perm hu c start (endc s)) as [[[smp h]|k] hu1] eqn:E; [|discriminate].
    pose proof (frs_inv perm hu c start (endc s) HI) as HI1. unfold find_random_sample in HI1.
    rewrite E in HI1. cbn [snd] in HI1.
    destruct (conv_norep false npop r c (endc s + 1) (pt_set t (pop s) perm) hu1 shuf1)
      as [[[[bl2 t2] hu2] sh2]|k] eqn:E2; cbn [bind]; [|discriminate].
    intros H; inversion H; subst. eapply IH; eauto.
Qed.

(* every block got the reference haplotype that find_random_sample returned for
   the interval (previous end + 1 .. end); the chosen sample is a member of the
   shuffled list of the block's population *)
Lemma conv_norep_blocks npop segs : forall c start t hu shuf bl t' hu' shuf',
  conv_norep false npop segs c start t hu shuf = Ok (bl, t', hu', shuf') ->
  map b_end bl = map endc segs /\ map b_pop bl = map pop segs /\
  Forall (fun b => b_strand b = 0 \/ b_strand b = 1) bl.
Proof.
  induction segs as [|s r IH]; intros c start t hu shuf bl t' hu' shuf'; cbn [conv_norep].
  - intros H; inversion H; subst. cbn. auto.
  - destruct ((pop s <? 0) || (npop <=? pop s)); [discriminate|].
    destruct (pt_get t (pop s)) as [[|p0 pl]|]; [discriminate| |discriminate].
    destruct shuf as [|perm shuf1]; [discriminate|].
    destruct (find_random_sample_with false perm hu c start (endc s)) as [[[smp h]|k] hu1] eqn:E; [|discriminate].
    destruct (conv_norep false npop r c (endc s + 1) (pt_set t (pop s) perm) hu1 shuf1)
      as [[[[bl2 t2] hu2] sh2]|k] eqn:E2; cbn [bind]; [|discriminate].
    intros H; inversion H; subst. apply IH in E2. destruct E2 as [A [B C]].
    cbn [map b_end b_pop]. rewrite A, B. split; [reflexivity|]. split; [reflexivity|].
    constructor; [|exact C]. cbn [b_strand].
    apply (frs_ok_spec perm hu c start (endc s) smp h hu1) in E. tauto.
Qed.

(* ---- soundness of the boolean checker ------------------------------------ *)

Lemma pairwise_ok_sound {A} (bad : A -> A -> bool) l :
  pairwise_ok bad l = true -> ForallOrdPairs (fun x y => bad x y = false) l.
Proof.
  induction l as [|x r IH]; cbn [pairwise_ok]; intros H; [constructor|].
  apply andb_true_iff in H. destruct H as [H1 H2]. constructor; [|auto].
  apply Forall_forall. intros y Hy. rewrite forallb_forall in H1. specialize (H1 y Hy).
  apply negb_true_iff in H1. exact H1.
Qed.

Lemma share_false_spec h c a b h' c' a' b' :
  share (h, (c, a, b)) (h', (c', a', b')) = false ->
  h = h' -> c = c' -> forall p, ~ (a <= p <= b /\ a' <= p <= b').
Proof.
  unfold share. intros H -> -> p [A B]. rewrite !Z.eqb_refl in H. cbn [andb] in H.
  apply Z.leb_gt in H. lia.
Qed.

(* holds_kernel = true means: among the registrations the implementation
   accepted, no two of the same reference haplotype and chromosome contain a
   common position *)
Lemma holds_kernel_sound k : holds_kernel k = true ->
  ForallOrdPairs (fun x y : Z * ival =>
      fst x = fst y -> chrom_of (snd x) = chrom_of (snd y) ->
      forall p, ~ (in_ival p (snd x) /\ in_ival p (snd y)))
    (flat_map accepted (k_ops k)).
Proof.
  unfold holds_kernel. intros H. apply pairwise_ok_sound in H.
  induction H as [|x l Hx Hl IH]; constructor; [|exact IH].
  rewrite Forall_forall in *. intros y Hy. specialize (Hx y Hy).
  destruct x as [h [[c a] b]], y as [h' [[c' a'] b']]. cbn [fst snd chrom_of in_ival].
  intros E1 E2 p. eapply share_false_spec; eauto.
Qed.

(* ---- the pinned overlap test is refuted ----------------------------------- *)

(* [0,100] registered, then [40,60] (nested) is accepted by the pinned test *)
Example legacy_nested_refuted :
  find_coord_legacy [(1, 0, 100)] 1 40 60 = (false, [(1, 0, 100); (1, 40, 60)]) /\
  find_coord [(1, 0, 100)] 1 40 60 = (true, [(1, 0, 100)]).
Proof. vm_compute. split; reflexivity. Qed.

(* [0,100] then [100,120]: both contain position 100 *)
Example legacy_abutting_refuted :
  find_coord_legacy [(1, 0, 100)] 1 100 120 = (false, [(1, 0, 100); (1, 100, 120)]) /\
  find_coord [(1, 0, 100)] 1 100 120 = (true, [(1, 0, 100)]).
Proof. vm_compute. split; reflexivity. Qed.

Example legacy_not_inv : ~ Inv (snd (find_coord_legacy [(1, 0, 100)] 1 40 60)).
Proof.
  intros H. change (Inv [(1, 0, 100); (1, 40, 60)]) in H.
  inversion H as [|? ? H1 _]; subst. inversion H1 as [|? ? H2 _]; subst.
  apply (H2 eq_refl 50). unfold in_ival. lia.
Qed.

(* the hypotheses of exhaustion_errors / used_disjoint are satisfiable *)
Example exhaustion_example :
  find_random_sample [0] [[(1, 0, 100)]; [(1, 50, 60)]] 1 55 70 = (Err E_Exception, [[(1, 0, 100)]; [(1, 50, 60)]]) /\
  find_random_sample [0] [[(1, 0, 100)]; [(1, 50, 60)]] 1 61 70 = (Ok (0, 1), [[(1, 0, 100)]; [(1, 50, 60); (1, 61, 70)]]).
Proof. vm_compute. split; reflexivity. Qed.
