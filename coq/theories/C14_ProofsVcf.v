(* C14 - soundness of the output-level checker. *)
From HV Require Import Prelude Tracts C01_Model C14_Model C03_Model C03_Check C14_CheckVcf.

Lemma nodupb_sound l : nodupb l = true -> NoDup l.
Proof.
  induction l as [|x r IH]; cbn [nodupb]; intros H; [constructor|].
  apply andb_true_iff in H. destruct H as [H1 H2]. constructor; [|auto].
  intros Hin. apply negb_true_iff in H1.
  assert (existsb (Z.eqb x) r = true) by (apply existsb_exists; exists x; split; [exact Hin|apply Z.eqb_refl]).
  congruence.
Qed.

Lemma number_nat_In' {A} (l : list A) : forall k i x,
  nth_error l i = Some x -> In ((k + i)%nat, x) (number_nat k l).
Proof.
  induction l as [|y l IH]; intros k [|i] x H; cbn in H; try discriminate.
  - inversion H; subst. rewrite Nat.add_0_r. left. reflexivity.
  - cbn [number_nat]. right. replace (k + S i)%nat with (S k + i)%nat by lia. apply IH. exact H.
Qed.

(* holds_norep = true: at every written record whose panel variant identifies
   the reference haplotypes (all their alleles distinct), the alleles of the
   simulated haplotypes are pairwise distinct - no reference haplotype was
   copied twice there *)
Lemma holds_norep_sound k out :
  holds_norep k = true -> o_obs k = Ok out -> g_norep (o_cfg k) = true ->
  forall j v, nth_error (o_vars out) j = Some v ->
  identifiable (g_data (o_cfg k)) v = true ->
  NoDup (column out j).
Proof.
  unfold holds_norep. intros H Ho Hn j v Hj Hid. rewrite Ho, Hn in H. cbn [negb orb] in H.
  rewrite forallb_forall in H. specialize (H (j, v) (number_nat_In' (o_vars out) 0%nat j v Hj)).
  cbn [fst snd] in H. rewrite Hid in H. cbn [negb orb] in H. apply nodupb_sound. exact H.
Qed.

Lemma check_params_sound k :
  snd (check_params k) = true -> p_norep k = true ->
  (exists n, In n (p_counts k) /\ n < p_nsamples k) -> p_raised k = true.
Proof.
  unfold check_params, must_reject. cbn [snd]. intros H Hn [n [Hin Hlt]]. rewrite Hn in H. cbn [andb] in H.
  assert (E : existsb (fun n => n <? p_nsamples k) (p_counts k) = true).
  { apply existsb_exists. exists n. split; [exact Hin|]. apply Z.ltb_lt. exact Hlt. }
  rewrite E in H. cbn in H. exact H.
Qed.
