(* C14 - soundness of the output-level checker. *)
From HV Require Import Prelude Tracts C01_Model C14_Model C03_Model C03_Check C14_CheckVcf.

Lemma nodupb_sound l : nodupb l = true -> NoDup l.
Proof.
  induction l as [|x r IH]; cbn [nodupb]; intros H; [constructor|].
  destruct (existsb (Z.eqb x) r) eqn:H1; [discriminate|]. constructor; [|auto].
  intros Hin.
  assert (existsb (Z.eqb x) r = true) by (apply existsb_exists; exists x; split; [exact Hin|apply Z.eqb_refl]).
  congruence.
Qed.

Lemma number_nat_In' {A} (l : list A) : forall k i x,
  nth_error l i = Some x -> In ((k + i)%nat, x) (number_nat k l).
Proof.
  induction l as [|y l IH]; intros k [|i] x H; cbn in H; try discriminate.
  - inversion H; subst. rewrite Nat.add_0_r. left. reflexivity.
  - cbn [number_nat]. right. replace (k + S i)%nat with (S k + i)%nat by lia. apply IH. exact H.
Qed.

(* holds_norep = true: at every written record whose panel variant identifies
   the reference haplotypes (all their alleles distinct), the alleles of the
   simulated haplotypes are pairwise distinct - no reference haplotype was
   copied twice there *)
Lemma holds_norep_sound k out :
  holds_norep k = true -> o_obs k = Ok out -> g_norep (o_cfg k) = true ->
  forall j v, nth_error (o_vars out) j = Some v ->
  identifiable (g_data (o_cfg k)) v = true ->
  NoDup (column out j).
Proof.
  unfold holds_norep. intros H Ho Hn j v Hj Hid. rewrite Ho, Hn in H. cbn [negb orb] in H.
  rewrite forallb_forall in H. specialize (H (j, v) (number_nat_In' (o_vars out) 0%nat j v Hj)).
  cbn [fst snd] in H. rewrite Hid in H. cbn [negb orb] in H. apply nodupb_sound. exact H.
Qed.

(* ---- validate_params' sample-info checks ------------------------------------ *)
Require Import Coq.Sorting.Permutation.

Lemma count_by_cons m p r info :
  count_by m p (r :: info) = (if m p (snd r) then 1 else 0) + count_by m p info.
Proof.
  unfold count_by, lenZ. cbn [filter]. cbv beta. destruct (m p (snd r)); cbn [length]; rewrite ?Nat2Z.inj_succ; lia.
Qed.

Lemma count_by_nonneg m p info : 0 <= count_by m p info.
Proof. unfold count_by, lenZ. lia. Qed.

Lemma count_by_app m p a b : count_by m p (a ++ b) = count_by m p a + count_by m p b.
Proof.
  induction a as [|r a IH]; [cbn [app]; unfold count_by at 2; cbn; lia|].
  cbn [app]. rewrite !count_by_cons, IH. lia.
Qed.

(* the count is the number of lines with exactly that label, whatever their order *)
Lemma count_by_perm m p a b : Permutation a b -> count_by m p a = count_by m p b.
Proof.
  induction 1 as [|x a b _ IH|x y a|a b c _ IH1 _ IH2]; [reflexivity| | |congruence].
  - rewrite !count_by_cons, IH. reflexivity.
  - rewrite !count_by_cons. lia.
Qed.

(* a line counts for label p iff its label IS p *)
Lemma count_label_cons p r info :
  count_label p (r :: info) = (if snd r =? p then 1 else 0) + count_label p info.
Proof. unfold count_label. rewrite count_by_cons, (Z.eqb_sym p). reflexivity. Qed.

Lemma count_label_zero p info :
  count_label p info = 0 <-> forall r, In r info -> snd r <> p.
Proof.
  induction info as [|x info IH].
  - split; [intros _ r []|reflexivity].
  - rewrite count_label_cons. pose proof (count_by_nonneg Z.eqb p info) as Hn. fold (count_label p info) in Hn.
    destruct (snd x =? p) eqn:E.
    + apply Z.eqb_eq in E. split; [lia|]. intros H. exfalso. apply (H x); [left; reflexivity|exact E].
    + apply Z.eqb_neq in E. rewrite Z.add_0_l, IH. split.
      * intros H r [<-|Hr]; [exact E|apply H, Hr].
      * intros H r Hr. apply H. right. exact Hr.
Qed.

Lemma memZ_spec x l : memZ x l = true <-> In x l.
Proof.
  unfold memZ. rewrite existsb_exists. split.
  - intros [y [Hy E]]. apply Z.eqb_eq in E. subst. exact Hy.
  - intros H. exists x. split; [exact H|apply Z.eqb_refl].
Qed.

(* the second loop: verdict classes *)
Lemma cmp_accept_iff m norep n info src :
  fst (check_model_pops m norep n info src) = V_accept <->
  forall p, In p src -> count_by m p info <> 0 /\ (norep = true -> n <= count_by m p info).
Proof.
  induction src as [|q src IH]; cbn [check_model_pops].
  - split; [intros _ p []|reflexivity].
  - destruct (count_by m q info =? 0) eqn:E0.
    + apply Z.eqb_eq in E0. cbn [fst]. split; [discriminate|]. intros H.
      destruct (H q (or_introl eq_refl)) as [Hq _]. contradiction.
    + apply Z.eqb_neq in E0. destruct (norep && (count_by m q info <? n)) eqn:E1.
      * apply andb_true_iff in E1. destruct E1 as [En El]. apply Z.ltb_lt in El. cbn [fst].
        split; [discriminate|]. intros H. destruct (H q (or_introl eq_refl)) as [_ Hq]. specialize (Hq En). lia.
      * rewrite IH. split.
        -- intros H p [<-|Hp]; [|apply H, Hp]. split; [exact E0|]. intros En. rewrite En in E1. cbn [andb] in E1.
           apply Z.ltb_ge in E1. exact E1.
        -- intros H p Hp. apply H. right. exact Hp.
Qed.

Lemma cmp_insufficient m norep n info src p :
  check_model_pops m norep n info src = (V_insufficient, p) ->
  norep = true /\ In p src /\ 0 < count_by m p info < n.
Proof.
  induction src as [|q src IH]; cbn [check_model_pops]; [discriminate|].
  destruct (count_by m q info =? 0) eqn:E0; [discriminate|]. apply Z.eqb_neq in E0.
  destruct (norep && (count_by m q info <? n)) eqn:E1.
  - intros H. inversion H; subst q. apply andb_true_iff in E1. destruct E1 as [En El]. apply Z.ltb_lt in El.
    pose proof (count_by_nonneg m p info). repeat split; [exact En|left; reflexivity|lia|exact El].
  - intros H. destruct (IH H) as [A [B C]]. repeat split; [exact A|right; exact B|apply C|apply C].
Qed.

Lemma cmp_pop_absent m norep n info src p :
  check_model_pops m norep n info src = (V_pop_absent, p) -> In p src /\ count_by m p info = 0.
Proof.
  induction src as [|q src IH]; cbn [check_model_pops]; [discriminate|].
  destruct (count_by m q info =? 0) eqn:E0.
  - intros H. inversion H; subst q. apply Z.eqb_eq in E0. split; [left; reflexivity|exact E0].
  - destruct (norep && (count_by m q info <? n)); [discriminate|].
    intros H. destruct (IH H) as [A B]. split; [right; exact A|exact B].
Qed.

Lemma cmp_classes m norep n info src :
  let c := fst (check_model_pops m norep n info src) in c = V_accept \/ c = V_pop_absent \/ c = V_insufficient.
Proof.
  induction src as [|q src IH]; cbn [check_model_pops]; [left; reflexivity|].
  destruct (count_by m q info =? 0); [right; left; reflexivity|].
  destruct (norep && (count_by m q info <? n)); [right; right; reflexivity|exact IH].
Qed.

(* with --no_replacement the second loop rejects iff some listed population has fewer than n lines
   (no precondition for "if"; n >= 1 for "only if": a population without any line is rejected too) *)
Lemma cmp_rejects m n info src :
  (exists p, In p src /\ count_by m p info < n) -> fst (check_model_pops m true n info src) <> V_accept.
Proof.
  intros [p [Hp Hlt]] H. rewrite cmp_accept_iff in H. destruct (H p Hp) as [_ Hge]. specialize (Hge eq_refl). lia.
Qed.

Lemma cmp_reject_only_if m n info src : 1 <= n ->
  fst (check_model_pops m true n info src) <> V_accept -> exists p, In p src /\ count_by m p info < n.
Proof.
  intros Hn. induction src as [|q src IH]; cbn [check_model_pops]; [intros H; exfalso; apply H; reflexivity|].
  destruct (count_by m q info =? 0) eqn:E0.
  - apply Z.eqb_eq in E0. intros _. exists q. split; [left; reflexivity|lia].
  - cbn [andb]. destruct (count_by m q info <? n) eqn:E1.
    + apply Z.ltb_lt in E1. intros _. exists q. split; [left; reflexivity|exact E1].
    + intros H. destruct (IH H) as [p [Hp Hlt]]. exists p. split; [right; exact Hp|exact Hlt].
Qed.

(* ---- the whole sample-info validation *)

Lemma validate_accept_iff norep n pops info :
  fst (validate_info norep n pops info) = V_accept <->
  (forall r, In r info -> offending pops r = false) /\
  (forall p, In p (tl pops) -> count_label p info <> 0 /\ (norep = true -> n <= count_label p info)).
Proof.
  unfold validate_info, validate_info_by. destruct (find (offending pops) info) as [r|] eqn:F.
  - cbn [fst]. split; [discriminate|]. intros [H _]. apply find_some in F. destruct F as [Hin Ho].
    rewrite (H r Hin) in Ho. discriminate.
  - rewrite cmp_accept_iff. split.
    + intros H. split; [intros r Hr; exact (find_none _ _ F r Hr)|exact H].
    + intros [_ H]. exact H.
Qed.

(* the clause, direction "rejects": no precondition at all *)
Lemma insufficient_rejected n pops info :
  (exists p, In p (tl pops) /\ count_label p info < n) ->
  fst (validate_info true n pops info) <> V_accept.
Proof.
  intros H. unfold validate_info, validate_info_by. destruct (find (offending pops) info); [discriminate|].
  apply cmp_rejects. exact H.
Qed.

(* the clause as an equivalence: on a sample-info file all of whose samples (of header populations)
   are in the panel, --no_replacement is rejected iff some source population of the model has fewer
   than n lines with exactly its label *)
Lemma reject_iff n pops info :
  (forall r, In r info -> offending pops r = false) -> 1 <= n ->
  (fst (validate_info true n pops info) <> V_accept <->
   exists p, In p (tl pops) /\ count_label p info < n).
Proof.
  intros Hoff Hn. split; [|apply insufficient_rejected].
  unfold validate_info, validate_info_by. destruct (find (offending pops) info) as [r|] eqn:F.
  - apply find_some in F. destruct F as [Hin Ho]. rewrite (Hoff r Hin) in Ho. discriminate.
  - apply cmp_reject_only_if. exact Hn.
Qed.

(* the not-enough-samples verdict names a population that really is short of lines *)
Lemma insufficient_verdict norep n pops info p :
  validate_info norep n pops info = (V_insufficient, p) ->
  norep = true /\ In p (tl pops) /\ 0 < count_label p info < n.
Proof.
  unfold validate_info, validate_info_by. destruct (find (offending pops) info); [discriminate|].
  apply cmp_insufficient.
Qed.

Lemma pop_absent_verdict norep n pops info p :
  validate_info norep n pops info = (V_pop_absent, p) ->
  In p (tl pops) /\ forall r, In r info -> snd r <> p.
Proof.
  unfold validate_info, validate_info_by. destruct (find (offending pops) info); [discriminate|].
  intros H. apply cmp_pop_absent in H. destruct H as [A B]. split; [exact A|]. apply count_label_zero. exact B.
Qed.

(* without --no_replacement only a population without any line (or a sample the panel lacks) is rejected *)
Lemma replacement_accept_iff n pops info :
  fst (validate_info false n pops info) = V_accept <->
  (forall r, In r info -> offending pops r = false) /\
  (forall p, In p (tl pops) -> exists r, In r info /\ snd r = p).
Proof.
  rewrite validate_accept_iff. split; intros [A B]; (split; [exact A|]); intros p Hp.
  - destruct (B p Hp) as [Hc _]. destruct (existsb (fun r => snd r =? p) info) eqn:E.
    + apply existsb_exists in E. destruct E as [r [Hr Er]]. apply Z.eqb_eq in Er. exists r. split; assumption.
    + exfalso. apply Hc. apply count_label_zero. intros r Hr Er.
      assert (existsb (fun r => snd r =? p) info = true) as X
        by (apply existsb_exists; exists r; split; [exact Hr|apply Z.eqb_eq; exact Er]).
      congruence.
  - destruct (B p Hp) as [r [Hr Er]]. split; [|discriminate]. intros Hc.
    apply (proj1 (count_label_zero p info) Hc r Hr Er).
Qed.

(* the order of the sample-info lines does not matter for the verdict class *)
Lemma cmp_counts_only m norep n a b src :
  (forall p, count_by m p a = count_by m p b) ->
  check_model_pops m norep n a src = check_model_pops m norep n b src.
Proof.
  intros H. induction src as [|q src IH]; cbn [check_model_pops]; [reflexivity|]. rewrite H, IH. reflexivity.
Qed.

Lemma validate_perm norep n pops a b :
  Permutation a b -> fst (validate_info norep n pops a) = fst (validate_info norep n pops b).
Proof.
  intros P. unfold validate_info, validate_info_by.
  destruct (find (offending pops) a) as [r|] eqn:Fa; destruct (find (offending pops) b) as [s|] eqn:Fb.
  - reflexivity.
  - apply find_some in Fa. destruct Fa as [Hin Ho].
    rewrite (find_none _ _ Fb r (Permutation_in _ P Hin)) in Ho. discriminate.
  - apply find_some in Fb. destruct Fb as [Hin Ho].
    rewrite (find_none _ _ Fa s (Permutation_in _ (Permutation_sym P) Hin)) in Ho. discriminate.
  - rewrite (cmp_counts_only Z.eqb norep n a b); [reflexivity|]. intros p. apply count_by_perm. exact P.
Qed.

(* only the equality pattern of the labels matters: renaming the labels injectively
   (any set of label strings with the same equalities) leaves the verdict class unchanged *)
Section Rename.
  Variable f : Z -> Z.
  Hypothesis f_inj : forall x y, f x = f y -> x = y.
  Definition rename_info (info : info_table) : info_table := map (fun r => (fst r, f (snd r))) info.

  Lemma count_rename p info : count_label (f p) (rename_info info) = count_label p info.
  Proof.
    induction info as [|r info IH]; [reflexivity|]. cbn [rename_info map]. fold (rename_info info).
    rewrite !count_label_cons, IH. cbn [snd].
    destruct (snd r =? p) eqn:E.
    - apply Z.eqb_eq in E. rewrite E, Z.eqb_refl. reflexivity.
    - apply Z.eqb_neq in E. destruct (f (snd r) =? f p) eqn:E2; [|reflexivity].
      apply Z.eqb_eq in E2. apply f_inj in E2. contradiction.
  Qed.

  Lemma memZ_rename x l : memZ (f x) (map f l) = memZ x l.
  Proof.
    destruct (memZ x l) eqn:E.
    - apply memZ_spec. apply memZ_spec in E. apply in_map. exact E.
    - destruct (memZ (f x) (map f l)) eqn:E2; [|reflexivity]. apply memZ_spec in E2. apply in_map_iff in E2.
      destruct E2 as [y [Hy Hin]]. apply f_inj in Hy. subst y. apply memZ_spec in Hin. congruence.
  Qed.

  Lemma find_rename pops info :
    find (offending (map f pops)) (rename_info info) =
    option_map (fun r => (fst r, f (snd r))) (find (offending pops) info).
  Proof.
    induction info as [|r info IH]; [reflexivity|]. cbn [rename_info map find]. fold (rename_info info).
    unfold offending at 1 3. cbn [fst snd]. rewrite memZ_rename.
    destruct ((fst r <? 0) && memZ (snd r) pops); [reflexivity|exact IH].
  Qed.

  Lemma cmp_rename norep n info src :
    fst (check_model_pops Z.eqb norep n (rename_info info) (map f src)) =
    fst (check_model_pops Z.eqb norep n info src).
  Proof.
    induction src as [|q src IH]; [reflexivity|]. cbn [map check_model_pops].
    fold (count_label (f q) (rename_info info)). fold (count_label q info). rewrite count_rename.
    destruct (count_label q info =? 0); [reflexivity|].
    destruct (norep && (count_label q info <? n)); [reflexivity|exact IH].
  Qed.

  Lemma validate_rename norep n pops info :
    fst (validate_info norep n (map f pops) (rename_info info)) = fst (validate_info norep n pops info).
  Proof.
    unfold validate_info, validate_info_by. rewrite find_rename.
    destruct (find (offending pops) info); [reflexivity|]. cbn [option_map].
    replace (tl (map f pops)) with (map f (tl pops)) by (destruct pops; reflexivity). apply cmp_rename.
  Qed.
End Rename.

(* a matching relation coarser than equality (substring, prefix, case folding: label 1 also
   matches lines of label 2) accepts a panel in which population 1 has 1 line for 2 simulated samples *)
Lemma coarser_match_refuted (m : Z -> Z -> bool) :
  (forall p, m p p = true) -> m 1 2 = true ->
  let info := [(0, 1); (1, 2); (2, 2)] in
  fst (validate_info_by m true 2 [0; 1; 2] info) = V_accept /\
  count_label 1 info < 2 /\
  fst (validate_info true 2 [0; 1; 2] info) = V_insufficient.
Proof.
  intros Hr H12. cbv zeta. split; [|split; reflexivity].
  unfold validate_info_by. cbn [find offending fst snd tl check_model_pops].
  unfold count_by. cbn [filter snd]. rewrite !Hr, H12. destruct (m 2 1); reflexivity.
Qed.

Lemma nested_labels_example :
  (* header: Admixed(0) EUR(1) EUR_S(2); 2 lines EUR, 3 lines EUR_S, 1 line of an unused label; 3 simulated samples *)
  validate_info true 3 [0; 1; 2] [(0, 2); (1, 1); (2, 2); (3, 3); (4, 1); (5, 2)] = (V_insufficient, 1) /\
  validate_info true 2 [0; 1; 2] [(0, 2); (1, 1); (2, 2); (3, 3); (4, 1); (5, 2)] = (V_accept, 0) /\
  validate_info false 3 [0; 1; 2] [(0, 2); (1, 1); (2, 2); (3, 3); (4, 1); (5, 2)] = (V_accept, 0).
Proof. repeat split; reflexivity. Qed.

(* ---- soundness of the checkers evaluated on the implementation's verdict *)

Lemma insufficient_spec k :
  insufficient k = true <->
  p_norep k = true /\ exists p, In p (tl (p_pops k)) /\ count_label p (p_info k) < p_nsamples k.
Proof.
  unfold insufficient. rewrite andb_true_iff, existsb_exists. split.
  - intros [A [p [Hp Hlt]]]. apply Z.ltb_lt in Hlt. split; [exact A|]. exists p. split; assumption.
  - intros [A [p [Hp Hlt]]]. split; [exact A|]. exists p. split; [exact Hp|]. apply Z.ltb_lt. exact Hlt.
Qed.

Lemma holds_params_sound k :
  holds_params k = true ->
  (p_norep k = true ->
   (exists p, In p (tl (p_pops k)) /\ count_label p (p_info k) < p_nsamples k) ->
   fst (p_verdict k) <> V_accept) /\
  (fst (p_verdict k) = V_insufficient ->
   p_norep k = true /\ exists p, In p (tl (p_pops k)) /\ count_label p (p_info k) < p_nsamples k).
Proof.
  unfold holds_params. intros H. apply andb_true_iff in H. destruct H as [H1 H2]. split.
  - intros Hn Hex Hv. assert (I : insufficient k = true) by (apply insufficient_spec; split; assumption).
    rewrite I, Hv in H1. cbn in H1. discriminate.
  - intros Hv. rewrite Hv in H2. cbn [negb orb] in H2. rewrite Z.eqb_refl in H2. cbn in H2.
    apply insufficient_spec. exact H2.
Qed.

Lemma pair_eqb_ZZ (x y : Z * Z) : pair_eqb Z.eqb Z.eqb x y = true -> x = y.
Proof.
  destruct x as [a b], y as [c d]. unfold pair_eqb. cbn [fst snd]. intros H. apply andb_true_iff in H.
  destruct H as [H1 H2]. apply Z.eqb_eq in H1. apply Z.eqb_eq in H2. subst. reflexivity.
Qed.

(* agreement transfers the model's theorem to the observed verdict *)
Lemma params_agree_transfers k :
  fst (check_params k) = true -> p_norep k = true ->
  (forall r, In r (p_info k) -> offending (p_pops k) r = false) -> 1 <= p_nsamples k ->
  (fst (p_verdict k) <> V_accept <->
   exists p, In p (tl (p_pops k)) /\ count_label p (p_info k) < p_nsamples k).
Proof.
  unfold check_params. cbn [fst]. intros H Hn Hoff H1. apply pair_eqb_ZZ in H. rewrite <- H.
  unfold model_params. rewrite Hn. apply reject_iff; assumption.
Qed.

(* the command: an insufficient panel stops it before simulate_gt and before any file is written;
   what output_vcf wrote (if it ran) re-uses no reference haplotype *)
Lemma holds_cli_sound k :
  holds_cli k = true ->
  holds_params (c_p k) = true /\
  (insufficient (c_p k) = true -> c_sim k = false /\ c_wrote k = false) /\
  (forall o, c_o k = Some o -> holds_norep o = true /\ holds_norep_smp o = true).
Proof.
  unfold holds_cli. intros H. apply andb_true_iff in H. destruct H as [H H3].
  apply andb_true_iff in H. destruct H as [H1 H2]. split; [exact H1|]. split.
  - intros I. rewrite I in H2. cbn [negb orb] in H2. apply andb_true_iff in H2. destruct H2 as [A B].
    apply negb_true_iff in A. apply negb_true_iff in B. split; assumption.
  - intros o Ho. rewrite Ho in H3. unfold holds_norep_all in H3. apply andb_true_iff in H3. exact H3.
Qed.

(* ---- provenance named by the SAMPLE field (wide panels) ---------------------------------- *)

Lemma nodup_keys_sound l :
  nodup_keys l = true ->
  forall i j x, (i < j)%nat -> nth_error l i = Some (Some x) -> nth_error l j = Some (Some x) -> False.
Proof.
  induction l as [|y r IH]; intros H i j x Hij Hi Hj.
  - destruct i; discriminate.
  - destruct j as [|j]; [lia|]. cbn [nth_error] in Hj. destruct i as [|i]; cbn [nth_error] in Hi.
    + inversion Hi; subst y. cbn [nodup_keys] in H. apply andb_true_iff in H. destruct H as [H _].
      apply negb_true_iff in H.
      assert (E : existsb (key_is x) r = true).
      { apply existsb_exists. exists (Some x). split; [eapply nth_error_In; eauto|].
        unfold key_is, pair_eqb. rewrite !Z.eqb_refl. reflexivity. }
      congruence.
    + assert (Hr : nodup_keys r = true).
      { destruct y as [y|]; cbn [nodup_keys] in H; [|exact H]. apply andb_true_iff in H. apply H. }
      apply (IH Hr i j x); [lia|exact Hi|exact Hj].
Qed.

Lemma nth_error_seq' : forall n s i, (i < n)%nat -> nth_error (seq s n) i = Some (s + i)%nat.
Proof.
  induction n as [|n IH]; intros s i Hi; [lia|]. destruct i as [|i]; cbn [seq nth_error].
  - rewrite Nat.add_0_r. reflexivity.
  - rewrite IH by lia. f_equal. lia.
Qed.

Lemma src_key_some d v g s r a :
  src_key d v g s = Some (r, a) ->
  g = Some a /\ s = Some r /\
  exists row a0 a1, nthZ d r = Some row /\ nthZ row v = Some (a0, a1) /\ a0 <> a1 /\ (a = a0 \/ a = a1).
Proof.
  unfold src_key. destruct g as [a'|]; [|discriminate]. destruct s as [r'|]; [|discriminate].
  destruct (nthZ d r') as [row|] eqn:E1; [|discriminate].
  destruct (nthZ row v) as [[a0 a1]|] eqn:E2; [|discriminate].
  destruct (negb (a0 =? a1) && ((a' =? a0) || (a' =? a1))) eqn:E3; [|discriminate].
  intros H; inversion H; subst. split; [reflexivity|]. split; [reflexivity|].
  exists row, a0, a1. apply andb_true_iff in E3. destruct E3 as [N O]. apply negb_true_iff, Z.eqb_neq in N.
  apply orb_true_iff in O. rewrite !Z.eqb_eq in O. auto.
Qed.

Lemma src_key_intro d v r a row a0 a1 :
  nthZ d r = Some row -> nthZ row v = Some (a0, a1) -> a0 <> a1 -> a = a0 \/ a = a1 ->
  src_key d v (Some a) (Some r) = Some (r, a).
Proof.
  intros E1 E2 N O. unfold src_key. rewrite E1, E2.
  replace (negb (a0 =? a1) && ((a =? a0) || (a =? a1))) with true; [reflexivity|].
  symmetry. apply andb_true_iff. split.
  - apply negb_true_iff, Z.eqb_neq. exact N.
  - apply orb_true_iff. rewrite !Z.eqb_eq. exact O.
Qed.

(* holds_norep_smp = true: at no written record do two simulated haplotypes name the same reference
   sample in SAMPLE and show the same allele, when that sample's two haplotypes carry different
   alleles there - i.e. no reference haplotype was copied twice at that record.  No assumption on
   the rest of the panel. *)
Lemma holds_norep_smp_sound k out sm :
  holds_norep_smp k = true -> o_obs k = Ok out -> g_norep (o_cfg k) = true -> o_smp out = Some sm ->
  forall j v, nth_error (o_vars out) j = Some v ->
  forall h h', (h < h' < length (o_gt out))%nat ->
  forall r a row a0 a1,
    cellz (o_gt out) h j = Some a -> cellz (o_gt out) h' j = Some a ->
    cellz sm h j = Some r -> cellz sm h' j = Some r ->
    nthZ (g_data (o_cfg k)) r = Some row -> nthZ row v = Some (a0, a1) -> a0 <> a1 -> (a = a0 \/ a = a1) ->
    False.
Proof.
  unfold holds_norep_smp. intros H Ho Hn Hs j v Hj h h' Hh r a row a0 a1 G1 G2 S1 S2 E1 E2 N O.
  rewrite Ho, Hn, Hs in H. cbn [negb orb] in H. rewrite forallb_forall in H.
  specialize (H (j, v) (number_nat_In' (o_vars out) 0%nat j v Hj)). cbn [fst snd] in H.
  apply (nodup_keys_sound _ H h h' (r, a)); [lia| |].
  - unfold keys_at. rewrite nth_error_map, nth_error_seq' by lia. cbn [option_map]. rewrite Nat.add_0_l.
    rewrite G1, S1. f_equal. eapply src_key_intro; eauto.
  - unfold keys_at. rewrite nth_error_map, nth_error_seq' by lia. cbn [option_map]. rewrite Nat.add_0_l.
    rewrite G2, S2. f_equal. eapply src_key_intro; eauto.
Qed.

Lemma holds_norep_all_sound k :
  holds_norep_all k = true -> holds_norep k = true /\ holds_norep_smp k = true.
Proof. unfold holds_norep_all. intros H. apply andb_true_iff in H. exact H. Qed.

(* ---- labels beyond 255: the wrapper is C03's model when no tract carries such a label ------ *)

Lemma take_chrom_incl c l : incl (take_chrom c l) l.
Proof.
  induction l as [|s r IH]; cbn [take_chrom]; [apply incl_refl|].
  destruct (chrom s =? c); [|apply incl_nil_l].
  intros x [->|Hx]; [left; reflexivity|right; apply IH, Hx].
Qed.

Lemma skipn_incl {A} n (l : list A) : incl (skipn n l) l.
Proof.
  revert l. induction n as [|n IH]; intros l; [apply incl_refl|].
  destruct l as [|x r]; [apply incl_refl|]. cbn [skipn]. intros y Hy. right. apply IH, Hy.
Qed.

Lemma segs_of_incl c hap : incl (segs_of c hap) hap.
Proof. unfold segs_of. intros x Hx. eapply skipn_incl, take_chrom_incl, Hx. Qed.

Definition narrow_labels (hap : list seg) : Prop := forall s, In s hap -> pop s <= 255.

Lemma hap_chrom_w_eq norep npop d hap c cv st :
  narrow_labels hap -> hap_chrom_w norep npop d hap c cv st = hap_chrom false norep npop d hap c cv st.
Proof.
  intros N. unfold hap_chrom_w.
  replace (existsb wide_label (segs_of c hap)) with false; [reflexivity|].
  symmetry. apply not_true_is_false. intros E. apply existsb_exists in E. destruct E as [s [Hs W]].
  unfold wide_label in W. apply Z.ltb_lt in W. specialize (N s (segs_of_incl c hap s Hs)). lia.
Qed.

Lemma hap_loop_w_eq norep npop d cur_chr ov hap : narrow_labels hap -> forall chroms arr st,
  hap_loop_w norep npop d cur_chr ov hap chroms arr st = hap_loop false norep npop d cur_chr ov hap chroms arr st.
Proof.
  intros N. induction chroms as [|c cs IH]; intros arr st; cbn [hap_loop_w hap_loop]; [reflexivity|].
  rewrite hap_chrom_w_eq by exact N.
  destruct (hap_chrom false norep npop d hap c (cvars_of cur_chr c ov) st) as [[ws st']|e]; cbn [bind]; [apply IH|reflexivity].
Qed.

Lemma haps_loop_w_eq norep npop d cur_chr ov chroms : forall bps st,
  (forall hap, In hap bps -> narrow_labels hap) ->
  haps_loop_w norep npop d cur_chr ov chroms bps st = haps_loop false norep npop d cur_chr ov chroms bps st.
Proof.
  induction bps as [|hap r IH]; intros st N; cbn [haps_loop_w haps_loop]; [reflexivity|].
  unfold output_hap. rewrite hap_loop_w_eq by (apply N; left; reflexivity).
  destruct (hap_loop false norep npop d cur_chr ov hap chroms (repeat None (length ov)) st) as [[arr st']|e];
    cbn [bind]; [|reflexivity].
  rewrite IH by (intros h Hh; apply N; right; exact Hh). reflexivity.
Qed.

(* with at most 255 source populations in use (labels 0..255) the model of the norep relation IS C03's model *)
Lemma output_vcf_w_eq c :
  (forall hap, In hap (g_bps c) -> forall s, In s hap -> pop s <= 255) -> output_vcf_w c = output_vcf c.
Proof.
  intros N. unfold output_vcf_w, output_vcf.
  destruct (negb (lenZ (g_tab c) =? g_npop c - 1)); [reflexivity|].
  destruct (read_vars (g_region c) (g_vars c)) as [|[i v0] rd]; [reflexivity|].
  rewrite haps_loop_w_eq by exact N. reflexivity.
Qed.

(* ... and a label beyond 255 on the first chromosome converted stops the call (numpy's OverflowError)
   unless drawing the chromosome's blocks already failed; nothing is written *)
Example overflow_example :
  let hap := [mkseg 256 1 2147483647 0] in
  hap_chrom_w true 300 [[(0, 1)]] hap 1 [] (mkds [(256, [0])] [[]; []] [] [] [[0]]) = Err E_Overflow /\
  hap_chrom_w true 300 [[(0, 1)]] hap 1 [] (mkds [(256, [])] [[]; []] [] [] []) = Err E_Exception.
Proof. vm_compute. split; reflexivity. Qed.
