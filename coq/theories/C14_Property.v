(* C14 - property theorems only. *)
From HV Require Import Prelude Tracts C01_Model C14_Model C14_Check C14_Proofs.

(* used_disjoint: _find_coord keeps a reference haplotype's registered intervals pairwise disjoint *)
Theorem C14_find_coord_inv :
  forall cur c a b, Inv cur -> Inv (snd (find_coord cur c a b)).
Proof. exact find_coord_inv. Qed.
Print Assumptions C14_find_coord_inv.

(* ... so does _find_random_sample, for the whole table *)
Theorem C14_find_random_sample_inv :
  forall samples hu c a b, InvAll hu -> InvAll (snd (find_random_sample samples hu c a b)).
Proof. exact frs_inv. Qed.
Print Assumptions C14_find_random_sample_inv.

(* ... hence after any history of calls starting from the empty table
   (all breakpoint sets, panels and shuffles) *)
Theorem C14_used_disjoint :
  forall n calls, InvAll (run_calls (init_used n) calls).
Proof. exact used_disjoint. Qed.
Print Assumptions C14_used_disjoint.

(* what the invariant says: no position of a chromosome is registered twice on one reference haplotype *)
Theorem C14_no_position_twice :
  forall hu, InvAll hu ->
  forall cur, In cur hu -> forall i j x y, i <> j ->
  nth_error cur i = Some x -> nth_error cur j = Some y ->
  chrom_of x = chrom_of y -> forall p, ~ (in_ival p x /\ in_ival p y).
Proof. exact no_position_twice. Qed.
Print Assumptions C14_no_position_twice.

(* a successful call: sample from the given list, the haplotype was free on [a,b], exactly (c,a,b) registered *)
Theorem C14_find_random_sample_ok :
  forall samples hu c a b s h hu',
  find_random_sample samples hu c a b = (Ok (s, h), hu') ->
  In s samples /\ (h = 0 \/ h = 1) /\
  exists cur, nthZ hu (2 * s + h) = Some cur /\
    (forall x, In x cur -> disjoint x (c, a, b)) /\
    hu' = set_nth hu (Z.to_nat (2 * s + h)) (cur ++ [(c, a, b)]).
Proof. exact frs_ok_spec. Qed.
Print Assumptions C14_find_random_sample_ok.

(* exhaustion_errors: no free reference haplotype => Exception, nothing registered, never a reuse *)
Theorem C14_exhaustion_errors :
  forall samples (hu : list used) c a b,
  (forall s, In s samples -> 0 <= s /\ forall h, h = 0 \/ h = 1 ->
     exists cur : used, nthZ hu (2 * s + h) = Some cur /\ existsb (overlaps false c a b) cur = true) ->
  find_random_sample samples hu c a b = (Err E_Exception, hu).
Proof. exact exhaustion_errors. Qed.
Print Assumptions C14_exhaustion_errors.

Theorem C14_error_registers_nothing :
  forall samples hu c a b k hu',
  find_random_sample samples hu c a b = (Err k, hu') -> hu' = hu.
Proof. exact frs_err_unchanged. Qed.
Print Assumptions C14_error_registers_nothing.

(* the repaired test refuses exactly when a position would be handed out twice *)
Theorem C14_overlap_test_exact :
  forall c a b c' s' e', s' <= e' -> a <= b ->
  (overlaps false c a b (c', s', e') = true <->
   c = c' /\ exists p, s' <= p <= e' /\ a <= p <= b).
Proof. exact overlap_test_exact. Qed.
Print Assumptions C14_overlap_test_exact.

(* the no-replacement branch of _convert_haplotype preserves the invariant *)
Theorem C14_convert_haplotype_inv :
  forall npop segs c start t hu shuf bl t' hu' shuf',
  InvAll hu ->
  conv_norep false npop segs c start t hu shuf = Ok (bl, t', hu', shuf') -> InvAll hu'.
Proof. exact conv_norep_inv. Qed.
Print Assumptions C14_convert_haplotype_inv.

(* soundness of the boolean checker evaluated on the implementation's answers *)
Theorem C14_holds_kernel_sound :
  forall k, holds_kernel k = true ->
  ForallOrdPairs (fun x y : Z * ival =>
      fst x = fst y -> chrom_of (snd x) = chrom_of (snd y) ->
      forall p, ~ (in_ival p (snd x) /\ in_ival p (snd y)))
    (flat_map accepted (k_ops k)).
Proof. exact holds_kernel_sound. Qed.
Print Assumptions C14_holds_kernel_sound.

(* the pinned overlap test violated the invariant (nested, shared end point) *)
Theorem C14_legacy_nested_refuted :
  find_coord_legacy [(1, 0, 100)] 1 40 60 = (false, [(1, 0, 100); (1, 40, 60)]) /\
  find_coord [(1, 0, 100)] 1 40 60 = (true, [(1, 0, 100)]).
Proof. exact legacy_nested_refuted. Qed.
Print Assumptions C14_legacy_nested_refuted.

Theorem C14_legacy_abutting_refuted :
  find_coord_legacy [(1, 0, 100)] 1 100 120 = (false, [(1, 0, 100); (1, 100, 120)]) /\
  find_coord [(1, 0, 100)] 1 100 120 = (true, [(1, 0, 100)]).
Proof. exact legacy_abutting_refuted. Qed.
Print Assumptions C14_legacy_abutting_refuted.

Theorem C14_legacy_not_inv : ~ Inv (snd (find_coord_legacy [(1, 0, 100)] 1 40 60)).
Proof. exact legacy_not_inv. Qed.
Print Assumptions C14_legacy_not_inv.

(* hypotheses satisfiable *)
Theorem C14_exhaustion_example :
  find_random_sample [0] [[(1, 0, 100)]; [(1, 50, 60)]] 1 55 70 = (Err E_Exception, [[(1, 0, 100)]; [(1, 50, 60)]]) /\
  find_random_sample [0] [[(1, 0, 100)]; [(1, 50, 60)]] 1 61 70 = (Ok (0, 1), [[(1, 0, 100)]; [(1, 50, 60); (1, 61, 70)]]).
Proof. exact exhaustion_example. Qed.
Print Assumptions C14_exhaustion_example.

(* soundness of the output-level checker (relation norep) and of the validation checker (relation params) *)
From HV Require Import C03_Model C03_Check C14_CheckVcf C14_ProofsVcf.

Theorem C14_holds_norep_sound :
  forall k out,
  holds_norep k = true -> o_obs k = Ok out -> g_norep (o_cfg k) = true ->
  forall j v, nth_error (o_vars out) j = Some v ->
  identifiable (g_data (o_cfg k)) v = true ->
  NoDup (column out j).
Proof. exact holds_norep_sound. Qed.
Print Assumptions C14_holds_norep_sound.

Theorem C14_check_params_sound :
  forall k, snd (check_params k) = true -> p_norep k = true ->
  (exists n, In n (p_counts k) /\ n < p_nsamples k) -> p_raised k = true.
Proof. exact check_params_sound. Qed.
Print Assumptions C14_check_params_sound.
