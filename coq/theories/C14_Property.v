(* C14 - property theorems only. *)
From HV Require Import Prelude Tracts C01_Model C14_Model C14_Check C14_Proofs.

(* used_disjoint: _find_coord keeps a reference haplotype's registered intervals pairwise disjoint *)
Theorem C14_find_coord_inv :
  forall cur c a b, Inv cur -> Inv (snd (find_coord cur c a b)).
Proof. exact find_coord_inv. Qed.
Print Assumptions C14_find_coord_inv.

(* ... so does _find_random_sample, for the whole table *)
Theorem C14_find_random_sample_inv :
  forall samples hu c a b, InvAll hu -> InvAll (snd (find_random_sample samples hu c a b)).
Proof. exact frs_inv. Qed.
Print Assumptions C14_find_random_sample_inv.

(* ... hence after any history of calls starting from the empty table
   (all breakpoint sets, panels and shuffles) *)
Theorem C14_used_disjoint :
  forall n calls, InvAll (run_calls (init_used n) calls).
Proof. exact used_disjoint. Qed.
Print Assumptions C14_used_disjoint.

(* what the invariant says: no position of a chromosome is registered twice on one reference haplotype *)
Theorem C14_no_position_twice :
  forall hu, InvAll hu ->
  forall cur, In cur hu -> forall i j x y, i <> j ->
  nth_error cur i = Some x -> nth_error cur j = Some y ->
  chrom_of x = chrom_of y -> forall p, ~ (in_ival p x /\ in_ival p y).
Proof. exact no_position_twice. Qed.
Print Assumptions C14_no_position_twice.

(* a successful call: sample from the given list, the haplotype was free on [a,b], exactly (c,a,b) registered *)
Theorem C14_find_random_sample_ok :
  forall samples hu c a b s h hu',
  find_random_sample samples hu c a b = (Ok (s, h), hu') ->
  In s samples /\ (h = 0 \/ h = 1) /\
  exists cur, nthZ hu (2 * s + h) = Some cur /\
    (forall x, In x cur -> disjoint x (c, a, b)) /\
    hu' = set_nth hu (Z.to_nat (2 * s + h)) (cur ++ [(c, a, b)]).
Proof. exact frs_ok_spec. Qed.
Print Assumptions C14_find_random_sample_ok.

(* exhaustion_errors: no free reference haplotype => Exception, nothing registered, never a reuse *)
Theorem C14_exhaustion_errors :
  forall samples (hu : list used) c a b,
  (forall s, In s samples -> 0 <= s /\ forall h, h = 0 \/ h = 1 ->
     exists cur : used, nthZ hu (2 * s + h) = Some cur /\ existsb (overlaps false c a b) cur = true) ->
  find_random_sample samples hu c a b = (Err E_Exception, hu).
Proof. exact exhaustion_errors. Qed.
Print Assumptions C14_exhaustion_errors.

Theorem C14_error_registers_nothing :
  forall samples hu c a b k hu',
  find_random_sample samples hu c a b = (Err k, hu') -> hu' = hu.
Proof. exact frs_err_unchanged. Qed.
Print Assumptions C14_error_registers_nothing.

(* the repaired test refuses exactly when a position would be handed out twice *)
Theorem C14_overlap_test_exact :
  forall c a b c' s' e', s' <= e' -> a <= b ->
  (overlaps false c a b (c', s', e') = true <->
   c = c' /\ exists p, s' <= p <= e' /\ a <= p <= b).
Proof. exact overlap_test_exact. Qed.
Print Assumptions C14_overlap_test_exact.

(* the no-replacement branch of _convert_haplotype preserves the invariant *)
Theorem C14_convert_haplotype_inv :
  forall npop segs c start t hu shuf bl t' hu' shuf',
  InvAll hu ->
  conv_norep false npop segs c start t hu shuf = Ok (bl, t', hu', shuf') -> InvAll hu'.
Proof. exact conv_norep_inv. Qed.
Print Assumptions C14_convert_haplotype_inv.

(* soundness of the boolean checker evaluated on the implementation's answers *)
Theorem C14_holds_kernel_sound :
  forall k, holds_kernel k = true ->
  ForallOrdPairs (fun x y : Z * ival =>
      fst x = fst y -> chrom_of (snd x) = chrom_of (snd y) ->
      forall p, ~ (in_ival p (snd x) /\ in_ival p (snd y)))
    (flat_map accepted (k_ops k)).
Proof. exact holds_kernel_sound. Qed.
Print Assumptions C14_holds_kernel_sound.

(* the pinned overlap test violated the invariant (nested, shared end point) *)
Theorem C14_legacy_nested_refuted :
  find_coord_legacy [(1, 0, 100)] 1 40 60 = (false, [(1, 0, 100); (1, 40, 60)]) /\
  find_coord [(1, 0, 100)] 1 40 60 = (true, [(1, 0, 100)]).
Proof. exact legacy_nested_refuted. Qed.
Print Assumptions C14_legacy_nested_refuted.

Theorem C14_legacy_abutting_refuted :
  find_coord_legacy [(1, 0, 100)] 1 100 120 = (false, [(1, 0, 100); (1, 100, 120)]) /\
  find_coord [(1, 0, 100)] 1 100 120 = (true, [(1, 0, 100)]).
Proof. exact legacy_abutting_refuted. Qed.
Print Assumptions C14_legacy_abutting_refuted.

Theorem C14_legacy_not_inv : ~ Inv (snd (find_coord_legacy [(1, 0, 100)] 1 40 60)).
Proof. exact legacy_not_inv. Qed.
Print Assumptions C14_legacy_not_inv.

(* hypotheses satisfiable *)
Theorem C14_exhaustion_example :
  find_random_sample [0] [[(1, 0, 100)]; [(1, 50, 60)]] 1 55 70 = (Err E_Exception, [[(1, 0, 100)]; [(1, 50, 60)]]) /\
  find_random_sample [0] [[(1, 0, 100)]; [(1, 50, 60)]] 1 61 70 = (Ok (0, 1), [[(1, 0, 100)]; [(1, 50, 60); (1, 61, 70)]]).
Proof. exact exhaustion_example. Qed.
Print Assumptions C14_exhaustion_example.

(* soundness of the output-level checker (relation norep) and of the validation checker (relation params) *)
From HV Require Import C03_Model C03_Check C14_CheckVcf C14_ProofsVcf.

Theorem C14_holds_norep_sound :
  forall k out,
  holds_norep k = true -> o_obs k = Ok out -> g_norep (o_cfg k) = true ->
  forall j v, nth_error (o_vars out) j = Some v ->
  identifiable (g_data (o_cfg k)) v = true ->
  NoDup (column out j).
Proof. exact holds_norep_sound. Qed.
Print Assumptions C14_holds_norep_sound.

(* ---- parameter validation: "rejects panels with fewer samples per population than simulated samples".
   Labels are compared by EQUALITY (count_label p info = number of sample-info lines whose label is exactly p);
   all statements are for all header label lists, all sample-info tables, all n. *)

(* a line counts for population p iff its label is p *)
Theorem C14_params_count_is_exact_label :
  forall p r info, count_label p (r :: info) = (if snd r =? p then 1 else 0) + count_label p info.
Proof. exact count_label_cons. Qed.
Print Assumptions C14_params_count_is_exact_label.

(* with --no_replacement: some source population short of lines => rejected (no precondition) *)
Theorem C14_params_insufficient_rejected :
  forall n pops info,
  (exists p, In p (tl pops) /\ count_label p info < n) ->
  fst (validate_info true n pops info) <> V_accept.
Proof. exact insufficient_rejected. Qed.
Print Assumptions C14_params_insufficient_rejected.

(* ... and on a sample-info file whose samples are all in the panel: rejected IFF some source population is short *)
Theorem C14_params_reject_iff :
  forall n pops info,
  (forall r, In r info -> offending pops r = false) -> 1 <= n ->
  (fst (validate_info true n pops info) <> V_accept <->
   exists p, In p (tl pops) /\ count_label p info < n).
Proof. exact reject_iff. Qed.
Print Assumptions C14_params_reject_iff.

(* acceptance characterised, both modes *)
Theorem C14_params_accept_iff :
  forall norep n pops info,
  fst (validate_info norep n pops info) = V_accept <->
  (forall r, In r info -> offending pops r = false) /\
  (forall p, In p (tl pops) -> count_label p info <> 0 /\ (norep = true -> n <= count_label p info)).
Proof. exact validate_accept_iff. Qed.
Print Assumptions C14_params_accept_iff.

Theorem C14_params_replacement_accept_iff :
  forall n pops info,
  fst (validate_info false n pops info) = V_accept <->
  (forall r, In r info -> offending pops r = false) /\
  (forall p, In p (tl pops) -> exists r, In r info /\ snd r = p).
Proof. exact replacement_accept_iff. Qed.
Print Assumptions C14_params_replacement_accept_iff.

(* the not-enough-samples error names a population that is short; the absent-population error one without a line *)
Theorem C14_params_insufficient_verdict :
  forall norep n pops info p,
  validate_info norep n pops info = (V_insufficient, p) ->
  norep = true /\ In p (tl pops) /\ 0 < count_label p info < n.
Proof. exact insufficient_verdict. Qed.
Print Assumptions C14_params_insufficient_verdict.

Theorem C14_params_pop_absent_verdict :
  forall norep n pops info p,
  validate_info norep n pops info = (V_pop_absent, p) ->
  In p (tl pops) /\ forall r, In r info -> snd r <> p.
Proof. exact pop_absent_verdict. Qed.
Print Assumptions C14_params_pop_absent_verdict.

(* the order of the sample-info lines is irrelevant *)
Theorem C14_params_line_order_irrelevant :
  forall norep n pops a b,
  Permutation.Permutation a b -> fst (validate_info norep n pops a) = fst (validate_info norep n pops b).
Proof. exact validate_perm. Qed.
Print Assumptions C14_params_line_order_irrelevant.

(* only the equality pattern of the labels matters (any injective renaming = any other set of label strings) *)
Theorem C14_params_only_label_equality_matters :
  forall f : Z -> Z, (forall x y, f x = f y -> x = y) ->
  forall norep n pops info,
  fst (validate_info norep n (map f pops) (rename_info f info)) = fst (validate_info norep n pops info).
Proof. exact validate_rename. Qed.
Print Assumptions C14_params_only_label_equality_matters.

(* counting with any matching coarser than equality (substring, prefix, case folding ...) breaks the clause *)
Theorem C14_params_coarser_match_refuted :
  forall m : Z -> Z -> bool, (forall p, m p p = true) -> m 1 2 = true ->
  let info := [(0, 1); (1, 2); (2, 2)] in
  fst (validate_info_by m true 2 [0; 1; 2] info) = V_accept /\
  count_label 1 info < 2 /\
  fst (validate_info true 2 [0; 1; 2] info) = V_insufficient.
Proof. exact coarser_match_refuted. Qed.
Print Assumptions C14_params_coarser_match_refuted.

(* hypotheses satisfiable: EUR(1) with 2 lines, EUR_S(2) with 3, an unused label (3) *)
Theorem C14_params_nested_labels_example :
  validate_info true 3 [0; 1; 2] [(0, 2); (1, 1); (2, 2); (3, 3); (4, 1); (5, 2)] = (V_insufficient, 1) /\
  validate_info true 2 [0; 1; 2] [(0, 2); (1, 1); (2, 2); (3, 3); (4, 1); (5, 2)] = (V_accept, 0) /\
  validate_info false 3 [0; 1; 2] [(0, 2); (1, 1); (2, 2); (3, 3); (4, 1); (5, 2)] = (V_accept, 0).
Proof. exact nested_labels_example. Qed.
Print Assumptions C14_params_nested_labels_example.

(* soundness of the checker evaluated on the implementation's verdict (relation params) *)
Theorem C14_holds_params_sound :
  forall k, holds_params k = true ->
  (p_norep k = true ->
   (exists p, In p (tl (p_pops k)) /\ count_label p (p_info k) < p_nsamples k) ->
   fst (p_verdict k) <> V_accept) /\
  (fst (p_verdict k) = V_insufficient ->
   p_norep k = true /\ exists p, In p (tl (p_pops k)) /\ count_label p (p_info k) < p_nsamples k).
Proof. exact holds_params_sound. Qed.
Print Assumptions C14_holds_params_sound.

(* agreement of model and implementation carries the equivalence over to the observed verdict *)
Theorem C14_params_agree_transfers :
  forall k, fst (check_params k) = true -> p_norep k = true ->
  (forall r, In r (p_info k) -> offending (p_pops k) r = false) -> 1 <= p_nsamples k ->
  (fst (p_verdict k) <> V_accept <->
   exists p, In p (tl (p_pops k)) /\ count_label p (p_info k) < p_nsamples k).
Proof. exact params_agree_transfers. Qed.
Print Assumptions C14_params_agree_transfers.

(* the command (relation cli): an insufficient panel stops it before simulate_gt runs and before any file
   is written; whatever output_vcf wrote re-uses no reference haplotype *)
Theorem C14_holds_cli_sound :
  forall k, holds_cli k = true ->
  holds_params (c_p k) = true /\
  (insufficient (c_p k) = true -> c_sim k = false /\ c_wrote k = false) /\
  (forall o, c_o k = Some o -> holds_norep o = true).
Proof. exact holds_cli_sound. Qed.
Print Assumptions C14_holds_cli_sound.
