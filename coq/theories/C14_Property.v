(* C14 - property theorems only. *)
From HV Require Import Prelude Tracts C01_Model C14_Model C14_Check C14_Proofs.

(* used_disjoint: _find_coord keeps a reference haplotype's registered intervals pairwise disjoint *)
Theorem C14_find_coord_inv :
  forall cur c a b, Inv cur -> Inv (snd (find_coord cur c a b)).
Proof. exact find_coord_inv. Qed.
Print Assumptions C14_find_coord_inv.

(* ... so does _find_random_sample, for the whole table *)
Theorem C14_find_random_sample_inv :
  forall samples hu c a b, InvAll hu -> InvAll (snd (find_random_sample samples hu c a b)).
Proof. exact frs_inv. Qed.
Print Assumptions C14_find_random_sample_inv.

(* ... hence after any history of calls starting from the empty table
   (all breakpoint sets, panels and shuffles) *)
Theorem C14_used_disjoint :
  forall n calls, InvAll (run_calls (init_used n) calls).
Proof. exact used_disjoint. Qed.
Print Assumptions C14_used_disjoint.

(* what the invariant says: no position of a chromosome is registered twice on one reference haplotype *)
Theorem C14_no_position_twice :
  forall hu, InvAll hu ->
  forall cur, In cur hu -> forall i j x y, i <> j ->
  nth_error cur i = Some x -> nth_error cur j = Some y ->
  chrom_of x = chrom_of y -> forall p, ~ (in_ival p x /\ in_ival p y).
Proof. exact no_position_twice. Qed.
Print Assumptions C14_no_position_twice.

(* a successful call: sample from the given list, the haplotype was free on [a,b], exactly (c,a,b) registered *)
Theorem C14_find_random_sample_ok :
  forall samples hu c a b s h hu',
  find_random_sample samples hu c a b = (Ok (s, h), hu') ->
  In s samples /\ (h = 0 \/ h = 1) /\
  exists cur, nthZ hu (2 * s + h) = Some cur /\
    (forall x, In x cur -> disjoint x (c, a, b)) /\
    hu' = set_nth hu (Z.to_nat (2 * s + h)) (cur ++ [(c, a, b)]).
Proof. exact frs_ok_spec. Qed.
Print Assumptions C14_find_random_sample_ok.

(* exhaustion_errors: no free reference haplotype => Exception, nothing registered, never a reuse *)
Theorem C14_exhaustion_errors :
  forall samples (hu : list used) c a b,
  (forall s, In s samples -> 0 <= s /\ forall h, h = 0 \/ h = 1 ->
     exists cur : used, nthZ hu (2 * s + h) = Some cur /\ existsb (overlaps false c a b) cur = true) ->
  find_random_sample samples hu c a b = (Err E_Exception, hu).
Proof. exact exhaustion_errors. Qed.
Print Assumptions C14_exhaustion_errors.

Theorem C14_error_registers_nothing :
  forall samples hu c a b k hu',
  find_random_sample samples hu c a b = (Err k, hu') -> hu' = hu.
Proof. exact frs_err_unchanged. Qed.
Print Assumptions C14_error_registers_nothing.

(* the repaired test refuses exactly when a position would be handed out twice *)
Theorem C14_overlap_test_exact :
  forall c a b c' s' e', s' <= e' -> a <= b ->
  (overlaps false c a b (c', s', e') = true <->
   c = c' /\ exists p, s' <= p <= e' /\ a <= p <= b).
Proof. exact overlap_test_exact. Qed.
Print Assumptions C14_overlap_test_exact.

(* the no-replacement branch of _convert_haplotype preserves the invariant *)
Theorem C14_convert_haplotype_inv :
  forall npop segs c start t hu shuf bl t' hu' shuf',
  InvAll hu ->
  conv_norep false npop segs c start t hu shuf = Ok (bl, t', hu', shuf') -> InvAll hu'.
Proof. exact conv_norep_inv. Qed.
Print Assumptions C14_convert_haplotype_inv.

(* soundness of the boolean checker evaluated on the implementation's answers *)
Theorem C14_holds_kernel_sound :
  forall k, holds_kernel k = true ->
  ForallOrdPairs (fun x y : Z * ival =>
      fst x = fst y -> chrom_of (snd x) = chrom_of (snd y) ->
      forall p, ~ (in_ival p (snd x) /\ in_ival p (snd y)))
    (flat_map accepted (k_ops k)).
Proof. exact holds_kernel_sound. Qed.
Print Assumptions C14_holds_kernel_sound.

(* the pinned overlap test violated the invariant (nested, shared end point) *)
Theorem C14_legacy_nested_refuted :
  find_coord_legacy [(1, 0, 100)] 1 40 60 = (false, [(1, 0, 100); (1, 40, 60)]) /\
  find_coord [(1, 0, 100)] 1 40 60 = (true, [(1, 0, 100)]).
Proof. exact legacy_nested_refuted. Qed.
Print Assumptions C14_legacy_nested_refuted.

Theorem C14_legacy_abutting_refuted :
  find_coord_legacy [(1, 0, 100)] 1 100 120 = (false, [(1, 0, 100); (1, 100, 120)]) /\
  find_coord [(1, 0, 100)] 1 100 120 = (true, [(1, 0, 100)]).
Proof. exact legacy_abutting_refuted. Qed.
Print Assumptions C14_legacy_abutting_refuted.

Theorem C14_legacy_not_inv : ~ Inv (snd (find_coord_legacy [(1, 0, 100)] 1 40 60)).
Proof. exact legacy_not_inv. Qed.
Print Assumptions C14_legacy_not_inv.

(* hypotheses satisfiable *)
Theorem C14_exhaustion_example :
  find_random_sample [0] [[(1, 0, 100)]; [(1, 50, 60)]] 1 55 70 = (Err E_Exception, [[(1, 0, 100)]; [(1, 50, 60)]]) /\
  find_random_sample [0] [[(1, 0, 100)]; [(1, 50, 60)]] 1 61 70 = (Ok (0, 1), [[(1, 0, 100)]; [(1, 50, 60); (1, 61, 70)]]).
Proof. exact exhaustion_example. Qed.
Print Assumptions C14_exhaustion_example.

(* soundness of the output-level checker (relation norep) and of the validation checker (relation params) *)
From HV Require Import C03_Model C03_Check C14_CheckVcf C14_ProofsVcf.

Theorem C14_holds_norep_sound :
  forall k out,
  holds_norep k = true -> o_obs k = Ok out -> g_norep (o_cfg k) = true ->
  forall j v, nth_error (o_vars out) j = Some v ->
  identifiable (g_data (o_cfg k)) v = true ->
  NoDup (column out j).
Proof. exact holds_norep_sound. Qed.
Print Assumptions C14_holds_norep_sound.

(* ---- parameter validation: "rejects panels with fewer samples per population than simulated samples".
   Labels are compared by EQUALITY (count_label p info = number of sample-info lines whose label is exactly p);
   all statements are for all header label lists, all sample-info tables, all n. *)

(* a line counts for population p iff its label is p *)
Theorem C14_params_count_is_exact_label :
  forall p r info, count_label p (r :: info) = (if snd r =? p then 1 else 0) + count_label p info.
Proof. exact count_label_cons. Qed.
Print Assumptions C14_params_count_is_exact_label.

(* with --no_replacement: some source population short of lines => rejected (no precondition) *)
Theorem C14_params_insufficient_rejected :
  forall n pops info,
  (exists p, In p (tl pops) /\ count_label p info < n) ->
  fst (validate_info true n pops info) <> V_accept.
Proof. exact insufficient_rejected. Qed.
Print Assumptions C14_params_insufficient_rejected.

(* ... and on a sample-info file whose samples are all in the panel: rejected IFF some source population is short *)
Theorem C14_params_reject_iff :
  forall n pops info,
  (forall r, In r info -> offending pops r = false) -> 1 <= n ->
  (fst (validate_info true n pops info) <> V_accept <->
   exists p, In p (tl pops) /\ count_label p info < n).
Proof. exact reject_iff. Qed.
Print Assumptions C14_params_reject_iff.

(* acceptance characterised, both modes *)
Theorem C14_params_accept_iff :
  forall norep n pops info,
  fst (validate_info norep n pops info) = V_accept <->
  (forall r, In r info -> offending pops r = false) /\
  (forall p, In p (tl pops) -> count_label p info <> 0 /\ (norep = true -> n <= count_label p info)).
Proof. exact validate_accept_iff. Qed.
Print Assumptions C14_params_accept_iff.

Theorem C14_params_replacement_accept_iff :
  forall n pops info,
  fst (validate_info false n pops info) = V_accept <->
  (forall r, In r info -> offending pops r = false) /\
  (forall p, In p (tl pops) -> exists r, In r info /\ snd r = p).
Proof. exact replacement_accept_iff. Qed.
Print Assumptions C14_params_replacement_accept_iff.

(* the not-enough-samples error names a population that is short; the absent-population error one without a line *)
Theorem C14_params_insufficient_verdict :
  forall norep n pops info p,
  validate_info norep n pops info = (V_insufficient, p) ->
  norep = true /\ In p (tl pops) /\ 0 < count_label p info < n.
Proof. exact insufficient_verdict. Qed.
Print Assumptions C14_params_insufficient_verdict.

Theorem C14_params_pop_absent_verdict :
  forall norep n pops info p,
  validate_info norep n pops info = (V_pop_absent, p) ->
  In p (tl pops) /\ forall r, In r info -> snd r <> p.
Proof. exact pop_absent_verdict. Qed.
Print Assumptions C14_params_pop_absent_verdict.

(* the order of the sample-info lines is irrelevant *)
Theorem C14_params_line_order_irrelevant :
  forall norep n pops a b,
  Permutation.Permutation a b -> fst (validate_info norep n pops a) = fst (validate_info norep n pops b).
Proof. exact validate_perm. Qed.
Print Assumptions C14_params_line_order_irrelevant.

(* only the equality pattern of the labels matters (any injective renaming = any other set of label strings) *)
Theorem C14_params_only_label_equality_matters :
  forall f : Z -> Z, (forall x y, f x = f y -> x = y) ->
  forall norep n pops info,
  fst (validate_info norep n (map f pops) (rename_info f info)) = fst (validate_info norep n pops info).
Proof. exact validate_rename. Qed.
Print Assumptions C14_params_only_label_equality_matters.

(* counting with any matching coarser than equality (substring, prefix, case folding ...) breaks the clause *)
Theorem C14_params_coarser_match_refuted :
  forall m : Z -> Z -> bool, (forall p, m p p = true) -> m 1 2 = true ->
  let info := [(0, 1); (1, 2); (2, 2)] in
  fst (validate_info_by m true 2 [0; 1; 2] info) = V_accept /\
  count_label 1 info < 2 /\
  fst (validate_info true 2 [0; 1; 2] info) = V_insufficient.
Proof. exact coarser_match_refuted. Qed.
Print Assumptions C14_params_coarser_match_refuted.

(* hypotheses satisfiable: EUR(1) with 2 lines, EUR_S(2) with 3, an unused label (3) *)
Theorem C14_params_nested_labels_example :
  validate_info true 3 [0; 1; 2] [(0, 2); (1, 1); (2, 2); (3, 3); (4, 1); (5, 2)] = (V_insufficient, 1) /\
  validate_info true 2 [0; 1; 2] [(0, 2); (1, 1); (2, 2); (3, 3); (4, 1); (5, 2)] = (V_accept, 0) /\
  validate_info false 3 [0; 1; 2] [(0, 2); (1, 1); (2, 2); (3, 3); (4, 1); (5, 2)] = (V_accept, 0).
Proof. exact nested_labels_example. Qed.
Print Assumptions C14_params_nested_labels_example.

(* soundness of the checker evaluated on the implementation's verdict (relation params) *)
Theorem C14_holds_params_sound :
  forall k, holds_params k = true ->
  (p_norep k = true ->
   (exists p, In p (tl (p_pops k)) /\ count_label p (p_info k) < p_nsamples k) ->
   fst (p_verdict k) <> V_accept) /\
  (fst (p_verdict k) = V_insufficient ->
   p_norep k = true /\ exists p, In p (tl (p_pops k)) /\ count_label p (p_info k) < p_nsamples k).
Proof. exact holds_params_sound. Qed.
Print Assumptions C14_holds_params_sound.

(* agreement of model and implementation carries the equivalence over to the observed verdict *)
Theorem C14_params_agree_transfers :
  forall k, fst (check_params k) = true -> p_norep k = true ->
  (forall r, In r (p_info k) -> offending (p_pops k) r = false) -> 1 <= p_nsamples k ->
  (fst (p_verdict k) <> V_accept <->
   exists p, In p (tl (p_pops k)) /\ count_label p (p_info k) < p_nsamples k).
Proof. exact params_agree_transfers. Qed.
Print Assumptions C14_params_agree_transfers.

(* the command (relation cli): an insufficient panel stops it before simulate_gt runs and before any file
   is written; whatever output_vcf wrote re-uses no reference haplotype *)
Theorem C14_holds_cli_sound :
  forall k, holds_cli k = true ->
  holds_params (c_p k) = true /\
  (insufficient (c_p k) = true -> c_sim k = false /\ c_wrote k = false) /\
  (forall o, c_o k = Some o -> holds_norep o = true /\ holds_norep_smp o = true).
Proof. exact holds_cli_sound. Qed.
Print Assumptions C14_holds_cli_sound.

(* ---- provenance named by the SAMPLE field: decides wide panels (no panel-wide uniqueness of alleles needed) *)
Theorem C14_holds_norep_smp_sound :
  forall k out sm,
  holds_norep_smp k = true -> o_obs k = Ok out -> g_norep (o_cfg k) = true -> o_smp out = Some sm ->
  forall j v, nth_error (o_vars out) j = Some v ->
  forall h h', (h < h' < length (o_gt out))%nat ->
  forall r a row a0 a1,
    cellz (o_gt out) h j = Some a -> cellz (o_gt out) h' j = Some a ->
    cellz sm h j = Some r -> cellz sm h' j = Some r ->
    nthZ (g_data (o_cfg k)) r = Some row -> nthZ row v = Some (a0, a1) -> a0 <> a1 -> (a = a0 \/ a = a1) ->
    False.
Proof. exact holds_norep_smp_sound. Qed.
Print Assumptions C14_holds_norep_smp_sound.

(* the norep relation's checker is the conjunction of both readings *)
Theorem C14_holds_norep_all_sound :
  forall k, holds_norep_all k = true -> holds_norep k = true /\ holds_norep_smp k = true.
Proof. exact holds_norep_all_sound. Qed.
Print Assumptions C14_holds_norep_all_sound.

(* the norep relation's model (C03's model + numpy's uint8 range check of population labels) IS C03's model
   whenever no tract carries a label beyond 255 *)
Theorem C14_model_norep_is_C03_below_256 :
  forall c, (forall hap, In hap (g_bps c) -> forall s, In s hap -> pop s <= 255) -> output_vcf_w c = output_vcf c.
Proof. exact output_vcf_w_eq. Qed.
Print Assumptions C14_model_norep_is_C03_below_256.

Theorem C14_label_overflow_example :
  let hap := [mkseg 256 1 2147483647 0] in
  hap_chrom_w true 300 [[(0, 1)]] hap 1 [] (mkds [(256, [0])] [[]; []] [] [] [[0]]) = Err E_Overflow /\
  hap_chrom_w true 300 [[(0, 1)]] hap 1 [] (mkds [(256, [])] [[]; []] [] [] []) = Err E_Exception.
Proof. exact overflow_example. Qed.
Print Assumptions C14_label_overflow_example.

(* ---- the whole run of output_vcf's _convert_haplotype calls; population tables that share samples -------- *)
From HV Require Import C14_Run.

(* the invariant of the table holds after ANY sequence of conversions (every simulated haplotype x every
   chromosome), for ANY population table: nothing is assumed about t - the lists of different labels may
   share reference samples (overlapping populations), list a sample twice, and are permuted by the shuffles *)
Theorem C14_run_keeps_disjoint_any_table :
  forall npop reqs t hu shuf bls t' hu' shuf',
  InvAll hu -> conv_seq npop reqs t hu shuf = Ok (bls, t', hu', shuf') -> InvAll hu'.
Proof. exact conv_seq_inv. Qed.
Print Assumptions C14_run_keeps_disjoint_any_table.

(* spelled out for one call on a table in which two labels list a common sample *)
Theorem C14_convert_haplotype_inv_shared :
  forall npop segs c start t hu shuf bl t' hu' shuf' l l',
  shares_sample t l l' -> InvAll hu ->
  conv_norep false npop segs c start t hu shuf = Ok (bl, t', hu', shuf') -> InvAll hu'.
Proof. exact conv_norep_inv_shared. Qed.
Print Assumptions C14_convert_haplotype_inv_shared.

(* from the empty table: what the run's blocks say was copied - (reference haplotype, chromosome, first, last
   position) per block - is pairwise position-disjoint per reference haplotype, all of it is in the final table,
   and the final table satisfies the invariant *)
Theorem C14_run_no_reuse :
  forall npop reqs t n shuf bls t' hu' shuf',
  conv_seq npop reqs t (init_used n) shuf = Ok (bls, t', hu', shuf') ->
  NoShare (all_regs reqs bls) /\ Covers hu' (all_regs reqs bls) /\ InvAll hu'.
Proof. exact run_no_reuse. Qed.
Print Assumptions C14_run_no_reuse.

Theorem C14_run_no_position_twice :
  forall npop reqs t n shuf bls t' hu' shuf',
  conv_seq npop reqs t (init_used n) shuf = Ok (bls, t', hu', shuf') ->
  forall i j h c a b h' c' a' b', i <> j ->
  nth_error (all_regs reqs bls) i = Some (h, (c, a, b)) ->
  nth_error (all_regs reqs bls) j = Some (h', (c', a', b')) ->
  h = h' -> c = c' -> forall p, ~ (a <= p <= b /\ a' <= p <= b').
Proof. exact run_no_position_twice. Qed.
Print Assumptions C14_run_no_position_twice.

(* hypotheses satisfiable, and the sharing matters: labels 1 and 2 both list sample 0 only; the block of label 2
   gets strand 1 because strand 0 went to the block of label 1; a third request is refused *)
Theorem C14_shared_sample_example :
  let t := [(1, [0]); (2, [0])] in
  shares_sample t 1 2 /\
  conv_seq 3 [mkreq [mkseg 1 1 100 0] 1; mkreq [mkseg 2 1 100 0] 1] t (init_used 2) [[0]; [0]]
    = Ok ([[mkb 100 1 0 0]; [mkb 100 2 0 1]], t, [[(1, 0, 100)]; [(1, 0, 100)]], []) /\
  conv_seq 3 [mkreq [mkseg 1 1 100 0] 1; mkreq [mkseg 2 1 100 0] 1; mkreq [mkseg 1 1 50 0] 1] t (init_used 2)
    [[0]; [0]; [0]] = Err E_Exception.
Proof. exact shared_sample_example. Qed.
Print Assumptions C14_shared_sample_example.

(* a conversion whose first tract finds every haplotype of the listed samples occupied raises Exception,
   for any table (shared or not) *)
Theorem C14_convert_exhausted_errors :
  forall npop s r c start t hu perm shuf lst,
  (pop s <? 0) || (npop <=? pop s) = false ->
  pt_get t (pop s) = Some lst -> lst <> [] ->
  (forall x, In x perm -> 0 <= x /\ forall h, h = 0 \/ h = 1 ->
     exists cur : used, nthZ hu (2 * x + h) = Some cur /\ existsb (overlaps false c start (endc s)) cur = true) ->
  conv_norep false npop (s :: r) c start t hu (perm :: shuf) = Err E_Exception.
Proof. exact conv_norep_exhausted. Qed.
Print Assumptions C14_convert_exhausted_errors.

(* ---- the property at the level of output_vcf's output (model) ------------------------------------------ *)
From HV Require Import C03_Proofs C03_ProofsE2E C14_RunVcf.

(* output_vcf(no_replacement=True) completes only if the run of its conversions from the empty table does;
   that run re-uses nothing *)
Theorem C14_output_vcf_is_a_run :
  forall (g : config) (out : output),
  output_vcf g = Ok out -> g_norep g = true -> NoDup (g_chroms g) -> covered_cfg g ->
  exists bls t' hu' sh',
    conv_seq (g_npop g) (run_reqs (g_chroms g) (g_bps g)) (g_tab g) (init_used (2 * g_nref g)) (g_shuf g)
      = Ok (bls, t', hu', sh') /\
    NoShare (all_regs (run_reqs (g_chroms g) (g_bps g)) bls) /\ InvAll hu'.
Proof. exact output_vcf_is_a_run. Qed.
Print Assumptions C14_output_vcf_is_a_run.

(* no_position_twice at output level: two simulated haplotypes never take a written record's allele from the
   same reference haplotype - for every sample-info table (populations may share samples), all breakpoints
   covering the variants read, all shuffles *)
Theorem C14_output_no_reuse :
  forall (g : config) (out : output),
  output_vcf g = Ok out -> g_norep g = true -> NoDup (g_chroms g) -> covered_cfg g ->
  forall h h' hap hap', (h < h')%nat ->
  nth_error (g_bps g) h = Some hap -> nth_error (g_bps g) h' = Some hap' ->
  forall c, In c (g_chroms g) ->
  forall i oidx v, nth_error (ov_of g) i = Some (oidx, v) -> on_chrom (cur_chr_of g) c v = true -> 0 <= rv_pos v ->
  exists r u r' u' a a',
    2 * r + u <> 2 * r' + u' /\ (u = 0 \/ u = 1) /\ (u' = 0 \/ u' = 1) /\
    lookup (g_data g) r oidx u = Some a /\ lookup (g_data g) r' oidx u' = Some a' /\
    cell_at (o_gt out) h i = Some (Some a) /\ cell_at (o_gt out) h' i = Some (Some a') /\
    (forall m, o_smp out = Some m -> cell_at m h i = Some (Some r) /\ cell_at m h' i = Some (Some r')).
Proof. exact output_no_reuse. Qed.
Print Assumptions C14_output_no_reuse.

(* ... so over a variant that identifies the reference haplotypes the two alleles differ: the model satisfies
   the clause the norep / cli relations evaluate on the implementation's output *)
Theorem C14_output_alleles_differ :
  forall (g : config) (out : output),
  output_vcf g = Ok out -> g_norep g = true -> NoDup (g_chroms g) -> covered_cfg g ->
  forall h h' hap hap', (h < h')%nat ->
  nth_error (g_bps g) h = Some hap -> nth_error (g_bps g) h' = Some hap' ->
  forall c, In c (g_chroms g) ->
  forall i oidx v, nth_error (ov_of g) i = Some (oidx, v) -> on_chrom (cur_chr_of g) c v = true -> 0 <= rv_pos v ->
  identifiable (g_data g) oidx = true ->
  exists a a', a <> a' /\ cell_at (o_gt out) h i = Some (Some a) /\ cell_at (o_gt out) h' i = Some (Some a').
Proof. exact output_alleles_differ. Qed.
Print Assumptions C14_output_alleles_differ.

(* hypotheses satisfiable on a panel whose two populations both list reference sample 0 *)
Theorem C14_output_no_reuse_example :
  output_vcf ex_shared = Ok (mkout [0] [[Some 0]; [Some 1]] None (Some [[Some 0]; [Some 0]])) /\
  g_norep ex_shared = true /\ NoDup (g_chroms ex_shared) /\ covered_cfg ex_shared /\
  identifiable (g_data ex_shared) 0 = true.
Proof. exact output_no_reuse_example. Qed.
Print Assumptions C14_output_no_reuse_example.

(* an unsatisfiable shared panel (one sample for both populations, four haplotypes) is refused *)
Theorem C14_shared_panel_exhausted :
  output_vcf (mkcfg [1] 3 [(1, [0]); (2, [0])] [mkrv false 1 50] [[(0, 1)]; [(2, 3)]] 2 None false false true false
                    [[mkseg 1 1 2147483647 0]; [mkseg 2 1 2147483647 0]; [mkseg 1 1 2147483647 0]; [mkseg 2 1 2147483647 0]]
                    [] [] [[0]; [0]; [0]; [0]]) = Err E_Exception.
Proof. exact shared_panel_exhausted. Qed.
Print Assumptions C14_shared_panel_exhausted.
