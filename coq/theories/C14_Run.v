(* C14 - the whole --no_replacement run of output_vcf as a sequence of _convert_haplotype calls
   (every simulated haplotype x every requested chromosome) threading the population table,
   the haps_used table and the shuffles; what each call REGISTERS, and the property at the level of
   the blocks handed out: whatever the population tables look like - in particular when several
   populations list the same reference sample - no position of a reference haplotype is handed to
   two blocks (of one or of different simulated haplotypes), because the bookkeeping hangs on the
   reference haplotype (2 * sample + strand), not on the population through which it is reached.

   Definitions and proofs; no change to C14_Model / C14_Check / C14_Proofs. *)
From HV Require Import Prelude Tracts C01_Model C14_Model C14_Check C14_Proofs.

(* one _convert_haplotype(haplotype, chrom, ..) call: the tracts of the chromosome, the chromosome *)
Record creq := mkreq { q_segs : list seg; q_c : Z }.

(* the calls in the order output_vcf makes them *)
Fixpoint conv_seq (npop : Z) (reqs : list creq) (t : poptab) (hu : list used) (shuf : list (list Z))
  : res (list (list block) * poptab * list used * list (list Z)) :=
  match reqs with
  | [] => Ok ([], t, hu, shuf)
  | q :: r =>
      bind (conv_norep false npop (q_segs q) (q_c q) 0 t hu shuf)
           (fun x => let '(bl, t1, hu1, sh1) := x in
              bind (conv_seq npop r t1 hu1 sh1)
                   (fun y => let '(bls, t2, hu2, sh2) := y in Ok (bl :: bls, t2, hu2, sh2)))
  end.

(* what a call's blocks say was copied: (reference haplotype, (chromosome, first, last position)) -
   block k of a chromosome spans previous end + 1 .. its end, the first one starts at [start] *)
Fixpoint regs_of (c start : Z) (bl : list block) : list (Z * ival) :=
  match bl with
  | [] => []
  | b :: r => (2 * b_samp b + b_strand b, (c, start, b_end b)) :: regs_of c (b_end b + 1) r
  end.

Fixpoint all_regs (reqs : list creq) (bls : list (list block)) : list (Z * ival) :=
  match reqs, bls with
  | q :: r, bl :: br => regs_of (q_c q) 0 bl ++ all_regs r br
  | _, _ => []
  end.

(* no two entries of one reference haplotype share a position of a chromosome *)
Definition NoShare (R : list (Z * ival)) : Prop :=
  ForallOrdPairs (fun x y : Z * ival => fst x = fst y -> disjoint (snd x) (snd y)) R.

(* every entry of R is in the table, on its reference haplotype *)
Definition Covers (hu : list used) (R : list (Z * ival)) : Prop :=
  forall h iv, In (h, iv) R -> exists cur, nthZ hu h = Some cur /\ In iv cur.

(* ---- list lemmas ------------------------------------------------------------------------ *)

Lemma nth_error_set_nth_same {A} (l : list A) : forall n x y,
  nth_error l n = Some y -> nth_error (set_nth l n x) n = Some x.
Proof.
  induction l as [|a l IH]; intros [|n] x y H; cbn in H; try discriminate; cbn [set_nth nth_error].
  - reflexivity.
  - eapply IH; eauto.
Qed.

Lemma nth_error_set_nth_other {A} (l : list A) : forall n m x,
  n <> m -> nth_error (set_nth l n x) m = nth_error l m.
Proof.
  induction l as [|a l IH]; intros [|n] [|m] x H; cbn [set_nth nth_error]; try reflexivity; try lia.
  apply IH. lia.
Qed.

Lemma nthZ_set_same {A} (l : list A) i x y :
  nthZ l i = Some y -> nthZ (set_nth l (Z.to_nat i) x) i = Some x.
Proof.
  unfold nthZ. destruct (i <? 0); [discriminate|]. apply nth_error_set_nth_same.
Qed.

Lemma nthZ_set_other {A} (l : list A) i j x :
  0 <= i -> i <> j -> nthZ (set_nth l (Z.to_nat i) x) j = nthZ l j.
Proof.
  intros Hi Hij. unfold nthZ. destruct (j <? 0) eqn:E; [reflexivity|].
  apply Z.ltb_ge in E. apply nth_error_set_nth_other. lia.
Qed.

Lemma nthZ_nonneg {A} (l : list A) i x : nthZ l i = Some x -> 0 <= i.
Proof. unfold nthZ. destruct (i <? 0) eqn:E; [discriminate|]. intros _. apply Z.ltb_ge in E. exact E. Qed.

(* ---- one _find_random_sample call --------------------------------------------------------- *)

(* a successful call extends a covered, share-free record by its own registration *)
Lemma frs_step samples hu c a b s h hu' R :
  find_random_sample samples hu c a b = (Ok (s, h), hu') ->
  Covers hu R -> NoShare R ->
  Covers hu' (R ++ [(2 * s + h, (c, a, b))]) /\ NoShare (R ++ [(2 * s + h, (c, a, b))]).
Proof.
  intros E HC HN. apply frs_ok_spec in E. destruct E as [_ [_ [cur [Ecur [D ->]]]]].
  pose proof (nthZ_nonneg _ _ _ Ecur) as Hnn. split.
  - intros h0 iv Hin. apply in_app_or in Hin. destruct Hin as [Hin|[Hin|[]]].
    + destruct (HC h0 iv Hin) as [cur0 [E0 I0]].
      destruct (Z.eq_dec (2 * s + h) h0) as [<-|Ne].
      * exists (cur ++ [(c, a, b)]). split; [eapply nthZ_set_same; eauto|].
        rewrite Ecur in E0. inversion E0; subst. apply in_or_app. left. exact I0.
      * exists cur0. split; [rewrite nthZ_set_other by assumption; exact E0|exact I0].
    + inversion Hin; subst. exists (cur ++ [(c, a, b)]). split; [eapply nthZ_set_same; eauto|].
      apply in_or_app. right. left. reflexivity.
  - apply FOP_snoc; [exact HN|]. apply Forall_forall. intros [h0 iv] Hin. cbn [fst snd]. intros Eh. subst h0.
    destruct (HC _ _ Hin) as [cur0 [E0 I0]]. rewrite Ecur in E0. inversion E0; subst. apply D. exact I0.
Qed.

(* ---- one _convert_haplotype call ---------------------------------------------------------- *)

Lemma conv_norep_regs npop segs : forall c start t hu shuf bl t' hu' shuf' R,
  conv_norep false npop segs c start t hu shuf = Ok (bl, t', hu', shuf') ->
  Covers hu R -> NoShare R ->
  Covers hu' (R ++ regs_of c start bl) /\ NoShare (R ++ regs_of c start bl).
Proof.
  induction segs as [|s r IH]; intros c start t hu shuf bl t' hu' shuf' R; cbn [conv_norep].
  - intros H HC HN. inversion H; subst. cbn [regs_of]. rewrite app_nil_r. split; assumption.
  - destruct ((pop s <? 0) || (npop <=? pop s)); [discriminate|].
    destruct (pt_get t (pop s)) as [[|p0 pl]|]; [discriminate| |discriminate].
    destruct shuf as [|perm shuf1]; [discriminate|].
    destruct (find_random_sample_with false perm hu c start (endc s)) as [[[smp h]|k] hu1] eqn:E; [|discriminate].
    destruct (conv_norep false npop r c (endc s + 1) (pt_set t (pop s) perm) hu1 shuf1)
      as [[[[bl2 t2] hu2] sh2]|k] eqn:E2; cbn [bind]; [|discriminate].
    intros H HC HN. inversion H; subst. cbn [regs_of b_samp b_strand b_end].
    destruct (frs_step perm hu c start (endc s) smp h hu1 R E HC HN) as [HC1 HN1].
    destruct (IH _ _ _ _ _ _ _ _ _ _ E2 HC1 HN1) as [HC2 HN2].
    rewrite <- app_assoc in HC2, HN2. cbn [app] in HC2, HN2. split; assumption.
Qed.

(* ---- the whole run ------------------------------------------------------------------------ *)

(* the invariant of the table, for ANY population table (no hypothesis on t: the lists of different
   labels may share samples, list a sample twice, be permuted by the shuffles) *)
Lemma conv_seq_inv npop reqs : forall t hu shuf bls t' hu' shuf',
  InvAll hu -> conv_seq npop reqs t hu shuf = Ok (bls, t', hu', shuf') -> InvAll hu'.
Proof.
  induction reqs as [|q r IH]; intros t hu shuf bls t' hu' shuf' HI; cbn [conv_seq].
  - intros H; inversion H; subst. exact HI.
  - destruct (conv_norep false npop (q_segs q) (q_c q) 0 t hu shuf) as [[[[bl t1] hu1] sh1]|k] eqn:E;
      cbn [bind]; [|discriminate].
    destruct (conv_seq npop r t1 hu1 sh1) as [[[[bls2 t2] hu2] sh2]|k] eqn:E2; cbn [bind]; [|discriminate].
    intros H; inversion H; subst. eapply IH; [|exact E2]. eapply conv_norep_inv; eauto.
Qed.

Lemma conv_seq_regs npop reqs : forall t hu shuf bls t' hu' shuf' R,
  conv_seq npop reqs t hu shuf = Ok (bls, t', hu', shuf') ->
  Covers hu R -> NoShare R ->
  Covers hu' (R ++ all_regs reqs bls) /\ NoShare (R ++ all_regs reqs bls).
Proof.
  induction reqs as [|q r IH]; intros t hu shuf bls t' hu' shuf' R; cbn [conv_seq].
  - intros H HC HN. inversion H; subst. cbn [all_regs]. rewrite app_nil_r. split; assumption.
  - destruct (conv_norep false npop (q_segs q) (q_c q) 0 t hu shuf) as [[[[bl t1] hu1] sh1]|k] eqn:E;
      cbn [bind]; [|discriminate].
    destruct (conv_seq npop r t1 hu1 sh1) as [[[[bls2 t2] hu2] sh2]|k] eqn:E2; cbn [bind]; [|discriminate].
    intros H HC HN. inversion H; subst. cbn [all_regs].
    destruct (conv_norep_regs _ _ _ _ _ _ _ _ _ _ _ R E HC HN) as [HC1 HN1].
    destruct (IH _ _ _ _ _ _ _ _ E2 HC1 HN1) as [HC2 HN2].
    rewrite <- app_assoc in HC2, HN2. split; assumption.
Qed.

Lemma covers_nil hu : Covers hu [].
Proof. intros h iv []. Qed.

(* from the empty table: everything the run handed out is pairwise position-disjoint per reference
   haplotype, and all of it is in the final table *)
Theorem run_no_reuse npop reqs t n shuf bls t' hu' shuf' :
  conv_seq npop reqs t (init_used n) shuf = Ok (bls, t', hu', shuf') ->
  NoShare (all_regs reqs bls) /\ Covers hu' (all_regs reqs bls) /\ InvAll hu'.
Proof.
  intros H.
  destruct (conv_seq_regs npop reqs _ _ _ _ _ _ _ [] H (covers_nil _) (FOP_nil _)) as [HC HN].
  cbn [app] in HC, HN. split; [exact HN|]. split; [exact HC|].
  eapply conv_seq_inv; [apply init_used_inv|exact H].
Qed.

(* in plain terms: two different blocks (of one or of two simulated haplotypes, of one or of two
   populations) that were given the same reference haplotype on the same chromosome have no position
   in common *)
Theorem run_no_position_twice npop reqs t n shuf bls t' hu' shuf' :
  conv_seq npop reqs t (init_used n) shuf = Ok (bls, t', hu', shuf') ->
  forall i j h c a b h' c' a' b', i <> j ->
  nth_error (all_regs reqs bls) i = Some (h, (c, a, b)) ->
  nth_error (all_regs reqs bls) j = Some (h', (c', a', b')) ->
  h = h' -> c = c' -> forall p, ~ (a <= p <= b /\ a' <= p <= b').
Proof.
  intros H i j h c a b h' c' a' b' Hij Hi Hj Eh Ec p.
  destruct (run_no_reuse _ _ _ _ _ _ _ _ _ H) as [HN _]. unfold NoShare in HN.
  destruct (Nat.lt_ge_cases i j) as [L|L].
  - pose proof (FOP_nth _ _ HN i j _ _ L Hi Hj Eh) as D. cbn [snd] in D.
    apply (D Ec p).
  - assert (L' : (j < i)%nat) by lia.
    pose proof (FOP_nth _ _ HN j i _ _ L' Hj Hi (eq_sym Eh)) as D. cbn [snd] in D.
    intros [A B]. apply (D (eq_sym Ec) p). split; assumption.
Qed.

(* ---- population tables that share samples -------------------------------------------------- *)

(* a table in which label l and label l' list a common reference sample *)
Definition shares_sample (t : poptab) (l l' : Z) : Prop :=
  l <> l' /\ exists s la lb, pt_get t l = Some la /\ pt_get t l' = Some lb /\ In s la /\ In s lb.

(* the invariant does not depend on the table at all, hence not on how many labels list a sample;
   stated for one call and spelled out for sharing tables *)
Corollary conv_norep_inv_shared npop segs c start t hu shuf bl t' hu' shuf' l l' :
  shares_sample t l l' -> InvAll hu ->
  conv_norep false npop segs c start t hu shuf = Ok (bl, t', hu', shuf') -> InvAll hu'.
Proof. intros _. apply conv_norep_inv. Qed.

(* the hypotheses are satisfiable, and the sharing matters: label 1 and label 2 both list sample 0;
   strand 0 went to the block of label 1, so the block of label 2 over the same stretch gets strand 1,
   and a third request for the stretch (either label) is refused *)
Example shared_sample_example :
  let t := [(1, [0]); (2, [0])] in
  shares_sample t 1 2 /\
  conv_seq 3 [mkreq [mkseg 1 1 100 0] 1; mkreq [mkseg 2 1 100 0] 1] t (init_used 2) [[0]; [0]]
    = Ok ([[mkb 100 1 0 0]; [mkb 100 2 0 1]], t, [[(1, 0, 100)]; [(1, 0, 100)]], []) /\
  conv_seq 3 [mkreq [mkseg 1 1 100 0] 1; mkreq [mkseg 2 1 100 0] 1; mkreq [mkseg 1 1 50 0] 1] t (init_used 2)
    [[0]; [0]; [0]] = Err E_Exception.
Proof.
  split; [|split; vm_compute; reflexivity].
  split; [lia|]. exists 0, [0], [0]. cbn. auto.
Qed.

(* what goes wrong when the bookkeeping hangs on the population: a table keyed by (label, sample)
   instead of the reference haplotype would hand strand 0 of sample 0 out twice - the model of the
   run refutes it: the two registrations above lie on different reference haplotypes *)
Example shared_sample_regs :
  all_regs [mkreq [mkseg 1 1 100 0] 1; mkreq [mkseg 2 1 100 0] 1] [[mkb 100 1 0 0]; [mkb 100 2 0 1]]
  = [(0, (1, 0, 100)); (1, (1, 0, 100))].
Proof. reflexivity. Qed.

(* ---- an unsatisfiable panel is refused ----------------------------------------------------- *)

(* when all haplotypes of the samples the shuffled list names already hold a stretch meeting
   [start, end] of the first tract, the call fails with Exception - for any table, shared or not *)
Lemma conv_norep_exhausted npop s r c start t hu perm shuf lst :
  (pop s <? 0) || (npop <=? pop s) = false ->
  pt_get t (pop s) = Some lst -> lst <> [] ->
  (forall x, In x perm -> 0 <= x /\ forall h, h = 0 \/ h = 1 ->
     exists cur : used, nthZ hu (2 * x + h) = Some cur /\ existsb (overlaps false c start (endc s)) cur = true) ->
  conv_norep false npop (s :: r) c start t hu (perm :: shuf) = Err E_Exception.
Proof.
  intros Hp Ht Hne Hex. cbn [conv_norep]. rewrite Hp, Ht.
  destruct lst as [|x0 l0]; [congruence|].
  pose proof (exhaustion_errors perm hu c start (endc s) Hex) as E. unfold find_random_sample in E.
  rewrite E. reflexivity.
Qed.
