(* C14 - the property at the level of output_vcf's OUTPUT, over the model (C03_Model.output_vcf with
   no_replacement): the calls output_vcf makes are a [C14_Run.conv_seq] run from the empty table
   (one _convert_haplotype call per simulated haplotype and requested chromosome), every output
   cell is copied from the reference haplotype its block was given, and the block's registered
   interval contains the variant's position - so at every written record two simulated haplotypes
   took the allele from DIFFERENT reference haplotypes; over a variant at which the panel's
   reference haplotypes are identifiable their alleles differ.  For every sample-info table
   (populations may share samples), all breakpoints, all shuffles. *)
From HV Require Import Prelude Tracts Tiling C01_Model C01_Proofs C01_Bsearch C14_Model C14_Check C14_Proofs C14_Run
  C03_Model C03_Check C03_Proofs C03_ProofsE2E C14_CheckVcf C14_ProofsVcf.

(* the requests of a run, in the order of output_vcf's loops *)
Definition req_of (hap : list seg) (c : Z) : creq := mkreq (segs_of c hap) c.
Definition hap_reqs (chroms : list Z) (hap : list seg) : list creq := map (req_of hap) chroms.
Definition run_reqs (chroms : list Z) (bps : list (list seg)) : list creq := flat_map (hap_reqs chroms) bps.

(* ---- conv_seq over concatenated request lists -------------------------------------------- *)

Lemma conv_seq_length npop reqs : forall t hu sh bls t' hu' sh',
  conv_seq npop reqs t hu sh = Ok (bls, t', hu', sh') -> length bls = length reqs.
Proof.
  induction reqs as [|q r IH]; intros t hu sh bls t' hu' sh'; cbn [conv_seq].
  - intros H; inversion H; reflexivity.
  - destruct (conv_norep false npop (q_segs q) (q_c q) 0 t hu sh) as [[[[bl t1] hu1] sh1]|k]; cbn [bind]; [|discriminate].
    destruct (conv_seq npop r t1 hu1 sh1) as [[[[bls2 t2] hu2] sh2]|k] eqn:E2; cbn [bind]; [|discriminate].
    intros H; inversion H; subst. cbn [length]. f_equal. eapply IH; eauto.
Qed.

Lemma conv_seq_app npop r1 r2 : forall t hu sh b1 t1 hu1 sh1 b2 t2 hu2 sh2,
  conv_seq npop r1 t hu sh = Ok (b1, t1, hu1, sh1) ->
  conv_seq npop r2 t1 hu1 sh1 = Ok (b2, t2, hu2, sh2) ->
  conv_seq npop (r1 ++ r2) t hu sh = Ok (b1 ++ b2, t2, hu2, sh2).
Proof.
  induction r1 as [|q r IH]; intros t hu sh b1 t1 hu1 sh1 b2 t2 hu2 sh2; cbn [conv_seq app].
  - intros H; inversion H; subst. cbn [app]. auto.
  - destruct (conv_norep false npop (q_segs q) (q_c q) 0 t hu sh) as [[[[bl ta] hua] sha]|k]; cbn [bind]; [|discriminate].
    destruct (conv_seq npop r ta hua sha) as [[[[bls tb] hub] shb]|k] eqn:E; cbn [bind]; [|discriminate].
    intros H H2; inversion H; subst. rewrite (IH _ _ _ _ _ _ _ _ _ _ _ E H2). reflexivity.
Qed.

Lemma all_regs_app r1 : forall b1 r2 b2, length b1 = length r1 ->
  all_regs (r1 ++ r2) (b1 ++ b2) = all_regs r1 b1 ++ all_regs r2 b2.
Proof.
  induction r1 as [|q r IH]; intros [|bl b1] r2 b2 L; cbn in L; try discriminate; cbn [app all_regs]; [reflexivity|].
  rewrite IH by lia. rewrite app_assoc. reflexivity.
Qed.

(* ---- ordered pairs across a concatenation -------------------------------------------------- *)

Lemma FOP_app_inv {A} (R : A -> A -> Prop) l1 : forall l2, ForallOrdPairs R (l1 ++ l2) ->
  ForallOrdPairs R l1 /\ ForallOrdPairs R l2 /\ forall x y, In x l1 -> In y l2 -> R x y.
Proof.
  induction l1 as [|a l IH]; intros l2 H; cbn [app] in H.
  - split; [constructor|]. split; [exact H|]. intros x y [].
  - inversion H as [|? ? Ha Hl]; subst. destruct (IH _ Hl) as [H1 [H2 H3]].
    rewrite Forall_forall in Ha. split.
    + constructor; [|exact H1]. apply Forall_forall. intros x Hx. apply Ha. apply in_or_app. left. exact Hx.
    + split; [exact H2|]. intros x y [<-|Hx] Hy; [apply Ha; apply in_or_app; right; exact Hy|auto].
Qed.

Lemma FOP_concat_cross {A} (R : A -> A -> Prop) (ls : list (list A)) : ForallOrdPairs R (concat ls) ->
  forall i j a b, (i < j)%nat -> nth_error ls i = Some a -> nth_error ls j = Some b ->
  forall x y, In x a -> In y b -> R x y.
Proof.
  induction ls as [|l0 r IH]; intros H i j a b Hij Hi Hj x y Hx Hy; [destruct i; discriminate|].
  cbn [concat] in H. destruct (FOP_app_inv R l0 _ H) as [_ [Hr Hc]].
  destruct j as [|j]; [lia|]. cbn [nth_error] in Hj. destruct i as [|i]; cbn [nth_error] in Hi.
  - inversion Hi; subst l0. apply Hc; [exact Hx|]. apply in_concat. exists b. split; [|exact Hy].
    eapply nth_error_In; eauto.
  - apply (IH Hr i j a b); [lia|assumption..].
Qed.

(* ---- one chromosome of one simulated haplotype ---------------------------------------------- *)

(* the rows of chromosome c in [arr] are copied from the blocks [bl]: row i (variant oidx at
   position p) from the block at index first_ge ends p *)
Definition rows_from (d : gdata) (cur_chr : bool) (ov : list (Z * rvar)) (hap : list seg) (c : Z)
    (bl : list block) (arr : list (option cell)) : Prop :=
  map b_end bl = map endc (segs_of c hap) /\
  Forall (fun b => b_strand b = 0 \/ b_strand b = 1) bl /\
  forall i oidx v, nth_error ov i = Some (oidx, v) -> on_chrom cur_chr c v = true ->
    exists b a, nth_error bl (first_ge (map endc (segs_of c hap)) (rv_pos v)) = Some b /\
                lookup d (b_samp b) oidx (b_strand b) = Some a /\
                nth_error arr i = Some (Some (a, b_pop b, b_samp b)).

Lemma hap_chrom_run npop d hap c cv st ws st' :
  hap_chrom false true npop d hap c cv st = Ok (ws, st') ->
  chrom_covered hap c cv ->
  exists bl, conv_norep false npop (segs_of c hap) c 0 (d_tab st) (d_hu st) (d_shuf st)
               = Ok (bl, d_tab st', d_hu st', d_shuf st') /\
    forall k sl oidx pos, nth_error cv k = Some (sl, oidx, pos) ->
      exists b a, nth_error bl (first_ge (map endc (segs_of c hap)) pos) = Some b /\
                  lookup d (b_samp b) oidx (b_strand b) = Some a /\
                  nth_error ws k = Some (sl, (a, b_pop b, b_samp b)).
Proof.
  unfold hap_chrom. intros H [C1 [C2 C3]].
  set (segs := segs_of c hap) in *.
  destruct (conv_norep false npop segs c 0 (d_tab st) (d_hu st) (d_shuf st)) as [[[[bl t] hu] sh]|k] eqn:E;
    cbn [bind] in H; [|discriminate].
  destruct (conv_norep_blocks _ _ _ _ _ _ _ _ _ _ _ E) as [A [B S]].
  rewrite A in H. rewrite (assign_is_first_ge _ _ C1 C2 C3) in H. cbn [bind] in H.
  destruct (cells_of d bl _ cv) as [ws0|k] eqn:E2; cbn [bind] in H; [|discriminate].
  inversion H; subst ws st'. cbn [d_tab d_hu d_shuf].
  destruct (cells_of_spec _ _ _ _ _ E2 ltac:(rewrite !map_length; reflexivity)) as [L Hk].
  exists bl. split; [reflexivity|]. intros k sl oidx pos Hc.
  apply (Hk k (first_ge (map endc segs) pos) sl oidx pos); [|exact Hc].
  rewrite nth_error_map. rewrite nth_error_map. rewrite Hc. reflexivity.
Qed.

(* rows of other chromosomes are not touched by later chromosomes of the haplotype *)
Lemma rows_from_keep d cur_chr ov hap c bl arr arr' :
  (forall i oidx v, nth_error ov i = Some (oidx, v) -> on_chrom cur_chr c v = true ->
     nth_error arr' i = nth_error arr i) ->
  rows_from d cur_chr ov hap c bl arr -> rows_from d cur_chr ov hap c bl arr'.
Proof.
  intros K [A [S R]]. split; [exact A|]. split; [exact S|]. intros i oidx v Hi Hon.
  destruct (R i oidx v Hi Hon) as [b [a [Hb [Hl Hc]]]]. exists b, a. split; [exact Hb|]. split; [exact Hl|].
  rewrite (K i oidx v Hi Hon). exact Hc.
Qed.

(* ---- one simulated haplotype, all requested chromosomes -------------------------------------- *)

Lemma hap_loop_run npop d cur_chr ov hap : forall chroms arr st arr' st',
  hap_loop false true npop d cur_chr ov hap chroms arr st = Ok (arr', st') ->
  NoDup chroms -> length arr = length ov ->
  (forall c, In c chroms -> chrom_covered hap c (cvars_of cur_chr c ov)) ->
  exists bls, conv_seq npop (hap_reqs chroms hap) (d_tab st) (d_hu st) (d_shuf st)
                = Ok (bls, d_tab st', d_hu st', d_shuf st') /\
    Forall2 (fun c bl => rows_from d cur_chr ov hap c bl arr') chroms bls.
Proof.
  induction chroms as [|c0 cs IH]; intros arr st arr' st' H Hnd Hlen Hc; cbn [hap_loop] in H.
  - inversion H; subst. exists []. split; [reflexivity|constructor].
  - destruct (hap_chrom false true npop d hap c0 (cvars_of cur_chr c0 ov) st) as [[ws st1]|k] eqn:E;
      cbn [bind] in H; [|discriminate].
    inversion Hnd as [|? ? Hnotin Hnd']; subst.
    pose proof (Hc c0 (or_introl eq_refl)) as Hc0.
    pose proof (hap_chrom_slots _ _ _ _ _ _ _ _ _ E Hc0) as Hs.
    destruct (hap_chrom_run _ _ _ _ _ _ _ _ E Hc0) as [bl [Hconv Hcells]].
    destruct (conv_norep_blocks _ _ _ _ _ _ _ _ _ _ _ Hconv) as [A [_ S]].
    destruct (IH _ _ _ _ H Hnd' ltac:(rewrite write_length; exact Hlen) (fun c' Hc' => Hc c' (or_intror Hc')))
      as [bls [Hseq Hrest]].
    exists (bl :: bls). split.
    + cbn [hap_reqs map conv_seq].
      change (q_segs (req_of hap c0)) with (segs_of c0 hap). change (q_c (req_of hap c0)) with c0.
      rewrite Hconv. cbn [bind]. fold (hap_reqs cs hap). rewrite Hseq. reflexivity.
    + constructor; [|exact Hrest]. split; [exact A|]. split; [exact S|]. intros i oidx v Hn Hon.
      destruct (row_in_cvars _ _ _ _ _ _ Hn Hon) as [k Hk].
      destruct (Hcells k i oidx (rv_pos v) Hk) as [b [a [Hb [Hl Hw]]]].
      exists b, a. split; [exact Hb|]. split; [exact Hl|].
      rewrite (hap_loop_untouched _ _ _ _ _ _ _ _ _ _ _ H (fun c' Hc' => Hc c' (or_intror Hc')) i).
      * apply (write_at ws) with (k := k); [rewrite Hs; apply cvars_slots_NoDup|exact Hw|].
        rewrite Hlen. apply nth_error_Some. rewrite Hn. discriminate.
      * intros c' Hc' Hin. destruct (slot_row _ _ _ _ Hin) as [iv [Hiv Hon']].
        rewrite Hn in Hiv. inversion Hiv; subst iv. cbn [snd] in Hon'.
        pose proof (on_chrom_unique _ _ _ _ Hon Hon'). subst c'. contradiction.
Qed.

(* ---- all simulated haplotypes ------------------------------------------------------------------ *)

(* per simulated haplotype: its row of cells and its block lists (one per requested chromosome) *)
Definition hap_rows (d : gdata) (cur_chr : bool) (ov : list (Z * rvar)) (chroms : list Z)
    (ha : list seg * list (option cell)) (bls : list (list block)) : Prop :=
  length (snd ha) = length ov /\
  Forall2 (fun c bl => rows_from d cur_chr ov (fst ha) c bl (snd ha)) chroms bls.

Lemma haps_loop_run npop d cur_chr ov chroms : forall bps st arrs st',
  haps_loop false true npop d cur_chr ov chroms bps st = Ok (arrs, st') ->
  NoDup chroms ->
  (forall hap, In hap bps -> forall c, In c chroms -> chrom_covered hap c (cvars_of cur_chr c ov)) ->
  length arrs = length bps /\
  exists blss, conv_seq npop (run_reqs chroms bps) (d_tab st) (d_hu st) (d_shuf st)
                 = Ok (concat blss, d_tab st', d_hu st', d_shuf st') /\
    Forall2 (hap_rows d cur_chr ov chroms) (combine bps arrs) blss.
Proof.
  induction bps as [|hap0 r IH]; intros st arrs st' H Hnd Hc; cbn [haps_loop] in H.
  - inversion H; subst. split; [reflexivity|]. exists []. split; [reflexivity|constructor].
  - destruct (output_hap false true npop d cur_chr ov hap0 chroms st) as [[arr0 st1]|k] eqn:E;
      cbn [bind] in H; [|discriminate].
    destruct (haps_loop false true npop d cur_chr ov chroms r st1) as [[rest st2]|k] eqn:E2;
      cbn [bind] in H; [|discriminate].
    inversion H; subst arrs st'. unfold output_hap in E.
    destruct (hap_loop_run _ _ _ _ _ _ _ _ _ _ E Hnd ltac:(apply repeat_length) (Hc hap0 (or_introl eq_refl)))
      as [bls0 [Hseq0 Hrows0]].
    destruct (hap_loop_filled _ _ _ _ _ _ _ _ _ _ _ E (Hc hap0 (or_introl eq_refl))) as [L0 _].
    rewrite repeat_length in L0.
    destruct (IH _ _ _ E2 Hnd (fun hap Hh => Hc hap (or_intror Hh))) as [Lr [blss [Hseq Hrest]]].
    split; [cbn; lia|]. exists (bls0 :: blss). split.
    + cbn [run_reqs flat_map concat]. fold (run_reqs chroms r). eapply conv_seq_app; eauto.
    + cbn [combine]. constructor; [|exact Hrest]. split; [exact L0|exact Hrows0].
Qed.

(* ---- the run output_vcf makes -------------------------------------------------------------------- *)

Definition cur_chr_of (g : config) : bool :=
  match read_vars (g_region g) (g_vars g) with (_, v0) :: _ => rv_chr v0 | [] => false end.
Definition ov_of (g : config) : list (Z * rvar) :=
  out_vars (cur_chr_of g) (g_chroms g) (read_vars (g_region g) (g_vars g)).
Definition covered_cfg (g : config) : Prop :=
  forall hap, In hap (g_bps g) -> forall c, In c (g_chroms g) ->
    chrom_covered hap c (cvars_of (cur_chr_of g) c (ov_of g)).

Lemma output_vcf_run_gen (g : config) (out : output) :
  output_vcf g = Ok out -> g_norep g = true -> NoDup (g_chroms g) -> covered_cfg g ->
  exists arrs blss t' hu' sh',
    conv_seq (g_npop g) (run_reqs (g_chroms g) (g_bps g)) (g_tab g) (init_used (2 * g_nref g)) (g_shuf g)
      = Ok (concat blss, t', hu', sh') /\
    length arrs = length (g_bps g) /\
    Forall2 (hap_rows (g_data g) (cur_chr_of g) (ov_of g) (g_chroms g)) (combine (g_bps g) arrs) blss /\
    o_vars out = map fst (ov_of g) /\
    o_gt out = map (map (option_map (fun x : cell => fst (fst x)))) arrs /\
    (forall m, o_smp out = Some m -> m = map (map (option_map (fun x : cell => snd x))) arrs).
Proof.
  unfold covered_cfg, ov_of, cur_chr_of, output_vcf. intros H Hn Hnd Hcov.
  destruct (negb (lenZ (g_tab g) =? g_npop g - 1)); [discriminate|].
  destruct (read_vars (g_region g) (g_vars g)) as [|[i0 v0] rd] eqn:Erd; [discriminate|].
  set (ov := out_vars (rv_chr v0) (g_chroms g) ((i0, v0) :: rd)) in *.
  set (st := mkds (g_tab g) _ (g_choice g) (g_strand g) (g_shuf g)) in H.
  rewrite Hn in H.
  destruct (haps_loop false true (g_npop g) (g_data g) (rv_chr v0) ov (g_chroms g) (g_bps g) st)
    as [[arrs st']|k] eqn:E; cbn [bind] in H; [|discriminate].
  destruct (haps_loop_run _ _ _ _ _ _ _ _ _ E Hnd Hcov) as [La [blss [Hseq Hrows]]].
  exists arrs, blss, (d_tab st'), (d_hu st'), (d_shuf st').
  split; [exact Hseq|]. split; [exact La|]. split; [exact Hrows|].
  inversion H; subst out. cbn [o_vars o_gt o_smp]. split; [reflexivity|]. split; [reflexivity|].
  intros m Hm. destruct (emits_sample _ _ _ _); [|discriminate]. inversion Hm; reflexivity.
Qed.

(* the model of output_vcf(no_replacement=True) completes only if the run of its
   _convert_haplotype calls from the empty table completes: an unsatisfiable panel (the run raises,
   C14_Run / C14_exhaustion_errors) makes the call fail, it is never papered over by reuse *)
Theorem output_vcf_is_a_run (g : config) (out : output) :
  output_vcf g = Ok out -> g_norep g = true -> NoDup (g_chroms g) -> covered_cfg g ->
  exists bls t' hu' sh',
    conv_seq (g_npop g) (run_reqs (g_chroms g) (g_bps g)) (g_tab g) (init_used (2 * g_nref g)) (g_shuf g)
      = Ok (bls, t', hu', sh') /\
    NoShare (all_regs (run_reqs (g_chroms g) (g_bps g)) bls) /\ InvAll hu'.
Proof.
  intros H Hn Hnd Hcov.
  destruct (output_vcf_run_gen g out H Hn Hnd Hcov) as [arrs [blss [t' [hu' [sh' [Hseq _]]]]]].
  exists (concat blss), t', hu', sh'. split; [exact Hseq|].
  destruct (run_no_reuse _ _ _ _ _ _ _ _ _ Hseq) as [A [_ B]]. split; assumption.
Qed.

(* ---- from blocks to positions ------------------------------------------------------------------- *)

(* the block that first_ge selects for position p was registered over an interval containing p *)
Lemma regs_cover c : forall bl start p b,
  nth_error bl (first_ge (map b_end bl) p) = Some b -> start <= p ->
  exists a0, In (2 * b_samp b + b_strand b, (c, a0, b_end b)) (regs_of c start bl) /\ a0 <= p <= b_end b.
Proof.
  induction bl as [|b0 r IH]; intros start p b H Hs; cbn [map first_ge] in H; [discriminate|].
  destruct (p <=? b_end b0) eqn:E.
  - cbn [nth_error] in H. inversion H; subst b0. apply Z.leb_le in E. exists start.
    split; [left; reflexivity|lia].
  - cbn [nth_error] in H. apply Z.leb_gt in E.
    destruct (IH (b_end b0 + 1) p b H ltac:(lia)) as [a0 [Hin Hr]].
    exists a0. split; [right; exact Hin|exact Hr].
Qed.

Lemma regs_in_all : forall reqs bls j q bl,
  nth_error reqs j = Some q -> nth_error bls j = Some bl ->
  incl (regs_of (q_c q) 0 bl) (all_regs reqs bls).
Proof.
  induction reqs as [|q0 r IH]; intros bls j q bl Hq Hb; [destruct j; discriminate|].
  destruct bls as [|bl0 br]; [destruct j; discriminate|]. cbn [all_regs].
  destruct j as [|j]; cbn [nth_error] in Hq, Hb.
  - inversion Hq; inversion Hb; subst. apply incl_appl, incl_refl.
  - apply incl_appr. eapply IH; eauto.
Qed.

Lemma Forall2_In_l {A B} (P : A -> B -> Prop) l1 l2 x : Forall2 P l1 l2 -> In x l1 ->
  exists j y, nth_error l1 j = Some x /\ nth_error l2 j = Some y /\ P x y.
Proof.
  induction 1 as [|a b l1 l2 Hab _ IH]; intros Hin; [destruct Hin|]. destruct Hin as [<-|Hin].
  - exists 0%nat, b. auto.
  - destruct (IH Hin) as [j [y [H1 [H2 H3]]]]. exists (S j), y. auto.
Qed.

Lemma Forall2_nth {A B} (P : A -> B -> Prop) l1 l2 : Forall2 P l1 l2 -> forall j x,
  nth_error l1 j = Some x -> exists y, nth_error l2 j = Some y /\ P x y.
Proof.
  induction 1 as [|a b l1 l2 Hab _ IH]; intros [|j] x Hx; cbn [nth_error] in Hx; try discriminate.
  - inversion Hx; subst. exists b. auto.
  - apply IH. exact Hx.
Qed.

Lemma Forall2_length' {A B} (P : A -> B -> Prop) l1 l2 : Forall2 P l1 l2 -> length l1 = length l2.
Proof. induction 1; cbn; congruence. Qed.

(* the registrations of the run, haplotype by haplotype *)
Lemma all_regs_haps chroms : forall bps arrs blss d cur_chr ov,
  Forall2 (hap_rows d cur_chr ov chroms) (combine bps arrs) blss -> length arrs = length bps ->
  all_regs (run_reqs chroms bps) (concat blss)
  = concat (map (fun hb : list seg * list (list block) => all_regs (hap_reqs chroms (fst hb)) (snd hb))
                (combine bps blss)).
Proof.
  induction bps as [|hap r IH]; intros [|arr arrs] blss d cur_chr ov H L; cbn in L; try discriminate.
  - inversion H; subst. reflexivity.
  - cbn [combine] in H. inversion H as [|? bls ? blss' Hh Hr]; subst.
    cbn [run_reqs flat_map concat combine map fst snd]. fold (run_reqs chroms r).
    rewrite all_regs_app.
    + f_equal. eapply IH; eauto.
    + destruct Hh as [_ Hf]. apply Forall2_length' in Hf. unfold hap_reqs. rewrite map_length. lia.
Qed.

(* ---- THE PROPERTY at the level of the output (model) ---------------------------------------------- *)

Definition gt_of (x : cell) : Z := fst (fst x).

(* Two different simulated haplotypes h < h' at one written record i (variant oidx at position p >= 0 of
   requested chromosome c): their cells are copied from reference haplotypes (r,u) and (r',u') with
   2r+u <> 2r'+u' - never the same reference haplotype - and SAMPLE (when written) names r and r'. *)
Theorem output_no_reuse (g : config) (out : output) :
  output_vcf g = Ok out -> g_norep g = true -> NoDup (g_chroms g) -> covered_cfg g ->
  forall h h' hap hap', (h < h')%nat ->
  nth_error (g_bps g) h = Some hap -> nth_error (g_bps g) h' = Some hap' ->
  forall c, In c (g_chroms g) ->
  forall i oidx v, nth_error (ov_of g) i = Some (oidx, v) -> on_chrom (cur_chr_of g) c v = true -> 0 <= rv_pos v ->
  exists r u r' u' a a',
    2 * r + u <> 2 * r' + u' /\ (u = 0 \/ u = 1) /\ (u' = 0 \/ u' = 1) /\
    lookup (g_data g) r oidx u = Some a /\ lookup (g_data g) r' oidx u' = Some a' /\
    cell_at (o_gt out) h i = Some (Some a) /\ cell_at (o_gt out) h' i = Some (Some a') /\
    (forall m, o_smp out = Some m -> cell_at m h i = Some (Some r) /\ cell_at m h' i = Some (Some r')).
Proof.
  intros H Hn Hnd Hcov h h' hap hap' Hlt Hh Hh' c Hc i oidx v Hi Hon Hpos.
  destruct (output_vcf_run_gen g out H Hn Hnd Hcov) as [arrs [blss [t' [hu' [sh' [Hseq [La [Hrows [_ [Hgt Hsm]]]]]]]]]].
  destruct (run_no_reuse _ _ _ _ _ _ _ _ _ Hseq) as [HN _].
  rewrite (all_regs_haps _ _ _ _ _ _ _ Hrows La) in HN.
  (* the two haplotypes' rows and block lists *)
  assert (Harr : forall k hp, nth_error (g_bps g) k = Some hp ->
            exists arr bls, nth_error arrs k = Some arr /\ nth_error blss k = Some bls /\
              nth_error (combine (g_bps g) blss) k = Some (hp, bls) /\
              hap_rows (g_data g) (cur_chr_of g) (ov_of g) (g_chroms g) (hp, arr) bls).
  { intros k hp Hk.
    assert (Lk : (k < length arrs)%nat) by (rewrite La; apply nth_error_Some; rewrite Hk; discriminate).
    destruct (nth_error arrs k) as [arr|] eqn:Ea; [|apply nth_error_None in Ea; lia].
    assert (Hcomb : nth_error (combine (g_bps g) arrs) k = Some (hp, arr)).
    { clear - Hk Ea. revert k arrs Hk Ea. induction (g_bps g) as [|x l IH]; intros [|k] [|y arrs] Hk Ea;
        cbn in *; try discriminate; [inversion Hk; inversion Ea; reflexivity|apply IH; assumption]. }
    destruct (Forall2_nth _ _ _ Hrows k _ Hcomb) as [bls [Hb Hr]].
    exists arr, bls. split; [reflexivity|]. split; [exact Hb|]. split; [|exact Hr].
    clear - Hk Hb. revert k blss Hk Hb. induction (g_bps g) as [|x l IH]; intros [|k] [|y blss] Hk Hb;
      cbn in *; try discriminate; [inversion Hk; inversion Hb; reflexivity|apply IH; assumption]. }
  destruct (Harr h hap Hh) as [arr [bls [Ha [Hb [Hcb [_ Hf]]]]]].
  destruct (Harr h' hap' Hh') as [arr' [bls' [Ha' [Hb' [Hcb' [_ Hf']]]]]].
  cbn [fst snd] in Hf, Hf'.
  destruct (Forall2_In_l _ _ _ c Hf Hc) as [j [bl [Hj [Hbl [A [S R]]]]]].
  destruct (Forall2_In_l _ _ _ c Hf' Hc) as [j' [bl' [Hj' [Hbl' [A' [S' R']]]]]].
  destruct (R i oidx v Hi Hon) as [b [a [Hnb [Hl Hcell]]]].
  destruct (R' i oidx v Hi Hon) as [b' [a' [Hnb' [Hl' Hcell']]]].
  rewrite <- A in Hnb. rewrite <- A' in Hnb'.
  destruct (regs_cover c bl 0 (rv_pos v) b Hnb Hpos) as [a0 [Hin Hr0]].
  destruct (regs_cover c bl' 0 (rv_pos v) b' Hnb' Hpos) as [a0' [Hin' Hr0']].
  (* both registrations are in the run's record, the first haplotype's before the second's *)
  assert (Hreq : forall hp, nth_error (hap_reqs (g_chroms g) hp) j = Some (req_of hp c)).
  { intros hp. unfold hap_reqs. rewrite nth_error_map, Hj. reflexivity. }
  assert (Hreq' : forall hp, nth_error (hap_reqs (g_chroms g) hp) j' = Some (req_of hp c)).
  { intros hp. unfold hap_reqs. rewrite nth_error_map, Hj'. reflexivity. }
  pose proof (regs_in_all _ _ _ _ _ (Hreq hap) Hbl _ Hin) as Hall.
  pose proof (regs_in_all _ _ _ _ _ (Hreq' hap') Hbl' _ Hin') as Hall'.
  set (f := fun hb : list seg * list (list block) => all_regs (hap_reqs (g_chroms g) (fst hb)) (snd hb)) in *.
  pose proof (FOP_concat_cross _ _ HN h h' (f (hap, bls)) (f (hap', bls')) Hlt
                ltac:(rewrite nth_error_map, Hcb; reflexivity) ltac:(rewrite nth_error_map, Hcb'; reflexivity)
                _ _ Hall Hall') as D.
  cbn [fst snd] in D.
  assert (Sb : b_strand b = 0 \/ b_strand b = 1).
  { rewrite Forall_forall in S. apply S. eapply nth_error_In; eauto. }
  assert (Sb' : b_strand b' = 0 \/ b_strand b' = 1).
  { rewrite Forall_forall in S'. apply S'. eapply nth_error_In; eauto. }
  exists (b_samp b), (b_strand b), (b_samp b'), (b_strand b'), a, a'.
  split.
  { intros Eq. apply (D Eq eq_refl (rv_pos v)). cbn [in_ival]. split; lia. }
  split; [exact Sb|]. split; [exact Sb'|]. split; [exact Hl|]. split; [exact Hl'|].
  assert (P : forall (fn : cell -> Z) k ar x, nth_error arrs k = Some ar -> nth_error ar i = Some (Some x) ->
             cell_at (map (map (option_map fn)) arrs) k i = Some (Some (fn x))).
  { intros fn k ar x Hk Hx. unfold cell_at. rewrite nth_error_map, Hk. cbn [option_map].
    rewrite nth_error_map, Hx. reflexivity. }
  rewrite Hgt. split; [exact (P (fun x : cell => fst (fst x)) h arr _ Ha Hcell)|].
  split; [exact (P (fun x : cell => fst (fst x)) h' arr' _ Ha' Hcell')|].
  intros m Hm. rewrite (Hsm m Hm).
  split; [exact (P (fun x : cell => snd x) h arr _ Ha Hcell)|exact (P (fun x : cell => snd x) h' arr' _ Ha' Hcell')].
Qed.

(* ---- identifiable panels: the alleles differ ------------------------------------------------------ *)

Lemma NoDup_app_inv {A} (l1 l2 : list A) : NoDup (l1 ++ l2) ->
  NoDup l1 /\ NoDup l2 /\ forall x, In x l1 -> In x l2 -> False.
Proof.
  induction l1 as [|a l IH]; cbn [app]; intros H.
  - split; [constructor|]. split; [exact H|]. intros x [].
  - inversion H as [|? ? Hn Hr]; subst. destruct (IH Hr) as [H1 [H2 H3]]. split.
    + constructor; [|exact H1]. intros Hin. apply Hn. apply in_or_app. left. exact Hin.
    + split; [exact H2|]. intros x [<-|Hx] Hy; [apply Hn; apply in_or_app; right; exact Hy|eauto].
Qed.

Lemma NoDup_flat_map_idx {A B} (f : A -> list B) (l : list A) : NoDup (flat_map f l) ->
  forall n n' x x' a, nth_error l n = Some x -> nth_error l n' = Some x' -> In a (f x) -> In a (f x') -> n = n'.
Proof.
  induction l as [|y l IH]; intros H n n' x x' a Hn Hn' Ha Ha'; [destruct n; discriminate|].
  cbn [flat_map] in H. destruct (NoDup_app_inv _ _ H) as [_ [Hl Hd]].
  destruct n as [|n], n' as [|n']; cbn [nth_error] in Hn, Hn'.
  - reflexivity.
  - exfalso. inversion Hn; subst y. apply (Hd a Ha). apply in_flat_map. exists x'. split; [eapply nth_error_In; eauto|exact Ha'].
  - exfalso. inversion Hn'; subst y. apply (Hd a Ha'). apply in_flat_map. exists x. split; [eapply nth_error_In; eauto|exact Ha].
  - f_equal. eapply IH; eauto.
Qed.

Lemma NoDup_flat_map_elt {A B} (f : A -> list B) (l : list A) x : NoDup (flat_map f l) -> In x l -> NoDup (f x).
Proof.
  induction l as [|y l IH]; intros H []; cbn [flat_map] in H; destruct (NoDup_app_inv _ _ H) as [H1 [H2 _]].
  - subst y. exact H1.
  - apply IH; assumption.
Qed.

Definition cells_at (v : Z) (row : list (Z * Z)) : list Z :=
  match nthZ row v with Some (a0, a1) => [a0; a1] | None => [] end.

Lemma lookup_cells d r v u a : (u = 0 \/ u = 1) -> lookup d r v u = Some a ->
  exists row a0 a1, nthZ d r = Some row /\ nthZ row v = Some (a0, a1) /\ In a (cells_at v row) /\
    a = (if u =? 0 then a0 else a1).
Proof.
  unfold lookup, cells_at. intros Hu H. destruct (nthZ d r) as [row|]; [|discriminate].
  destruct (nthZ row v) as [[a0 a1]|] eqn:E; [|discriminate]. exists row, a0, a1.
  split; [reflexivity|]. split; [first [exact E|reflexivity]|]. rewrite ?E.
  destruct Hu as [-> | ->]; cbn in H; inversion H; subst; cbn; auto.
Qed.

Lemma NoDup_flat_pairs (d : list (list (Z * Z))) (v : Z) :
  NoDup (ref_alleles d v) ->
  forall r u r' u' a, (u = 0 \/ u = 1) -> (u' = 0 \/ u' = 1) ->
  lookup d r v u = Some a -> lookup d r' v u' = Some a -> 2 * r + u = 2 * r' + u'.
Proof.
  intros Hnd r u r' u' a Hu Hu' Hl Hl'.
  change (ref_alleles d v) with (flat_map (cells_at v) d) in Hnd.
  destruct (lookup_cells _ _ _ _ _ Hu Hl) as [row [a0 [a1 [Er [Ev [Ia Ea]]]]]].
  destruct (lookup_cells _ _ _ _ _ Hu' Hl') as [row' [a0' [a1' [Er' [Ev' [Ia' Ea']]]]]].
  pose proof (nthZ_nonneg _ _ _ Er) as Hr. pose proof (nthZ_nonneg _ _ _ Er') as Hr'.
  unfold nthZ in Er, Er'.
  destruct (r <? 0); [discriminate|]. destruct (r' <? 0); [discriminate|].
  pose proof (NoDup_flat_map_idx _ _ Hnd _ _ _ _ a Er Er' Ia Ia') as En.
  assert (r = r') by lia. subst r'. rewrite Er in Er'. inversion Er'; subst row'.
  rewrite Ev in Ev'. inversion Ev'; subst a0' a1'.
  pose proof (NoDup_flat_map_elt _ _ row Hnd ltac:(eapply nth_error_In; eauto)) as Hrow.
  unfold cells_at in Hrow. rewrite Ev in Hrow.
  inversion Hrow as [|x0 l0 N0 _].
  destruct Hu as [Hu|Hu], Hu' as [Hu'|Hu']; rewrite Hu in Ea; rewrite Hu' in Ea'; cbn in Ea, Ea'; try lia.
  - exfalso. apply N0. left. congruence.
  - exfalso. apply N0. left. congruence.
Qed.

(* over a variant at which the panel's reference haplotypes all carry different alleles, two simulated
   haplotypes never show the same allele: the model of output_vcf(no_replacement) satisfies the
   checker's clause at every record *)
Theorem output_alleles_differ (g : config) (out : output) :
  output_vcf g = Ok out -> g_norep g = true -> NoDup (g_chroms g) -> covered_cfg g ->
  forall h h' hap hap', (h < h')%nat ->
  nth_error (g_bps g) h = Some hap -> nth_error (g_bps g) h' = Some hap' ->
  forall c, In c (g_chroms g) ->
  forall i oidx v, nth_error (ov_of g) i = Some (oidx, v) -> on_chrom (cur_chr_of g) c v = true -> 0 <= rv_pos v ->
  identifiable (g_data g) oidx = true ->
  exists a a', a <> a' /\ cell_at (o_gt out) h i = Some (Some a) /\ cell_at (o_gt out) h' i = Some (Some a').
Proof.
  intros H Hn Hnd Hcov h h' hap hap' Hlt Hh Hh' c Hc i oidx v Hi Hon Hpos Hid.
  destruct (output_no_reuse g out H Hn Hnd Hcov h h' hap hap' Hlt Hh Hh' c Hc i oidx v Hi Hon Hpos)
    as [r [u [r' [u' [a [a' [Hne [Hu [Hu' [Hl [Hl' [Hc1 [Hc2 _]]]]]]]]]]]]].
  exists a, a'. split; [|split; assumption].
  intros ->. apply Hne.
  eapply (NoDup_flat_pairs (g_data g) oidx); eauto. apply nodupb_sound. exact Hid.
Qed.

(* ---- the hypotheses are satisfiable: two populations that both list reference sample 0 ----------- *)

(* strand 0 of the simulated sample is all population 1, strand 1 all population 2; both populations
   list only sample 0 (overlapping populations), sample 1 belongs to no population of the model *)
Definition ex_shared : config :=
  mkcfg [1] 3 [(1, [0]); (2, [0])] [mkrv false 1 50] [[(0, 1)]; [(2, 3)]] 2 None false true true false
        [[mkseg 1 1 2147483647 0]; [mkseg 2 1 2147483647 0]] [] [] [[0]; [0]].

Example output_no_reuse_example :
  output_vcf ex_shared = Ok (mkout [0] [[Some 0]; [Some 1]] None (Some [[Some 0]; [Some 0]])) /\
  g_norep ex_shared = true /\ NoDup (g_chroms ex_shared) /\ covered_cfg ex_shared /\
  identifiable (g_data ex_shared) 0 = true.
Proof.
  split; [vm_compute; reflexivity|]. split; [reflexivity|]. split.
  { constructor; [intros []|constructor]. }
  split; [|vm_compute; reflexivity].
  intros hap Hh c Hc. unfold chrom_covered. apply assign_pre_sound.
  cbn in Hh, Hc. destruct Hh as [<-|[<-|[]]]; destruct Hc as [<-|[]]; vm_compute; reflexivity.
Qed.

(* ... and four such haplotypes exhaust sample 0: the model refuses *)
Example shared_panel_exhausted :
  output_vcf (mkcfg [1] 3 [(1, [0]); (2, [0])] [mkrv false 1 50] [[(0, 1)]; [(2, 3)]] 2 None false false true false
                    [[mkseg 1 1 2147483647 0]; [mkseg 2 1 2147483647 0]; [mkseg 1 1 2147483647 0]; [mkseg 2 1 2147483647 0]]
                    [] [] [[0]; [0]; [0]; [0]]) = Err E_Exception.
Proof. vm_compute. reflexivity. Qed.
