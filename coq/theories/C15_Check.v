(* C15 - boolean checkers evaluated on what haptools' Phenotypes/Covariates did.
   [agree]: the model of C15_Model predicts the observation.  [holds]: the
   property, written independently of the model's recursion (filter/map and
   lookups instead of loops); soundness lemmas are in C15_Proofs. *)
From HV Require Import Prelude Stats C15_Model.
Open Scope Z_scope.

(* concrete instance: a field is (its characters, the float64 its text denotes
   if it is numeric); float64 = bit pattern *)
Definition ctok : Type := list Z * option Z.
Definition ctext (t : ctok) : list Z := fst t.
Definition cparse (t : ctok) : option Z := snd t.
Definition cfmt (b : Z) : ctok := ([], Some b).
Definition cword (s : list Z) : ctok := (s, None).

Definition names_eqb := list_eqb name_eqb.
Definition rows_eqb := list_eqb (list_eqb bits_eqb).

Fixpoint nodupb (l : list name) : bool :=
  match l with [] => true | a :: r => negb (mem a r) && nodupb r end.

Definition is_digit (c : Z) : bool := (48 <=? c) && (c <=? 57).
(* out = nm, or nm ++ "-" ++ one or more digits *)
Definition derived (nm out : name) : bool :=
  starts_with nm out &&
  match skipn (length nm) out with
  | [] => true
  | c :: ds => (c =? dash) && negb (Nat.eqb (length ds) 0) && forallb is_digit ds
  end.

(* -------- write then read -------------------------------------------------- *)

Record rtcase := mkrt {
  rt_names : list name; rt_samples : list name; rt_data : list (list Z);
  rt_obs : res (list name * list name * list (list Z))   (* names, samples, data read back *)
}.

Definition names_unique_ok (inp out : list name) : bool :=
  Nat.eqb (length inp) (length out) && nodupb out
  && forallb (fun '(a, b) => derived a b) (combine inp out)
  && (if nodupb inp then names_eqb inp out else true).

Definition holds_rt (c : rtcase) : bool :=
  match rt_obs c with
  | Err _ => false
  | Ok (nm, sm, dt) =>
      names_unique_ok (rt_names c) nm && names_eqb (rt_samples c) sm && rows_eqb (rt_data c) dt
  end.

Definition model_rt (c : rtcase) : res (list name * list name * list (list Z)) :=
  bind (pheno_read ctok Z ctext cparse None
          (pheno_write ctok Z cfmt cword (mkt (rt_samples c) (rt_names c) (rt_data c))))
       (fun '(t, _) => Ok (t_names t, t_samples t, t_data t)).

Definition obs3_eqb (x y : list name * list name * list (list Z)) : bool :=
  let '(a, b, c) := x in let '(a', b', c') := y in
  names_eqb a a' && names_eqb b b' && rows_eqb c c'.

Definition check_rt (c : rtcase) : bool * bool :=
  (res_eqb obs3_eqb (model_rt c) (rt_obs c), holds_rt c).

(* -------- reading hand-made files ----------------------------------------- *)

Record rdcase := mkrd {
  rd_lines : list (list ctok);
  rd_sel : option (list name);
  rd_obs : res (list name * list name * list (list Z) * Z)  (* samples, names, data, #error messages *)
}.

Definition is_comment (l : list ctok) : bool :=
  match l with
  | [] => false
  | f :: _ => starts_with hash (ctext f) && negb (starts_with IID (ctext f))
  end.
Fixpoint drop_comments (ls : list (list ctok)) : list (list ctok) :=
  match ls with
  | l :: r => if is_comment l then drop_comments r else ls
  | [] => []
  end.
Definition is_blank (l : list ctok) : bool := match l with [] => true | _ => false end.
Definition row_selected (sel : option (list name)) (l : list ctok) : bool :=
  match l with [] => false | s :: _ => selected sel (ctext s) end.
Definition row_good (l : list ctok) : bool :=
  match l with [] => false | _ :: cells => forallb (fun c => match cparse c with Some _ => true | None => false end) cells end.
Definition row_vals (l : list ctok) : list Z :=
  flat_map (fun c => match cparse c with Some v => [v] | None => [] end) (tl l).
Definition row_first (l : list ctok) : name := match l with [] => [] | s :: _ => ctext s end.

(* the property: on a well-formed file the result is exactly the selected rows
   whose cells are all numeric, in file order, each with its own sample and its
   own values in their own columns; one error message per skipped row *)
Definition holds_rd (c : rdcase) : bool :=
  match drop_comments (rd_lines c) with
  | [] => true
  | header :: body =>
      let sel := filter (row_selected (rd_sel c)) body in
      let good := filter row_good sel in
      if existsb is_blank (rd_lines c) || (length header <? 2)%nat
         || Nat.eqb (length good) 0 || negb (rectangular good)
      then true
      else match rd_obs c with
           | Err _ => false
           | Ok (sm, nm, dt, nerr) =>
               names_eqb sm (map row_first good)
               && names_eqb nm (map ctext (tl header))
               && rows_eqb dt (map row_vals good)
               && (nerr =? lenZ sel - lenZ good)
           end
  end.

Definition model_rd (c : rdcase) : res (list name * list name * list (list Z) * Z) :=
  bind (pheno_read ctok Z ctext cparse (rd_sel c) (rd_lines c))
       (fun '(t, n) => Ok (t_samples t, t_names t, t_data t, n)).

Definition obs4_eqb (x y : list name * list name * list (list Z) * Z) : bool :=
  let '(a, b, c, n) := x in let '(a', b', c', n') := y in
  names_eqb a a' && names_eqb b b' && rows_eqb c c' && (n =? n').

Definition check_rd (c : rdcase) : bool * bool :=
  (res_eqb obs4_eqb (model_rd c) (rd_obs c), holds_rd c).

(* -------- standardize ------------------------------------------------------ *)

Fixpoint transpose {A} (ncol : nat) (rows : list (list A)) : list (list A) :=
  match ncol with
  | O => []
  | S k => flat_map (fun r => match r with [] => [] | a :: _ => [a] end) rows
           :: transpose k (map (@tl A) rows)
  end.

(* z is the standardised value of a cell whose exact deviation is dev in a column
   of exact variance var: z^2 var = dev^2 and sign z = sign dev, to 1e-9 *)
Definition zcheck (var dev z : Q) : bool :=
  qclose tol9 (qsq dev + var) (qsq z * var) (qsq dev)
  && (Qle_bool (qsq dev) (tol9 * var) || (qsgn z =? qsgn dev)).

Definition all_some {A} (l : list (option A)) : option (list A) :=
  fold_right (fun x acc => match x, acc with Some v, Some r => Some (v :: r) | _, _ => None end) (Some []) l.

Definition column_ok (xs zs : list Z) : bool :=
  match all_some (map bits2q xs), all_some (map bits2q zs) with
  | Some qx, Some qz =>
      match qx with
      | [] => true
      | x0 :: _ =>
          if forallb (Qeq_bool x0) qx then forallb (fun b => b =? 0) zs
          else let v := qvar qx in
               Nat.eqb (length qx) (length qz)
               && forallb (fun '(d, z) => zcheck v d z) (combine (qdev qx) qz)
      end
  | None, _ => true                  (* non-finite input: outside the clause *)
  | Some _, None => false
  end.

Record stcase := mkst { st_data : list (list Z); st_obs : res (list (list Z)) }.

Definition holds_st (c : stcase) : bool :=
  match st_obs c with
  | Err _ => false
  | Ok out =>
      let m := match st_data c with [] => O | r :: _ => length r end in
      Nat.eqb (length out) (length (st_data c))
      && forallb (fun r => Nat.eqb (length r) m) out
      && forallb (fun '(xs, zs) => column_ok xs zs)
                 (combine (transpose m (st_data c)) (transpose m out))
  end.
(* the model of standardize is the exact (deviation, variance) pair; comparing the
   implementation's floats with it is the same computation as [holds_st] *)
Definition check_st (c : stcase) : bool * bool := (holds_st c, holds_st c).
Definition model_st (c : stcase) : list (list (option Q)) :=
  let m := match st_data c with [] => O | r :: _ => length r end in
  map (fun xs => match all_some (map bits2q xs) with
                 | Some qx => Some (Qred (qvar qx)) :: map (fun d => Some (Qred d)) (qdev qx)
                 | None => [] end) (transpose m (st_data c)).

(* -------- append / subset / check_missing ---------------------------------- *)

Inductive op :=
| OpAppend (unset : bool) (nm : Z) (col : list Z)
| OpSubset (rs rn : option (list Z))
| OpMissing (discard : bool).

Definition ztab := tab Z Z.
Record opcase := mkop { op_t : ztab; op_op : op; op_obs : res ztab }.

Definition m9bits : Z := 13844628204490326016.   (* float64 -9.0 = 0xC022000000000000 *)
Definition is_m9 (b : Z) : bool := b =? m9bits.

Definition model_op (c : opcase) : res ztab :=
  match op_op c with
  | OpAppend u nm col => append Z Z u nm col (op_t c)
  | OpSubset rs rn => subset Z Z Z.eqb 0 0 rs rn (op_t c)
  | OpMissing d => check_missing Z Z is_m9 d (op_t c)
  end.

Definition zl_eqb := list_eqb Z.eqb.
Definition tab_eqb (a b : ztab) : bool :=
  zl_eqb (samples a) (samples b) && zl_eqb (names a) (names b)
  && list_eqb (list_eqb bits_eqb) (data a) (data b).

Definition memZ (k : Z) (l : list Z) : bool := existsb (Z.eqb k) l.
Fixpoint lookup {A} (k : Z) (l : list (Z * A)) : option A :=
  match l with [] => None | (a, v) :: r => if a =? k then Some v else lookup k r end.
Fixpoint nodupZ (l : list Z) : bool :=
  match l with [] => true | a :: r => negb (memZ a r) && nodupZ r end.
Definition orow_eqb := opt_eqb (list_eqb bits_eqb).
Definition ocell_eqb := opt_eqb bits_eqb.

(* the property's clauses, by lookups *)
Definition holds_op (c : opcase) : bool :=
  let t := op_t c in
  match op_op c with
  | OpAppend u nm col =>
      (* one more named column, same samples, every old cell unchanged *)
      match op_obs c with
      | Err _ => negb u && negb (Nat.eqb (length col) (length (data t)))
      | Ok o =>
          zl_eqb (samples o) (samples t) && zl_eqb (names o) (names t ++ [nm])
          && (if u then true else list_eqb (list_eqb bits_eqb) (map (@removelast Z) (data o)) (data t))
          && list_eqb ocell_eqb (map (fun r => last_opt r) (data o)) (map Some col)
      end
  | OpSubset rs rn =>
      let wf := nodupZ (samples t) && nodupZ (names t)
                && Nat.eqb (length (samples t)) (length (data t))
                && forallb (fun r => Nat.eqb (length r) (length (names t))) (data t) in
      if negb wf then true else
      match op_obs c with
      | Err _ => false
      | Ok o =>
          let want_s := match rs with None => samples t | Some req => filter (fun k => memZ k (samples t)) req end in
          let want_n := match rn with None => names t | Some req => filter (fun k => memZ k (names t)) req end in
          zl_eqb (samples o) want_s && zl_eqb (names o) want_n
          && Nat.eqb (length (data o)) (length want_s)
          (* each returned row is that sample's row; each cell that column's cell *)
          && forallb (fun '(s, orow) =>
                match lookup s (combine (samples t) (data t)) with
                | None => false
                | Some row =>
                    list_eqb ocell_eqb (map Some orow)
                             (map (fun n => lookup n (combine (names t) row)) want_n)
                end) (combine want_s (data o))
      end
  | OpMissing d =>
      let bad := existsb (existsb is_m9) (data t) in
      match op_obs c with
      | Err _ => bad && negb d
      | Ok o =>
          if negb bad then tab_eqb o t
          else d && zl_eqb (names o) (names t)
               && list_eqb (pair_eqb Z.eqb (list_eqb bits_eqb)) (combine (samples o) (data o))
                    (filter (fun '(_, row) => negb (existsb is_m9 row)) (combine (samples t) (data t)))
               && Nat.eqb (length (samples o)) (length (data o))
      end
  end.

Definition check_op (c : opcase) : bool * bool :=
  (res_eqb tab_eqb (model_op c) (op_obs c), holds_op c).

(* -------- compact literals --------------------------------------------------- *)

(* Long regular lists (tables with > 1000 rows or columns: numpy summarises printed arrays
   beyond 1000 elements) are written by the harness as generators instead of element by
   element (Coq parses ~12 k literal characters per second).  harness/c15_lit.py emits only
   these forms and re-expands every literal in Python before it is used (self-check);
   their meaning is proved in C15_Std.v (zseq_spec, zrep_spec, gnames_spec, by_cols_spec). *)
Fixpoint zseq_nat (a : Z) (n : nat) : list Z :=
  match n with O => [] | S k => a :: zseq_nat (a + 1) k end.
(* a, a+1, ..., a+n-1 : consecutive integers, resp. consecutive float64 bit patterns *)
Definition zseq (a n : Z) : list Z := zseq_nat a (Z.to_nat n).
Definition zrep (v n : Z) : list Z := repeat v (Z.to_nat n).
Definition nrep (nm : name) (n : Z) : list name := repeat nm (Z.to_nat n).
(* p ++ str(a), p ++ str(a+1), ... : n names *)
Definition gnames (p : name) (a n : Z) : list name := map (fun k => p ++ dec k) (zseq a n).
(* a table of n rows given by its columns *)
Definition by_cols (n : Z) (cols : list (list Z)) : list (list Z) := transpose (Z.to_nat n) cols.
