(* C15 - executable model of haptools/data/phenotypes.py (Phenotypes; Covariates is
   the same class with another extension): write's name suffixing and rows,
   __iter__/_iterate/read, standardize (as the exact (deviation, variance) pair),
   append, subset, check_missing.  Strings whose characters matter are lists of
   code points; float64 cells are an abstract type with a text codec (the
   correspondence instantiates it with bit patterns). No proofs here. *)
From HV Require Import Prelude.
From Coq Require Import DecimalString DecimalZ Ascii.
From Coq Require String.
Open Scope Z_scope.

Definition E_Value : Z := 1.
Definition E_Index : Z := 2.
Definition E_StopIteration : Z := 14.

Definition name := list Z.
Definition name_eqb : name -> name -> bool := list_eqb Z.eqb.
Definition mem (x : name) (l : list name) : bool := existsb (name_eqb x) l.

(* ---------- Phenotypes.write: making the column names unique --------------- *)

(* Python's str(int) as code points *)
Definition dec (z : Z) : list Z :=
  map (fun a => Z.of_N (N_of_ascii a))
      (String.list_ascii_of_string (NilEmpty.string_of_int (Z.to_int z))).

Definition dash : Z := 45.
Definition suffixed (nm : name) (c : Z) : name := nm ++ dash :: dec c.

(* collections.Counter keyed by name *)
Fixpoint count_of (c : list (name * Z)) (nm : name) : Z :=
  match c with
  | [] => 0
  | (k, v) :: r => if name_eqb k nm then v else count_of r nm
  end.
Definition set_count (c : list (name * Z)) (nm : name) (v : Z) := (nm, v) :: c.

(* while new_name in used: uniq_names[name] += 1; new_name = f"{name}-{uniq_names[name]}"
   (fuel: the theorem shows S (length used) iterations always suffice) *)
Fixpoint fresh (fuel : nat) (nm cand : name) (cnt : Z) (used : list name) : name * Z :=
  match fuel with
  | O => (cand, cnt)
  | S f => if mem cand used then fresh f nm (suffixed nm (cnt + 1)) (cnt + 1) used
           else (cand, cnt)
  end.

Fixpoint uniq_loop (names : list name) (cnts : list (name * Z)) (used : list name) : list name :=
  match names with
  | [] => []
  | nm :: r =>
      let '(out, c) := fresh (S (length used)) nm nm (count_of cnts nm) used in
      out :: uniq_loop r (set_count cnts nm c) (out :: used)
  end.
Definition unique_names (names : list name) : list name := uniq_loop names [] [].

(* the pinned algorithm: suffix = number of earlier occurrences of the same name *)
Fixpoint legacy_loop (names : list name) (cnts : list (name * Z)) : list name :=
  match names with
  | [] => []
  | nm :: r =>
      let c := count_of cnts nm in
      (if c =? 0 then nm else suffixed nm c) :: legacy_loop r (set_count cnts nm (c + 1))
  end.
Definition legacy_unique_names (names : list name) : list name := legacy_loop names [].

(* ---------- the file as rows of tab-separated fields ----------------------- *)

Definition starts_with (p s : list Z) : bool := list_eqb Z.eqb p (firstn (length p) s).
Definition hash : list Z := [35].
Definition IID : list Z := [35; 73; 73; 68].

Section File.
  Variable tok : Type.                 (* one field of one line *)
  Variable fl : Type.                  (* float64 *)
  Variable text : tok -> list Z.       (* its characters *)
  Variable parse : tok -> option fl.   (* np.array([...], dtype="float64") on one cell *)

  Definition line := list tok.

  (* __iter__: skip leading "#" lines that are not "#IID..." *)
  Fixpoint find_header (ls : list line) : res (line * list line) :=
    match ls with
    | [] => Err E_StopIteration
    | l :: r =>
        match l with
        | [] => Err E_Index
        | f :: _ =>
            if starts_with hash (text f) && negb (starts_with IID (text f))
            then find_header r else Ok (l, r)
        end
    end.

  (* np.array(phen[1:], dtype="float64"): all cells or an exception *)
  Fixpoint parse_cells (cs : list tok) : option (list fl) :=
    match cs with
    | [] => Some []
    | c :: r => match parse c with
                | None => None
                | Some v => match parse_cells r with None => None | Some vs => Some (v :: vs) end
                end
    end.

  Definition selected (samples : option (list name)) (s : name) : bool :=
    match samples with None => true | Some l => mem s l end.

  (* _iterate: records and the number of log.error calls *)
  Fixpoint iterate (samples : option (list name)) (ls : list line)
    : res (list (name * list fl) * Z) :=
    match ls with
    | [] => Ok ([], 0)
    | l :: r =>
        match l with
        | [] =>
            match samples with
            | Some _ => Err E_Index          (* phen[0] outside the try *)
            | None => bind (iterate samples r) (fun '(recs, n) => Ok (recs, n + 1))
            end
        | s :: cells =>
            if selected samples (text s) then
              match parse_cells cells with
              | Some vs => bind (iterate samples r) (fun '(recs, n) => Ok ((text s, vs) :: recs, n))
              | None => bind (iterate samples r) (fun '(recs, n) => Ok (recs, n + 1))
              end
            else iterate samples r
        end
    end.

  Definition rectangular {A} (rows : list (list A)) : bool :=
    match rows with
    | [] => true
    | r0 :: rs => forallb (fun r => Nat.eqb (length r) (length r0)) rs
    end.

  Record table := mkt { t_samples : list name; t_names : list name; t_data : list (list fl) }.

  (* read(samples): (table, number of error messages) *)
  Definition pheno_read (samples : option (list name)) (ls : list line) : res (table * Z) :=
    bind (find_header ls) (fun '(header, rest) =>
      if (length header <? 2)%nat then Err E_Value
      else
        bind (iterate samples rest) (fun '(recs, nerr) =>
          match recs with
          | [] => Err E_Value                              (* zip of nothing cannot be unpacked *)
          | _ =>
              if rectangular (map snd recs)
              then Ok (mkt (map fst recs) (map text (tl header)) (map snd recs), nerr)
              else Err E_Value                             (* inhomogeneous array *)
          end)).

  (* write: header with unique names, one line per (sample, row) pair *)
  Variable fmt : fl -> tok.
  Variable word : list Z -> tok.       (* a field holding given text *)

  Definition pheno_write (t : table) : list line :=
    (word IID :: map word (unique_names (t_names t)))
    :: map (fun '(s, row) => word s :: map fmt row) (combine (t_samples t) (t_data t)).
End File.

Arguments mkt {fl}.
Arguments t_samples {fl}.
Arguments t_names {fl}.
Arguments t_data {fl}.

(* ---------- table operations (cells of any type) --------------------------- *)

Section Ops.
  Variable fl : Type.
  Variable key : Type.
  Variable key_eqb : key -> key -> bool.

  Fixpoint index_of (k : key) (l : list key) (i : nat) : option nat :=
    match l with
    | [] => None
    | a :: r => if key_eqb a k then Some i else index_of k r (S i)
    end.
  Fixpoint has_dup (l : list key) : bool :=
    match l with
    | [] => false
    | a :: r => existsb (key_eqb a) r || has_dup r
    end.
  (* requested keys that exist, in the requested order, as positions *)
  Definition positions (req have : list key) : list nat :=
    flat_map (fun k => match index_of k have 0 with Some i => [i] | None => [] end) req.
  Definition pick {A} (d : A) (l : list A) (idx : list nat) : list A := map (fun i => nth i l d) idx.

  Record tab := mktab { samples : list key; names : list key; data : list (list fl) }.

  Variable d0 : fl.
  Variable k0 : key.

  (* subset(samples, names): index() raises on duplicate ids of a requested axis *)
  Definition subset (rs rn : option (list key)) (t : tab) : res tab :=
    if match rs with Some _ => has_dup (samples t) | None => false end then Err E_Value
    else if match rn with Some _ => has_dup (names t) | None => false end then Err E_Value
    else
      let t1 := match rs with
                | None => t
                | Some req => let ix := positions req (samples t) in
                              mktab (pick k0 (samples t) ix) (names t) (pick [] (data t) ix)
                end in
      Ok match rn with
         | None => t1
         | Some req => let ix := positions req (names t) in
                       mktab (samples t1) (pick k0 (names t) ix) (map (fun row => pick d0 row ix) (data t1))
         end.

  (* append(name, column): data = None is [unset] *)
  Definition append (unset : bool) (nm : key) (col : list fl) (t : tab) : res tab :=
    if unset then Ok (mktab (samples t) (names t ++ [nm]) (map (fun v => [v]) col))
    else if Nat.eqb (length col) (length (data t))
         then Ok (mktab (samples t) (names t ++ [nm])
                        (map (fun '(row, v) => row ++ [v]) (combine (data t) col)))
         else Err E_Value.

  (* check_missing(discard_also) *)
  Variable is_m9 : fl -> bool.      (* cell == -9 *)
  Definition row_missing (row : list fl) : bool := existsb is_m9 row.
  Definition check_missing (discard : bool) (t : tab) : res tab :=
    if existsb row_missing (data t) then
      if discard then
        let keep := filter (fun '(s, row) => negb (row_missing row)) (combine (samples t) (data t)) in
        Ok (mktab (map fst keep) (names t) (map snd keep))
      else Err E_Value
    else Ok t.
End Ops.

Arguments mktab {fl key}.
Arguments samples {fl key}.
Arguments names {fl key}.
Arguments data {fl key}.
