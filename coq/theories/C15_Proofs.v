(* C15 - proofs (in progress) *)
From HV Require Import Prelude Stats C15_Model C15_Check.
Lemma placeholder_true : True. Proof. exact I. Qed.
