(* C15 - proofs about the model of C15_Model and soundness of the checkers of
   C15_Check. *)
From HV Require Import Prelude Stats C15_Model C15_Check.
From Coq Require Import DecimalString DecimalZ Ascii FinFun.
From Coq Require String.
Open Scope Z_scope.

(* ---------- names ---------------------------------------------------------- *)

Lemma name_eqb_spec a b : name_eqb a b = true <-> a = b.
Proof. apply list_eqb_spec. intros; apply Z.eqb_eq. Qed.

Lemma mem_In x l : mem x l = true <-> In x l.
Proof.
  unfold mem. rewrite existsb_exists. split.
  - intros [y [Hy He]]. apply name_eqb_spec in He. subst. exact Hy.
  - intro H. exists x. split; [exact H|]. apply name_eqb_spec. reflexivity.
Qed.

Lemma mem_false_not_In x l : mem x l = false <-> ~ In x l.
Proof.
  split.
  - intros H Hin. apply mem_In in Hin. congruence.
  - intro H. destruct (mem x l) eqn:E; [|reflexivity]. apply mem_In in E. contradiction.
Qed.

Lemma map_inj {A B} (f : A -> B) : (forall x y, f x = f y -> x = y) ->
  forall l l', map f l = map f l' -> l = l'.
Proof.
  intros Hf l. induction l as [|a r IH]; intros [|b s] H; cbn in H; try discriminate; [reflexivity|].
  inversion H as [[H1 H2]]. apply Hf in H1. apply IH in H2. subst. reflexivity.
Qed.

(* Python's str(int) is injective (here: proved for the decimal printer used) *)
Lemma dec_inj a b : dec a = dec b -> a = b.
Proof.
  unfold dec. intro H.
  apply map_inj in H.
  - apply (f_equal String.string_of_list_ascii) in H.
    rewrite !String.string_of_list_ascii_of_string in H.
    apply (f_equal NilEmpty.int_of_string) in H. rewrite !NilEmpty.isi in H.
    inversion H as [H1]. apply (f_equal Z.of_int) in H1. rewrite !of_to in H1. exact H1.
  - intros x y Hxy. apply N2Z.inj in Hxy. apply (f_equal ascii_of_N) in Hxy.
    rewrite !ascii_N_embedding in Hxy. exact Hxy.
Qed.

Lemma suffixed_inj nm a b : suffixed nm a = suffixed nm b -> a = b.
Proof.
  unfold suffixed. intro H. apply app_inv_head in H. inversion H as [H1]. apply dec_inj. exact H1.
Qed.

Lemma suffixed_neq nm c : suffixed nm c <> nm.
Proof.
  unfold suffixed. intro H. apply (f_equal (@length Z)) in H. rewrite app_length in H. cbn in H. lia.
Qed.

Lemma fresh_stuck : forall fuel nm cand cnt used,
  mem (fst (fresh fuel nm cand cnt used)) used = true ->
  mem cand used = true /\
  forall i, (1 <= i <= fuel)%nat -> mem (suffixed nm (cnt + Z.of_nat i)) used = true.
Proof.
  induction fuel as [|f IH]; intros nm cand cnt used H.
  - cbn in H. split; [exact H|]. intros i Hi. lia.
  - cbn [fresh] in H. destruct (mem cand used) eqn:E.
    + apply IH in H. destruct H as [H1 H2]. split; [reflexivity|].
      intros i Hi. destruct (Nat.eq_dec i 1) as [->|Hn].
      * exact H1.
      * replace (cnt + Z.of_nat i) with (cnt + 1 + Z.of_nat (i - 1)) by lia.
        apply H2. lia.
    + cbn in H. congruence.
Qed.

(* the fuel the model supplies always suffices: the name chosen is unused *)
Lemma fresh_free nm c used :
  mem (fst (fresh (S (length used)) nm nm c used)) used = false.
Proof.
  destruct (mem (fst (fresh (S (length used)) nm nm c used)) used) eqn:E; [|reflexivity].
  exfalso. apply fresh_stuck in E. destruct E as [_ H].
  set (L := map (fun i => suffixed nm (c + Z.of_nat i)) (seq 1 (S (length used)))).
  assert (HN : NoDup L).
  { apply Injective_map_NoDup; [|apply seq_NoDup].
    intros i j Hij. apply suffixed_inj in Hij. lia. }
  assert (HI : incl L used).
  { intros x Hx. apply in_map_iff in Hx. destruct Hx as [i [<- Hi]]. apply in_seq in Hi.
    apply mem_In. apply H. lia. }
  pose proof (NoDup_incl_length HN HI) as Hlen.
  unfold L in Hlen. rewrite map_length, seq_length in Hlen. lia.
Qed.

Lemma fresh_shape : forall fuel nm cand cnt used,
  fst (fresh fuel nm cand cnt used) = cand \/ exists k, fst (fresh fuel nm cand cnt used) = suffixed nm k.
Proof.
  induction fuel as [|f IH]; intros nm cand cnt used; cbn [fresh].
  - left. reflexivity.
  - destruct (mem cand used).
    + right. destruct (IH nm (suffixed nm (cnt + 1)) (cnt + 1) used) as [H|[k H]]; eauto.
    + left. reflexivity.
Qed.

Lemma uniq_loop_inv : forall names cnts used,
  NoDup (uniq_loop names cnts used) /\
  forall x, In x (uniq_loop names cnts used) -> ~ In x used.
Proof.
  induction names as [|nm r IH]; intros cnts used; cbn [uniq_loop].
  - split; [constructor|]. intros x [].
  - pose proof (fresh_free nm (count_of cnts nm) used) as Hf.
    destruct (fresh (S (length used)) nm nm (count_of cnts nm) used) as [out c] eqn:E.
    cbn [fst] in Hf. apply mem_false_not_In in Hf.
    destruct (IH (set_count cnts nm c) (out :: used)) as [IH1 IH2].
    split.
    + constructor; [|exact IH1]. intro Hin. apply IH2 in Hin. apply Hin. left. reflexivity.
    + intros x [Hx|Hx].
      * subst. exact Hf.
      * intro Hu. apply IH2 in Hx. apply Hx. right. exact Hu.
Qed.

Lemma uniq_loop_length : forall names cnts used, length (uniq_loop names cnts used) = length names.
Proof.
  induction names as [|nm r IH]; intros cnts used; cbn [uniq_loop]; [reflexivity|].
  destruct (fresh (S (length used)) nm nm (count_of cnts nm) used) as [out c]. cbn. rewrite IH. reflexivity.
Qed.

Lemma uniq_loop_id : forall names cnts used,
  NoDup names -> (forall x, In x names -> ~ In x used) -> uniq_loop names cnts used = names.
Proof.
  induction names as [|nm r IH]; intros cnts used Hnd Hu; cbn [uniq_loop]; [reflexivity|].
  assert (Hm : mem nm used = false) by (apply mem_false_not_In; apply Hu; left; reflexivity).
  cbn [fresh]. rewrite Hm. inversion Hnd as [|? ? Hnin Hnd']; subst.
  f_equal. apply IH; [exact Hnd'|].
  intros x Hx [Hc|Hc]; [subst; contradiction|]. apply (Hu x); [right; exact Hx|exact Hc].
Qed.

Definition derived_from (a b : name) : Prop := b = a \/ exists k, b = suffixed a k.

Lemma uniq_loop_derived : forall names cnts used,
  Forall2 derived_from names (uniq_loop names cnts used).
Proof.
  induction names as [|nm r IH]; intros cnts used; cbn [uniq_loop]; [constructor|].
  pose proof (fresh_shape (S (length used)) nm nm (count_of cnts nm) used) as Hs.
  destruct (fresh (S (length used)) nm nm (count_of cnts nm) used) as [out c]. cbn [fst] in Hs.
  constructor; [exact Hs|apply IH].
Qed.

Theorem unique_names_nodup_lemma : forall names,
  NoDup (unique_names names)
  /\ length (unique_names names) = length names
  /\ Forall2 derived_from names (unique_names names)
  /\ (NoDup names -> unique_names names = names).
Proof.
  intro names. unfold unique_names. split; [apply uniq_loop_inv|].
  split; [apply uniq_loop_length|]. split; [apply uniq_loop_derived|].
  intro H. apply uniq_loop_id; [exact H|]. intros x _ [].
Qed.

Definition a_ : name := [97].
Example legacy_suffix_collision_refuted_lemma :
  legacy_unique_names [a_; a_; suffixed a_ 1] = [a_; suffixed a_ 1; suffixed a_ 1]
  /\ ~ NoDup (legacy_unique_names [a_; a_; suffixed a_ 1])
  /\ unique_names [a_; a_; suffixed a_ 1] = [a_; suffixed a_ 1; suffixed (suffixed a_ 1) 1].
Proof.
  split; [vm_compute; reflexivity|]. split; [|vm_compute; reflexivity].
  intro H. vm_compute in H. inversion H as [|? ? ? H2]; subst.
  inversion H2 as [|? ? Hn _]; subst. apply Hn. left. reflexivity.
Qed.

(* soundness of the boolean name checks *)
Lemma nodupb_sound l : nodupb l = true -> NoDup l.
Proof.
  induction l as [|a r IH]; cbn; intro H; [constructor|].
  apply andb_true_iff in H. destruct H as [H1 H2]. constructor; [|apply IH; exact H2].
  apply mem_false_not_In. destruct (mem a r); [discriminate|reflexivity].
Qed.

Lemma nodupb_complete l : NoDup l -> nodupb l = true.
Proof.
  induction 1 as [|a r Hn _ IH]; cbn; [reflexivity|].
  apply mem_false_not_In in Hn. rewrite Hn, IH. reflexivity.
Qed.

Lemma names_eqb_spec a b : names_eqb a b = true <-> a = b.
Proof. apply list_eqb_spec. apply name_eqb_spec. Qed.

Lemma names_unique_ok_sound inp out :
  names_unique_ok inp out = true ->
  length inp = length out /\ NoDup out /\ (NoDup inp -> out = inp).
Proof.
  unfold names_unique_ok. intro H.
  apply andb_true_iff in H. destruct H as [H H4].
  apply andb_true_iff in H. destruct H as [H H3].
  apply andb_true_iff in H. destruct H as [H1 H2].
  split; [apply Nat.eqb_eq; exact H1|]. split; [apply nodupb_sound; exact H2|].
  intro Hnd. apply nodupb_complete in Hnd. rewrite Hnd in H4. apply names_eqb_spec in H4. congruence.
Qed.

(* ---------- reading -------------------------------------------------------- *)

Section FileProofs.
  Variable tok : Type.
  Variable fl : Type.
  Variable text : tok -> list Z.
  Variable parse : tok -> option fl.

  Notation line := (list tok).
  Notation parse_cells := (parse_cells tok fl parse).
  Notation iterate := (iterate tok fl text parse).

  (* cells stay in their columns: value j is the parse of cell j *)
  Lemma parse_cells_spec : forall cs vs,
    parse_cells cs = Some vs <-> map parse cs = map Some vs.
  Proof.
    induction cs as [|c r IH]; intros vs; cbn.
    - split; intro H; [inversion H; reflexivity|]. destruct vs; [reflexivity|discriminate].
    - destruct (parse c) as [v|] eqn:Ec.
      + destruct (parse_cells r) as [ws|] eqn:Er.
        * split; intro H.
          -- inversion H; subst. cbn. f_equal. apply IH. reflexivity.
          -- destruct vs as [|v' vs']; [discriminate|]. cbn in H. inversion H; subst.
             f_equal. f_equal. apply IH in H2. congruence.
        * split; intro H; [discriminate|].
          destruct vs as [|v' vs']; [discriminate|]. cbn in H. inversion H as [[H1 H2]].
          apply IH in H2. discriminate.
      + split; intro H; [discriminate|]. destruct vs; cbn in H; discriminate.
  Qed.

  Lemma parse_cells_none : forall cs,
    parse_cells cs = None <-> exists c, In c cs /\ parse c = None.
  Proof.
    induction cs as [|c r IH]; cbn.
    - split; [discriminate|intros [c [[] _]]].
    - destruct (parse c) as [v|] eqn:Ec.
      + destruct (parse_cells r) as [ws|] eqn:Er.
        * split; [discriminate|]. intros [c' [[->|Hin] Hn]]; [congruence|].
          assert (@None (list fl) = None) as _ by reflexivity.
          destruct IH as [_ IH2]. discriminate IH2. exists c'. split; assumption.
        * split; [|reflexivity]. intros _. destruct IH as [IH1 _].
          destruct (IH1 eq_refl) as [c' [Hin Hn]]. exists c'. split; [right; exact Hin|exact Hn].
      + split; [|reflexivity]. intros _. exists c. split; [left; reflexivity|exact Ec].
  Qed.

  Definition row_sel (sel : option (list name)) (l : line) : bool :=
    match l with [] => false | s :: _ => selected sel (text s) end.
  Definition row_rec (l : line) : option (name * list fl) :=
    match l with
    | [] => None
    | s :: cells => match parse_cells cells with Some vs => Some (text s, vs) | None => None end
    end.
  Fixpoint somes {A} (l : list (option A)) : list A :=
    match l with [] => [] | Some a :: r => a :: somes r | None :: r => somes r end.
  Fixpoint nones {A} (l : list (option A)) : Z :=
    match l with [] => 0 | Some _ :: r => nones r | None :: r => nones r + 1 end.

  (* row skipping never shifts other rows or columns: the records are exactly the
     selected rows all of whose cells parse, in file order, each with its own
     first field and its own values; one error per skipped row *)
  Lemma iterate_spec : forall sel ls,
    (forall l, In l ls -> l <> []) ->
    iterate sel ls =
      Ok (somes (map row_rec (filter (row_sel sel) ls)), nones (map row_rec (filter (row_sel sel) ls))).
  Proof.
    intros sel. induction ls as [|l r IH]; intro Hnb; [reflexivity|].
    assert (Hr : forall l0, In l0 r -> l0 <> []) by (intros; apply Hnb; right; assumption).
    specialize (IH Hr).
    destruct l as [|s cells]; [exfalso; apply (Hnb []); [left|]; reflexivity|].
    cbn [C15_Model.iterate filter row_sel].
    destruct (selected sel (text s)) eqn:Es.
    - cbn [map row_rec]. destruct (parse_cells cells) as [vs|] eqn:Ep; rewrite IH; reflexivity.
    - exact IH.
  Qed.

  (* leading comment lines (starting with "#" but not with "#IID") are skipped, at any
     number, and the first other line is the header *)
  Definition comment_line (l : line) : bool :=
    match l with
    | [] => false
    | f :: _ => starts_with hash (text f) && negb (starts_with IID (text f))
    end.

  Lemma find_header_skips : forall comments header body,
    Forall (fun l => comment_line l = true) comments ->
    header <> [] -> comment_line header = false ->
    find_header tok text (comments ++ header :: body) = Ok (header, body).
  Proof.
    induction comments as [|c r IH]; intros header body Hc Hne Hh.
    - cbn [app find_header]. destruct header as [|f rest]; [contradiction|].
      unfold comment_line in Hh. rewrite Hh. reflexivity.
    - inversion Hc as [|? ? Hc1 Hc2]; subst. cbn [app find_header].
      destruct c as [|f rest]; [discriminate|]. unfold comment_line in Hc1. rewrite Hc1. apply IH; assumption.
  Qed.

  (* the whole reader on a file with comment lines, a header of >= 2 fields and a body
     without blank lines: names from the header, records = the selected numeric rows *)
  Lemma pheno_read_spec : forall sel comments header body,
    Forall (fun l => comment_line l = true) comments ->
    comment_line header = false -> (2 <= length header)%nat ->
    (forall l, In l body -> l <> []) ->
    let recs := somes (map row_rec (filter (row_sel sel) body)) in
    recs <> [] -> rectangular (map snd recs) = true ->
    pheno_read tok fl text parse sel (comments ++ header :: body)
    = Ok (mkt (map fst recs) (map text (tl header)) (map snd recs),
          nones (map row_rec (filter (row_sel sel) body))).
  Proof.
    intros sel comments header body Hc Hh Hlen Hnb recs Hne Hrect.
    unfold pheno_read. rewrite find_header_skips; [|exact Hc| |exact Hh].
    - cbn [bind]. apply Nat.ltb_ge in Hlen. rewrite Hlen. rewrite iterate_spec by exact Hnb.
      cbn [bind]. fold recs. destruct recs as [|r0 rs] eqn:E; [contradiction|].
      rewrite Hrect. reflexivity.
    - intro H0. subst. cbn in Hlen. lia.
  Qed.

  Variable fmt : fl -> tok.
  Variable word : list Z -> tok.
  Hypothesis parse_fmt : forall x, parse (fmt x) = Some x.
  Hypothesis text_word : forall s, text (word s) = s.

  Lemma parse_cells_fmt : forall row, parse_cells (map fmt row) = Some row.
  Proof.
    induction row as [|x r IH]; cbn; [reflexivity|]. rewrite parse_fmt, IH. reflexivity.
  Qed.

  Lemma iterate_written : forall rows : list (name * list fl),
    iterate None (map (fun '(s, row) => word s :: map fmt row) rows) = Ok (rows, 0).
  Proof.
    induction rows as [|[s row] r IH]; [reflexivity|].
    cbn [map C15_Model.iterate selected]. rewrite parse_cells_fmt, IH. cbn. rewrite text_word. reflexivity.
  Qed.

  Lemma map_snd_combine {A B} : forall (a : list A) (b : list B),
    length a = length b -> map snd (combine a b) = b.
  Proof.
    induction a as [|x r IH]; intros [|y s] H; cbn in *; try discriminate; [reflexivity|].
    f_equal. apply IH. lia.
  Qed.
  Lemma map_fst_combine {A B} : forall (a : list A) (b : list B),
    length a = length b -> map fst (combine a b) = a.
  Proof.
    induction a as [|x r IH]; intros [|y s] H; cbn in *; try discriminate; [reflexivity|].
    f_equal. apply IH. lia.
  Qed.

  (* write then read: same samples, unique_names of the names, the same cells *)
  Lemma pheno_roundtrip_lemma : forall t : table fl,
    length (t_samples t) = length (t_data t) ->
    t_data t <> [] -> t_names t <> [] ->
    rectangular (t_data t) = true ->
    pheno_read tok fl text parse None (pheno_write tok fl fmt word t)
    = Ok (mkt (t_samples t) (unique_names (t_names t)) (t_data t), 0).
  Proof.
    intros [sm nm dt] Hlen Hd Hn Hrect. cbn [t_samples t_names t_data] in *.
    unfold pheno_read, pheno_write. cbn [t_samples t_names t_data find_header].
    rewrite text_word.
    change (starts_with hash IID && negb (starts_with IID IID)) with false. cbn [bind].
    assert (Hl : (length (word IID :: map word (unique_names nm)) <? 2)%nat = false).
    { apply Nat.ltb_ge. destruct (unique_names_nodup_lemma nm) as [_ [Hlen' _]].
      destruct nm as [|n0 nr]; [contradiction|].
      change (length (word IID :: map word (unique_names (n0 :: nr))))
        with (S (length (map word (unique_names (n0 :: nr))))).
      rewrite map_length. unfold name in *. rewrite Hlen'. cbn [length]. lia. }
    rewrite Hl. rewrite iterate_written. cbn [bind].
    destruct (combine sm dt) as [|p rest] eqn:Ec.
    - destruct sm, dt; cbn in *; try discriminate; contradiction.
    - rewrite <- Ec. rewrite map_snd_combine, map_fst_combine by exact Hlen. rewrite Hrect.
      cbn [tl]. rewrite map_map.
      rewrite (map_ext (fun x => text (word x)) (fun x => x)) by apply text_word.
      rewrite map_id. reflexivity.
  Qed.
End FileProofs.

(* ---------- table operations ---------------------------------------------- *)

Section OpsProofs.
  Variable fl : Type.
  Variable key : Type.
  Variable key_eqb : key -> key -> bool.
  Hypothesis key_eqb_eq : forall a b, key_eqb a b = true <-> a = b.
  Variable d0 : fl.
  Variable k0 : key.

  Notation index_of := (index_of key key_eqb).
  Notation positions := (positions key key_eqb).

  Lemma index_of_spec : forall k l s i,
    index_of k l s = Some i ->
    (s <= i)%nat /\ nth_error l (i - s) = Some k /\ forall j, (j < i - s)%nat -> nth_error l j <> Some k.
  Proof.
    intros k. induction l as [|a r IH]; intros s i H; cbn in H; [discriminate|].
    destruct (key_eqb a k) eqn:E.
    - inversion H; subst. apply key_eqb_eq in E. subst. rewrite Nat.sub_diag.
      split; [lia|]. split; [reflexivity|]. intros j Hj. lia.
    - apply IH in H. destruct H as [H1 [H2 H3]]. split; [lia|].
      replace (i - s)%nat with (S (i - S s)) by lia. split; [exact H2|].
      intros [|j] Hj; cbn.
      + intro Hc. inversion Hc; subst.
        assert (key_eqb k k = true) by (apply key_eqb_eq; reflexivity). congruence.
      + apply H3. lia.
  Qed.

  Lemma index_of_none : forall k l s, index_of k l s = None <-> ~ In k l.
  Proof.
    intros k. induction l as [|a r IH]; intros s; cbn.
    - split; [intros _ []|reflexivity].
    - destruct (key_eqb a k) eqn:E.
      + apply key_eqb_eq in E. subst. split; [discriminate|]. intro H. exfalso. apply H. left. reflexivity.
      + rewrite IH. split; intro H.
        * intros [Hc|Hc]; [|contradiction]. subst.
          assert (key_eqb k k = true) by (apply key_eqb_eq; reflexivity). congruence.
        * intro Hc. apply H. right. exact Hc.
  Qed.

  Definition present (have : list key) (k : key) : bool :=
    match index_of k have 0 with Some _ => true | None => false end.

  (* requested order; every returned element is the element stored at the first
     position holding the requested key *)
  Lemma pick_positions {A} (d : A) (l : list A) (have : list key) : forall req,
    Forall2 (fun k x => exists i, index_of k have 0 = Some i /\ x = nth i l d)
            (filter (present have) req) (pick d l (positions req have)).
  Proof.
    induction req as [|k r IH]; cbn; [constructor|].
    unfold present at 1. unfold C15_Model.positions in *. cbn [flat_map].
    destruct (index_of k have 0) as [i|] eqn:E; cbn.
    - constructor; [exists i; split; [exact E|reflexivity]|exact IH].
    - exact IH.
  Qed.

  Lemma subset_samples_spec : forall req (t : tab fl key) t',
    subset fl key key_eqb d0 k0 (Some req) None t = Ok t' ->
    names t' = names t
    /\ Forall2 (fun k s => exists i, index_of k (samples t) 0 = Some i /\ s = nth i (samples t) k0)
               (filter (present (samples t)) req) (samples t')
    /\ Forall2 (fun k row => exists i, index_of k (samples t) 0 = Some i /\ row = nth i (data t) [])
               (filter (present (samples t)) req) (data t').
  Proof.
    intros req t t' H. unfold subset in H.
    destruct (has_dup key key_eqb (samples t)); [discriminate|].
    inversion H; subst; cbn [names samples data].
    split; [reflexivity|]. split; apply pick_positions.
  Qed.

  Lemma subset_names_spec : forall req (t : tab fl key) t',
    subset fl key key_eqb d0 k0 None (Some req) t = Ok t' ->
    samples t' = samples t
    /\ Forall2 (fun k n => exists i, index_of k (names t) 0 = Some i /\ n = nth i (names t) k0)
               (filter (present (names t)) req) (names t')
    /\ Forall2 (fun row row' =>
          Forall2 (fun k x => exists i, index_of k (names t) 0 = Some i /\ x = nth i row d0)
                  (filter (present (names t)) req) row')
        (data t) (data t').
  Proof.
    intros req t t' H. unfold subset in H.
    destruct (has_dup key key_eqb (names t)); [discriminate|].
    inversion H; subst; cbn [names samples data].
    split; [reflexivity|]. split; [apply pick_positions|].
    clear H. induction (data t) as [|row r IH]; cbn; [constructor|].
    constructor; [apply pick_positions|exact IH].
  Qed.

  Lemma append_spec_lemma : forall nm col (t : tab fl key),
    length col = length (data t) ->
    exists t', append fl key false nm col t = Ok t'
      /\ samples t' = samples t /\ names t' = names t ++ [nm]
      /\ length (data t') = length (data t)
      /\ forall i row v, nth_error (data t) i = Some row -> nth_error col i = Some v ->
                         nth_error (data t') i = Some (row ++ [v]).
  Proof.
    intros nm col t Hlen. unfold append. rewrite Hlen, Nat.eqb_refl.
    eexists. split; [reflexivity|]. cbn [samples names data].
    split; [reflexivity|]. split; [reflexivity|].
    generalize dependent col. induction (data t) as [|r0 rs IH]; intros [|v0 vs] Hlen; cbn in *; try discriminate.
    - split; [reflexivity|]. intros [|i]; discriminate.
    - destruct (IH vs ltac:(lia)) as [IH1 IH2]. split; [rewrite IH1; reflexivity|].
      intros [|i] row v Hr Hv; cbn in *.
      + inversion Hr; inversion Hv; subst. reflexivity.
      + apply IH2; assumption.
  Qed.

  Lemma append_mismatch : forall nm col (t : tab fl key),
    length col <> length (data t) -> append fl key false nm col t = Err E_Value.
  Proof.
    intros nm col t H. unfold append. apply Nat.eqb_neq in H. rewrite H. reflexivity.
  Qed.

  Variable is9 : fl -> bool.

  Lemma combine_split_id {A B} : forall l : list (A * B), combine (map fst l) (map snd l) = l.
  Proof. induction l as [|[a b] r IH]; cbn; [reflexivity|]. rewrite IH. reflexivity. Qed.

  Lemma check_missing_spec_lemma : forall discard (t : tab fl key),
    let holding := existsb (row_missing fl is9) (data t) in
    match check_missing fl key is9 discard t with
    | Err _ => holding = true /\ discard = false
    | Ok t' =>
        names t' = names t
        /\ (holding = false -> t' = t)
        /\ (holding = true -> discard = true
            /\ combine (samples t') (data t')
               = filter (fun '(s, row) => negb (row_missing fl is9 row)) (combine (samples t) (data t)))
    end.
  Proof.
    intros discard t. cbn zeta. unfold check_missing.
    destruct (existsb (row_missing fl is9) (data t)) eqn:E.
    - destruct discard.
      + cbn [names samples data]. split; [reflexivity|]. split; [discriminate|].
        intros _. split; [reflexivity|]. apply combine_split_id.
      + split; reflexivity.
    - split; [reflexivity|]. split; [reflexivity|discriminate].
  Qed.
End OpsProofs.
