(* C15 - property theorems only. *)
From HV Require Import Prelude Stats C15_Model C15_Check C15_Proofs.

(* Column names written by Phenotypes.write (after the fix) are pairwise distinct,
   as many as the input names, each the input name itself or that name with a
   "-<number>" suffix, and unchanged when the input names were already distinct. *)
Theorem C15_unique_names_nodup : forall names,
  NoDup (unique_names names)
  /\ length (unique_names names) = length names
  /\ Forall2 derived_from names (unique_names names)
  /\ (NoDup names -> unique_names names = names).
Proof. exact unique_names_nodup_lemma. Qed.
Print Assumptions C15_unique_names_nodup.

(* the suffix renderer (Python's str(int)) is injective: no contract needed *)
Theorem C15_dec_injective : forall a b, dec a = dec b -> a = b.
Proof. exact dec_inj. Qed.
Print Assumptions C15_dec_injective.

(* the pinned algorithm collides on (a, a, a-1); the repaired one does not *)
Example C15_legacy_suffix_collision_refuted :
  legacy_unique_names [a_; a_; suffixed a_ 1] = [a_; suffixed a_ 1; suffixed a_ 1]
  /\ ~ NoDup (legacy_unique_names [a_; a_; suffixed a_ 1])
  /\ unique_names [a_; a_; suffixed a_ 1] = [a_; suffixed a_ 1; suffixed (suffixed a_ 1) 1].
Proof. exact legacy_suffix_collision_refuted_lemma. Qed.
Print Assumptions C15_legacy_suffix_collision_refuted.

(* write then read, for every codec with parse (fmt x) = Some x: the same samples,
   the suffixed names, the same cells, no error message *)
Theorem C15_pheno_roundtrip :
  forall (tok fl : Type) (text : tok -> list Z) (parse : tok -> option fl)
         (fmt : fl -> tok) (word : list Z -> tok),
  (forall x, parse (fmt x) = Some x) -> (forall s, text (word s) = s) ->
  forall t : table fl,
  length (t_samples t) = length (t_data t) -> t_data t <> [] -> t_names t <> [] ->
  rectangular (t_data t) = true ->
  pheno_read tok fl text parse None (pheno_write tok fl fmt word t)
  = Ok (mkt (t_samples t) (unique_names (t_names t)) (t_data t), 0).
Proof. exact pheno_roundtrip_lemma. Qed.
Print Assumptions C15_pheno_roundtrip.

(* the codec contract of C15_pheno_roundtrip is satisfiable (the instance the
   correspondence evaluates: a field is its text plus the float64 it denotes) *)
Example C15_codec_contract_inhabited :
  (forall x, cparse (cfmt x) = Some x) /\ (forall s, ctext (cword s) = s).
Proof. split; reflexivity. Qed.
Print Assumptions C15_codec_contract_inhabited.

(* row skipping never shifts other rows or columns: for every file body without
   blank lines and every sample filter, the records are exactly the selected rows
   whose cells all parse - in file order, each with its own first field - and one
   error is reported per skipped row ... *)
Theorem C15_row_skipping_exact :
  forall (tok fl : Type) (text : tok -> list Z) (parse : tok -> option fl) sel ls,
  (forall l, In l ls -> l <> []) ->
  iterate tok fl text parse sel ls =
    Ok (somes (map (row_rec tok fl text parse) (filter (row_sel tok text sel) ls)),
        nones (map (row_rec tok fl text parse) (filter (row_sel tok text sel) ls))).
Proof. exact iterate_spec. Qed.
Print Assumptions C15_row_skipping_exact.

(* the whole reader: any number of leading comment lines is skipped, the names come
   from the header, the records are the selected numeric rows of the body *)
Theorem C15_read_spec :
  forall (tok fl : Type) (text : tok -> list Z) (parse : tok -> option fl) sel comments header body,
  Forall (fun l => comment_line tok text l = true) comments ->
  comment_line tok text header = false -> (2 <= length header)%nat ->
  (forall l, In l body -> l <> []) ->
  let recs := somes (map (row_rec tok fl text parse) (filter (row_sel tok text sel) body)) in
  recs <> [] -> rectangular (map snd recs) = true ->
  pheno_read tok fl text parse sel (comments ++ header :: body)
  = Ok (mkt (map fst recs) (map text (tl header)) (map snd recs),
        nones (map (row_rec tok fl text parse) (filter (row_sel tok text sel) body))).
Proof. exact pheno_read_spec. Qed.
Print Assumptions C15_read_spec.

(* ... and within a kept row, value j is the parse of cell j *)
Theorem C15_cells_keep_their_columns :
  forall (tok fl : Type) (parse : tok -> option fl) cs vs,
  parse_cells tok fl parse cs = Some vs <-> map parse cs = map Some vs.
Proof. exact parse_cells_spec. Qed.
Print Assumptions C15_cells_keep_their_columns.

Theorem C15_row_skipped_iff_bad_cell :
  forall (tok fl : Type) (parse : tok -> option fl) cs,
  parse_cells tok fl parse cs = None <-> exists c, In c cs /\ parse c = None.
Proof. exact parse_cells_none. Qed.
Print Assumptions C15_row_skipped_iff_bad_cell.

Theorem C15_append_spec :
  forall (fl key : Type) nm col (t : tab fl key),
  length col = length (data t) ->
  exists t', append fl key false nm col t = Ok t'
    /\ samples t' = samples t /\ names t' = names t ++ [nm]
    /\ length (data t') = length (data t)
    /\ forall i row v, nth_error (data t) i = Some row -> nth_error col i = Some v ->
                       nth_error (data t') i = Some (row ++ [v]).
Proof. exact append_spec_lemma. Qed.
Print Assumptions C15_append_spec.

(* subsetting returns the requested (and present) samples in the requested order,
   each with the row stored under that sample *)
Theorem C15_subset_spec_samples :
  forall (fl key : Type) (key_eqb : key -> key -> bool) (d0 : fl) (k0 : key) req (t t' : tab fl key),
  subset fl key key_eqb d0 k0 (Some req) None t = Ok t' ->
  names t' = names t
  /\ Forall2 (fun k s => exists i, index_of key key_eqb k (samples t) 0 = Some i /\ s = nth i (samples t) k0)
             (filter (present key key_eqb (samples t)) req) (samples t')
  /\ Forall2 (fun k row => exists i, index_of key key_eqb k (samples t) 0 = Some i /\ row = nth i (data t) [])
             (filter (present key key_eqb (samples t)) req) (data t').
Proof. exact subset_samples_spec. Qed.
Print Assumptions C15_subset_spec_samples.

Theorem C15_subset_spec_names :
  forall (fl key : Type) (key_eqb : key -> key -> bool) (d0 : fl) (k0 : key) req (t t' : tab fl key),
  subset fl key key_eqb d0 k0 None (Some req) t = Ok t' ->
  samples t' = samples t
  /\ Forall2 (fun k n => exists i, index_of key key_eqb k (names t) 0 = Some i /\ n = nth i (names t) k0)
             (filter (present key key_eqb (names t)) req) (names t')
  /\ Forall2 (fun row row' =>
        Forall2 (fun k x => exists i, index_of key key_eqb k (names t) 0 = Some i /\ x = nth i row d0)
                (filter (present key key_eqb (names t)) req) row')
      (data t) (data t').
Proof. exact subset_names_spec. Qed.
Print Assumptions C15_subset_spec_names.

(* index_of finds the first position holding the key; None iff the key is absent *)
Theorem C15_index_of_first :
  forall (key : Type) (key_eqb : key -> key -> bool),
  (forall a b, key_eqb a b = true <-> a = b) ->
  forall k l s i, index_of key key_eqb k l s = Some i ->
  (s <= i)%nat /\ nth_error l (i - s) = Some k /\ forall j, (j < i - s)%nat -> nth_error l j <> Some k.
Proof. exact index_of_spec. Qed.
Print Assumptions C15_index_of_first.

Theorem C15_index_of_absent :
  forall (key : Type) (key_eqb : key -> key -> bool),
  (forall a b, key_eqb a b = true <-> a = b) ->
  forall k l s, index_of key key_eqb k l s = None <-> ~ In k l.
Proof. exact index_of_none. Qed.
Print Assumptions C15_index_of_absent.

(* check_missing raises iff some sample holds -9 and discarding was not asked;
   with discarding it keeps exactly the (sample, row) pairs without -9, in order *)
Theorem C15_check_missing_spec :
  forall (fl key : Type) (is9 : fl -> bool) discard (t : tab fl key),
  let holding := existsb (row_missing fl is9) (data t) in
  match check_missing fl key is9 discard t with
  | Err _ => holding = true /\ discard = false
  | Ok t' =>
      names t' = names t
      /\ (holding = false -> t' = t)
      /\ (holding = true -> discard = true
          /\ combine (samples t') (data t')
             = filter (fun '(s, row) => negb (row_missing fl is9 row)) (combine (samples t) (data t)))
  end.
Proof. exact check_missing_spec_lemma. Qed.
Print Assumptions C15_check_missing_spec.

(* soundness of the boolean name check evaluated on the implementation's header *)
Theorem C15_names_check_sound : forall inp out,
  names_unique_ok inp out = true ->
  length inp = length out /\ NoDup out /\ (NoDup inp -> out = inp).
Proof. exact names_unique_ok_sound. Qed.
Print Assumptions C15_names_check_sound.
