(* C15 - property theorems only. *)
From HV Require Import Prelude Stats C15_Model C15_Check C15_Proofs C15_SeqModel C15_SeqCheck C15_SeqProofs.

(* Column names written by Phenotypes.write (after the fix) are pairwise distinct,
   as many as the input names, each the input name itself or that name with a
   "-<number>" suffix, and unchanged when the input names were already distinct. *)
Theorem C15_unique_names_nodup : forall names,
  NoDup (unique_names names)
  /\ length (unique_names names) = length names
  /\ Forall2 derived_from names (unique_names names)
  /\ (NoDup names -> unique_names names = names).
Proof. exact unique_names_nodup_lemma. Qed.
Print Assumptions C15_unique_names_nodup.

(* the suffix renderer (Python's str(int)) is injective: no contract needed *)
Theorem C15_dec_injective : forall a b, dec a = dec b -> a = b.
Proof. exact dec_inj. Qed.
Print Assumptions C15_dec_injective.

(* the pinned algorithm collides on (a, a, a-1); the repaired one does not *)
Example C15_legacy_suffix_collision_refuted :
  legacy_unique_names [a_; a_; suffixed a_ 1] = [a_; suffixed a_ 1; suffixed a_ 1]
  /\ ~ NoDup (legacy_unique_names [a_; a_; suffixed a_ 1])
  /\ unique_names [a_; a_; suffixed a_ 1] = [a_; suffixed a_ 1; suffixed (suffixed a_ 1) 1].
Proof. exact legacy_suffix_collision_refuted_lemma. Qed.
Print Assumptions C15_legacy_suffix_collision_refuted.

(* write then read, for every codec with parse (fmt x) = Some x: the same samples,
   the suffixed names, the same cells, no error message *)
Theorem C15_pheno_roundtrip :
  forall (tok fl : Type) (text : tok -> list Z) (parse : tok -> option fl)
         (fmt : fl -> tok) (word : list Z -> tok),
  (forall x, parse (fmt x) = Some x) -> (forall s, text (word s) = s) ->
  forall t : table fl,
  length (t_samples t) = length (t_data t) -> t_data t <> [] -> t_names t <> [] ->
  rectangular (t_data t) = true ->
  pheno_read tok fl text parse None (pheno_write tok fl fmt word t)
  = Ok (mkt (t_samples t) (unique_names (t_names t)) (t_data t), 0).
Proof. exact pheno_roundtrip_lemma. Qed.
Print Assumptions C15_pheno_roundtrip.

(* the codec contract of C15_pheno_roundtrip is satisfiable (the instance the
   correspondence evaluates: a field is its text plus the float64 it denotes) *)
Example C15_codec_contract_inhabited :
  (forall x, cparse (cfmt x) = Some x) /\ (forall s, ctext (cword s) = s).
Proof. split; reflexivity. Qed.
Print Assumptions C15_codec_contract_inhabited.

(* row skipping never shifts other rows or columns: for every file body without
   blank lines and every sample filter, the records are exactly the selected rows
   whose cells all parse - in file order, each with its own first field - and one
   error is reported per skipped row ... *)
Theorem C15_row_skipping_exact :
  forall (tok fl : Type) (text : tok -> list Z) (parse : tok -> option fl) sel ls,
  (forall l, In l ls -> l <> []) ->
  iterate tok fl text parse sel ls =
    Ok (somes (map (row_rec tok fl text parse) (filter (row_sel tok text sel) ls)),
        nones (map (row_rec tok fl text parse) (filter (row_sel tok text sel) ls))).
Proof. exact iterate_spec. Qed.
Print Assumptions C15_row_skipping_exact.

(* the whole reader: any number of leading comment lines is skipped, the names come
   from the header, the records are the selected numeric rows of the body *)
Theorem C15_read_spec :
  forall (tok fl : Type) (text : tok -> list Z) (parse : tok -> option fl) sel comments header body,
  Forall (fun l => comment_line tok text l = true) comments ->
  comment_line tok text header = false -> (2 <= length header)%nat ->
  (forall l, In l body -> l <> []) ->
  let recs := somes (map (row_rec tok fl text parse) (filter (row_sel tok text sel) body)) in
  recs <> [] -> rectangular (map snd recs) = true ->
  pheno_read tok fl text parse sel (comments ++ header :: body)
  = Ok (mkt (map fst recs) (map text (tl header)) (map snd recs),
        nones (map (row_rec tok fl text parse) (filter (row_sel tok text sel) body))).
Proof. exact pheno_read_spec. Qed.
Print Assumptions C15_read_spec.

(* ... and within a kept row, value j is the parse of cell j *)
Theorem C15_cells_keep_their_columns :
  forall (tok fl : Type) (parse : tok -> option fl) cs vs,
  parse_cells tok fl parse cs = Some vs <-> map parse cs = map Some vs.
Proof. exact parse_cells_spec. Qed.
Print Assumptions C15_cells_keep_their_columns.

Theorem C15_row_skipped_iff_bad_cell :
  forall (tok fl : Type) (parse : tok -> option fl) cs,
  parse_cells tok fl parse cs = None <-> exists c, In c cs /\ parse c = None.
Proof. exact parse_cells_none. Qed.
Print Assumptions C15_row_skipped_iff_bad_cell.

Theorem C15_append_spec :
  forall (fl key : Type) nm col (t : tab fl key),
  length col = length (data t) ->
  exists t', append fl key false nm col t = Ok t'
    /\ samples t' = samples t /\ names t' = names t ++ [nm]
    /\ length (data t') = length (data t)
    /\ forall i row v, nth_error (data t) i = Some row -> nth_error col i = Some v ->
                       nth_error (data t') i = Some (row ++ [v]).
Proof. exact append_spec_lemma. Qed.
Print Assumptions C15_append_spec.

(* subsetting returns the requested (and present) samples in the requested order,
   each with the row stored under that sample *)
Theorem C15_subset_spec_samples :
  forall (fl key : Type) (key_eqb : key -> key -> bool) (d0 : fl) (k0 : key) req (t t' : tab fl key),
  subset fl key key_eqb d0 k0 (Some req) None t = Ok t' ->
  names t' = names t
  /\ Forall2 (fun k s => exists i, index_of key key_eqb k (samples t) 0 = Some i /\ s = nth i (samples t) k0)
             (filter (present key key_eqb (samples t)) req) (samples t')
  /\ Forall2 (fun k row => exists i, index_of key key_eqb k (samples t) 0 = Some i /\ row = nth i (data t) [])
             (filter (present key key_eqb (samples t)) req) (data t').
Proof. exact subset_samples_spec. Qed.
Print Assumptions C15_subset_spec_samples.

Theorem C15_subset_spec_names :
  forall (fl key : Type) (key_eqb : key -> key -> bool) (d0 : fl) (k0 : key) req (t t' : tab fl key),
  subset fl key key_eqb d0 k0 None (Some req) t = Ok t' ->
  samples t' = samples t
  /\ Forall2 (fun k n => exists i, index_of key key_eqb k (names t) 0 = Some i /\ n = nth i (names t) k0)
             (filter (present key key_eqb (names t)) req) (names t')
  /\ Forall2 (fun row row' =>
        Forall2 (fun k x => exists i, index_of key key_eqb k (names t) 0 = Some i /\ x = nth i row d0)
                (filter (present key key_eqb (names t)) req) row')
      (data t) (data t').
Proof. exact subset_names_spec. Qed.
Print Assumptions C15_subset_spec_names.

(* index_of finds the first position holding the key; None iff the key is absent *)
Theorem C15_index_of_first :
  forall (key : Type) (key_eqb : key -> key -> bool),
  (forall a b, key_eqb a b = true <-> a = b) ->
  forall k l s i, index_of key key_eqb k l s = Some i ->
  (s <= i)%nat /\ nth_error l (i - s) = Some k /\ forall j, (j < i - s)%nat -> nth_error l j <> Some k.
Proof. exact index_of_spec. Qed.
Print Assumptions C15_index_of_first.

Theorem C15_index_of_absent :
  forall (key : Type) (key_eqb : key -> key -> bool),
  (forall a b, key_eqb a b = true <-> a = b) ->
  forall k l s, index_of key key_eqb k l s = None <-> ~ In k l.
Proof. exact index_of_none. Qed.
Print Assumptions C15_index_of_absent.

(* check_missing raises iff some sample holds -9 and discarding was not asked;
   with discarding it keeps exactly the (sample, row) pairs without -9, in order *)
Theorem C15_check_missing_spec :
  forall (fl key : Type) (is9 : fl -> bool) discard (t : tab fl key),
  let holding := existsb (row_missing fl is9) (data t) in
  match check_missing fl key is9 discard t with
  | Err _ => holding = true /\ discard = false
  | Ok t' =>
      names t' = names t
      /\ (holding = false -> t' = t)
      /\ (holding = true -> discard = true
          /\ combine (samples t') (data t')
             = filter (fun '(s, row) => negb (row_missing fl is9 row)) (combine (samples t) (data t)))
  end.
Proof. exact check_missing_spec_lemma. Qed.
Print Assumptions C15_check_missing_spec.

(* soundness of the boolean name check evaluated on the implementation's header *)
Theorem C15_names_check_sound : forall inp out,
  names_unique_ok inp out = true ->
  length inp = length out /\ NoDup out /\ (NoDup inp -> out = inp).
Proof. exact names_unique_ok_sound. Qed.
Print Assumptions C15_names_check_sound.

(* ======================================================================================
   Table operations applied one after the other to the same object (C15_SeqModel).
   ====================================================================================== *)

(* subset, both axes at once: the result lists the requested ids the table holds, in the
   requested order, and cell (s, n) of the result is the cell stored at the first position
   holding s resp. n ([idx], see C15_index_of_first); an axis that is not requested is
   returned as it is *)
Theorem C15_subset_exact :
  forall (fl key : Type) (key_eqb : key -> key -> bool),
  (forall a b, key_eqb a b = true <-> a = b) ->
  forall (d0 : fl) (k0 : key) (rs rn : option (list key)) (t t' : tab fl key),
  subset fl key key_eqb d0 k0 rs rn t = Ok t' ->
  samples t' = sel key key_eqb rs (samples t) /\ names t' = sel key key_eqb rn (names t)
  /\ data t' = map (cols_sel fl key key_eqb d0 rn t) (rows_sel fl key key_eqb rs t).
Proof. exact subset_exact_lemma. Qed.
Print Assumptions C15_subset_exact.

(* samples and names together = the composition of the single-axis subsets
   (C15_subset_spec_samples, C15_subset_spec_names), errors included *)
Theorem C15_subset_two_axes :
  forall (fl key : Type) (key_eqb : key -> key -> bool) (d0 : fl) (k0 : key)
         (rs rn : option (list key)) (t : tab fl key),
  subset fl key key_eqb d0 k0 rs rn t
  = bind (subset fl key key_eqb d0 k0 rs None t) (subset fl key key_eqb d0 k0 None rn).
Proof. exact subset_two_axes_lemma. Qed.
Print Assumptions C15_subset_two_axes.

(* the branches of subset: ids the table does not hold are ignored ... *)
Theorem C15_subset_unknown_ignored :
  forall (fl key : Type) (key_eqb : key -> key -> bool) (d0 : fl) (k0 : key)
         (rs rn : list key) (t : tab fl key),
  subset fl key key_eqb d0 k0 (Some rs) (Some rn) t
  = subset fl key key_eqb d0 k0 (Some (filter (present key key_eqb (samples t)) rs))
                                (Some (filter (present key key_eqb (names t)) rn)) t.
Proof. exact subset_unknown_ignored_lemma. Qed.
Print Assumptions C15_subset_unknown_ignored.

(* ... a request naming only unknown samples returns no row ... *)
Theorem C15_subset_all_unknown :
  forall (fl key : Type) (key_eqb : key -> key -> bool),
  (forall a b, key_eqb a b = true <-> a = b) ->
  forall (d0 : fl) (k0 : key) (req : list key) (t : tab fl key),
  has_dup key key_eqb (samples t) = false -> (forall k, In k req -> ~ In k (samples t)) ->
  subset fl key key_eqb d0 k0 (Some req) None t = Ok (mktab [] (names t) []).
Proof. exact subset_all_unknown_lemma. Qed.
Print Assumptions C15_subset_all_unknown.

(* ... and it raises ValueError exactly when a requested axis holds an id twice *)
Theorem C15_subset_raises_iff_duplicate_ids :
  forall (fl key : Type) (key_eqb : key -> key -> bool) (d0 : fl) (k0 : key)
         (rs rn : option (list key)) (t : tab fl key),
  if dup_axis fl key key_eqb (is_some rs) (is_some rn) t
  then subset fl key key_eqb d0 k0 rs rn t = Err E_Value
  else exists t', subset fl key key_eqb d0 k0 rs rn t = Ok t'.
Proof. exact subset_result. Qed.
Print Assumptions C15_subset_raises_iff_duplicate_ids.

Theorem C15_has_dup_iff_not_NoDup :
  forall (key : Type) (key_eqb : key -> key -> bool),
  (forall a b, key_eqb a b = true <-> a = b) ->
  forall l, has_dup key key_eqb l = false <-> NoDup l.
Proof. exact has_dup_NoDup. Qed.
Print Assumptions C15_has_dup_iff_not_NoDup.

(* append with a column of the wrong length raises ValueError (and C15_append_spec is the other branch) *)
Theorem C15_append_wrong_length :
  forall (fl key : Type) nm col (t : tab fl key),
  length col <> length (data t) -> append fl key false nm col t = Err E_Value.
Proof. exact append_mismatch. Qed.
Print Assumptions C15_append_wrong_length.

(* SEQUENCES.  The k-th observation of a run is the k-th operation applied to the table the
   object holds after the first k operations - nothing else of the history enters *)
Theorem C15_seq_step_depends_on_current_table_only :
  forall (fl key : Type) (key_eqb : key -> key -> bool) (d0 : fl) (k0 : key) (is9 : fl -> bool)
         (uniq : list key -> list key) (os : list (sop fl key)) (t : tab fl key) (k : nat),
  nth_error (run fl key key_eqb d0 k0 is9 uniq os t) k
  = option_map (fun o => gstep fl key key_eqb d0 k0 is9 uniq o
                           (after fl key key_eqb d0 k0 is9 uniq (firstn k os) t))
               (nth_error os k).
Proof. exact run_nth_lemma. Qed.
Print Assumptions C15_seq_step_depends_on_current_table_only.

(* every table the object holds, and every table a call returns, is rectangular with one
   sample per row - after any sequence of operations, for any outputs of standardize *)
Theorem C15_seq_tables_stay_rectangular :
  forall (fl key : Type) (key_eqb : key -> key -> bool),
  (forall a b, key_eqb a b = true <-> a = b) ->
  forall (d0 : fl) (k0 : key) (is9 : fl -> bool) (uniq : list key -> list key),
  (forall l, length (uniq l) = length l) ->
  forall (os : list (sop fl key)) (t : tab fl key),
  wf fl key t ->
  Forall (fun x => wf fl key (snd x) /\ forall t', fst x = Ok t' -> wf fl key t')
         (run fl key key_eqb d0 k0 is9 uniq os t).
Proof. exact run_wf_lemma. Qed.
Print Assumptions C15_seq_tables_stay_rectangular.

(* for every operation list and every position of a subset in it: the call returns exactly the
   requested (and held) rows and columns of the table the object holds AT THAT MOMENT, in
   request order; in place, that is the object's table from then on *)
Theorem C15_seq_subset_exact :
  forall (fl key : Type) (key_eqb : key -> key -> bool),
  (forall a b, key_eqb a b = true <-> a = b) ->
  forall (d0 : fl) (k0 : key) (is9 : fl -> bool) (uniq : list key -> list key)
         (os : list (sop fl key)) (t0 : tab fl key) (k : nat) (rs rn : option (list key)) (ip : bool),
  nth_error os k = Some (SSubset rs rn ip) ->
  let t := after fl key key_eqb d0 k0 is9 uniq (firstn k os) t0 in
  skipped fl key key_eqb (SSubset rs rn ip) t = false ->
  exists t', nth_error (run fl key key_eqb d0 k0 is9 uniq os t0) k = Some (Ok t', if ip then t' else t)
    /\ samples t' = sel key key_eqb rs (samples t) /\ names t' = sel key key_eqb rn (names t)
    /\ data t' = map (cols_sel fl key key_eqb d0 rn t) (rows_sel fl key key_eqb rs t).
Proof. exact seq_subset_exact_lemma. Qed.
Print Assumptions C15_seq_subset_exact.

(* ... and every check_missing(discard_also=True) in it keeps exactly the (sample, row) pairs of
   the current table whose row holds no -9, in order *)
Theorem C15_seq_missing_exact :
  forall (fl key : Type) (key_eqb : key -> key -> bool),
  (forall a b, key_eqb a b = true <-> a = b) ->
  forall (d0 : fl) (k0 : key) (is9 : fl -> bool) (uniq : list key -> list key),
  (forall l, length (uniq l) = length l) ->
  forall (os : list (sop fl key)) (t0 : tab fl key) (k : nat),
  nth_error os k = Some (SMissing true) ->
  let t := after fl key key_eqb d0 k0 is9 uniq (firstn k os) t0 in
  wf fl key t0 ->
  exists t', nth_error (run fl key key_eqb d0 k0 is9 uniq os t0) k = Some (Ok t', t')
    /\ names t' = names t
    /\ combine (samples t') (data t')
       = filter (fun '(_, row) => negb (row_missing fl is9 row)) (combine (samples t) (data t)).
Proof. exact seq_missing_exact_lemma. Qed.
Print Assumptions C15_seq_missing_exact.

(* a sample whose row holds -9 when check_missing(discard_also=True) runs is gone for good:
   whatever was done before and whatever is done afterwards, the object does not list it, no
   look-up resolves it, and no subset returns it *)
Theorem C15_seq_removed_sample_never_resolves :
  forall (fl key : Type) (key_eqb : key -> key -> bool),
  (forall a b, key_eqb a b = true <-> a = b) ->
  forall (d0 : fl) (k0 : key) (is9 : fl -> bool) (uniq : list key -> list key)
         (pre post : list (sop fl key)) (t0 : tab fl key) (s : key) (row : list fl),
  let t := after fl key key_eqb d0 k0 is9 uniq pre t0 in
  length (samples t) = length (data t) -> NoDup (samples t) ->
  In (s, row) (combine (samples t) (data t)) -> row_missing fl is9 row = true ->
  let t2 := after fl key key_eqb d0 k0 is9 uniq (pre ++ SMissing true :: post) t0 in
  ~ In s (samples t2)
  /\ index_of key key_eqb s (samples t2) 0 = None
  /\ forall req rn r, subset fl key key_eqb d0 k0 (Some req) rn t2 = Ok r -> ~ In s (samples r).
Proof. exact removed_never_resolves_lemma. Qed.
Print Assumptions C15_seq_removed_sample_never_resolves.

(* a sample whose row holds no -9 stays, with its row *)
Theorem C15_missing_keeps_complete_samples :
  forall (fl key : Type) (is9 : fl -> bool) (t t' : tab fl key) s row,
  length (samples t) = length (data t) ->
  check_missing fl key is9 true t = Ok t' ->
  In (s, row) (combine (samples t) (data t)) -> row_missing fl is9 row = false ->
  In (s, row) (combine (samples t') (data t')).
Proof. exact missing_keeps_lemma. Qed.
Print Assumptions C15_missing_keeps_complete_samples.

(* no operation ever adds a sample *)
Theorem C15_seq_samples_never_grow :
  forall (fl key : Type) (key_eqb : key -> key -> bool),
  (forall a b, key_eqb a b = true <-> a = b) ->
  forall (d0 : fl) (k0 : key) (is9 : fl -> bool) (uniq : list key -> list key)
         (os : list (sop fl key)) (t : tab fl key),
  incl (samples (after fl key key_eqb d0 k0 is9 uniq os t)) (samples t).
Proof. exact after_samples_incl_lemma. Qed.
Print Assumptions C15_seq_samples_never_grow.

(* the write+read step of the sequence model is the file round trip of C15_pheno_roundtrip *)
Theorem C15_write_read_is_roundtrip :
  forall (tok fl : Type) (text : tok -> list Z) (parse : tok -> option fl)
         (fmt : fl -> tok) (word : list Z -> tok),
  (forall x, parse (fmt x) = Some x) -> (forall s, text (word s) = s) ->
  forall t : tab fl name,
  wf fl name t -> samples t <> [] -> names t <> [] ->
  exists t', write_read fl name unique_names t = Ok t'
    /\ pheno_read tok fl text parse None
         (pheno_write tok fl fmt word (mkt (samples t) (names t) (data t)))
       = Ok (mkt (samples t') (names t') (data t'), 0).
Proof. exact write_read_is_roundtrip_lemma. Qed.
Print Assumptions C15_write_read_is_roundtrip.

(* soundness of the subset clause of the sequence checker: whenever the checker (association-list
   look-ups in the table observed before the step) computes an expected table, it is the table of
   C15_subset_exact; holds_step = true says the implementation returned it *)
Theorem C15_seq_checker_subset_sound :
  forall (rs rn : option (list name)) (ip : bool) (t e : ntab),
  nskipped (SSubset rs rn ip) t = false ->
  expect_subset rs rn t = Some e ->
  subset Z name name_eqb 0 nnil rs rn t = Ok e
  /\ samples e = sel name name_eqb rs (samples t) /\ names e = sel name name_eqb rn (names t)
  /\ data e = map (cols_sel Z name name_eqb 0 rn t) (rows_sel Z name name_eqb rs t).
Proof. exact expect_subset_sound_lemma. Qed.
Print Assumptions C15_seq_checker_subset_sound.

(* the hypotheses are satisfiable, and the boundary the sequence theorems are about: a look-up,
   a discard of a sample that is not the last one, a look-up of the samples behind it *)
Example C15_seq_lookup_discard_lookup :
  let s0 : name := [115; 48] in let s1 : name := [115; 49] in let s2 : name := [115; 50] in
  let p : name := [112] in
  let t0 : ntab := mktab [s0; s1; s2] [p] [[1]; [m9bits]; [3]] in
  wf Z name t0 /\ NoDup (samples t0)
  /\ map fst (nrun [SIndex true true; SMissing true; SSubset (Some [s2; s1; s0]) None false] t0)
     = [Ok t0; Ok (mktab [s0; s2] [p] [[1]; [3]]); Ok (mktab [s2; s0] [p] [[3]; [1]])].
Proof. exact seq_lookup_discard_lookup_example. Qed.
Print Assumptions C15_seq_lookup_discard_lookup.

(* ======================================================================================
   standardize: the exact model, what the checkers' (deviation, variance) pair means, and
   soundness of the two standardize checkers (C15_Std).  The theorems that mention real
   numbers depend on the three axioms of Coq's Reals library (c15.py ALLOWED_AXIOMS), the
   others are closed.
   ====================================================================================== *)
From HV Require Import StatsR C15_Std.
From Coq Require Import QArith Qabs Reals Qreals.
Open Scope Z_scope.

(* exact rationals: the deviations of a non-empty column sum to 0 ... *)
Theorem C15_qdev_sum_zero : forall l : list Q, l <> [] -> (qsum (qdev l) == 0)%Q.
Proof. exact qdev_sum_zero_lemma. Qed.
Print Assumptions C15_qdev_sum_zero.

(* ... their squares sum to n * var ... *)
Theorem C15_qvar_is_mean_square_deviation : forall l : list Q, l <> [] ->
  (qsum (map qsq (qdev l)) == qlen l * qvar l)%Q.
Proof. exact qvar_sum_sq_lemma. Qed.
Print Assumptions C15_qvar_is_mean_square_deviation.

(* ... and deviation i belongs to cell i (nothing is reordered or dropped) *)
Theorem C15_qdev_cellwise : forall (l : list Q) (i : nat), (i < length l)%nat ->
  length (qdev l) = length l /\ (nth i (qdev l) 0 == nth i l 0 - qmean l)%Q.
Proof. exact qdev_cellwise_lemma. Qed.
Print Assumptions C15_qdev_cellwise.

(* a constant column has variance exactly 0 over Q (the float variance need not be 0: corpus
   standardize_constant) and its model is all zeros *)
Theorem C15_constant_column_variance_zero : forall (c : Q) (l : list Q),
  (forall x, In x l -> (x == c)%Q) ->
  (qvar l == 0)%Q /\ qstandardize l = map (fun _ => (0%Q, 1%Q)) l.
Proof. exact constant_column_variance_zero_lemma. Qed.
Print Assumptions C15_constant_column_variance_zero.

(* the exact model (cells dev_i / sqrt var in Q(sqrt var)) denotes the real-number
   standardisation of StatsR - the function C09_standardize_mean0_var1 is about - for EVERY
   rational column ... *)
Theorem C15_qstandardize_denotes_rstandardize : forall l : list Q,
  map denote (qstandardize l) = rstandardize (map Q2R l).
Proof. exact qstandardize_denotes_lemma. Qed.
Print Assumptions C15_qstandardize_denotes_rstandardize.

(* ... so a column with positive variance is standardised to mean 0 and variance 1 ... *)
Theorem C15_qstandardize_mean0_var1 : forall l : list Q,
  (0 < qvar l)%Q ->
  rmean (map denote (qstandardize l)) = 0%R /\ rvar (map denote (qstandardize l)) = 1%R.
Proof. exact qstandardize_mean0_var1_lemma. Qed.
Print Assumptions C15_qstandardize_mean0_var1.

(* ... and a constant one to all zeros *)
Theorem C15_qstandardize_constant_zero : forall (c : Q) (l : list Q),
  (forall x, In x l -> (x == c)%Q) -> map denote (qstandardize l) = map (fun _ => 0%R) l.
Proof. exact qstandardize_constant_zero_lemma. Qed.
Print Assumptions C15_qstandardize_constant_zero.

(* the pair (dev, var) the checkers compare with characterises the standardised column: ANY real
   column z with z_i^2 var = dev_i^2 and sign z_i = sign dev_i is the model column, is
   rstandardize of the input, and has mean 0 and variance 1 *)
Theorem C15_zcheck_exact_characterises : forall (l : list Q) (zs : list R),
  (0 < qvar l)%Q ->
  Forall2 (fun d z => (z * z * Q2R (qvar l) = Q2R d * Q2R d /\ (0 <= z <-> 0 <= Q2R d))%R) (qdev l) zs ->
  zs = map denote (qstandardize l) /\ zs = rstandardize (map Q2R l)
  /\ rmean zs = 0%R /\ rvar zs = 1%R.
Proof. exact zcheck_exact_characterises_lemma. Qed.
Print Assumptions C15_zcheck_exact_characterises.

(* its hypotheses are satisfiable: the column (0, 1) and z = (-1, 1) *)
Example C15_zcheck_exact_satisfiable :
  (0 < qvar [0%Q; 1%Q])%Q
  /\ Forall2 (fun d z => (z * z * Q2R (qvar [0%Q; 1%Q]) = Q2R d * Q2R d /\ (0 <= z <-> 0 <= Q2R d))%R)
             (qdev [0%Q; 1%Q]) [(-1)%R; 1%R].
Proof. exact zcheck_exact_satisfiable_example. Qed.
Print Assumptions C15_zcheck_exact_satisfiable.

(* the toleranced cell check spelled out over Q ... *)
Theorem C15_zcheck_meaning : forall v d z : Q, zcheck v d z = true ->
  (Qabs (qsq z * v - qsq d) <= tol9 * (qsq d + v))%Q
  /\ ((qsq d <= tol9 * v)%Q \/ qsgn z = qsgn d).
Proof. exact zcheck_meaning_lemma. Qed.
Print Assumptions C15_zcheck_meaning.

(* ... and against the model cell w = dev / sqrt var over the reals: |z^2 - w^2| <= 1e-9 (w^2 + 1) *)
Theorem C15_zcheck_real_meaning : forall v d z : Q, (0 < v)%Q -> zcheck v d z = true ->
  (Rabs (Q2R z * Q2R z - denote (d, v) * denote (d, v)) <= Q2R tol9 * (denote (d, v) * denote (d, v) + 1))%R.
Proof. exact zcheck_real_meaning_lemma. Qed.
Print Assumptions C15_zcheck_real_meaning.

(* soundness of `holds` of the relation standardize (and of the standardize step of opseq) *)
Theorem C15_standardize_holds_sound : forall (xs zs : list Z) (qx : list Q),
  column_prop_ok xs zs = true -> map bits2q xs = map Some qx ->
  (qx <> [] -> constq qx = true ->
     Forall (fun b => exists q, bits2q b = Some q /\ (q == 0)%Q) zs)
  /\ (constq qx = false -> well_cond qx = true ->
      exists qz, map bits2q zs = map Some qz /\ length qz = length qx
                 /\ (Qabs (qmean qz - 0) <= tol9 * 1)%Q /\ (Qabs (qvar qz - 1) <= tol9 * 1)%Q).
Proof. exact column_prop_ok_sound_lemma. Qed.
Print Assumptions C15_standardize_holds_sound.

(* soundness of `agree` of the relation standardize (the exact model, cell by cell) *)
Theorem C15_standardize_agree_sound : forall xs zs : list Z,
  column_model_ok xs zs = true ->
  length xs = length zs
  /\ (constant_col xs = true -> Forall (fun b => b = 0) zs)
  /\ (constant_col xs = false -> forall qx, map bits2q xs = map Some qx -> well_cond qx = true ->
        exists qz, map bits2q zs = map Some qz
                   /\ Forall2 (fun d z => zcheck (qvar qx) d z = true) (qdev qx) qz).
Proof. exact column_model_ok_sound_lemma. Qed.
Print Assumptions C15_standardize_agree_sound.

(* ======================================================================================
   the suffix counter on many duplicates; the compact literals of the correspondence
   ====================================================================================== *)

(* n + 1 columns with the same name are written as name, name-1, ..., name-n (any n: the
   counter's decimal width changes at 10, 100, 1000 without collision) *)
Theorem C15_unique_names_many_duplicates : forall (a : name) (n : nat),
  unique_names (repeat a (S n)) = a :: map (suffixed a) (zseq_nat 1 n).
Proof. exact unique_names_repeat_lemma. Qed.
Print Assumptions C15_unique_names_many_duplicates.

Example C15_suffix_counter_two_digits :
  unique_names (repeat a_ 11) = a_ :: map (suffixed a_) [1; 2; 3; 4; 5; 6; 7; 8; 9; 10]
  /\ unique_names (repeat a_ 11 ++ [a10]) = unique_names (repeat a_ 11) ++ [suffixed a10 1]
  /\ unique_names (a10 :: repeat a_ 11)
     = a10 :: a_ :: map (suffixed a_) [1; 2; 3; 4; 5; 6; 7; 8; 9; 11]
  /\ dec 10 = [49; 48] /\ dec 100 = [49; 48; 48].
Proof. exact suffix_counter_two_digits_example. Qed.
Print Assumptions C15_suffix_counter_two_digits.

(* what the generators used in long case literals denote *)
Theorem C15_zseq_spec : forall a n : Z, 0 <= n ->
  lenZ (zseq a n) = n /\ forall i, 0 <= i < n -> nthZ (zseq a n) i = Some (a + i).
Proof. exact zseq_spec_lemma. Qed.
Print Assumptions C15_zseq_spec.

Theorem C15_zrep_spec : forall v n : Z, zrep v n = repeat v (Z.to_nat n) /\ Forall (eq v) (zrep v n).
Proof. exact zrep_spec_lemma. Qed.
Print Assumptions C15_zrep_spec.

Theorem C15_gnames_spec : forall (p : name) (a n : Z),
  length (gnames p a n) = Z.to_nat n
  /\ forall i, (i < Z.to_nat n)%nat -> nth i (gnames p a n) [] = p ++ dec (a + Z.of_nat i).
Proof. exact gnames_spec_lemma. Qed.
Print Assumptions C15_gnames_spec.

Theorem C15_by_cols_spec : forall (n : Z) (cols : list (list Z)),
  Forall (fun c => length c = Z.to_nat n) cols ->
  length (by_cols n cols) = Z.to_nat n
  /\ forall i, (i < Z.to_nat n)%nat -> nth i (by_cols n cols) [] = map (fun c => nth i c 0) cols.
Proof. exact by_cols_spec_lemma. Qed.
Print Assumptions C15_by_cols_spec.

(* soundness of `holds` of the relation roundtrip: same samples in order; as many names, pairwise
   distinct, each the input name or that name followed by "-<digits>", unchanged if the input names
   were distinct; every cell bit-identical (all NaNs identified) *)
Theorem C15_roundtrip_holds_sound : forall c : rtcase, holds_rt c = true ->
  exists nm dt, rt_obs c = Ok (nm, rt_samples c, dt)
    /\ length nm = length (rt_names c) /\ NoDup nm /\ (NoDup (rt_names c) -> nm = rt_names c)
    /\ Forall2 (fun a b => derived a b = true) (rt_names c) nm
    /\ Forall2 (Forall2 same_bits) (rt_data c) dt.
Proof. exact holds_rt_sound_lemma. Qed.
Print Assumptions C15_roundtrip_holds_sound.
