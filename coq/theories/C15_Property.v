(* C15 - property theorems only. *)
From HV Require Import Prelude Stats C15_Model C15_Check C15_Proofs.
Theorem C15_placeholder : True. Proof. exact placeholder_true. Qed.
Print Assumptions C15_placeholder.
