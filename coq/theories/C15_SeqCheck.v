(* C15 - checkers for sequences of table operations (relation `opseq`) and the exact
   rational model of standardize.
   [agree]: the cache-free model C15_SeqModel.run predicts every observation of the
   sequence (what each call returned/raised and the object's full table after it), and
   every standardize output is the exact (deviation, variance) pair of the MODEL's
   current cells.  [holds]: each step, judged against the table the IMPLEMENTATION held
   just before it, does what the property says of that operation; written with
   association-list look-ups and filters, not with the model's positions. *)
From HV Require Import Prelude Stats C15_Model C15_Check C15_SeqModel.
Open Scope Z_scope.

(* -------- standardize: exact rational model and the property ----------------- *)

Definition zero_bits (b : Z) : bool := (b =? 0) || (b =? 2 ^ 63).
(* numpy's == on float64 bit patterns *)
Definition feq (a b : Z) : bool :=
  negb (bits_nan a) && negb (bits_nan b) && ((a =? b) || (zero_bits a && zero_bits b)).
(* np.all(data == data[:1], axis=0) *)
Definition constant_col (xs : list Z) : bool :=
  match xs with [] => true | x0 :: _ => forallb (feq x0) xs end.

Definition big : Q := inject_Z (10 ^ 100).
(* the clause's domain (ASSUMPTIONS): |mean| <= 1e3 sd, magnitudes whose squares neither
   overflow nor vanish *)
Definition well_cond (qx : list Q) : bool :=
  let v := qvar qx in
  Qle_bool (qsq (qmean qx)) (inject_Z 1000000 * v)
  && Qle_bool (Qinv big) v
  && forallb (fun x => Qle_bool (qsq x) (big * big)) qx.

(* the model: a constant column becomes +0.0; a column holding nan/inf becomes nan; otherwise
   cell i is dev_i / sqrt var, i.e. z^2 var = dev^2 with the sign of dev (exact rationals, 1e-9) *)
Definition column_model_ok (xs zs : list Z) : bool :=
  Nat.eqb (length xs) (length zs) &&
  if constant_col xs then forallb (fun b => b =? 0) zs
  else match all_some (map bits2q xs) with
       | None => forallb bits_nan zs
       | Some qx =>
           if well_cond qx then
             match all_some (map bits2q zs) with
             | Some qz => let v := qvar qx in forallb (fun '(d, z) => zcheck v d z) (combine (qdev qx) qz)
             | None => false
             end
           else true
       end.

(* the property, on the output alone: mean 0 and unit variance; all zeros if constant *)
Definition column_prop_ok (xs zs : list Z) : bool :=
  match all_some (map bits2q xs) with
  | None => true                      (* non-finite input: outside the clause *)
  | Some qx =>
      match qx with
      | [] => true
      | x0 :: _ =>
          if forallb (Qeq_bool x0) qx then forallb zero_bits zs
          else if well_cond qx then
            match all_some (map bits2q zs) with
            | Some qz => Nat.eqb (length qx) (length qz)
                         && qclose tol9 1 (qmean qz) 0 && qclose tol9 1 (qvar qz) 1
            | None => false
            end
          else true
      end
  end.

Definition st_table_ok (colchk : list Z -> list Z -> bool) (din dout : list (list Z)) : bool :=
  let m := match din with [] => O | r :: _ => length r end in
  Nat.eqb (length dout) (length din)
  && forallb (fun r => Nat.eqb (length r) m) dout
  && forallb (fun '(xs, zs) => colchk xs zs) (combine (transpose m din) (transpose m dout)).

(* relation `standardize`: agree = the exact model, holds = the property of the output *)
Definition agree_st (c : stcase) : bool :=
  match st_obs c with Err _ => false | Ok out => st_table_ok column_model_ok (st_data c) out end.
Definition holds_st2 (c : stcase) : bool :=
  match st_obs c with Err _ => false | Ok out => st_table_ok column_prop_ok (st_data c) out end.
Definition check_st2 (c : stcase) : bool * bool := (agree_st c, holds_st2 c).
Definition model_st2 (c : stcase) : list (list (option Q)) := model_st c.

(* -------- sequences ------------------------------------------------------------ *)

Definition ntab := tab Z name.
Definition nop := sop Z name.
Definition nnil : name := [].
Definition nskipped : nop -> ntab -> bool := skipped Z name name_eqb.
Definition ngstep : nop -> ntab -> res ntab * ntab := gstep Z name name_eqb 0 nnil is_m9 unique_names.
Definition nrun : list nop -> ntab -> list (res ntab * ntab) := run Z name name_eqb 0 nnil is_m9 unique_names.

Definition ntab_eqb (a b : ntab) : bool :=
  names_eqb (samples a) (samples b) && names_eqb (names a) (names b) && rows_eqb (data a) (data b).

Record seqcase := mksq {
  sq_t : ntab;                          (* the table the object is given *)
  sq_ops : list nop;                    (* SStandardize carries the cells observed after it *)
  sq_obs : list (res ntab * ntab)       (* per step: returned table / exception, the object's table after *)
}.

Fixpoint lookupN {A} (k : name) (l : list (name * A)) : option A :=
  match l with [] => None | (a, v) :: r => if name_eqb a k then Some v else lookupN k r end.
(* requested ids that the axis holds, in request order *)
Definition sel (req : option (list name)) (have : list name) : list name :=
  match req with None => have | Some r => filter (fun k => mem k have) r end.

(* subsetting, by look-ups in the current table *)
Definition expect_subset (rs rn : option (list name)) (t : ntab) : option ntab :=
  let rows := match rs with
              | None => Some (data t)
              | Some _ => all_some (map (fun s => lookupN s (combine (samples t) (data t))) (sel rs (samples t)))
              end in
  let cols := fun row : list Z =>
              match rn with
              | None => Some row
              | Some _ => all_some (map (fun n => lookupN n (combine (names t) row)) (sel rn (names t)))
              end in
  match rows with
  | None => None
  | Some rws => match all_some (map cols rws) with
                | None => None
                | Some d => Some (mktab (sel rs (samples t)) (sel rn (names t)) d)
                end
  end.

Definition row_has_m9 (row : list Z) : bool := existsb is_m9 row.

(* what the property says of one step, against the table [t] held before it *)
Definition holds_step (o : nop) (t : ntab) (ret : res ntab) (self' : ntab) : bool :=
  if nskipped o t then true else
  match o with
  | SIndex _ _ =>
      match ret with Ok _ => ntab_eqb self' t | Err _ => false end
  | SSubset rs rn ip =>
      match expect_subset rs rn t with
      | None => true                          (* table not rectangular: outside *)
      | Some e => match ret with
                  | Err _ => false
                  | Ok o' => ntab_eqb o' e && ntab_eqb self' (if ip then e else t)
                  end
      end
  | SAppend fit nm col =>
      let col' := if fit then firstn (length (samples t)) col else col in
      match ret with
      | Err _ => negb (Nat.eqb (length col') (length (data t)))
      | Ok o' =>
          names_eqb (samples o') (samples t) && names_eqb (names o') (names t ++ [nm])
          && rows_eqb (map (@removelast Z) (data o')) (data t)
          && list_eqb ocell_eqb (map (fun r => last_opt r) (data o')) (map Some col')
          && ntab_eqb self' o'
      end
  | SMissing d =>
      let bad := existsb row_has_m9 (data t) in
      match ret with
      | Err _ => bad && negb d
      | Ok o' =>
          ntab_eqb self' o'
          && (if negb bad then ntab_eqb o' t
              else d && names_eqb (names o') (names t)
                   && list_eqb (pair_eqb name_eqb (list_eqb bits_eqb)) (combine (samples o') (data o'))
                        (filter (fun '(_, row) => negb (row_has_m9 row)) (combine (samples t) (data t)))
                   && Nat.eqb (length (samples o')) (length (data o')))
      end
  | SStandardize _ =>
      match ret with
      | Err _ => false
      | Ok o' => names_eqb (samples o') (samples t) && names_eqb (names o') (names t)
                 && st_table_ok column_prop_ok (data t) (data o') && ntab_eqb self' o'
      end
  | SWriteRead =>
      match ret with
      | Err _ => false
      | Ok o' => names_unique_ok (names t) (names o') && names_eqb (samples o') (samples t)
                 && rows_eqb (data o') (data t) && ntab_eqb self' o'
      end
  end.

Fixpoint holds_walk (os : list nop) (obs : list (res ntab * ntab)) (t : ntab) : bool :=
  match os, obs with
  | o :: r, (ret, self') :: r' => holds_step o t ret self' && holds_walk r r' self'
  | _, _ => true
  end.
Definition holds_seq (c : seqcase) : bool := holds_walk (sq_ops c) (sq_obs c) (sq_t c).

(* every standardize output is the exact model of the MODEL's cells before it *)
Fixpoint st_agree (os : list nop) (t : ntab) : bool :=
  match os with
  | [] => true
  | o :: r =>
      (if nskipped o t then true else
       match o with SStandardize out => st_table_ok column_model_ok (data t) out | _ => true end)
      && st_agree r (snd (ngstep o t))
  end.

Definition model_seq (c : seqcase) : list (res ntab * ntab) := nrun (sq_ops c) (sq_t c).
Definition agree_seq (c : seqcase) : bool :=
  list_eqb (pair_eqb (res_eqb ntab_eqb) ntab_eqb) (model_seq c) (sq_obs c)
  && st_agree (sq_ops c) (sq_t c).

Definition check_seq (c : seqcase) : bool * bool := (agree_seq c, holds_seq c).
