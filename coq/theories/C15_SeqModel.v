(* C15 - model of SEQUENCES of table operations on one Phenotypes/Covariates object:
   index, subset (copy / in place), append, check_missing, standardize, write+read,
   applied one after the other.  The model keeps nothing but the table: every look-up
   is by the ids the table holds NOW (there is no cached sample/name index in it), so
   an implementation whose look-up tables go stale disagrees with it.  Uses the
   single-operation models of C15_Model (subset, append, check_missing).  No proofs. *)
From HV Require Import Prelude C15_Model.
Open Scope Z_scope.

Section Seq.
  Variable fl : Type.
  Variable key : Type.
  Variable key_eqb : key -> key -> bool.
  Variable d0 : fl.
  Variable k0 : key.
  Variable is_m9 : fl -> bool.            (* cell == -9 *)
  Variable uniq : list key -> list key.   (* Phenotypes.write's name suffixing (unique_names) *)

  Notation tab := (tab fl key).
  Notation has_dup := (has_dup key key_eqb).

  (* index(samples, names): raises on duplicate ids of a requested axis; nothing else observable *)
  Definition dup_axis (s n : bool) (t : tab) : bool :=
    (s && has_dup (samples t)) || (n && has_dup (names t)).
  Definition index (s n : bool) (t : tab) : res tab :=
    if dup_axis s n t then Err E_Value else Ok t.

  (* standardize: the cells are replaced, ids and shape stay.  The new cells are an argument
     of the operation (float results are not computed by this model; what they have to be is
     C15_SeqCheck.column_model_ok: the exact rational (deviation, variance) pair) *)
  Definition shape_ok (t : tab) (out : list (list fl)) : bool :=
    Nat.eqb (length out) (length (data t))
    && forallb (fun '(r, o) => Nat.eqb (length o) (length r)) (combine (data t) out).
  Definition standardize (out : list (list fl)) (t : tab) : res tab :=
    if shape_ok t out then Ok (mktab (samples t) (names t) out) else Err E_Unobserved.

  (* write() then read() on the same object (>= 1 sample, >= 1 column): the names come back
     as written, samples and cells unchanged (C15_pheno_roundtrip / C15_write_read_is_roundtrip) *)
  Definition is_nil {A} (l : list A) : bool := match l with [] => true | _ => false end.
  Definition write_read (t : tab) : res tab :=
    if is_nil (samples t) || is_nil (names t) then Err E_Value
    else Ok (mktab (samples t) (uniq (names t)) (data t)).

  Inductive sop :=
  | SIndex (s n : bool)
  | SSubset (rs rn : option (list key)) (inplace : bool)
  | SAppend (fit : bool) (nm : key) (col : list fl)   (* fit: append(nm, col[:len(samples)]) *)
  | SMissing (discard : bool)
  | SStandardize (out : list (list fl))
  | SWriteRead.

  Definition upd (r : res tab) (t : tab) : res tab * tab :=
    (r, match r with Ok t' => t' | Err _ => t end).
  Definition is_some {A} (o : option A) : bool := match o with Some _ => true | None => false end.

  (* [step o t] = (what the call returned or raised, the object's table afterwards) *)
  Definition step (o : sop) (t : tab) : res tab * tab :=
    match o with
    | SIndex s n => (index s n t, t)
    | SSubset rs rn ip =>
        let r := subset fl key key_eqb d0 k0 rs rn t in if ip then upd r t else (r, t)
    | SAppend fit nm col =>
        upd (append fl key false nm (if fit then firstn (length (samples t)) col else col) t) t
    | SMissing d => upd (check_missing fl key is_m9 d t) t
    | SStandardize out => upd (standardize out t) t
    | SWriteRead => upd (write_read t) t
    end.

  (* calls the sequence relation does not make (the step is then a no-op): a look-up on an axis
     that currently holds duplicate ids, write+read of a table without rows or without columns *)
  Definition skipped (o : sop) (t : tab) : bool :=
    match o with
    | SIndex s n => dup_axis s n t
    | SSubset rs rn _ => dup_axis (is_some rs) (is_some rn) t
    | SWriteRead => is_nil (samples t) || is_nil (names t)
    | _ => false
    end.
  Definition gstep (o : sop) (t : tab) : res tab * tab :=
    if skipped o t then (Ok t, t) else step o t.

  Fixpoint run (os : list sop) (t : tab) : list (res tab * tab) :=
    match os with
    | [] => []
    | o :: r => let x := gstep o t in x :: run r (snd x)
    end.
  (* the object's table after a sequence *)
  Definition after (os : list sop) (t : tab) : tab :=
    fold_left (fun t o => snd (gstep o t)) os t.
End Seq.

Arguments SIndex {fl key}.
Arguments SSubset {fl key}.
Arguments SAppend {fl key}.
Arguments SMissing {fl key}.
Arguments SStandardize {fl key}.
Arguments SWriteRead {fl key}.
