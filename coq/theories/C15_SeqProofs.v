(* C15 - proofs about the sequence model (C15_SeqModel) and its checkers (C15_SeqCheck). *)
From HV Require Import Prelude Stats C15_Model C15_Check C15_Proofs C15_SeqModel C15_SeqCheck.
Open Scope Z_scope.

Section SeqProofs.
  Variable fl : Type.
  Variable key : Type.
  Variable key_eqb : key -> key -> bool.
  Hypothesis key_eqb_eq : forall a b, key_eqb a b = true <-> a = b.
  Variable d0 : fl.
  Variable k0 : key.
  Variable is9 : fl -> bool.
  Variable uniq : list key -> list key.
  Hypothesis uniq_length : forall l, length (uniq l) = length l.

  Notation tab := (tab fl key).
  Notation index_of := (index_of key key_eqb).
  Notation positions := (positions key key_eqb).
  Notation present := (present key key_eqb).
  Notation has_dup := (has_dup key key_eqb).
  Notation subset := (subset fl key key_eqb d0 k0).
  Notation sop := (sop fl key).
  Notation step := (step fl key key_eqb d0 k0 is9 uniq).
  Notation gstep := (gstep fl key key_eqb d0 k0 is9 uniq).
  Notation run := (run fl key key_eqb d0 k0 is9 uniq).
  Notation after := (after fl key key_eqb d0 k0 is9 uniq).
  Notation skipped := (skipped fl key key_eqb).
  Notation dup_axis := (dup_axis fl key key_eqb).
  Notation row_missing := (row_missing fl is9).

  (* the position a look-up of [k] resolves to: the FIRST position holding k (C15_index_of_first) *)
  Definition idx (k : key) (have : list key) : nat :=
    match index_of k have 0 with Some i => i | None => 0%nat end.

  Lemma key_eqb_refl k : key_eqb k k = true.
  Proof. apply key_eqb_eq. reflexivity. Qed.

  Lemma present_In have k : present have k = true <-> In k have.
  Proof.
    unfold C15_Proofs.present. destruct (index_of k have 0) as [i|] eqn:E.
    - split; [intros _|reflexivity].
      apply (index_of_spec key key_eqb key_eqb_eq) in E. destruct E as [_ [H _]].
      eapply nth_error_In. exact H.
    - split; [discriminate|]. intro Hin. exfalso.
      apply (index_of_none key key_eqb key_eqb_eq k have 0) in E. contradiction.
  Qed.

  Lemma pick_positions_eq {A} (d : A) (l : list A) (have : list key) : forall req,
    pick d l (positions req have) = map (fun k => nth (idx k have) l d) (filter (present have) req).
  Proof.
    induction req as [|k r IH]; [reflexivity|].
    unfold C15_Model.positions in *. cbn [flat_map filter]. unfold C15_Proofs.present at 1, idx at 1.
    unfold pick in *. rewrite map_app, IH.
    destruct (index_of k have 0) as [i|] eqn:E; cbn [map app].
    - unfold idx. rewrite E. reflexivity.
    - reflexivity.
  Qed.

  Lemma nth_idx_self have k : present have k = true -> nth (idx k have) have k0 = k.
  Proof.
    unfold C15_Proofs.present, idx. destruct (index_of k have 0) as [i|] eqn:E; [intros _|discriminate].
    apply (index_of_spec key key_eqb key_eqb_eq) in E. destruct E as [_ [H _]].
    rewrite Nat.sub_0_r in H. apply nth_error_nth. exact H.
  Qed.

  Lemma pick_keys_eq have req :
    pick k0 have (positions req have) = filter (present have) req.
  Proof.
    rewrite pick_positions_eq.
    rewrite (map_ext_in _ (fun k => k)); [apply map_id|].
    intros k Hk. apply filter_In in Hk. apply nth_idx_self. apply Hk.
  Qed.

  (* ---------- subset: the exact specification, both axes at once ------------- *)

  Definition sel (req : option (list key)) (have : list key) : list key :=
    match req with None => have | Some r => filter (present have) r end.
  Definition rows_sel (rs : option (list key)) (t : tab) : list (list fl) :=
    match rs with
    | None => data t
    | Some r => map (fun s => nth (idx s (samples t)) (data t) []) (filter (present (samples t)) r)
    end.
  Definition cols_sel (rn : option (list key)) (t : tab) (row : list fl) : list fl :=
    match rn with
    | None => row
    | Some r => map (fun n => nth (idx n (names t)) row d0) (filter (present (names t)) r)
    end.

  Lemma subset_exact_lemma : forall rs rn (t t' : tab),
    subset rs rn t = Ok t' ->
    samples t' = sel rs (samples t) /\ names t' = sel rn (names t)
    /\ data t' = map (cols_sel rn t) (rows_sel rs t).
  Proof.
    intros rs rn t t' H. unfold C15_Model.subset in H.
    destruct (match rs with Some _ => has_dup (samples t) | None => false end); [discriminate|].
    destruct (match rn with Some _ => has_dup (names t) | None => false end); [discriminate|].
    inversion H; subst; clear H.
    destruct rs as [rs|], rn as [rn|]; cbn [samples names data sel rows_sel cols_sel].
    - rewrite !pick_keys_eq. split; [reflexivity|]. split; [reflexivity|].
      rewrite pick_positions_eq. apply map_ext. intro row. apply pick_positions_eq.
    - rewrite pick_keys_eq. split; [reflexivity|]. split; [reflexivity|].
      rewrite pick_positions_eq. rewrite map_id. reflexivity.
    - rewrite pick_keys_eq. split; [reflexivity|]. split; [reflexivity|].
      apply map_ext. intro row. apply pick_positions_eq.
    - split; [reflexivity|]. split; [reflexivity|]. rewrite map_id. reflexivity.
  Qed.

  (* it raises exactly when a requested axis holds duplicate ids *)
  Lemma subset_result : forall rs rn (t : tab),
    if dup_axis (is_some rs) (is_some rn) t then subset rs rn t = Err E_Value
    else exists t', subset rs rn t = Ok t'.
  Proof.
    intros rs rn t. unfold C15_SeqModel.dup_axis, C15_Model.subset.
    destruct rs as [rs|], rn as [rn|]; cbn [is_some andb orb];
      destruct (has_dup (samples t)); destruct (has_dup (names t)); cbn [orb]; try reflexivity; eexists; reflexivity.
  Qed.

  (* samples and names together = the samples first, then the names of the result *)
  Lemma subset_two_axes_lemma : forall rs rn (t : tab),
    subset rs rn t = bind (subset rs None t) (subset None rn).
  Proof.
    intros rs rn t. unfold C15_Model.subset.
    destruct rs as [rs|]; cbn.
    - destruct (has_dup (samples t)); [reflexivity|]. cbn [bind names samples data].
      destruct rn as [rn|]; [|reflexivity]. destruct (has_dup (names t)); reflexivity.
    - destruct rn as [rn|]; [|reflexivity]. destruct (has_dup (names t)); reflexivity.
  Qed.

  (* ids that the table does not hold are ignored *)
  Lemma positions_filter have : forall req,
    positions (filter (present have) req) have = positions req have.
  Proof.
    induction req as [|k r IH]; [reflexivity|].
    unfold C15_Model.positions in *. cbn [filter flat_map]. unfold C15_Proofs.present at 1.
    destruct (index_of k have 0) as [i|] eqn:E.
    - cbn [flat_map]. rewrite E, IH. reflexivity.
    - cbn [app]. exact IH.
  Qed.

  Lemma subset_unknown_ignored_lemma : forall rs rn (t : tab),
    subset (Some rs) (Some rn) t
    = subset (Some (filter (present (samples t)) rs)) (Some (filter (present (names t)) rn)) t.
  Proof.
    intros rs rn t. unfold C15_Model.subset. rewrite !positions_filter. reflexivity.
  Qed.

  Lemma positions_absent have : forall req,
    (forall k, In k req -> ~ In k have) -> positions req have = [].
  Proof.
    induction req as [|k r IH]; intro H; [reflexivity|].
    unfold C15_Model.positions in *. cbn [flat_map].
    assert (E : index_of k have 0 = None).
    { apply (index_of_none key key_eqb key_eqb_eq). apply H. left. reflexivity. }
    rewrite E. cbn [app]. apply IH. intros k' Hk'. apply H. right. exact Hk'.
  Qed.

  Lemma subset_all_unknown_lemma : forall req (t : tab),
    has_dup (samples t) = false -> (forall k, In k req -> ~ In k (samples t)) ->
    subset (Some req) None t = Ok (mktab [] (names t) []).
  Proof.
    intros req t Hd H. unfold C15_Model.subset. rewrite Hd. rewrite (positions_absent _ _ H). reflexivity.
  Qed.

  Lemma subset_dup_error_lemma : forall rs rn (t : tab),
    dup_axis (is_some rs) (is_some rn) t = true -> subset rs rn t = Err E_Value.
  Proof.
    intros rs rn t H. pose proof (subset_result rs rn t) as R. rewrite H in R. exact R.
  Qed.

  Lemma existsb_key_In k l : existsb (key_eqb k) l = true <-> In k l.
  Proof.
    rewrite existsb_exists. split.
    - intros [y [Hy He]]. apply key_eqb_eq in He. subst. exact Hy.
    - intro H. exists k. split; [exact H|apply key_eqb_refl].
  Qed.

  Lemma has_dup_NoDup l : has_dup l = false <-> NoDup l.
  Proof.
    induction l as [|a r IH]; cbn.
    - split; [constructor|reflexivity].
    - rewrite orb_false_iff, IH. split.
      + intros [H1 H2]. constructor; [|exact H2]. intro Hin. apply existsb_key_In in Hin. congruence.
      + intro H. inversion H as [|? ? Hn Hnd]; subst. split; [|exact Hnd].
        destruct (existsb (key_eqb a) r) eqn:E; [|reflexivity]. apply existsb_key_In in E. contradiction.
  Qed.

  (* ---------- sequences -------------------------------------------------------- *)

  Lemma after_cons o os t : after (o :: os) t = after os (snd (gstep o t)).
  Proof. reflexivity. Qed.

  Lemma after_app a b t : after (a ++ b) t = after b (after a t).
  Proof. unfold C15_SeqModel.after. apply fold_left_app. Qed.

  (* the k-th observation is the k-th operation applied to the table the object holds after
     the first k operations: nothing else of the history matters *)
  Lemma run_nth_lemma : forall os t k,
    nth_error (run os t) k = option_map (fun o => gstep o (after (firstn k os) t)) (nth_error os k).
  Proof.
    induction os as [|o r IH]; intros t k.
    - destruct k; reflexivity.
    - destruct k as [|k]; [reflexivity|].
      cbn [C15_SeqModel.run nth_error firstn]. rewrite IH. rewrite after_cons. reflexivity.
  Qed.

  Lemma run_length os : forall t, length (run os t) = length os.
  Proof. induction os as [|o r IH]; intro t; [reflexivity|]. cbn. rewrite IH. reflexivity. Qed.

  (* rectangular tables stay rectangular *)
  Definition wf (t : tab) : Prop :=
    length (samples t) = length (data t) /\ Forall (fun r => length r = length (names t)) (data t).

  Lemma pick_length {A} (d : A) l ix : length (pick d l ix) = length ix.
  Proof. unfold pick. apply map_length. Qed.

  Lemma positions_valid have : forall req i, In i (positions req have) -> (i < length have)%nat.
  Proof.
    intros req i H. unfold C15_Model.positions in H. apply in_flat_map in H.
    destruct H as [k [_ Hk]]. destruct (index_of k have 0) as [j|] eqn:E; [|destruct Hk].
    destruct Hk as [<-|[]]. apply (index_of_spec key key_eqb key_eqb_eq) in E.
    destruct E as [_ [H _]]. rewrite Nat.sub_0_r in H. apply nth_error_Some. congruence.
  Qed.

  Lemma subset_wf rs rn (t t' : tab) : wf t -> subset rs rn t = Ok t' -> wf t'.
  Proof.
    intros [Hl Hr] H. unfold C15_Model.subset in H.
    destruct (match rs with Some _ => has_dup (samples t) | None => false end); [discriminate|].
    destruct (match rn with Some _ => has_dup (names t) | None => false end); [discriminate|].
    inversion H; subst; clear H.
    set (t1 := match rs with
               | Some req => mktab (pick k0 (samples t) (positions req (samples t))) (names t)
                                   (pick [] (data t) (positions req (samples t)))
               | None => t end).
    assert (W1 : wf t1).
    { destruct rs as [req|]; [|split; assumption]. subst t1. split; cbn [samples names data].
      - rewrite !pick_length. reflexivity.
      - apply Forall_forall. intros row Hrow. unfold pick in Hrow. apply in_map_iff in Hrow.
        destruct Hrow as [i [<- Hi]]. apply positions_valid in Hi. rewrite Hl in Hi.
        rewrite Forall_forall in Hr. apply Hr. apply nth_In. exact Hi. }
    destruct W1 as [Hl1 Hr1].
    destruct rn as [req|]; [|split; assumption].
    split; cbn [samples names data].
    - rewrite map_length. exact Hl1.
    - apply Forall_forall. intros row Hrow. apply in_map_iff in Hrow. destruct Hrow as [r [<- _]].
      rewrite !pick_length. reflexivity.
  Qed.

  Lemma combine_length_eq {A B} (a : list A) (b : list B) : length a = length b -> length (combine a b) = length a.
  Proof. intro H. rewrite combine_length, H. apply Nat.min_id. Qed.

  Lemma append_wf nm col (t t' : tab) : wf t -> append fl key false nm col t = Ok t' -> wf t'.
  Proof.
    intros [Hl Hr] H. unfold append in H.
    destruct (Nat.eqb (length col) (length (data t))) eqn:E; [|discriminate].
    apply Nat.eqb_eq in E. inversion H; subst; clear H. split; cbn [samples names data].
    - rewrite map_length, combine_length_eq; [exact Hl|symmetry; exact E].
    - apply Forall_forall. intros row Hrow. apply in_map_iff in Hrow. destruct Hrow as [[r v] [<- Hin]].
      apply in_combine_l in Hin. rewrite !app_length. cbn. rewrite Forall_forall in Hr. rewrite (Hr r Hin). reflexivity.
  Qed.

  Lemma missing_wf d (t t' : tab) : wf t -> check_missing fl key is9 d t = Ok t' -> wf t'.
  Proof.
    intros [Hl Hr] H. unfold check_missing in H.
    destruct (existsb row_missing (data t)); [|inversion H; subst; split; assumption].
    destruct d; [|discriminate]. inversion H; subst; clear H. split; cbn [samples names data].
    - rewrite !map_length. reflexivity.
    - apply Forall_forall. intros row Hrow. apply in_map_iff in Hrow. destruct Hrow as [[s r] [<- Hin]].
      apply filter_In in Hin. destruct Hin as [Hin _]. apply in_combine_r in Hin.
      rewrite Forall_forall in Hr. apply Hr. exact Hin.
  Qed.

  Lemma standardize_wf out (t t' : tab) : wf t -> standardize fl key out t = Ok t' -> wf t'.
  Proof.
    intros [Hl Hr] H. unfold standardize, shape_ok in H.
    destruct (Nat.eqb (length out) (length (data t))) eqn:E1; [|discriminate].
    cbn [andb] in H.
    destruct (forallb (fun '(r, o) => Nat.eqb (length o) (length r)) (combine (data t) out)) eqn:E2; [|discriminate].
    inversion H; subst; clear H. apply Nat.eqb_eq in E1. split; cbn [samples names data]; [congruence|].
    rewrite forallb_forall in E2. rewrite Forall_forall in *.
    intros o Ho. destruct (In_nth _ _ [] Ho) as [i [Hi Hn]].
    assert (Hin : In (nth i (data t) [], o) (combine (data t) out)).
    { rewrite <- Hn. rewrite <- (combine_nth (data t) out i [] []) by (symmetry; exact E1).
      apply nth_In. rewrite combine_length_eq by (symmetry; exact E1). rewrite <- E1. exact Hi. }
    specialize (E2 _ Hin). cbn in E2. apply Nat.eqb_eq in E2. rewrite E2.
    apply Hr. apply nth_In. rewrite <- E1. exact Hi.
  Qed.

  Lemma write_read_wf (t t' : tab) : wf t -> write_read fl key uniq t = Ok t' -> wf t'.
  Proof.
    intros [Hl Hr] H. unfold write_read in H.
    destruct (is_nil (samples t) || is_nil (names t)); [discriminate|].
    inversion H; subst; clear H. split; cbn [samples names data]; [exact Hl|].
    rewrite uniq_length. exact Hr.
  Qed.

  Lemma upd_wf (r : res tab) t : wf t -> (forall t', r = Ok t' -> wf t') ->
    wf (snd (upd fl key r t)) /\ forall t', fst (upd fl key r t) = Ok t' -> wf t'.
  Proof.
    intros Ht Hr. unfold upd. cbn [fst snd]. split; [|exact Hr].
    destruct r as [t'|k]; [apply Hr; reflexivity|exact Ht].
  Qed.

  Lemma gstep_wf o t : wf t -> wf (snd (gstep o t)) /\ forall t', fst (gstep o t) = Ok t' -> wf t'.
  Proof.
    intro Ht. unfold C15_SeqModel.gstep. destruct (skipped o t).
    - cbn. split; [exact Ht|]. intros t' H. inversion H; subst. exact Ht.
    - destruct o as [s n|rs rn ip|fit nm col|d|out|]; cbn [C15_SeqModel.step].
      + cbn [fst snd]. split; [exact Ht|]. unfold index. intros t' H. destruct (dup_axis s n t); inversion H; subst. exact Ht.
      + destruct ip.
        * apply upd_wf; [exact Ht|]. intros t' H. eapply subset_wf; eassumption.
        * cbn [fst snd]. split; [exact Ht|]. intros t' H. eapply subset_wf; eassumption.
      + apply upd_wf; [exact Ht|]. intros t' H. eapply append_wf; eassumption.
      + apply upd_wf; [exact Ht|]. intros t' H. eapply missing_wf; eassumption.
      + apply upd_wf; [exact Ht|]. intros t' H. eapply standardize_wf; eassumption.
      + apply upd_wf; [exact Ht|]. intros t' H. eapply write_read_wf; eassumption.
  Qed.

  Lemma after_wf_lemma : forall os t, wf t -> wf (after os t).
  Proof.
    induction os as [|o r IH]; intros t Ht; [exact Ht|].
    rewrite after_cons. apply IH. apply gstep_wf. exact Ht.
  Qed.

  Lemma run_wf_lemma : forall os t, wf t ->
    Forall (fun x => wf (snd x) /\ forall t', fst x = Ok t' -> wf t') (run os t).
  Proof.
    induction os as [|o r IH]; intros t Ht; [constructor|].
    cbn [C15_SeqModel.run]. constructor; [apply gstep_wf; exact Ht|].
    apply IH. apply gstep_wf. exact Ht.
  Qed.

  (* no operation ever adds a sample *)
  Lemma subset_samples_incl rs rn (t t' : tab) : subset rs rn t = Ok t' -> incl (samples t') (samples t).
  Proof.
    intro H. apply subset_exact_lemma in H. destruct H as [Hs _]. rewrite Hs.
    destruct rs as [req|]; cbn [sel]; [|apply incl_refl].
    intros k Hk. apply filter_In in Hk. apply present_In. apply Hk.
  Qed.

  Lemma missing_samples_incl d (t t' : tab) : check_missing fl key is9 d t = Ok t' -> incl (samples t') (samples t).
  Proof.
    intro H. unfold check_missing in H.
    destruct (existsb row_missing (data t)); [|inversion H; subst; apply incl_refl].
    destruct d; [|discriminate]. inversion H; subst; clear H. cbn [samples].
    intros k Hk. apply in_map_iff in Hk. destruct Hk as [[s r] [<- Hin]].
    apply filter_In in Hin. destruct Hin as [Hin _]. apply in_combine_l in Hin. exact Hin.
  Qed.

  Lemma gstep_samples_incl o t : incl (samples (snd (gstep o t))) (samples t).
  Proof.
    unfold C15_SeqModel.gstep. destruct (skipped o t); [apply incl_refl|].
    destruct o as [s n|rs rn ip|fit nm col|d|out|]; cbn [C15_SeqModel.step]; try apply incl_refl.
    - destruct ip; [|apply incl_refl]. unfold upd. cbn [snd].
      destruct (subset rs rn t) as [t'|k] eqn:E; [|apply incl_refl]. eapply subset_samples_incl. exact E.
    - unfold upd. cbn [snd]. set (c := if fit then _ else _).
      destruct (append fl key false nm c t) as [t'|k] eqn:E; [|apply incl_refl].
      unfold append in E. destruct (Nat.eqb (length c) (length (data t))); [|discriminate].
      inversion E; subst. apply incl_refl.
    - unfold upd. cbn [snd]. destruct (check_missing fl key is9 d t) as [t'|k] eqn:E; [|apply incl_refl].
      eapply missing_samples_incl. exact E.
    - unfold upd. cbn [snd]. destruct (standardize fl key out t) as [t'|k] eqn:E; [|apply incl_refl].
      unfold standardize in E. destruct (shape_ok fl key t out); [|discriminate]. inversion E; subst. apply incl_refl.
    - unfold upd. cbn [snd]. destruct (write_read fl key uniq t) as [t'|k] eqn:E; [|apply incl_refl].
      unfold write_read in E. destruct (is_nil (samples t) || is_nil (names t)); [discriminate|].
      inversion E; subst. apply incl_refl.
  Qed.

  Lemma after_samples_incl_lemma : forall os t, incl (samples (after os t)) (samples t).
  Proof.
    induction os as [|o r IH]; intro t; [apply incl_refl|].
    rewrite after_cons. eapply incl_tran; [apply IH|apply gstep_samples_incl].
  Qed.

  (* check_missing(discard_also=True): exactly the (sample, row) pairs without -9 stay *)
  Lemma filter_all {A} (f : A -> bool) l : (forall x, In x l -> f x = true) -> filter f l = l.
  Proof.
    induction l as [|a r IH]; intro H; [reflexivity|]. cbn. rewrite (H a (or_introl eq_refl)).
    f_equal. apply IH. intros x Hx. apply H. right. exact Hx.
  Qed.

  Lemma missing_discard_lemma : forall (t : tab),
    length (samples t) = length (data t) ->
    exists t', check_missing fl key is9 true t = Ok t'
      /\ names t' = names t
      /\ combine (samples t') (data t')
         = filter (fun '(s, row) => negb (row_missing row)) (combine (samples t) (data t))
      /\ length (samples t') = length (data t').
  Proof.
    intros t Hl. unfold check_missing. destruct (existsb row_missing (data t)) eqn:E.
    - eexists. split; [reflexivity|]. cbn [samples names data]. split; [reflexivity|].
      split; [apply combine_split_id|]. rewrite !map_length. reflexivity.
    - exists t. split; [reflexivity|]. split; [reflexivity|]. split; [|exact Hl].
      symmetry. apply filter_all. intros [s row] Hin. apply in_combine_r in Hin.
      destruct (row_missing row) eqn:Er; [|reflexivity].
      assert (existsb row_missing (data t) = true) by (apply existsb_exists; exists row; split; assumption).
      congruence.
  Qed.

  Lemma combine_functional {B} : forall (K : list key) (V : list B) k a b,
    NoDup K -> In (k, a) (combine K V) -> In (k, b) (combine K V) -> a = b.
  Proof.
    induction K as [|k1 K IH]; intros [|v V] k a b Hnd Ha Hb; cbn in *; try contradiction.
    inversion Hnd as [|? ? Hn Hnd']; subst.
    destruct Ha as [Ha|Ha], Hb as [Hb|Hb].
    - congruence.
    - inversion Ha; subst. apply in_combine_l in Hb. contradiction.
    - inversion Hb; subst. apply in_combine_l in Ha. contradiction.
    - eapply IH; eassumption.
  Qed.

  Lemma in_combine_fst {B} : forall (K : list key) (V : list B) k,
    length K = length V -> In k K -> exists v, In (k, v) (combine K V).
  Proof.
    induction K as [|k1 K IH]; intros [|v V] k Hl Hin; cbn in *; try contradiction; try discriminate.
    destruct Hin as [->|Hin]; [exists v; left; reflexivity|].
    destruct (IH V k ltac:(lia) Hin) as [v' Hv']. exists v'. right. exact Hv'.
  Qed.

  (* a sample whose row holds -9 is gone after the discard ... *)
  Lemma missing_removes_lemma : forall (t t' : tab) s row,
    length (samples t) = length (data t) -> NoDup (samples t) ->
    check_missing fl key is9 true t = Ok t' ->
    In (s, row) (combine (samples t) (data t)) -> row_missing row = true ->
    ~ In s (samples t').
  Proof.
    intros t t' s row Hl Hnd Hc Hin Hm Hs.
    destruct (missing_discard_lemma t Hl) as [t2 [E [_ [Hf Hl2]]]].
    rewrite Hc in E. inversion E; subst t2; clear E.
    destruct (in_combine_fst _ _ s Hl2 Hs) as [row' Hr'].
    rewrite Hf in Hr'. apply filter_In in Hr'. destruct Hr' as [Hr' Hk].
    assert (row = row') by (eapply combine_functional; eassumption). subst row'.
    rewrite Hm in Hk. discriminate.
  Qed.

  (* ... and a sample whose row holds no -9 stays, with its row *)
  Lemma missing_keeps_lemma : forall (t t' : tab) s row,
    length (samples t) = length (data t) ->
    check_missing fl key is9 true t = Ok t' ->
    In (s, row) (combine (samples t) (data t)) -> row_missing row = false ->
    In (s, row) (combine (samples t') (data t')).
  Proof.
    intros t t' s row Hl Hc Hin Hm.
    destruct (missing_discard_lemma t Hl) as [t2 [E [_ [Hf _]]]].
    rewrite Hc in E. inversion E; subst t2; clear E.
    rewrite Hf. apply filter_In. split; [exact Hin|]. rewrite Hm. reflexivity.
  Qed.

  (* ... for good: whatever is done to the object afterwards, no look-up resolves it *)
  Lemma removed_never_resolves_lemma : forall pre post (t0 : tab) s row,
    let t := after pre t0 in
    length (samples t) = length (data t) -> NoDup (samples t) ->
    In (s, row) (combine (samples t) (data t)) -> row_missing row = true ->
    let t2 := after (pre ++ SMissing true :: post) t0 in
    ~ In s (samples t2)
    /\ index_of s (samples t2) 0 = None
    /\ forall req rn r, subset (Some req) rn t2 = Ok r -> ~ In s (samples r).
  Proof.
    intros pre post t0 s row t Hl Hnd Hin Hm t2.
    assert (Hn : ~ In s (samples t2)).
    { subst t2. rewrite after_app, after_cons. fold t.
      intro Hs. apply after_samples_incl_lemma in Hs.
      unfold C15_SeqModel.gstep in Hs. cbn [C15_SeqModel.skipped C15_SeqModel.step] in Hs.
      destruct (missing_discard_lemma t Hl) as [t' [E _]].
      unfold upd in Hs. rewrite E in Hs. cbn [snd] in Hs.
      eapply missing_removes_lemma; eassumption. }
    split; [exact Hn|]. split; [apply (index_of_none key key_eqb key_eqb_eq); exact Hn|].
    intros req rn r Hr Hs. apply subset_samples_incl in Hr. apply Hn. apply Hr. exact Hs.
  Qed.

  (* after any prefix of any sequence, subset returns exactly the requested (and held) rows and
     columns of the CURRENT table, in request order; in place, that is the object's new table *)
  Lemma seq_subset_exact_lemma : forall os (t0 : tab) k rs rn ip,
    nth_error os k = Some (SSubset rs rn ip) ->
    let t := after (firstn k os) t0 in
    skipped (SSubset rs rn ip) t = false ->
    exists t', nth_error (run os t0) k = Some (Ok t', if ip then t' else t)
      /\ samples t' = sel rs (samples t) /\ names t' = sel rn (names t)
      /\ data t' = map (cols_sel rn t) (rows_sel rs t).
  Proof.
    intros os t0 k rs rn ip Hk t Hs.
    pose proof (subset_result rs rn t) as R. cbn [C15_SeqModel.skipped] in Hs. rewrite Hs in R.
    destruct R as [t' Ht']. exists t'. split.
    - rewrite run_nth_lemma, Hk. cbn [option_map]. fold t.
      unfold C15_SeqModel.gstep. cbn [C15_SeqModel.skipped C15_SeqModel.step]. rewrite Hs, Ht'.
      destruct ip; reflexivity.
    - apply subset_exact_lemma. exact Ht'.
  Qed.

  (* the same for the discard: after any prefix it removes exactly the rows holding -9 *)
  Lemma seq_missing_exact_lemma : forall os (t0 : tab) k,
    nth_error os k = Some (SMissing true) ->
    let t := after (firstn k os) t0 in
    wf t0 ->
    exists t', nth_error (run os t0) k = Some (Ok t', t')
      /\ names t' = names t
      /\ combine (samples t') (data t')
         = filter (fun '(s, row) => negb (row_missing row)) (combine (samples t) (data t)).
  Proof.
    intros os t0 k Hk t Hw.
    assert (Hl : length (samples t) = length (data t)) by (apply (after_wf_lemma (firstn k os) t0 Hw)).
    destruct (missing_discard_lemma t Hl) as [t' [E [Hn [Hf _]]]].
    exists t'. split; [|split; assumption].
    rewrite run_nth_lemma, Hk. cbn [option_map]. fold t.
    unfold C15_SeqModel.gstep. cbn [C15_SeqModel.skipped C15_SeqModel.step]. unfold upd. rewrite E. reflexivity.
  Qed.
End SeqProofs.

(* ---------- soundness of the subset clause of the sequence checker ------------- *)
(* [expect_subset] (association-list look-ups, C15_SeqCheck) computes the table the model's
   subset returns, whenever it computes one: holds_step = true then says that the
   implementation returned (bit for bit, nans identified) the table of C15_subset_exact. *)

Lemma index_of_shift k l : forall s,
  index_of name name_eqb k l (S s) = option_map S (index_of name name_eqb k l s).
Proof.
  induction l as [|a r IH]; intro s; cbn; [reflexivity|].
  destruct (name_eqb a k); [reflexivity|apply IH].
Qed.

Lemma lookupN_idx {A} (d : A) : forall K V k v,
  lookupN k (combine K V) = Some v ->
  nth (idx name name_eqb k K) V d = v.
Proof.
  induction K as [|a K IH]; intros [|v0 V] k v H; cbn in H; try discriminate.
  unfold idx. cbn [index_of]. destruct (name_eqb a k) eqn:E.
  - inversion H; subst. reflexivity.
  - specialize (IH V k v H). unfold idx in IH. rewrite index_of_shift.
    destruct (index_of name name_eqb k K 0) as [i|] eqn:Ei; cbn [option_map nth].
    + exact IH.
    + (* k is not among K: then the look-up cannot have succeeded *)
      exfalso. clear IH. revert V H Ei. generalize 0%nat.
      induction K as [|b K IHK]; intros n V H Ei; destruct V as [|w V]; cbn in H; try discriminate.
      cbn in Ei. destruct (name_eqb b k); [discriminate|]. eapply IHK; eassumption.
Qed.

Lemma mem_present k have : mem k have = present name name_eqb have k.
Proof.
  destruct (mem k have) eqn:E1, (present name name_eqb have k) eqn:E2; try reflexivity.
  - apply mem_In in E1. apply (present_In name name_eqb name_eqb_spec) in E1. congruence.
  - apply (present_In name name_eqb name_eqb_spec) in E2. apply mem_In in E2. congruence.
Qed.

Lemma sel_eq req have : C15_SeqCheck.sel req have = sel name name_eqb req have.
Proof.
  destruct req as [r|]; [|reflexivity]. cbn. apply filter_ext. intro k. apply mem_present.
Qed.

Lemma all_some_map {A B} (f : A -> option B) (g : A -> B) : forall l r,
  (forall x y, In x l -> f x = Some y -> y = g x) ->
  all_some (map f l) = Some r -> r = map g l.
Proof.
  induction l as [|a l IH]; intros r H E; unfold all_some in *; cbn [map fold_right] in *.
  - inversion E. reflexivity.
  - destruct (f a) as [y|] eqn:Fa; [|discriminate].
    destruct (fold_right _ (Some []) (map f l)) as [r'|] eqn:Er; [|discriminate].
    inversion E; subst. f_equal.
    + apply H; [left; reflexivity|exact Fa].
    + apply IH; [|reflexivity]. intros x y' Hx. apply H. right. exact Hx.
Qed.

Lemma expect_subset_sound_lemma : forall rs rn ip (t e : ntab),
  nskipped (SSubset rs rn ip) t = false ->
  expect_subset rs rn t = Some e ->
  subset Z name name_eqb 0 nnil rs rn t = Ok e
  /\ samples e = sel name name_eqb rs (samples t) /\ names e = sel name name_eqb rn (names t)
  /\ data e = map (cols_sel Z name name_eqb 0 rn t) (rows_sel Z name name_eqb rs t).
Proof.
  intros rs rn ip t e Hs He.
  pose proof (subset_result Z name name_eqb 0 nnil rs rn t) as R.
  unfold nskipped in Hs. cbn [skipped] in Hs. rewrite Hs in R. destruct R as [t' Ht'].
  pose proof (subset_exact_lemma Z name name_eqb name_eqb_spec 0 nnil rs rn t t' Ht') as [H1 [H2 H3]].
  assert (Hee : e = t').
  { unfold expect_subset in He.
    destruct (match rs with
              | Some _ => all_some (map (fun s => lookupN s (combine (samples t) (data t))) (C15_SeqCheck.sel rs (samples t)))
              | None => Some (data t) end) as [rws|] eqn:Erows; [|discriminate].
    destruct (all_some (map _ rws)) as [d|] eqn:Ed; [|discriminate].
    inversion He; subst e; clear He.
    destruct t' as [s' n' d']. cbn [samples names data] in H1, H2, H3. subst s' n' d'.
    rewrite !sel_eq. f_equal.
    assert (Hr : rws = rows_sel Z name name_eqb rs t).
    { destruct rs as [r|]; cbn [rows_sel].
      - apply all_some_map with (g := fun s => nth (idx name name_eqb s (samples t)) (data t) []) in Erows.
        + rewrite Erows, sel_eq. reflexivity.
        + intros x y _ Hxy. symmetry. eapply lookupN_idx. exact Hxy.
      - inversion Erows. reflexivity. }
    subst rws.
    apply all_some_map with (g := cols_sel Z name name_eqb 0 rn t) in Ed; [exact Ed|].
    intros row y _ Hy. destruct rn as [r|]; cbn [cols_sel].
    - apply all_some_map with (g := fun n => nth (idx name name_eqb n (names t)) row 0) in Hy.
      + rewrite Hy, sel_eq. reflexivity.
      + intros x y' _ Hxy. symmetry. eapply lookupN_idx. exact Hxy.
    - inversion Hy. reflexivity. }
  subst t'. repeat split; assumption.
Qed.

(* write+read of the sequence model IS the file round trip of C15_pheno_roundtrip *)
Lemma wf_rectangular {fl} (t : tab fl name) : wf fl name t -> rectangular (data t) = true.
Proof.
  intros [_ Hr]. unfold rectangular. destruct (data t) as [|r0 rs]; [reflexivity|].
  inversion Hr as [|? ? H0 Hrs]; subst. apply forallb_forall. intros r Hin.
  rewrite Forall_forall in Hrs. apply Nat.eqb_eq. rewrite (Hrs r Hin), H0. reflexivity.
Qed.

Lemma write_read_is_roundtrip_lemma :
  forall (tok fl : Type) (text : tok -> list Z) (parse : tok -> option fl)
         (fmt : fl -> tok) (word : list Z -> tok),
  (forall x, parse (fmt x) = Some x) -> (forall s, text (word s) = s) ->
  forall t : tab fl name,
  wf fl name t -> samples t <> [] -> names t <> [] ->
  exists t', write_read fl name unique_names t = Ok t'
    /\ pheno_read tok fl text parse None
         (pheno_write tok fl fmt word (mkt (samples t) (names t) (data t)))
       = Ok (mkt (samples t') (names t') (data t'), 0).
Proof.
  intros tok fl text parse fmt word Hpf Htw t Hw Hs Hn.
  exists (mktab (samples t) (unique_names (names t)) (data t)). split.
  - unfold write_read. destruct (samples t); [contradiction|]. destruct (names t); [contradiction|]. reflexivity.
  - cbn [samples names data].
    apply (pheno_roundtrip_lemma tok fl text parse fmt word Hpf Htw (mkt (samples t) (names t) (data t)));
      cbn [t_samples t_names t_data].
    + apply Hw.
    + destruct Hw as [Hl _]. destruct (data t); [|discriminate]. destruct (samples t); [contradiction|discriminate].
    + exact Hn.
    + apply wf_rectangular. exact Hw.
Qed.

(* the hypotheses of the sequence theorems are satisfiable; the boundary they are about *)
Example seq_lookup_discard_lookup_example :
  let s0 : name := [115; 48] in let s1 : name := [115; 49] in let s2 : name := [115; 50] in
  let p : name := [112] in
  let t0 : ntab := mktab [s0; s1; s2] [p] [[1]; [m9bits]; [3]] in
  wf Z name t0 /\ NoDup (samples t0)
  /\ map fst (nrun [SIndex true true; SMissing true; SSubset (Some [s2; s1; s0]) None false] t0)
     = [Ok t0; Ok (mktab [s0; s2] [p] [[1]; [3]]); Ok (mktab [s2; s0] [p] [[3]; [1]])].
Proof.
  cbv zeta. split; [split; [reflexivity|repeat constructor]|].
  split; [|vm_compute; reflexivity].
  repeat constructor; cbn; intuition discriminate.
Qed.
