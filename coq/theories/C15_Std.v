(* C15 - standardize: the exact model (a cell of the standardised column as the element
   dev / sqrt var of Q(sqrt var)), what the pair (dev, var) the checkers use says about the
   column over Q (no axioms) and over the reals (StatsR: Coq's Reals axioms), soundness of the
   two standardize checkers; the suffix counter on many duplicates; the meaning of the compact
   literal decoders of C15_Check. *)
From HV Require Import Prelude Stats C15_Model C15_Check C15_Proofs C15_SeqModel C15_SeqCheck.
From Coq Require Import QArith Qabs Qreduction.
Open Scope Z_scope.

(* ---------- exact rational facts about (qdev, qvar)  [no axioms] ---------- *)

Fixpoint qsum0 (l : list Q) : Q := match l with [] => 0%Q | x :: r => (x + qsum0 r)%Q end.

Lemma qsum_qsum0 l : (qsum l == qsum0 l)%Q.
Proof.
  induction l as [|a r IH]; [reflexivity|].
  rewrite qsum_cons, Qred_correct. cbn [qsum0]. rewrite IH. reflexivity.
Qed.

Lemma qlen_cons {A} (a : A) r : (qlen (a :: r) == qlen r + 1)%Q.
Proof.
  unfold qlen, lenZ. cbn [length]. rewrite Nat2Z.inj_succ. unfold Z.succ.
  rewrite inject_Z_plus. reflexivity.
Qed.

Lemma qlen_pos {A} (l : list A) : l <> [] -> (0 < qlen l)%Q.
Proof.
  destruct l as [|a r]; [congruence|]. intros _. unfold qlen, lenZ, Qlt. cbn. lia.
Qed.

Lemma qsum0_shift m : forall l,
  (qsum0 (map (fun x => Qred (x - m)) l) == qsum0 l - qlen l * m)%Q.
Proof.
  induction l as [|a r IH].
  - cbn. unfold qlen, lenZ. cbn. ring.
  - cbn [map qsum0]. rewrite IH, Qred_correct, qlen_cons. ring.
Qed.

Lemma qmean_eq l : (qmean l == qsum0 l / qlen l)%Q.
Proof. unfold qmean. rewrite Qred_correct, qsum_qsum0. reflexivity. Qed.

(* the deviations of a non-empty column sum to 0 *)
Lemma qdev_sum_zero_lemma : forall l, l <> [] -> (qsum (qdev l) == 0)%Q.
Proof.
  intros l Hne. rewrite qsum_qsum0. unfold qdev. rewrite qsum0_shift, qmean_eq.
  pose proof (qlen_pos l Hne) as Hp. field. intro H0. rewrite H0 in Hp. discriminate.
Qed.

(* the variance is the mean of the squared deviations: sum dev^2 = n * var *)
Lemma qvar_sum_sq_lemma : forall l, l <> [] -> (qsum (map qsq (qdev l)) == qlen l * qvar l)%Q.
Proof.
  intros l Hne. unfold qvar. rewrite Qred_correct.
  pose proof (qlen_pos l Hne) as Hp. field. intro H0. rewrite H0 in Hp. discriminate.
Qed.

(* deviation i is cell i minus the mean; the deviations keep the cells' order and number *)
Lemma qdev_nth_lemma : forall l i, (i < length l)%nat ->
  (nth i (qdev l) 0 == nth i l 0 - qmean l)%Q.
Proof.
  intros l i Hi. unfold qdev.
  rewrite (nth_indep _ 0%Q (Qred (0 - qmean l))) by (rewrite map_length; exact Hi).
  rewrite (map_nth (fun x => Qred (x - qmean l)) l 0%Q i). apply Qred_correct.
Qed.

Lemma qdev_length l : length (qdev l) = length l.
Proof. unfold qdev. apply map_length. Qed.

(* ---------- the same facts over the reals; the exact model of standardize ---------- *)

From HV Require Import StatsR.
From Coq Require Import Reals Qreals Lra.

Lemma Q2R_0' : Q2R 0 = 0%R.
Proof. unfold Q2R. cbn. lra. Qed.

Lemma Q2R_qsum0 l : Q2R (qsum0 l) = rsum (map Q2R l).
Proof.
  induction l as [|a r IH]; [apply Q2R_0'|].
  cbn [qsum0 map rsum fold_right]. rewrite Q2R_plus, IH. reflexivity.
Qed.

Lemma Q2R_qlen {A} (l : list A) : Q2R (qlen l) = INR (length l).
Proof.
  unfold qlen, lenZ, Q2R. cbn [Qnum Qden inject_Z]. rewrite INR_IZR_INZ. change (IZR (Z.pos 1)) with 1%R. field.
Qed.

Lemma qlen_nz {A} (l : list A) : l <> [] -> ~ (qlen l == 0)%Q.
Proof. intros H H0. pose proof (qlen_pos l H) as Hp. rewrite H0 in Hp. discriminate. Qed.

Lemma Q2R_qmean l : l <> [] -> Q2R (qmean l) = rmean (map Q2R l).
Proof.
  intro Hne. rewrite (Qeq_eqR _ _ (qmean_eq l)). rewrite Q2R_div by (apply qlen_nz; exact Hne).
  unfold rmean, rlen. rewrite Q2R_qsum0, Q2R_qlen, map_length. reflexivity.
Qed.

Lemma Q2R_qdev l : l <> [] ->
  map Q2R (qdev l) = map (fun x => (x - rmean (map Q2R l))%R) (map Q2R l).
Proof.
  intro Hne. unfold qdev. rewrite !map_map. apply map_ext. intro x.
  rewrite (Qeq_eqR _ _ (Qred_correct _)), Q2R_minus, Q2R_qmean by exact Hne. reflexivity.
Qed.

Lemma Q2R_qvar l : l <> [] -> Q2R (qvar l) = rvar (map Q2R l).
Proof.
  intro Hne. unfold qvar. rewrite (Qeq_eqR _ _ (Qred_correct _)).
  rewrite Q2R_div by (apply qlen_nz; exact Hne).
  rewrite (Qeq_eqR _ _ (qsum_qsum0 _)), Q2R_qsum0, Q2R_qlen.
  unfold rvar. cbv zeta. unfold rmean at 1. unfold rlen. rewrite !map_length.
  f_equal. f_equal.
  rewrite map_map.
  rewrite (map_ext (fun x => Q2R (qsq x)) (fun x => (Q2R x * Q2R x)%R)) by (intro x; unfold qsq; apply Q2R_mult).
  rewrite <- (map_map Q2R (fun r => (r * r)%R)).
  rewrite Q2R_qdev by exact Hne. rewrite map_map. reflexivity.
Qed.

(* The exact model of Phenotypes.standardize on a finite column: cell i is the element
   dev_i / sqrt var of Q(sqrt var), written as the pair (dev_i, var); all zeros when the
   variance is 0.  (The float the implementation stores is compared with this pair by
   [zcheck]: z^2 var = dev^2 and sign z = sign dev.) *)
Definition qstandardize (l : list Q) : list (Q * Q) :=
  let v := qvar l in
  if Qeq_bool v 0 then map (fun _ => (0%Q, 1%Q)) l else map (fun d => (d, v)) (qdev l).
Definition denote (c : Q * Q) : R := (Q2R (fst c) / sqrt (Q2R (snd c)))%R.

Lemma denote_zero : denote (0%Q, 1%Q) = 0%R.
Proof. unfold denote. cbn [fst snd]. rewrite Q2R_0'. unfold Rdiv. apply Rmult_0_l. Qed.

(* the model denotes exactly the real-number standardisation of StatsR (C09's theorems) *)
Lemma qstandardize_denotes_lemma : forall l,
  map denote (qstandardize l) = rstandardize (map Q2R l).
Proof.
  intro l. destruct l as [|a r] eqn:El.
  - unfold qstandardize, rstandardize. cbn [map]. destruct (Qeq_bool (qvar []) 0); destruct (Req_EM_T (rvar []) 0); reflexivity.
  - rewrite <- El. assert (Hne : l <> []) by (rewrite El; discriminate).
    unfold qstandardize, rstandardize. cbv zeta.
    rewrite <- (Q2R_qvar l Hne).
    destruct (Qeq_bool (qvar l) 0) eqn:Ev.
    + apply Qeq_bool_eq in Ev. apply Qeq_eqR in Ev. rewrite Q2R_0' in Ev.
      destruct (Req_EM_T (Q2R (qvar l)) 0) as [_|N]; [|contradiction].
      rewrite !map_map. apply map_ext. intros _. apply denote_zero.
    + assert (N : Q2R (qvar l) <> 0%R).
      { intro H0. rewrite <- Q2R_0' in H0. apply eqR_Qeq in H0. apply Qeq_eq_bool in H0. congruence. }
      destruct (Req_EM_T (Q2R (qvar l)) 0) as [E|_]; [contradiction|].
      rewrite map_map. unfold denote. cbn [fst snd].
      rewrite <- (map_map Q2R (fun r => (r / sqrt (Q2R (qvar l)))%R)).
      rewrite Q2R_qdev by exact Hne. rewrite !map_map. rewrite <- (Q2R_qmean l Hne). reflexivity.
Qed.

(* hence: positive variance => the model column has mean 0 and variance 1 over the reals *)
Lemma qstandardize_mean0_var1_lemma : forall l,
  (0 < qvar l)%Q ->
  rmean (map denote (qstandardize l)) = 0%R /\ rvar (map denote (qstandardize l)) = 1%R.
Proof.
  intros l Hv. rewrite qstandardize_denotes_lemma.
  assert (Hne : l <> []).
  { intro H0. subst. vm_compute in Hv. discriminate. }
  apply standardize_mean0_var1_lemma. rewrite <- (Q2R_qvar l Hne). rewrite <- Q2R_0'. apply Qlt_Rlt. exact Hv.
Qed.

(* a constant column (all cells == c) has variance 0 and is standardised to zeros *)
Lemma const_qsum0 c : forall l, (forall x, In x l -> (x == c)%Q) -> (qsum0 l == qlen l * c)%Q.
Proof.
  induction l as [|a r IH]; intro H.
  - cbn. unfold qlen, lenZ. cbn. ring.
  - cbn [qsum0]. rewrite qlen_cons, IH by (intros; apply H; right; assumption).
    rewrite (H a) by (left; reflexivity). ring.
Qed.

Lemma zero_qsum0 : forall l, (forall x, In x l -> (x == 0)%Q) -> (qsum0 l == 0)%Q.
Proof.
  intros l H. rewrite (const_qsum0 0%Q l H). ring.
Qed.

Lemma constant_qvar0_lemma : forall c l, (forall x, In x l -> (x == c)%Q) -> (qvar l == 0)%Q.
Proof.
  intros c l H. destruct l as [|a r] eqn:El; [reflexivity|]. rewrite <- El in *.
  assert (Hne : l <> []) by (rewrite El; discriminate).
  assert (Hm : (qmean l == c)%Q).
  { rewrite qmean_eq, (const_qsum0 c l H). field. apply qlen_nz. exact Hne. }
  unfold qvar. rewrite Qred_correct, qsum_qsum0.
  rewrite zero_qsum0; [unfold Qdiv; ring|].
  intros y Hy. apply in_map_iff in Hy. destruct Hy as [d [<- Hd]].
  unfold qdev in Hd. apply in_map_iff in Hd. destruct Hd as [x [<- Hx]].
  unfold qsq. rewrite Qred_correct, (H x Hx), Hm. ring.
Qed.

Lemma qstandardize_constant_lemma : forall c l, (forall x, In x l -> (x == c)%Q) ->
  qstandardize l = map (fun _ => (0%Q, 1%Q)) l /\ map denote (qstandardize l) = map (fun _ => 0%R) l.
Proof.
  intros c l H. pose proof (constant_qvar0_lemma c l H) as Hv.
  unfold qstandardize. cbv zeta. apply Qeq_eq_bool in Hv. rewrite Hv.
  split; [reflexivity|]. rewrite map_map. apply map_ext. intros _. apply denote_zero.
Qed.

(* what the pair (dev, var) the checkers use pins down (tolerance 0): ANY real column z with
   z_i^2 var = dev_i^2 and sign z_i = sign dev_i IS the standardised column, and so has
   mean 0 and variance 1 *)
Lemma zcheck_exact_characterises_lemma : forall l (zs : list R),
  (0 < qvar l)%Q ->
  Forall2 (fun d z => (z * z * Q2R (qvar l) = Q2R d * Q2R d /\ (0 <= z <-> 0 <= Q2R d))%R) (qdev l) zs ->
  zs = map denote (qstandardize l) /\ zs = rstandardize (map Q2R l)
  /\ rmean zs = 0%R /\ rvar zs = 1%R.
Proof.
  intros l zs Hv HF.
  assert (Hv' : (0 < Q2R (qvar l))%R) by (rewrite <- Q2R_0'; apply Qlt_Rlt; exact Hv).
  assert (Hz : zs = map denote (qstandardize l)).
  { unfold qstandardize. cbv zeta.
    assert (Eb : Qeq_bool (qvar l) 0 = false).
    { destruct (Qeq_bool (qvar l) 0) eqn:E; [|reflexivity]. apply Qeq_bool_eq in E. rewrite E in Hv. discriminate. }
    rewrite Eb. rewrite map_map. unfold denote. cbn [fst snd].
    induction HF as [|d z ds zs' [H1 H2] _ IH]; [reflexivity|].
    cbn [map]. f_equal; [|exact IH]. apply zcheck_exact_sound; assumption. }
  split; [exact Hz|]. rewrite Hz. split; [apply qstandardize_denotes_lemma|].
  apply qstandardize_mean0_var1_lemma. exact Hv.
Qed.

(* ---------- soundness of the standardize checkers ---------------------------- *)

Lemma all_some_spec {A} : forall (l : list (option A)) r, all_some l = Some r <-> l = map Some r.
Proof.
  unfold all_some. induction l as [|x l IH]; intros r; cbn [fold_right].
  - split; intro H; [inversion H; reflexivity|]. destruct r; [reflexivity|discriminate].
  - destruct x as [v|].
    + destruct (fold_right _ (Some []) l) as [r'|] eqn:E.
      * split; intro H.
        -- inversion H; subst. cbn. f_equal. apply IH. reflexivity.
        -- destruct r as [|v' r'']; [discriminate|]. cbn in H. inversion H; subst.
           f_equal. f_equal. assert (Some r' = Some r'') as Hr by (apply IH; reflexivity). congruence.
      * split; intro H; [discriminate|]. destruct r as [|v' r'']; [discriminate|]. cbn in H. inversion H; subst.
        assert (@None (list A) = Some r'') as Hr by (apply IH; reflexivity). discriminate.
    + split; intro H; [discriminate|]. destruct r; cbn in H; discriminate.
Qed.

(* the cell check, spelled out: |z^2 var - dev^2| <= 1e-9 (dev^2 + var), and the sign of z is
   the sign of dev unless dev^2 <= 1e-9 var *)
Lemma zcheck_meaning_lemma : forall v d z, zcheck v d z = true ->
  (Qabs (qsq z * v - qsq d) <= tol9 * (qsq d + v))%Q
  /\ ((qsq d <= tol9 * v)%Q \/ qsgn z = qsgn d).
Proof.
  intros v d z H. unfold zcheck, qclose in H. apply andb_true_iff in H. destruct H as [H1 H2].
  split; [apply Qle_bool_iff; exact H1|].
  apply orb_true_iff in H2. destruct H2 as [H2|H2]; [left; apply Qle_bool_iff; exact H2|right; apply Z.eqb_eq; exact H2].
Qed.

(* ... and over the reals, against the model cell w = dev / sqrt var:  |z^2 - w^2| <= 1e-9 (w^2 + 1) *)
Lemma zcheck_real_meaning_lemma : forall v d z, (0 < v)%Q -> zcheck v d z = true ->
  (Rabs (Q2R z * Q2R z - denote (d, v) * denote (d, v)) <= Q2R tol9 * (denote (d, v) * denote (d, v) + 1))%R.
Proof.
  intros v d z Hv H. apply zcheck_meaning_lemma in H. destruct H as [H _].
  apply Qabs_Qle_condition in H. destruct H as [Hlo Hhi].
  apply Qle_Rle in Hlo. apply Qle_Rle in Hhi. unfold qsq in *.
  rewrite Q2R_opp in Hlo. rewrite Q2R_minus, !Q2R_mult, Q2R_plus, !Q2R_mult in *.
  assert (HV : (0 < Q2R v)%R) by (rewrite <- Q2R_0'; apply Qlt_Rlt; exact Hv).
  set (V := Q2R v) in *. set (D := Q2R d) in *. set (Z := Q2R z) in *. set (T := Q2R tol9) in *.
  unfold denote. cbn [fst snd]. fold V D.
  assert (Hs : (0 < sqrt V)%R) by (apply sqrt_lt_R0; exact HV).
  assert (Hss : (sqrt V * sqrt V = V)%R) by (apply sqrt_sqrt; lra).
  assert (Hw : (D / sqrt V * (D / sqrt V) = D * D / V)%R).
  { rewrite <- Hss at 3. field. apply Rgt_not_eq. exact Hs. }
  rewrite Hw.
  assert (Hi : (0 < / V)%R) by (apply Rinv_0_lt_compat; exact HV).
  replace (Z * Z - D * D / V)%R with ((Z * Z * V - D * D) * / V)%R by (field; lra).
  replace (T * (D * D / V + 1))%R with ((T * (D * D + V)) * / V)%R by (field; lra).
  apply Rabs_le. split.
  - replace (- (T * (D * D + V) * / V))%R with ((- (T * (D * D + V))) * / V)%R by ring.
    apply Rmult_le_compat_r; [lra|exact Hlo].
  - apply Rmult_le_compat_r; [lra|exact Hhi].
Qed.

Lemma forallb_combine_Forall2 {A B} (f : A * B -> bool) : forall (a : list A) (b : list B),
  length a = length b -> forallb f (combine a b) = true -> Forall2 (fun x y => f (x, y) = true) a b.
Proof.
  induction a as [|x a IH]; intros [|y b] Hl H; cbn in *; try discriminate; [constructor|].
  apply andb_true_iff in H. destruct H as [H1 H2]. constructor; [exact H1|apply IH; [lia|exact H2]].
Qed.

Definition constq (qx : list Q) : bool :=
  match qx with [] => true | x0 :: _ => forallb (Qeq_bool x0) qx end.

Lemma zero_bits_value b : zero_bits b = true -> exists q, bits2q b = Some q /\ (q == 0)%Q.
Proof.
  unfold zero_bits. intro H. apply orb_true_iff in H. destruct H as [H|H]; apply Z.eqb_eq in H; subst;
    eexists; (split; [vm_compute; reflexivity|reflexivity]).
Qed.

(* relation `standardize`, holds (and the standardize step of `opseq`): on a finite column the
   accepted output is all zeros when the input column is constant, and otherwise (inside the
   stated domain [well_cond]) a finite column of the same length whose exact mean is within
   1e-9 of 0 and whose exact variance is within 1e-9 of 1 *)
Lemma column_prop_ok_sound_lemma : forall xs zs qx,
  column_prop_ok xs zs = true -> map bits2q xs = map Some qx ->
  (qx <> [] -> constq qx = true ->
     Forall (fun b => exists q, bits2q b = Some q /\ (q == 0)%Q) zs)
  /\ (constq qx = false -> well_cond qx = true ->
      exists qz, map bits2q zs = map Some qz /\ length qz = length qx
                 /\ (Qabs (qmean qz - 0) <= tol9 * 1)%Q /\ (Qabs (qvar qz - 1) <= tol9 * 1)%Q).
Proof.
  intros xs zs qx H Hx. unfold column_prop_ok in H.
  apply all_some_spec in Hx. rewrite Hx in H.
  destruct qx as [|x0 r]; [split; [congruence|discriminate]|].
  unfold constq. split.
  - intros _ Hc. rewrite Hc in H. apply Forall_forall. intros b Hb.
    apply zero_bits_value. rewrite forallb_forall in H. apply H. exact Hb.
  - intros Hc Hw. rewrite Hc, Hw in H.
    destruct (all_some (map bits2q zs)) as [qz|] eqn:Ez; [|discriminate].
    apply all_some_spec in Ez. exists qz. split; [exact Ez|].
    apply andb_true_iff in H. destruct H as [H H3]. apply andb_true_iff in H. destruct H as [H1 H2].
    unfold qclose in *. apply Nat.eqb_eq in H1. apply Qle_bool_iff in H2. apply Qle_bool_iff in H3.
    split; [symmetry; exact H1|]. split; assumption.
Qed.

(* relation `standardize`, agree (and st_agree of `opseq`): the accepted output of a constant
   column is +0.0 everywhere; of a finite well-conditioned column, finite cells each passing
   [zcheck] against the model pair (dev_i, var) - in order, one per cell *)
Lemma column_model_ok_sound_lemma : forall xs zs,
  column_model_ok xs zs = true ->
  length xs = length zs
  /\ (constant_col xs = true -> Forall (fun b => b = 0%Z) zs)
  /\ (constant_col xs = false -> forall qx, map bits2q xs = map Some qx -> well_cond qx = true ->
        exists qz, map bits2q zs = map Some qz
                   /\ Forall2 (fun d z => zcheck (qvar qx) d z = true) (qdev qx) qz).
Proof.
  intros xs zs H. unfold column_model_ok in H. apply andb_true_iff in H. destruct H as [Hl H].
  apply Nat.eqb_eq in Hl. split; [exact Hl|]. split.
  - intro Hc. rewrite Hc in H. apply Forall_forall. intros b Hb. rewrite forallb_forall in H.
    apply Z.eqb_eq. apply H. exact Hb.
  - intros Hc qx Hx Hw. rewrite Hc in H. apply all_some_spec in Hx. rewrite Hx, Hw in H.
    destruct (all_some (map bits2q zs)) as [qz|] eqn:Ez; [|discriminate].
    apply all_some_spec in Ez. exists qz. split; [exact Ez|].
    apply all_some_spec in Hx.
    apply (forallb_combine_Forall2 (fun '(d, z) => zcheck (qvar qx) d z)); [|exact H].
    rewrite qdev_length.
    apply (f_equal (@length _)) in Hx. apply (f_equal (@length _)) in Ez. rewrite !map_length in *. lia.
Qed.

Open Scope Z_scope.

(* ---------- the suffix counter on many duplicates ---------------------------- *)

(* n further copies of a name that was already written k times (suffixes 1..k taken, none
   above k): they become name-(k+1), ..., name-(k+n), whatever n - 10, 100, 1000 copies *)
Lemma uniq_loop_repeat a : forall n k cnts used,
  count_of cnts a = k -> In a used ->
  (forall j, 1 <= j <= k -> In (suffixed a j) used) ->
  (forall j, k < j -> ~ In (suffixed a j) used) ->
  uniq_loop (repeat a n) cnts used = map (suffixed a) (zseq_nat (k + 1) n).
Proof.
  induction n as [|n IH]; intros k cnts used Hc Ha Hlo Hhi; [reflexivity|].
  cbn [repeat uniq_loop zseq_nat map].
  assert (Hm : mem a used = true) by (apply mem_In; exact Ha).
  assert (Hf : mem (suffixed a (k + 1)) used = false) by (apply mem_false_not_In; apply Hhi; lia).
  assert (Efresh : fresh (S (length used)) a a (count_of cnts a) used = (suffixed a (k + 1), k + 1)).
  { rewrite Hc. destruct (length used) as [|f] eqn:El.
    - destruct used; [destruct Ha|discriminate].
    - cbn [fresh]. rewrite Hm, Hf. reflexivity. }
  rewrite Efresh. f_equal.
  apply IH.
  - unfold set_count. cbn [count_of]. assert (E : name_eqb a a = true) by (apply name_eqb_spec; reflexivity).
    rewrite E. reflexivity.
  - right. exact Ha.
  - intros j Hj. destruct (Z.eq_dec j (k + 1)) as [->|Hn]; [left; reflexivity|right; apply Hlo; lia].
  - intros j Hj [Hc'|Hc'].
    + apply suffixed_inj in Hc'. lia.
    + apply (Hhi j); [lia|exact Hc'].
Qed.

Lemma unique_names_repeat_lemma : forall a n,
  unique_names (repeat a (S n)) = a :: map (suffixed a) (zseq_nat 1 n).
Proof.
  intros a n. unfold unique_names. cbn [repeat uniq_loop length fresh mem existsb]. f_equal.
  apply (uniq_loop_repeat a n 0).
  - unfold set_count. cbn [count_of]. assert (E : name_eqb a a = true) by (apply name_eqb_spec; reflexivity).
    rewrite E. reflexivity.
  - left. reflexivity.
  - intros j Hj. lia.
  - intros j Hj [Hc|[]]. symmetry in Hc. exact (suffixed_neq a j Hc).
Qed.

(* the boundary of the counter's decimal width: eleven copies of "a" give a, a-1, ..., a-10;
   a column already called "a-10" behind them is renamed "a-10-1", and one in front of them
   makes the eleventh copy skip to "a-11" *)
Definition a10 : name := suffixed a_ 10.
Example suffix_counter_two_digits_example :
  unique_names (repeat a_ 11) = a_ :: map (suffixed a_) [1; 2; 3; 4; 5; 6; 7; 8; 9; 10]
  /\ unique_names (repeat a_ 11 ++ [a10]) = unique_names (repeat a_ 11) ++ [suffixed a10 1]
  /\ unique_names (a10 :: repeat a_ 11)
     = a10 :: a_ :: map (suffixed a_) [1; 2; 3; 4; 5; 6; 7; 8; 9; 11]
  /\ dec 10 = [49; 48] /\ dec 100 = [49; 48; 48].
Proof. repeat split; vm_compute; reflexivity. Qed.

(* ---------- what the compact literals of C15_Check denote -------------------- *)

Lemma zseq_nat_length a n : length (zseq_nat a n) = n.
Proof. revert a. induction n as [|n IH]; intro a; cbn; [reflexivity|]. rewrite IH. reflexivity. Qed.

Lemma zseq_nat_nth : forall n a i d, (i < n)%nat -> nth i (zseq_nat a n) d = a + Z.of_nat i.
Proof.
  induction n as [|n IH]; intros a i d Hi; [lia|]. destruct i as [|i]; cbn [zseq_nat nth].
  - lia.
  - rewrite IH by lia. lia.
Qed.

Lemma zseq_spec_lemma : forall a n, 0 <= n ->
  lenZ (zseq a n) = n /\ forall i, 0 <= i < n -> nthZ (zseq a n) i = Some (a + i).
Proof.
  intros a n Hn. unfold zseq, lenZ. rewrite zseq_nat_length. split; [lia|].
  intros i Hi. unfold nthZ.
  destruct (i <? 0) eqn:E; [apply Z.ltb_lt in E; lia|].
  rewrite (nth_error_nth' _ 0) by (rewrite zseq_nat_length; lia).
  rewrite zseq_nat_nth by lia. f_equal. lia.
Qed.

Lemma zrep_spec_lemma : forall v n, zrep v n = repeat v (Z.to_nat n) /\ Forall (eq v) (zrep v n).
Proof.
  intros v n. split; [reflexivity|]. unfold zrep. apply Forall_forall. intros x Hx.
  symmetry. apply (repeat_spec _ _ _ Hx).
Qed.

Lemma gnames_spec_lemma : forall p a n,
  length (gnames p a n) = Z.to_nat n
  /\ forall i, (i < Z.to_nat n)%nat -> nth i (gnames p a n) [] = p ++ dec (a + Z.of_nat i).
Proof.
  intros p a n. unfold gnames, zseq. rewrite map_length, zseq_nat_length. split; [reflexivity|].
  intros i Hi.
  rewrite (nth_indep _ [] (p ++ dec 0)) by (rewrite map_length, zseq_nat_length; exact Hi).
  rewrite (map_nth (fun k => p ++ dec k)). rewrite zseq_nat_nth by exact Hi. reflexivity.
Qed.

(* by_cols: row i of the table is cell i of every column *)
Lemma transpose_cols {A} (d : A) : forall n (cols : list (list A)),
  Forall (fun c => length c = n) cols ->
  length (transpose n cols) = n
  /\ forall i, (i < n)%nat -> nth i (transpose n cols) [] = map (fun c => nth i c d) cols.
Proof.
  induction n as [|n IH]; intros cols Hc; cbn [transpose]; [split; [reflexivity|lia]|].
  assert (Ht : Forall (fun c => length c = n) (map (@tl A) cols)).
  { apply Forall_forall. intros c Hin. apply in_map_iff in Hin. destruct Hin as [c0 [<- Hin0]].
    rewrite Forall_forall in Hc. specialize (Hc c0 Hin0). destruct c0; cbn in *; lia. }
  destruct (IH (map (@tl A) cols) Ht) as [IH1 IH2].
  split; [cbn [length]; rewrite IH1; reflexivity|].
  intros [|i] Hi; cbn [nth].
  - clear IH IH1 IH2 Ht. induction cols as [|c cs IHc]; [reflexivity|].
    inversion Hc as [|? ? Hc1 Hc2]; subst. cbn [flat_map map]. destruct c as [|x c']; [discriminate|].
    cbn [app nth]. f_equal. apply IHc. exact Hc2.
  - rewrite IH2 by lia. rewrite map_map. apply map_ext_in. intros c Hin.
    destruct c as [|x c']; [|reflexivity].
    rewrite Forall_forall in Hc. specialize (Hc [] Hin). discriminate.
Qed.

Lemma by_cols_spec_lemma : forall n (cols : list (list Z)),
  Forall (fun c => length c = Z.to_nat n) cols ->
  length (by_cols n cols) = Z.to_nat n
  /\ forall i, (i < Z.to_nat n)%nat -> nth i (by_cols n cols) [] = map (fun c => nth i c 0) cols.
Proof. intros n cols H. unfold by_cols. apply transpose_cols. exact H. Qed.

(* the hypotheses of zcheck_exact_characterises_lemma are satisfiable *)
Example zcheck_exact_satisfiable_example :
  (0 < qvar [0%Q; 1%Q])%Q
  /\ Forall2 (fun d z => (z * z * Q2R (qvar [0%Q; 1%Q]) = Q2R d * Q2R d /\ (0 <= z <-> 0 <= Q2R d))%R)
             (qdev [0%Q; 1%Q]) [(-1)%R; 1%R].
Proof.
  split; [vm_compute; reflexivity|].
  replace (qvar [0%Q; 1%Q]) with (1 # 4)%Q by (vm_compute; reflexivity).
  replace (qdev [0%Q; 1%Q]) with [(-1 # 2)%Q; (1 # 2)%Q] by (vm_compute; reflexivity).
  repeat constructor; unfold Q2R; cbn; lra.
Qed.

(* statements as they appear in C15_Property *)
Lemma qdev_cellwise_lemma : forall (l : list Q) (i : nat), (i < length l)%nat ->
  length (qdev l) = length l /\ (nth i (qdev l) 0 == nth i l 0 - qmean l)%Q.
Proof. intros l i H. split; [apply qdev_length|apply qdev_nth_lemma; exact H]. Qed.

Lemma constant_column_variance_zero_lemma : forall (c : Q) (l : list Q),
  (forall x, In x l -> (x == c)%Q) ->
  (qvar l == 0)%Q /\ qstandardize l = map (fun _ => (0%Q, 1%Q)) l.
Proof.
  intros c l H. split; [exact (constant_qvar0_lemma c l H)|exact (proj1 (qstandardize_constant_lemma c l H))].
Qed.

Lemma qstandardize_constant_zero_lemma : forall (c : Q) (l : list Q),
  (forall x, In x l -> (x == c)%Q) -> map denote (qstandardize l) = map (fun _ => 0%R) l.
Proof. intros c l H. exact (proj2 (qstandardize_constant_lemma c l H)). Qed.

(* ---------- soundness of the round-trip checker ------------------------------ *)

(* bit identity of two float64 cells, all NaNs identified *)
Definition same_bits (a b : Z) : Prop := a = b \/ (bits_nan a = true /\ bits_nan b = true).

Lemma bits_eqb_same a b : bits_eqb a b = true -> same_bits a b.
Proof.
  unfold bits_eqb, same_bits. intro H. apply orb_true_iff in H. destruct H as [H|H].
  - left. apply Z.eqb_eq. exact H.
  - right. apply andb_true_iff. exact H.
Qed.

Lemma list_eqb_Forall2 {A} (e : A -> A -> bool) (P : A -> A -> Prop) :
  (forall a b, e a b = true -> P a b) -> forall l1 l2, list_eqb e l1 l2 = true -> Forall2 P l1 l2.
Proof.
  intros He l1. induction l1 as [|a r IH]; intros [|b s] H; cbn in H; try discriminate; [constructor|].
  apply andb_true_iff in H. destruct H as [H1 H2]. constructor; [apply He; exact H1|apply IH; exact H2].
Qed.

(* relation `roundtrip`, holds: what was read back has the samples of the input in order, as many
   column names as the input, pairwise distinct, each the input name or that name followed by
   "-<digits>", unchanged when the input names were distinct, and every cell bit-identical *)
Lemma holds_rt_sound_lemma : forall c, holds_rt c = true ->
  exists nm dt, rt_obs c = Ok (nm, rt_samples c, dt)
    /\ length nm = length (rt_names c) /\ NoDup nm /\ (NoDup (rt_names c) -> nm = rt_names c)
    /\ Forall2 (fun a b => derived a b = true) (rt_names c) nm
    /\ Forall2 (Forall2 same_bits) (rt_data c) dt.
Proof.
  intros c H. unfold holds_rt in H. destruct (rt_obs c) as [[[nm sm] dt]|k]; [|discriminate].
  apply andb_true_iff in H. destruct H as [H H3]. apply andb_true_iff in H. destruct H as [H1 H2].
  apply names_eqb_spec in H2. subst sm. exists nm, dt. split; [reflexivity|].
  destruct (names_unique_ok_sound _ _ H1) as [Hl [Hn Hid]].
  split; [symmetry; exact Hl|]. split; [exact Hn|]. split; [exact Hid|]. split.
  - unfold names_unique_ok in H1.
    apply andb_true_iff in H1. destruct H1 as [H1 _]. apply andb_true_iff in H1. destruct H1 as [_ Hd].
    apply (forallb_combine_Forall2 (fun '(a, b) => derived a b)); [exact Hl|exact Hd].
  - unfold rows_eqb in H3. apply (list_eqb_Forall2 _ _ (fun r s => list_eqb_Forall2 _ _ bits_eqb_same r s)). exact H3.
Qed.
