(* C16 - boolean checkers evaluated on what haptools.ld.calc_ld wrote.
   [agree] compares with the model row by row (same IDs in the same order, the
   printed 3-decimal R within 0.0005 + 1e-9 of the model's exact r, decided on
   r^2 and the sign); [holds] is the property: computed from the genotype
   matrix and the .hap records alone. *)
From HV Require Import Prelude PearsonQ C16_Model.
From Coq Require Import QArith.
Open Scope Z_scope.

(* ---- printed value vs exact correlation ----------------------------------- *)

Definition eps : Q := 500001 # 1000000000.      (* 0.0005 + 1e-9 *)

(* | pm - sqrt a2 | <= eps, for a2 >= 0, without square roots *)
Definition near_abs (pm a2 : Q) : bool :=
  Qle_bool 0 (pm + eps) && Qle_bool a2 ((pm + eps) * (pm + eps))
  && (Qle_bool (pm - eps) 0 || Qle_bool ((pm - eps) * (pm - eps)) a2).

(* printed : thousandths (None = "nan"); m : (sign, r^2) (None = NaN) *)
Definition r_near (printed : option Z) (m : option (Z * Q)) : bool :=
  match printed, m with
  | None, None => true
  | Some t, Some (s, r2) =>
      let pm := t # 1000 in
      if s =? 0 then Qle_bool (- eps) pm && Qle_bool pm eps
      else if 0 <? s then near_abs pm r2 else near_abs (- pm) r2
  | _, _ => false
  end.

(* ---- the case -------------------------------------------------------------- *)

Definition orow := (Z * option Z)%type.

Record lcase := mkl {
  l_target : Z; l_gs : list gvar; l_lines : list hline; l_keep : list bool;
  l_ids : option (list Z); l_fg : bool;
  l_vcf : bool;                          (* VCF (true) or PGEN input: only the pinned-tree model looks at it *)
  l_empty_ok : bool;                     (* harness switch STRICT_EMPTY_HAPLOTYPE: true = the tree with
                                            fixes/C16_empty_haplotype.patch, where a TARGET haplotype without
                                            V lines is handled like a listed one; false = the tree before it *)
  l_obs : res (list orow);               (* rows of the .ld table / H lines of the .hap output *)
  l_sym : list (Z * res (option Z))      (* one further run per listed item B with target := B: the R
                                            printed for the original target in B's listing *)
}.

Definition hap_ids (lines : list hline) : list Z := map h_id (load_haps None lines).
Definition var_ids (gs : list gvar) : list Z := map gv_id gs.

Fixpoint nodupb (l : list Z) : bool :=
  match l with [] => true | a :: r => negb (memZ a r) && nodupb r end.

Definition all_true {A} (l : list A) : list bool := map (fun _ => true) l.

(* a haplotype may have no V line at all: it is then carried by every strand *)
Definition hap_ok (gs : list gvar) (h : hap) : bool :=
  forallb (fun va : Z * Z => match find_var (fst va) gs with
                                | Some g => match allele_index g (snd va) with Some _ => true | None => false end
                                | None => false end) (h_vars h).

(* the property's quantifier: biallelic phased matrix without missing calls,
   a .hap set that refers to it, a target that exists, distinct IDs *)
Definition wf (c : lcase) : bool :=
  forallb (fun g => negb (calls_bad 0 (all_true (gv_calls g)) (gv_calls g) (gv_unph g))) (l_gs c)
  && forallb (hap_ok (l_gs c)) (load_haps None (l_lines c))
  && nodupb (hap_ids (l_lines c) ++ var_ids (l_gs c))
  && (memZ (l_target c) (hap_ids (l_lines c)) || memZ (l_target c) (var_ids (l_gs c))).

Definition dosage_of (c : lcase) (as_variant : bool) (id : Z) : option (list Z) :=
  if as_variant then option_map (var_dosage (l_keep c)) (find_var id (l_gs c))
  else match find_hap id (load_haps None (l_lines c)) with
       | Some h => match hap_dosage (l_gs c) (l_keep c) h with Ok d => Some d | Err _ => None end
       | None => None end.

Definition target_is_hap (c : lcase) : bool := memZ (l_target c) (hap_ids (l_lines c)).

Definition requested (c : lcase) : list Z :=
  let universe := if l_fg c then var_ids (l_gs c) else hap_ids (l_lines c) in
  let req := match l_ids c with None => universe | Some l => filter (fun id => memZ id universe) (dedup l) end in
  if l_fg c then req else filter (fun id => negb (id =? l_target c)) req.

Definition countZ (x : Z) (l : list Z) : Z := lenZ (filter (Z.eqb x) l).

(* [id] names a haplotype without V lines *)
Definition is_empty_hap (c : lcase) (id : Z) : bool :=
  match find_hap id (load_haps None (l_lines c)) with
  | Some h => match h_vars h with [] => true | _ :: _ => false end
  | None => false
  end.

(* runs whose TARGET is a haplotype without V lines are not looked at by [holds] while the switch is
   off (the tree before fixes/C16_empty_haplotype.patch raises ValueError for them) *)
Definition skipped (c : lcase) (id : Z) : bool := negb (l_empty_ok c) && is_empty_hap c id.

Definition holds_ld (c : lcase) : bool :=
  if negb (wf c) then true else
  if skipped c (l_target c) then true else
  match l_obs c with
  | Err _ => false
  | Ok rows =>
      match dosage_of c (negb (target_is_hap c)) (l_target c) with
      | None => true
      | Some td =>
          (* every R is the correlation of the two dosages; nan iff one is constant *)
          forallb (fun r : orow => match dosage_of c (l_fg c) (fst r) with
                                   | Some d => r_near (snd r) (corr td d)
                                   | None => false end) rows
          (* every requested haplotype / variant is listed once *)
          && forallb (fun id => countZ id (map fst rows) =? 1) (requested c)
          (* the target haplotype itself is not listed *)
          && negb (target_is_hap c && memZ (l_target c) (map fst rows))
          (* LD(A,B) = LD(B,A): in the run with a listed item B as the target, the R printed for
             the original target is the correlation of B's dosage with the target's *)
          && forallb (fun s : Z * res (option Z) =>
                        if skipped c (fst s) then true else
                        match snd s with
                        | Ok r => match dosage_of c (l_fg c) (fst s) with
                                  | Some d => r_near r (corr d td)
                                  | None => false end
                        | Err k => k =? E_Unobserved
                        end) (l_sym c)
      end
  end.

Fixpoint all2 {A B} (e : A -> B -> bool) (l1 : list A) (l2 : list B) : bool :=
  match l1, l2 with
  | [], [] => true
  | a :: r, b :: s => e a b && all2 e r s
  | _, _ => false
  end.

Definition rows_agree (m : list row) (o : list orow) : bool :=
  all2 (fun (a : row) (b : orow) => (fst a =? fst b) && r_near (snd b) (snd a)) m o.

(* calc_ld_cli false, through the switch *)
Definition model_ld (c : lcase) : res (list row) :=
  calc_ld_sw (l_empty_ok c) (l_vcf c) (l_target c) (l_gs c) (l_lines c) (l_keep c) (option_map dedup (l_ids c)) (l_fg c).

(* the swapped run: target B, listing chosen so that the original target appears *)
Definition model_sym (c : lcase) (b : Z) : res (option (Z * Q)) :=
  bind (calc_ld_sw (l_empty_ok c) (l_vcf c) b (l_gs c) (l_lines c) (l_keep c) None (negb (target_is_hap c)))
       (fun rows => match find (fun r : row => fst r =? l_target c) rows with
                    | Some r => Ok (snd r)
                    | None => Err E_Unobserved end).

Definition sym_agree (c : lcase) : bool :=
  forallb (fun s : Z * res (option Z) =>
             match model_sym c (fst s), snd s with
             | Ok m, Ok r => r_near r m
             | Err k, Err k' => k =? k'
             | _, _ => false end) (l_sym c).

Definition check_ld (c : lcase) : bool * bool :=
  (match model_ld c, l_obs c with
   | Ok m, Ok o => rows_agree m o
   | Err k, Err k' => k =? k'
   | _, _ => false end && sym_agree c,
   holds_ld c).

(* the pinned tree, for the _refuted example *)
Definition legacy_ld (c : lcase) : res (list row) :=
  calc_ld_cli true (l_target c) (l_gs c) (l_lines c) (l_keep c) (l_ids c) (l_fg c).
