(* C16 - executable model of haptools/ld.py: pearson_corr_ld (= PearsonQ.pearson
   on dosage pairs) and calc_ld (target resolution haplotype-vs-variant, which
   variants are loaded in the four {from_gts, ids} modes, repeats dropped, the
   target haplotype removed from the listing, order of the output rows).
   No proofs here.

   Strings (IDs, alleles) are interned to Z by the harness: haplotype IDs and
   variant IDs share one name space.  [legacy = true] is the pinned tree
   (`variants = None; variants.add(target)` for a variant target with
   --from-gts); [legacy = false] the tree after fixes/C16_fromgts_variant_target.patch.
   [calc_ld_cli] adds what fixes/C16_repeated_id.patch does first: an ID given twice with
   --id counts once ([dedup] = tuple(dict.fromkeys(ids))). *)
From HV Require Import Prelude PearsonQ.
From Coq Require Import QArith.
Open Scope Z_scope.

Definition E_Value : Z := 1.
Definition E_Index : Z := 2.
Definition E_Attr : Z := 5.

(* one record of the genotype file, all samples of the file:
   calls = (allele index on strand 0, on strand 1), 255 = missing;
   unph = indices (file sample order) of the calls written with '/' *)
Record gvar := mkgv { gv_id : Z; gv_ref : Z; gv_alt : Z; gv_calls : list (Z * Z); gv_unph : list Z }.

(* one haplotype of the .hap file: its V lines in file order (variant id, allele) *)
Record hap := mkhap { h_id : Z; h_vars : list (Z * Z) }.
Inductive hline := HL (h : hap) | RL (id : Z).

Definition memZ (x : Z) (l : list Z) : bool := existsb (Z.eqb x) l.

Fixpoint select {A} (keep : list bool) (l : list A) : list A :=
  match keep, l with
  | k :: ks, a :: r => if k then a :: select ks r else select ks r
  | _, _ => []
  end.

(* Haplotypes.read(haplotypes=flt) on an un-indexed file, repeats deleted *)
Definition load_haps (flt : option (list Z)) (lines : list hline) : list hap :=
  flat_map (fun ln => match ln with
                      | HL h => if match flt with None => true | Some s => memZ (h_id h) s end
                                then [h] else []
                      | RL _ => [] end) lines.

Definition find_hap (t : Z) (hs : list hap) : option hap := find (fun h => h_id h =? t) hs.
Definition remove_hap (t : Z) (hs : list hap) : list hap := filter (fun h => negb (h_id h =? t)) hs.
Definition find_var (id : Z) (gs : list gvar) : option gvar := find (fun g => gv_id g =? id) gs.

(* alleles.index(allele) on (REF, ALT) *)
Definition allele_index (g : gvar) (a : Z) : option Z :=
  if a =? gv_ref g then Some 0 else if a =? gv_alt g then Some 1 else None.

(* check_missing / check_biallelic / check_phase on one record, kept samples only *)
Fixpoint calls_bad (i : Z) (keep : list bool) (calls : list (Z * Z)) (unph : list Z) : bool :=
  match keep, calls with
  | k :: ks, (a, b) :: r =>
      (k && ((254 <=? a) || (254 <=? b) || (1 <? a) || (1 <? b) || (negb (a =? b) && memZ i unph)))
      || calls_bad (i + 1) ks r unph
  | _, _ => false
  end.

Definition var_dosage (keep : list bool) (g : gvar) : list Z :=
  map (fun c : Z * Z => fst c + snd c) (select keep (gv_calls g)).

(* Haplotype.transform: per sample and strand, are all of the alleles present *)
Fixpoint hap_strands (gs : list gvar) (keep : list bool) (vars : list (Z * Z))
         (acc : list (bool * bool)) : res (list (bool * bool)) :=
  match vars with
  | [] => Ok acc
  | (v, a) :: r =>
      match find_var v gs with
      | None => Err E_Value
      | Some g =>
          match allele_index g a with
          | None => Err E_Value
          | Some k =>
              hap_strands gs keep r
                (map (fun sc : (bool * bool) * (Z * Z) =>
                        let '(s, c) := sc in (fst s && (fst c =? k), snd s && (snd c =? k)))
                     (combine acc (select keep (gv_calls g))))
          end
      end
  end.

Definition b2z (b : bool) : Z := if b then 1 else 0.

Definition hap_dosage (gs : list gvar) (keep : list bool) (h : hap) : res (list Z) :=
  bind (hap_strands gs keep (h_vars h) (map (fun _ => (true, true)) (filter (fun k : bool => k) keep)))
       (fun st => Ok (map (fun s : bool * bool => b2z (fst s) + b2z (snd s)) st)).

Fixpoint map_res {A B} (f : A -> res B) (l : list A) : res (list B) :=
  match l with
  | [] => Ok []
  | a :: r => bind (f a) (fun b => bind (map_res f r) (fun bs => Ok (b :: bs)))
  end.

Definition row := (Z * option (Z * Q))%type.

Definition corr (t d : list Z) : option (Z * Q) := pearson (combine t d).

(* tuple(dict.fromkeys(ids)): first occurrences, in order; its length = len(set(ids)) *)
Fixpoint dedup (l : list Z) : list Z :=
  match l with
  | [] => []
  | a :: r => a :: filter (fun x => negb (x =? a)) (dedup r)
  end.

Definition target_not_loaded (legacy : bool) (th : option hap) (vset : option (list Z)) (target : Z)
           (loaded : list gvar) : bool :=
  negb legacy
  && match th, vset with
     | None, Some s => (lenZ loaded <? lenZ (dedup s))
                       && match find_var target loaded with None => true | Some _ => false end
     | _, _ => false
     end.

Definition calc_ld (legacy : bool) (target : Z) (gs : list gvar) (lines : list hline)
           (keep : list bool) (ids : option (list Z)) (from_gts : bool) : res (list row) :=
  let hflt := if from_gts then None else option_map (fun l => target :: l) ids in
  let hs := load_haps hflt lines in
  let th := find_hap target hs in
  let hs' := match th with Some _ => remove_hap target hs | None => hs end in
  let vset0 : option (list Z) :=
    if from_gts then
      match ids with
      | Some l =>
          if legacy then match th with Some h => Some (l ++ map fst (h_vars h)) | None => None end
          else Some (l ++ match th with Some h => map fst (h_vars h) | None => [] end)
      | None => None
      end
    else Some (flat_map (fun h => map fst (h_vars h)) hs) in
  bind (match th, vset0 with
        | Some _, _ => Ok vset0
        | None, Some s => Ok (Some (target :: s))          (* variants.add(target) *)
        | None, None => if legacy then Err E_Attr else Ok None
        end) (fun vset =>
  let loaded := match vset with None => gs | Some s => filter (fun g => memZ (gv_id g) s) gs end in
  if existsb (fun g => calls_bad 0 keep (gv_calls g) (gv_unph g)) loaded then Err E_Value else
  (* the "were all variants loaded" step (after check_missing / check_biallelic / check_phase, before
     any transform; `>` since fix 17d4c45, the pinned tree compared with `<`): a variant set is in
     use, it names more IDs than records were loaded, the target is not a haplotype and is not among
     the loaded records -> the explanatory ValueError (otherwise only a warning) *)
  if target_not_loaded legacy th vset target loaded then Err E_Value else
  bind (if from_gts then Ok []
        else map_res (fun h => bind (hap_dosage loaded keep h) (fun d => Ok (h_id h, d))) hs') (fun hd =>
  bind (match th with
        | Some h => hap_dosage loaded keep h
        | None => match find_var target loaded with
                  | Some g => Ok (var_dosage keep g)
                  | None => Err E_Index end
        end) (fun tdos =>
  if from_gts then
    let listed := match th, ids with
                  | Some _, Some l =>
                      flat_map (fun id => match find_var id loaded with Some g => [g] | None => [] end) l
                  | _, _ => loaded
                  end in
    Ok (map (fun g => (gv_id g, corr tdos (var_dosage keep g))) listed)
  else Ok (map (fun hd : Z * list Z => (fst hd, corr tdos (snd hd))) hd)))).

Definition calc_ld_cli (legacy : bool) (target : Z) (gs : list gvar) (lines : list hline)
           (keep : list bool) (ids : option (list Z)) (from_gts : bool) : res (list row) :=
  calc_ld legacy target gs lines keep (if legacy then ids else option_map dedup ids) from_gts.

(* ---- the tree before fixes/C16_empty_haplotype.patch -------------------------------------------
   [hap_dosage] of a haplotype WITHOUT V lines is 2 for every kept sample (the conjunction over no
   allele holds on both strands); this is what Haplotypes.transform always computed for a LISTED
   haplotype (np.all over an empty axis).  For the TARGET, Haplotype.transform built the array of
   wanted allele indices as np.array([[ [k] for ... ]]): shape (1, 0) instead of (1, 0, 1) when there
   is no V line, and comparing it with the (n, 0, 2) calls raised ValueError ("operands could not be
   broadcast together") in every mode.  Only on an array without cells - GenotypesVCF.read leaves
   shape (0, 0, 0) when no record was selected; GenotypesPLINK keeps (n, 0, 3) - did the comparison
   pass; then nothing was listed with --from-gts (no record loaded), and without it
   Haplotypes.transform raised ValueError ("could not broadcast input array from shape (0,0) into
   shape (0,2)") as soon as another haplotype was to be listed.
   [Some r]: the target is a haplotype without V lines, the pinned tree answered [r];
   [None]: it is not, the pinned tree is [calc_ld false]. *)
Definition pinned_empty_target (vcf : bool) (target : Z) (gs : list gvar) (lines : list hline)
           (ids : option (list Z)) (from_gts : bool) : option (res (list row)) :=
  let hs := load_haps (if from_gts then None else option_map (fun l => target :: l) ids) lines in
  match find_hap target hs with
  | Some h =>
      match h_vars h with
      | _ :: _ => None
      | [] =>
          let loaded :=
            if from_gts then match ids with Some l => filter (fun g => memZ (gv_id g) l) gs | None => gs end
            else filter (fun g => memZ (gv_id g) (flat_map (fun h => map fst (h_vars h)) hs)) gs in
          Some (if vcf && match loaded with [] => true | _ :: _ => false end
                then (if from_gts then Ok []
                      else match remove_hap target hs with [] => Ok [] | _ :: _ => Err E_Value end)
                else Err E_Value)
      end
  | None => None
  end.

(* the entry point with the switch: [empty_ok = true] the repaired tree *)
Definition calc_ld_sw (empty_ok vcf : bool) (target : Z) (gs : list gvar) (lines : list hline)
           (keep : list bool) (ids : option (list Z)) (from_gts : bool) : res (list row) :=
  if empty_ok then calc_ld false target gs lines keep ids from_gts
  else match pinned_empty_target vcf target gs lines ids from_gts with
       | Some r => r
       | None => calc_ld false target gs lines keep ids from_gts
       end.
