(* C16 - executable model of the mechanism inside Haplotypes.transform (haptools/data/haplotypes.py), which
   calc_ld uses for the LISTED haplotypes:

     alleles = {}                                   # (variant ID, allele) -> index, in order of first appearance
     for i, hap in enumerate(haps):
         for j, variant in enumerate(hap.variants):
             key = (variant.id, variant.allele)
             if key not in alleles: alleles[key] = count; count += 1
             idxs[i][j] = alleles[key]
     gts = gts.subset(variants=tuple(k[0] for k in alleles))     # one column per key, in THAT order
     allele_arr = [gts.variants[i]["alleles"].index(allele) for i, (vID, allele) in enumerate(alleles)]
     equality_arr = allele_arr == gts.data[:, :, :2]
     for i in range(len(haps)): hap_gts.data[:, i] = np.all(equality_arr[:, idxs[i]], axis=1)

   [C16_Model.hap_strands] (the per-haplotype conjunction) is its specification; C16_ProofsBatch.v proves
   that the two coincide.  No proofs here. *)
From HV Require Import Prelude PearsonQ C16_Model.
Open Scope Z_scope.

Definition pair_eqb (x y : Z * Z) : bool := (fst x =? fst y) && (snd x =? snd y).

(* alleles[key], if the key is present *)
Fixpoint pos_of (x : Z * Z) (keys : list (Z * Z)) : option nat :=
  match keys with
  | [] => None
  | a :: r => if pair_eqb x a then Some O else option_map S (pos_of x r)
  end.

(* if key not in alleles: alleles[key] = count *)
Definition add_key (keys : list (Z * Z)) (x : Z * Z) : list (Z * Z) :=
  match pos_of x keys with Some _ => keys | None => keys ++ [x] end.

(* the keys of the dictionary after the double loop *)
Definition keys_of (hs : list hap) : list (Z * Z) := fold_left add_key (flat_map h_vars hs) [].

(* Genotypes.subset(variants=ids): the records of the requested IDs IN THE REQUESTED ORDER (an ID may be
   requested twice: its record is repeated); IDs that are not loaded are dropped (with a warning) *)
Definition subset_records (gs : list gvar) (ids : list Z) : list gvar :=
  flat_map (fun id => match find_var id gs with Some g => [g] | None => [] end) ids.

(* one column of equality_arr: for every kept sample, does strand 0 / strand 1 carry allele index k *)
Definition eq_col (keep : list bool) (g : gvar) (k : Z) : list (bool * bool) :=
  map (fun c : Z * Z => (fst c =? k, snd c =? k)) (select keep (gv_calls g)).

(* allele_arr and equality_arr: the i-th key is looked up in the i-th record of the subset, by POSITION;
   the list comprehension stops at the first i that fails: IndexError when the subset has fewer records
   than there are keys, ValueError ("Some alleles were not present") when the allele is not one of the
   record's *)
Fixpoint eq_cols (keep : list bool) (keys : list (Z * Z)) (recs : list gvar) : res (list (list (bool * bool))) :=
  match keys with
  | [] => Ok []
  | (_, a) :: ks =>
      match recs with
      | [] => Err E_Index
      | g :: rs =>
          match allele_index g a with
          | None => Err E_Value
          | Some k => bind (eq_cols keep ks rs) (fun cs => Ok (eq_col keep g k :: cs))
          end
      end
  end.

Definition and2 (x y : bool * bool) : bool * bool := (fst x && fst y, snd x && snd y).

(* np.all(equality_arr[:, idx], axis=1): the AND of the selected columns, all-True when idx is empty *)
Definition and_cols (init : list (bool * bool)) (cols : list (list (bool * bool))) (idx : list nat)
  : list (bool * bool) :=
  fold_left (fun acc i => map (fun sc : (bool * bool) * (bool * bool) => and2 (fst sc) (snd sc))
                              (combine acc (nth i cols []))) idx init.

Definition key_index (keys : list (Z * Z)) (va : Z * Z) : nat :=
  match pos_of va keys with Some i => i | None => O end.

(* Haplotypes.transform: per haplotype, per kept sample, (carried by strand 0, carried by strand 1) *)
Definition batch_transform (gs : list gvar) (keep : list bool) (hs : list hap) : res (list (list (bool * bool))) :=
  let keys := keys_of hs in
  let init := map (fun _ : bool => (true, true)) (filter (fun k : bool => k) keep) in
  bind (eq_cols keep keys (subset_records gs (map fst keys)))
       (fun cols => Ok (map (fun h => and_cols init cols (map (key_index keys) (h_vars h))) hs)).

(* the same, were subset() to leave the records in FILE order when as many are requested as are loaded
   (an "avoid the copy" shortcut): used only for a _refuted example *)
Definition subset_records_shortcut (gs : list gvar) (ids : list Z) : list gvar :=
  let r := subset_records gs ids in
  if (length r =? length gs)%nat then gs else r.

Definition batch_transform_shortcut (gs : list gvar) (keep : list bool) (hs : list hap)
  : res (list (list (bool * bool))) :=
  let keys := keys_of hs in
  let init := map (fun _ : bool => (true, true)) (filter (fun k : bool => k) keep) in
  bind (eq_cols keep keys (subset_records_shortcut gs (map fst keys)))
       (fun cols => Ok (map (fun h => and_cols init cols (map (key_index keys) (h_vars h))) hs)).
